(* C09 / C10 for frames whose columns are freshly indexed corpora (View_Phrase2.fresh_fields):
   the premises qf_calls_ok, select_ok and view_commutes_all of Edismax_Proofs.C09_no_phrases / C10_phrase_boosts
   are discharged.

   qf_calls_ok      : discharged (every single-term score call on a fresh index succeeds: View_Phrase.score_args_both).
   select_ok        : discharged (View_Phrase2.select_ok_fresh).
   view_commutes_all: only its restriction to term lists without an immediately repeated term is a theorem
                      (View_Phrase2.view_commutes_all_holds_partial).  The phases score exactly: the whole term list of
                      a pf field, the 2-shingles of a pf2 field, the 3-shingles of a pf3 field.  The proof of
                      C10 is re-run here (sections Phase2 / Tail2) from the commutation at those lists only, and
                      query_nar q (no field named by a pf / pf2 / pf3 entry has an immediately repeated query term)
                      makes all of them repeat-free. *)
From Coq Require Import ZArith QArith List Bool Lia Lqa Setoid Sorted.
From SA Require Import Base.Prelude Kernels.Spec Kernels.Linear Index.Index Index.Index_Spec Index.Index_Proofs
  Index.Index_Proofs2 Index.Index_Proofs3 Query.Phrase Query.Phrase_Spec Score.BM25 Score.BM25_Walk_Proofs
  View.View View.View_Spec View.View_Proofs View.View_Phrase View.View_Phrase2
  Solr.MM Solr.MM_Spec Solr.MM_Proofs Solr.Edismax Solr.Edismax_Spec Solr.Edismax_Proofs.
Import ListNotations.
Open Scope Q_scope.

(* ------------------------------------------------------------------------------------------ *)
(* 1. qf_calls_ok holds on fresh fields                                                         *)
(* ------------------------------------------------------------------------------------------ *)
Lemma boosted_single_fresh idf n q : fresh_fields n q -> forall f, In f (eq_fields q) ->
  forall fi b t, exists sc, boosted_scores idf fi (ef_arr f) b [t] = AOk sc.
Proof.
  intros HF f Hf fi b t. destruct (HF f Hf) as (docs & bs & ix & Hwf & E & Ef & Ln). rewrite Ef.
  assert (H1 : (1 <= length [t])%nat) by (cbn [length]; lia).
  assert (H2 : no_adjacent_repeat [t] = true) by reflexivity.
  destruct (score_args_both docs bs ix true [] (of_index ix true) [t] Hwf E I eq_refl H1 H2) as (tfs & _ & Ep & _).
  unfold boosted_scores, v_score_bm25. rewrite Ep. cbn [abind]. eexists. reflexivity.
Qed.

Lemma all_scores_succeed idf bo : forall fields fi,
  (forall f, In f fields -> forall fi b t, exists sc, boosted_scores idf fi (ef_arr f) b [t] = AOk sc) ->
  exists S', all_scores idf fi fields bo = AOk S'.
Proof.
  induction fields as [|f rest IH]; intros fi H; [cbn; eauto|].
  rewrite all_scores_cons.
  destruct (term_scores_succeeds idf fi (ef_arr f) (if bo then ef_boost f else None) (ef_terms f)) as [pt Hpt].
  { intros p t _. apply H. left. reflexivity. }
  rewrite Hpt. cbn [abind].
  destruct (IH (S fi)) as [S' HS]. { intros f' Hf'. apply H. right. exact Hf'. }
  rewrite HS. cbn [abind]. eauto.
Qed.

Theorem qf_calls_ok_fresh idf n q : fresh_fields n q -> qf_calls_ok idf q.
Proof.
  intros HF. unfold qf_calls_ok. apply all_scores_succeed. intros f Hf. apply (boosted_single_fresh idf n q HF f Hf).
Qed.

(* ------------------------------------------------------------------------------------------ *)
(* 2. the term lists the phases score, and queries without an immediately repeated term         *)
(* ------------------------------------------------------------------------------------------ *)
Definition phase_lists (kind : nat) (ts : list N) : list (list N) :=
  match kind with
  | 1%nat => if Nat.ltb (length ts) 2 then [] else [ts]
  | 2%nat => shingles2 ts
  | _ => shingles3 ts
  end.

(* every field named by a pf / pf2 / pf3 entry has a term list without an immediately repeated term *)
Definition query_narb (q : equery) : bool :=
  forallb (fun sp => match nth_error (eq_fields q) (ph_field sp) with
                     | Some f => no_adjacent_repeat (ef_terms f)
                     | None => true
                     end) (phase_specs q).
Definition query_nar (q : equery) : Prop := query_narb q = true.

Lemma nar_cons2 a b t : no_adjacent_repeat (a :: b :: t) = negb (N.eqb a b) && no_adjacent_repeat (b :: t).
Proof. reflexivity. Qed.

Lemma nar_shingles2 : forall ts, no_adjacent_repeat ts = true ->
  forall sh, In sh (shingles2 ts) -> no_adjacent_repeat sh = true.
Proof.
  induction ts as [|a t IH]; intros H sh Hin; [destruct Hin|].
  destruct t as [|b t']; [destruct Hin|].
  change (shingles2 (a :: b :: t')) with ([a; b] :: shingles2 (b :: t')) in Hin.
  rewrite nar_cons2 in H. apply andb_true_iff in H as [Hab H].
  destruct Hin as [<-|Hin].
  - rewrite nar_cons2, Hab. reflexivity.
  - apply IH; assumption.
Qed.

Lemma nar_shingles3 : forall ts, no_adjacent_repeat ts = true ->
  forall sh, In sh (shingles3 ts) -> no_adjacent_repeat sh = true.
Proof.
  induction ts as [|a t IH]; intros H sh Hin; [destruct Hin|].
  destruct t as [|b [|c t']]; [destruct Hin|destruct Hin|].
  change (shingles3 (a :: b :: c :: t')) with ([a; b; c] :: shingles3 (b :: c :: t')) in Hin.
  rewrite nar_cons2 in H. apply andb_true_iff in H as [Hab H].
  destruct Hin as [<-|Hin].
  - pose proof H as H'. rewrite nar_cons2 in H'. apply andb_true_iff in H' as [Hbc _].
    rewrite !nar_cons2, Hab, Hbc. reflexivity.
  - apply IH; assumption.
Qed.

Lemma nar_phase_lists kind ts : no_adjacent_repeat ts = true ->
  forall sh, In sh (phase_lists kind ts) -> no_adjacent_repeat sh = true.
Proof.
  intros H sh Hin. unfold phase_lists in Hin. destruct kind as [|[|[|k]]].
  - apply (nar_shingles3 ts H sh Hin).
  - destruct (Nat.ltb (length ts) 2); [destruct Hin|]. destruct Hin as [<-|[]]. exact H.
  - apply (nar_shingles2 ts H sh Hin).
  - apply (nar_shingles3 ts H sh Hin).
Qed.

Lemma query_nar_field q sp f : query_nar q -> In sp (phase_specs q) ->
  nth_error (eq_fields q) (ph_field sp) = Some f -> no_adjacent_repeat (ef_terms f) = true.
Proof.
  intros H Hsp Ef. unfold query_nar, query_narb in H. rewrite forallb_forall in H.
  specialize (H sp Hsp). rewrite Ef in H. exact H.
Qed.

(* the converse direction, to show the condition is not stronger than needed: a pf2 entry on a field with at
   least two terms scores every adjacent pair, so all of them being repeat-free IS the condition on the field *)
Lemma shingles2_nar_conv : forall ts,
  (forall sh, In sh (shingles2 ts) -> no_adjacent_repeat sh = true) -> no_adjacent_repeat ts = true.
Proof.
  induction ts as [|a t IH]; intros H; [reflexivity|].
  destruct t as [|b t']; [reflexivity|].
  change (shingles2 (a :: b :: t')) with ([a; b] :: shingles2 (b :: t')) in H.
  rewrite nar_cons2. apply andb_true_iff. split.
  - specialize (H [a; b] (or_introl eq_refl)). rewrite nar_cons2 in H. apply andb_true_iff in H as [Hab _]. exact Hab.
  - apply IH. intros sh Hsh. apply H. right. exact Hsh.
Qed.

(* view_commutes, at the lists the phases score only *)
Definition view_commutes_scored (idf : idf_table) (n : nat) (q : equery) : Prop :=
  forall sp f kind ts pos v, In sp (phase_specs q) -> nth_error (eq_fields q) (ph_field sp) = Some f ->
    In ts (phase_lists kind (ef_terms f)) ->
    select (ef_arr f) pos = AOk v -> StronglySorted N.lt pos -> Forall (fun i => (N.to_nat i < n)%nat) pos ->
    boosted_scores idf (ph_field sp) v (ph_boost sp) ts =
    ado sc <- boosted_scores idf (ph_field sp) (ef_arr f) (ph_boost sp) ts; AOk (qgather sc pos).

(* the literal premise of C10 implies it *)
Lemma view_commutes_scored_of_all idf n q : view_commutes idf n q -> view_commutes_scored idf n q.
Proof. intros H sp f kind ts pos v Hsp Ef _. apply H; assumption. Qed.

(* the restricted premise that IS a theorem for fresh fields implies it when the query is repeat-free *)
Lemma view_commutes_scored_of_nar idf n q : view_commutes_all_nar idf n q -> query_nar q ->
  view_commutes_scored idf n q.
Proof.
  intros H NAR sp f kind ts pos v Hsp Ef Hts Hsel Hs Hl.
  apply (H (ph_field sp) f (ph_boost sp) ts pos v); try assumption.
  - eapply nth_error_In. exact Ef.
  - apply (nar_phase_lists kind (ef_terms f)); [|exact Hts]. apply (query_nar_field q sp f NAR Hsp Ef).
Qed.

(* ------------------------------------------------------------------------------------------ *)
(* 3. Edismax_Proofs' sections Phase and Tail, with the commutation (and the score-vector length) *)
(*    asked only at the lists in phase_lists                                                     *)
(* ------------------------------------------------------------------------------------------ *)
Section Phase2.
Variables (idf : idf_table) (n : nat) (fields : list efield) (pos : list N) (views : list sarray).
Variable specs_all : list phase_spec.
Hypothesis Hlen : forall sp f kind ts sc, In sp specs_all -> nth_error fields (ph_field sp) = Some f ->
  In ts (phase_lists kind (ef_terms f)) ->
  boosted_scores idf (ph_field sp) (ef_arr f) (ph_boost sp) ts = AOk sc -> length sc = n.
Hypothesis Hpos : Forall (fun i => (N.to_nat i < n)%nat) pos.
Hypothesis Hviews : select_all fields pos = AOk views.
Hypothesis Hcomm : forall sp f v kind ts, In sp specs_all -> nth_error fields (ph_field sp) = Some f ->
  In ts (phase_lists kind (ef_terms f)) ->
  select (ef_arr f) pos = AOk v ->
  boosted_scores idf (ph_field sp) v (ph_boost sp) ts =
  ado sc <- boosted_scores idf (ph_field sp) (ef_arr f) (ph_boost sp) ts; AOk (qgather sc pos).

Lemma inner_rel2 f vw fi b v : forall shs,
  (forall ts, In ts shs -> boosted_scores idf fi vw b ts =
              ado sc <- boosted_scores idf fi (ef_arr f) b ts; AOk (qgather sc pos)) ->
  (forall ts sc, In ts shs -> boosted_scores idf fi (ef_arr f) b ts = AOk sc -> length sc = n) ->
  forall accm accs, api_rel (IR n pos v) accm accs ->
  api_rel (IR n pos v)
    (fold_left (fun acc sh => ado a <- acc; ado sc <- boosted_scores idf fi vw b sh; AOk (vadd a sc)) shs accm)
    (fold_left (fun acc2 sh => ado a2 <- acc2; ado sc <- boosted_scores idf fi (ef_arr f) b sh; AOk (vadd a2 sc)) shs accs).
Proof.
  induction shs as [|sh shs IH]; intros Hc Hl accm accs H; cbn [fold_left]; [exact H|].
  apply IH; [intros ts Hin; apply Hc; right; exact Hin|intros ts sc Hin; apply Hl; right; exact Hin|].
  eapply api_rel_bind; [exact H|]. intros a a2 (La & La2 & Hk).
  rewrite (Hc sh (or_introl eq_refl)).
  destruct (boosted_scores idf fi (ef_arr f) b sh) as [sc| | |] eqn:E; cbn [abind api_rel]; auto.
  pose proof (Hl sh sc (or_introl eq_refl) E) as Lsc.
  assert (Lg : length (qgather sc pos) = length pos) by apply map_length.
  split; [rewrite length_vadd; lia|]. split; [rewrite length_vadd; lia|].
  intros k Hk'. pose proof (posn_lt n pos Hpos k Hk') as Hp.
  rewrite !nth_vadd by lia. rewrite (Hk k Hk').
  unfold qgather. rewrite (nth_map_lt _ 0%N) by exact Hk'. fold (posn pos k). ring.
Qed.

Lemma phase_rel2 kind : forall specs, (forall sp, In sp specs -> In sp specs_all) ->
  forall accm accs, api_rel (PR n pos) accm accs ->
  api_rel (PR n pos)
    (fold_left (fun acc sp =>
               ado a <- acc;
               match nth_error fields (ph_field sp), nth_error views (ph_field sp) with
               | Some f, Some v =>
                   let ts := ef_terms f in
                   let shs := match kind with
                              | 1%nat => if Nat.ltb (length ts) 2 then [] else [ts]
                              | 2%nat => shingles2 ts
                              | _ => shingles3 ts
                              end in
                   match shs with
                   | [] => AOk a
                   | _ =>
                       ado sc <- phase_field idf (ph_field sp) v (ph_boost sp) shs (length pos);
                       AOk (Some (match a with None => sc | Some prev => vadd prev sc end))
                   end
               | _, _ => AExc KeyError
               end) specs accm)
    (fold_left (fun acc sp =>
               ado a <- acc;
               match nth_error fields (ph_field sp) with
               | Some f =>
                   let ts := ef_terms f in
                   let shs := match kind with
                              | 1%nat => if Nat.ltb (length ts) 2 then [] else [ts]
                              | 2%nat => shingles2 ts
                              | _ => shingles3 ts end in
                   fold_left (fun acc2 sh => ado a2 <- acc2;
                                             ado sc <- boosted_scores idf (ph_field sp) (ef_arr f) (ph_boost sp) sh;
                                             AOk (vadd a2 sc)) shs (AOk a)
               | None => AExc KeyError
               end) specs accs).
Proof.
  induction specs as [|sp specs IH]; intros Hin accm accs H; cbn [fold_left]; [exact H|].
  apply IH; [intros sp' Hsp'; apply Hin; right; exact Hsp'|].
  eapply api_rel_bind; [exact H|]. intros o v HPR.
  pose proof (select_all_nth pos fields views Hviews (ph_field sp)) as Hn.
  destruct (nth_error fields (ph_field sp)) as [f|] eqn:Ef; [|reflexivity].
  destruct Hn as (vw & Ev & Hsel). rewrite Ev. cbv zeta.
  change (match kind with
          | 1%nat => if Nat.ltb (length (ef_terms f)) 2 then [] else [ef_terms f]
          | 2%nat => shingles2 (ef_terms f)
          | _ => shingles3 (ef_terms f) end) with (phase_lists kind (ef_terms f)).
  destruct (phase_lists kind (ef_terms f)) as [|sh shs] eqn:Eshs; [exact HPR|].
  assert (Hsp : In sp specs_all) by (apply Hin; left; reflexivity).
  destruct HPR as [Lv HPR].
  unfold phase_field.
  match goal with |- api_rel _ (abind ?X _) ?Y => assert (HI : api_rel (IR n pos v) X Y) end.
  { apply (inner_rel2 f vw).
    - intros ts Hts. apply (Hcomm sp f vw kind ts); try assumption. rewrite Eshs. exact Hts.
    - intros ts sc Hts. apply (Hlen sp f kind ts sc); try assumption. rewrite Eshs. exact Hts.
    - cbn [api_rel]. split; [apply length_qzeros|]. split; [exact Lv|]. intros k Hk. rewrite nth_qzeros. ring. }
  match goal with |- api_rel _ (abind ?X _) ?Y => destruct X as [a| | |], Y as [a2| | |] end;
    cbn [abind api_rel] in HI |- *; try contradiction; auto.
  destruct HI as (La & La2 & Hk). split; [exact La2|].
  destruct o as [prev|].
  - destruct HPR as [Lp HPR]. split; [rewrite length_vadd; lia|]. intros k Hk'.
    rewrite nth_vadd by lia. rewrite (Hk k Hk'), (HPR k Hk'). reflexivity.
  - split; [exact La|]. intros k Hk'. rewrite (Hk k Hk'), (HPR k Hk'). ring.
Qed.

Lemma run_phase_rel2 kind specs : (forall sp, In sp specs -> In sp specs_all) ->
  api_rel (PR n pos) (run_phase idf fields views kind specs (length pos)) (phase_frame idf fields kind specs n).
Proof.
  intros Hin. unfold run_phase, phase_frame. apply phase_rel2; [exact Hin|].
  cbn [api_rel]. split; [apply length_qzeros|]. intros k Hk. apply nth_qzeros_eq.
Qed.
End Phase2.

Section Tail2.
Variables (idf : idf_table) (n : nat) (q : equery).
Hypothesis LEN : forall sp f kind ts sc, In sp (phase_specs q) -> nth_error (eq_fields q) (ph_field sp) = Some f ->
  In ts (phase_lists kind (ef_terms f)) ->
  boosted_scores idf (ph_field sp) (ef_arr f) (ph_boost sp) ts = AOk sc -> length sc = n.
Hypothesis SEL : select_ok n q.
Hypothesis COMM : view_commutes_scored idf n q.

Lemma tail_rel2 qf qf' : veq qf qf' -> length qf' = n -> (forall d, (d < n)%nat -> 0 <= nth d qf' 0) ->
  api_veq (edismax_tail idf n q qf) (spec_tail idf n q qf').
Proof.
  intros Hv Ln Hnn. pose proof (veq_length _ _ Hv) as Lq. rewrite Ln in Lq.
  unfold edismax_tail. cbv zeta. set (pos := positions_where 0%N qf).
  assert (Hsorted : StronglySorted N.lt pos) by apply positions_where_sorted.
  assert (Hlt : Forall (fun i => (N.to_nat i < n)%nat) pos).
  { unfold pos. rewrite <- Lq. apply positions_where_lt. }
  destruct (select_all_ok pos (eq_fields q)) as [views Hviews].
  { intros f Hf. apply SEL; assumption. }
  rewrite Hviews. cbn [abind]. unfold spec_tail.
  assert (RP : forall kind specs, (forall sp, In sp specs -> In sp (phase_specs q)) ->
            api_rel (PR n pos) (run_phase idf (eq_fields q) views kind specs (length pos))
                               (phase_frame idf (eq_fields q) kind specs n)).
  { intros kind specs Hin. apply (run_phase_rel2 idf n (eq_fields q) pos views (phase_specs q)); try assumption.
    intros sp f v kind' ts Hsp Ef Hts Hsel. apply (COMM sp f kind' ts pos v); assumption. }
  unfold api_veq.
  eapply api_rel_bind; [apply RP; intros sp Hsp; unfold phase_specs; apply in_or_app; left; exact Hsp|].
  intros o1 v1 H1.
  eapply api_rel_bind; [apply RP; intros sp Hsp; unfold phase_specs; apply in_or_app; right; apply in_or_app; left; exact Hsp|].
  intros o2 v2 H2.
  eapply api_rel_bind; [apply RP; intros sp Hsp; unfold phase_specs; apply in_or_app; right; apply in_or_app; right; exact Hsp|].
  intros o3 v3 H3. cbn [api_rel].
  pose proof (sadd_len n pos o1 qf v1 H1 Hlt Lq) as L1.
  pose proof (sadd_len n pos o2 _ v2 H2 Hlt L1) as L2.
  pose proof (sadd_len n pos o3 _ v3 H3 Hlt L2) as L3.
  apply veq_map_seq; [exact L3|]. intros d Hd. cbv zeta.
  pose proof (veq_nth_inv _ _ Hv d) as Ed.
  destruct (in_dec N.eq_dec (N.of_nat d) pos) as [Hin|Hnin].
  - destruct (In_nth _ _ 0%N Hin) as (k & Hk & Ek).
    assert (Epk : posn pos k = d) by (unfold posn; rewrite Ek; apply Nat2N.id).
    pose proof (sorted_nodup _ Hsorted) as ND.
    pose proof (sadd_in n pos o3 _ v3 k H3 ND Hlt L2 Hk) as E3.
    pose proof (sadd_in n pos o2 _ v2 k H2 ND Hlt L1 Hk) as E2.
    pose proof (sadd_in n pos o1 _ v1 k H1 ND Hlt Lq Hk) as E1.
    rewrite Epk in E1, E2, E3. rewrite E3, E2, E1.
    apply positions_where_in in Hin as (d' & Ed' & _ & Hq). assert (d' = d) by lia. subst d'.
    rewrite <- (qpos_comp _ _ Ed), Hq. rewrite Ed. reflexivity.
  - rewrite (sadd_out n pos o3 _ v3 d H3 Hlt L2 Hnin), (sadd_out n pos o2 _ v2 d H2 Hlt L1 Hnin),
            (sadd_out n pos o1 _ v1 d H1 Hlt Lq Hnin).
    destruct (qpos (nth d qf 0)) eqn:Hq.
    + exfalso. apply Hnin. apply positions_where_in. exists d. split; [lia|]. split; [lia|exact Hq].
    + rewrite <- (qpos_comp _ _ Ed), Hq. apply qpos_false in Hq. specialize (Hnn d Hd). lra.
Qed.

Hypothesis WF : wf_query idf n q.

Lemma edismax_core2 qfm : api_veq qfm (qf_spec idf n q) ->
  api_veq (ado qf <- qfm; edismax_tail idf n q qf) (edismax_spec idf n q).
Proof.
  intros H. rewrite edismax_spec_unfold.
  destruct (qf_spec idf n q) as [qf'| | |] eqn:E; destruct qfm as [qf| | |];
    unfold api_veq in *; cbn [api_rel abind] in H |- *; try contradiction; auto.
  destruct (qf_spec_facts idf n q qf' WF E) as [Ln Hnn]. apply tail_rel2; assumption.
Qed.
End Tail2.

(* C10 from the commutation at the scored lists only (no freshness assumption yet) *)
Theorem C10_phrase_boosts_scored idf n q : wf_query idf n q ->
  (is_term_centric (eq_fields q) = true -> qf_calls_ok idf q) -> select_ok n q ->
  view_commutes_scored idf n q ->
  api_veq (edismax idf n q) (edismax_spec idf n q).
Proof.
  intros WF OK SEL COMM. rewrite edismax_unfold. apply edismax_core2; try assumption.
  - intros sp f kind ts sc Hsp Ef _ Hsc.
    apply (wf_len _ _ _ WF (ph_field sp) f (ph_boost sp) ts sc); [|exact Hsc].
    eapply nth_error_In. exact Ef.
  - apply qf_model_is_spec; assumption.
Qed.

(* ------------------------------------------------------------------------------------------ *)
(* 4. the theorems for indexed frames                                                           *)
(* ------------------------------------------------------------------------------------------ *)
Theorem C09_indexed : forall idf n q, wf_query idf n q -> fresh_fields n q ->
  eq_pf q = [] -> eq_pf2 q = [] -> eq_pf3 q = [] ->
  api_veq (edismax idf n q) (edismax_spec idf n q).
Proof.
  intros idf n q WF HF E1 E2 E3. apply C09_no_phrases; try assumption.
  - intros _. apply (qf_calls_ok_fresh idf n q HF).
  - apply select_ok_fresh. exact HF.
Qed.

Theorem C10_indexed : forall idf n q, wf_query idf n q -> fresh_fields n q -> query_nar q ->
  api_veq (edismax idf n q) (edismax_spec idf n q).
Proof.
  intros idf n q WF HF NAR. apply C10_phrase_boosts_scored; try assumption.
  - intros _. apply (qf_calls_ok_fresh idf n q HF).
  - apply select_ok_fresh. exact HF.
  - apply view_commutes_scored_of_nar; [|exact NAR]. apply view_commutes_all_holds_partial. exact HF.
Qed.

(* ------------------------------------------------------------------------------------------ *)
(* 5. wf_query on an indexed frame: wf_rows and wf_len (for EVERY term list) are theorems        *)
(* ------------------------------------------------------------------------------------------ *)
(* the parent's score vector has one entry per document, also for a phrase with an immediately repeated term
   (View_Phrase.parent_score_length covers the repeat-free lists): whatever the phrase kernel returns, the
   scatter buffer has p_max_doc_id + 1 = length docs entries *)
Lemma parent_score_length_any docs bs ix ts idfb k1 b s : wf_docs docs -> index false bs docs = AOk ix ->
  v_score_bm25 (of_index ix true) ts idfb k1 b = AOk s -> length s = length docs.
Proof.
  intros Hwf E Hs. destruct (no_adjacent_repeat ts) eqn:R.
  { eapply parent_score_length; eassumption. }
  assert (Hl2 : (2 <= length ts)%nat).
  { destruct ts as [|a [|b' r]]; cbn in R; try discriminate. cbn [length]. lia. }
  pose proof (index_ok_of docs bs ix Hwf E) as Hok. pose proof Hok as (_ & _ & Hterms & _).
  pose proof (lens_length docs ix Hok) as LL.
  unfold v_score_bm25 in Hs. apply abind_ok in Hs as (x & Hx & Hs).
  unfold v_score_args in Hx. apply abind_ok in Hx as (dfs & _ & Hx). apply abind_ok in Hx as (tfs & Htf & Hx).
  injection Hx as <-. cbv beta iota zeta in Hs. injection Hs as <-.
  assert (Ltf : length tfs = length docs).
  { rewrite (tf_vector_phrase _ ts None None Hl2) in Htf. unfold v_phrase_freqs in Htf.
    destruct (forallb (known_a (of_index ix true)) ts) eqn:K; cbn [negb] in Htf.
    - destruct (Nat.ltb (length ts) 2) eqn:Lt2; [apply Nat.ltb_lt in Lt2; lia|].
      apply abind_ok in Htf as (enc & _ & Htf). apply abind_ok in Htf as (pf & _ & Htf).
      apply abind_ok in Htf as (dense & Hd & Htf).
      cbn [a_subset of_index] in Htf. injection Htf as <-.
      match type of Hd with lift ?X = _ => destruct X as [d|k0 b0 i0|] eqn:Es end; cbn [lift] in Hd; try discriminate.
      injection Hd as ->.
      rewrite (store_many_length _ _ _ Es), repeat_length. cbn [p_max_doc_id a_posns of_index]. rewrite LL.
      assert (1 <= length docs)%nat.
      { destruct ts as [|t0 r]; [cbn in Hl2; lia|]. cbn [forallb] in K. apply andb_true_iff in K as [K0 _].
        change (known_a (of_index ix true) t0) with (known ix t0) in K0.
        apply (known_iff docs ix t0 Hterms) in K0. destruct docs; [destruct K0|cbn [length]; lia]. }
      lia.
    - injection Htf as <-. rewrite repeat_length. unfold nrows. cbn [a_rows of_index].
      rewrite map_length, seq_length. exact LL. }
  rewrite score_bits_length; rewrite !map_length; [exact Ltf|]. rewrite Ltf.
  cbn [v_doclengths of_index a_lens]. symmetry. exact LL.
Qed.

Lemma wf_len_fresh idf n q : fresh_fields n q -> forall fi f b ts sc, In f (eq_fields q) ->
  boosted_scores idf fi (ef_arr f) b ts = AOk sc -> length sc = n.
Proof.
  intros HF fi f b ts sc Hf H. destruct (HF f Hf) as (docs & bs & ix & Hwf & E & Ef & Ln). rewrite Ef in H.
  unfold boosted_scores in H.
  destruct (v_score_bm25 (of_index ix true) ts (idf_lookup idf fi ts) K1_BITS B_BITS) as [s| | |] eqn:Es;
    cbn [abind] in H; try discriminate.
  pose proof (parent_score_length_any docs bs ix ts _ _ _ s Hwf E Es) as Ls.
  injection H as <-. destruct b; rewrite !map_length; lia.
Qed.

(* what is left of wf_query on an indexed frame: the BM25 non-negativity hypothesis and the conditions on the query *)
Record wf_query_indexed (idf : idf_table) (n : nat) (q : equery) : Prop := {
  wi_fresh : fresh_fields n q;
  wi_nonneg : forall fi f b t sc, In f (eq_fields q) -> (b = ef_boost f \/ b = None) ->
              boosted_scores idf fi (ef_arr f) b [t] = AOk sc -> Forall (fun x => 0 <= x) sc;
  wi_terms : forall f, In f (eq_fields q) -> (1 <= Z.of_nat (length (ef_terms f)) <= NMAX)%Z;
  wi_boost : forall f, In f (eq_fields q) -> 0 <= boostQ f;
  wi_tie : 0 <= eq_tie q;
  wi_mm : spec_in_range (eq_mm q);
}.

Lemma wf_query_of_indexed idf n q : wf_query_indexed idf n q -> wf_query idf n q.
Proof.
  intros [HF Hnn Ht Hb Htie Hmm]. constructor; try assumption.
  - apply wf_rows_fresh. exact HF.
  - apply wf_len_fresh. exact HF.
Qed.

Theorem C09_indexed' idf n q : wf_query_indexed idf n q -> eq_pf q = [] -> eq_pf2 q = [] -> eq_pf3 q = [] ->
  api_veq (edismax idf n q) (edismax_spec idf n q).
Proof. intros W. apply C09_indexed; [apply wf_query_of_indexed; exact W|exact (wi_fresh _ _ _ W)]. Qed.

Theorem C10_indexed' idf n q : wf_query_indexed idf n q -> query_nar q ->
  api_veq (edismax idf n q) (edismax_spec idf n q).
Proof. intros W. apply C10_indexed; [apply wf_query_of_indexed; exact W|exact (wi_fresh _ _ _ W)]. Qed.

(* ------------------------------------------------------------------------------------------ *)
(* example                                                                                      *)
(* ------------------------------------------------------------------------------------------ *)
Module Ex.
Definition docs1 : list (list N) := [[1;2];[2];[1;1;3];[3;1;2;3]]%N.
Definition docs2 : list (list N) := [[2;1];[1;2;3];[3];[1;2]]%N.
Definition ix1 : sindex :=
  Eval vm_compute in (match index false 100 docs1 with AOk i => i | _ => Checks.empty_ix end).
Definition ix2 : sindex :=
  Eval vm_compute in (match index false 100 docs2 with AOk i => i | _ => Checks.empty_ix end).
Lemma index1 : index false 100 docs1 = AOk ix1. Proof. vm_compute. reflexivity. Qed.
Lemma index2 : index false 100 docs2 = AOk ix2. Proof. vm_compute. reflexivity. Qed.
Lemma wf1 : wf_docs docs1. Proof. split; [repeat constructor; vm_compute; discriminate|vm_compute; reflexivity]. Qed.
Lemma wf2 : wf_docs docs2. Proof. split; [repeat constructor; vm_compute; discriminate|vm_compute; reflexivity]. Qed.

Definition f1 : efield := {| ef_arr := of_index ix1 true; ef_boost := None; ef_terms := [1;2;3]%N |}.
Definition f2 : efield := {| ef_arr := of_index ix2 true; ef_boost := Some Checks.TWO; ef_terms := [1;2;3]%N |}.
Definition I0 := Checks.I0.
Definition idf : idf_table :=
  [(0%nat,[1%N],I0);(1%nat,[1%N],I0);(0%nat,[2%N],I0);(1%nat,[2%N],I0);(0%nat,[3%N],I0);(1%nat,[3%N],I0);
   (0%nat,[1;2;3]%N,I0);(1%nat,[1;2;3]%N,I0);(0%nat,[1;2]%N,I0);(1%nat,[1;2]%N,I0);(0%nat,[2;3]%N,I0);(1%nat,[2;3]%N,I0)].
(* three query terms, two fields (the second boosted), mm = 100%, pf on field 0, pf2 on field 1 (boosted), pf3 on field 0 *)
Definition q : equery :=
  {| eq_fields := [f1; f2]; eq_mm := Simple (SPct 100); eq_tie := 1 # 10;
     eq_pf := [Checks.P 0 None]; eq_pf2 := [Checks.P 1 (Some Checks.TWO)]; eq_pf3 := [Checks.P 0 None] |}.

Example fresh : fresh_fields 4 q.
Proof.
  intros f [<-|[<-|[]]].
  - exists docs1, 100%nat, ix1. split; [exact wf1|]. split; [exact index1|]. split; reflexivity.
  - exists docs2, 100%nat, ix2. split; [exact wf2|]. split; [exact index2|]. split; reflexivity.
Qed.

Example nar : query_nar q.
Proof. vm_compute. reflexivity. Qed.

(* the BM25 non-negativity hypothesis on this frame: by evaluation for the three corpus terms, and for any
   other term (no postings: term frequencies all zero, idf entry absent) *)
Definition nonneg_res (r : api (list Q)) : bool :=
  match r with AOk sc => forallb (fun x => Qle_bool 0 x) sc | _ => true end.
Lemma nonneg_res_ok r : nonneg_res r = true -> forall sc, r = AOk sc -> Forall (fun x => 0 <= x) sc.
Proof.
  intros H sc ->. cbn [nonneg_res] in H. apply Forall_forall. intros x Hx. rewrite forallb_forall in H.
  apply Qle_bool_iff. apply H. exact Hx.
Qed.

Lemma unknown_term_score a t idfb : known_a a t = false ->
  v_score_bm25 a [t] idfb K1_BITS B_BITS =
  AOk (score_bits (map Z.of_N (repeat 0%N (nrows a))) (map Z.of_N (a_lens a)) (Z.of_N (a_total a)) (Z.of_N (a_n a))
                  idfb K1_BITS B_BITS).
Proof.
  intros H. unfold v_score_bm25, v_score_args. cbn [v_all_dfs v_tf_vector]. unfold v_docfreq, v_termfreqs.
  rewrite H. cbn [negb abind]. reflexivity.
Qed.

Lemma unknown_of t docs bs ix : wf_docs docs -> index false bs docs = AOk ix -> ~ In t (concat docs) ->
  known_a (of_index ix true) t = false.
Proof.
  intros Hwf E Hn. destruct (index_ok_of docs bs ix Hwf E) as (_ & _ & Ht & _).
  change (known ix t = false). destruct (known ix t) eqn:K; [|reflexivity].
  apply (known_iff docs ix t Ht) in K. contradiction.
Qed.

Lemma idf_other fi t : t <> 1%N -> t <> 2%N -> t <> 3%N -> idf_lookup idf fi [t] = 0%Z.
Proof.
  intros N1 N2 N3. unfold idf. cbn [idf_lookup list_n_eqb].
  rewrite (proj2 (N.eqb_neq t 1) N1), (proj2 (N.eqb_neq t 2) N2), (proj2 (N.eqb_neq t 3) N3).
  cbn [andb]. rewrite !andb_false_r. reflexivity.
Qed.

Lemma nonneg_ex : forall fi f b t sc, In f (eq_fields q) -> (b = ef_boost f \/ b = None) ->
  boosted_scores idf fi (ef_arr f) b [t] = AOk sc -> Forall (fun x => 0 <= x) sc.
Proof.
  intros fi f b t sc Hf Hb. revert sc. apply nonneg_res_ok.
  destruct (N.eq_dec t 1) as [->|N1]; [|destruct (N.eq_dec t 2) as [->|N2]; [|destruct (N.eq_dec t 3) as [->|N3]]].
  1-3: destruct Hf as [<-|[<-|[]]]; destruct Hb as [-> | ->]; destruct fi as [|[|fi]]; vm_compute; reflexivity.
  assert (U1 : known_a (of_index ix1 true) t = false).
  { apply (unknown_of t docs1 100 ix1 wf1 index1). intros H. vm_compute in H. intuition congruence. }
  assert (U2 : known_a (of_index ix2 true) t = false).
  { apply (unknown_of t docs2 100 ix2 wf2 index2). intros H. vm_compute in H. intuition congruence. }
  destruct Hf as [<-|[<-|[]]]; destruct Hb as [-> | ->]; cbn [ef_arr ef_boost f1 f2];
    unfold boosted_scores; rewrite (idf_other fi t N1 N2 N3);
    rewrite ?(unknown_term_score _ t _ U1), ?(unknown_term_score _ t _ U2); vm_compute; reflexivity.
Qed.

Example wfi : wf_query_indexed idf 4 q.
Proof.
  constructor.
  - exact fresh.
  - exact nonneg_ex.
  - intros f [<-|[<-|[]]]; cbn [ef_terms f1 f2 length]; unfold NMAX; lia.
  - intros f [<-|[<-|[]]]; vm_compute; discriminate.
  - vm_compute. discriminate.
  - cbn. unfold PMAX. lia.
Qed.
Example wf : wf_query idf 4 q.
Proof. apply wf_query_of_indexed. exact wfi. Qed.

(* the theorem instantiates *)
Example agree : api_veq (edismax idf 4 q) (edismax_spec idf 4 q).
Proof. apply C10_indexed; [exact wf|exact fresh|exact nar]. Qed.
(* ... and the instance is not vacuous: it is the term-centric path, documents 1 and 3 match, both sides succeed
   (independently re-checked by evaluation), and the phrase phases change the scores *)
Example agree_checked :
  is_term_centric (eq_fields q) = true /\
  Checks.api_veqb (edismax idf 4 q) (edismax_spec idf 4 q) = true /\
  (match edismax idf 4 q with AOk r => map qpos r | _ => [] end) = [false; true; false; true] /\
  Checks.api_veqb (edismax idf 4 q)
                  (edismax idf 4 {| eq_fields := eq_fields q; eq_mm := eq_mm q; eq_tie := eq_tie q;
                                    eq_pf := []; eq_pf2 := []; eq_pf3 := [] |}) = false.
Proof. vm_compute. repeat split; reflexivity. Qed.
End Ex.

Print Assumptions C09_indexed'.
Print Assumptions C10_indexed'.
Print Assumptions Ex.agree.
Print Assumptions C09_indexed.
Print Assumptions C10_indexed.
