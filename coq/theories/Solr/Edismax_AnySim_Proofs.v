(* C09 for ANY per-field similarity: the similarity-generic model (Solr/Edismax_AnySim.v) against its
   declarative DisMax spec, for every abstract score table.  The vector algebra (fold_left vadd / vmax,
   count_pos, mm_gate, acc_cols, tscore) is Solr/Edismax_Proofs.v's.

   What each hypothesis is for:
   - vectors of length n: every step is pointwise (a shorter vector would truncate `combine`);
   - mmf = mms at the term counts that occur: the only link between the float mm and Solr's integer mm;
   - non-negative scores and boosts: ONLY on the field-centric path, where the code takes np.max over the
     fields with no zero seed while `dismax` seeds its maximum with 0 (the two agree on non-negative values).
     The term-centric path seeds its running maximum with zeros exactly as `dismax` does: it needs neither.
   - tie: no hypothesis at all. *)
From Coq Require Import ZArith QArith List Bool Lia Lqa Setoid.
From SA Require Import Base.Prelude Index.Index View.View Solr.MM Solr.MM_Spec Solr.MM_Proofs
                       Solr.Edismax Solr.Edismax_Spec Solr.Edismax_Proofs Solr.Edismax_AnySim.
Import ListNotations.
Open Scope Q_scope.

(* ------------------------------------------------------------------------------------------ *)
(* Qeq congruence of max / dismax                                                               *)
(* ------------------------------------------------------------------------------------------ *)
Lemma mstep_comp a a' x x' : a == a' -> x == x' -> mstep a x == mstep a' x'.
Proof. intros Ea Ex. unfold mstep. rewrite Ea, Ex. destruct (Qle_bool a' x'); assumption. Qed.

Lemma fold_mstep_comp l l' : Forall2 Qeq l l' -> forall a a', a == a' -> fold_left mstep l a == fold_left mstep l' a'.
Proof.
  induction 1 as [|x y l l' E HF IH]; intros a a' Ea; cbn; [exact Ea|].
  apply IH. apply mstep_comp; assumption.
Qed.

Lemma dismax_comp tie l l' : Forall2 Qeq l l' -> dismax tie l == dismax tie l'.
Proof.
  intros HF. unfold dismax, qmax_list, qsum_list. fold mstep.
  rewrite (fold_mstep_comp l l' HF 0 0), (fold_qplus_comp l l' HF 0 0) by reflexivity. reflexivity.
Qed.

Lemma Forall2_map_fg {A} (f g : A -> Q) l : (forall x, In x l -> f x == g x) -> Forall2 Qeq (map f l) (map g l).
Proof. apply Forall2_map_same. Qed.

(* ------------------------------------------------------------------------------------------ *)
(* the boost                                                                                    *)
(* ------------------------------------------------------------------------------------------ *)
Lemma length_vboost b v : length (vboost b v) = length v.
Proof. destruct b; cbn; [apply length_vscale|reflexivity]. Qed.

Lemma nth_vboost b v d : nth d (vboost b v) 0 == nth d v 0 * boostq b.
Proof.
  destruct b as [k|]; cbn [vboost boostq]; [|ring].
  destruct (Nat.lt_ge_cases d (length v)) as [Hlt|Hge].
  - rewrite nth_vscale by exact Hlt. reflexivity.
  - rewrite !nth_overflow by (rewrite ?length_vscale; exact Hge). ring.
Qed.

Lemma mm_filter_gate msm ts n : mm_filter msm ts n = mm_gate msm (vsum ts n) (count_pos ts n).
Proof. reflexivity. Qed.

(* ------------------------------------------------------------------------------------------ *)
(* term-centric path                                                                            *)
(* ------------------------------------------------------------------------------------------ *)
(* the boosted score vectors of term position p, one per field *)
Definition acols (fields : list afield) (p : nat) : list (list Q) :=
  map (fun f => vboost (af_boost f) (nth p (af_scores f) [])) fields.

Lemma acc_cols_cons c cols mx sm : acc_cols (c :: cols) (mx, sm) = acc_cols cols (vmax mx c, vadd sm c).
Proof. reflexivity. Qed.

Lemma atc_fields_ok p : forall fields mx sm,
  (forall f, In f fields -> (p < af_nterms f)%nat) ->
  atc_fields fields p mx sm = AOk (acc_cols (acols fields p) (mx, sm)).
Proof.
  induction fields as [|f rest IH]; intros mx sm Hp; [reflexivity|].
  cbn [atc_fields]. destruct (nth_error (af_scores f) p) as [s|] eqn:E.
  - rewrite IH by (intros f' Hf'; apply Hp; right; exact Hf').
    cbn [acols map]. rewrite acc_cols_cons. rewrite (nth_error_nth _ _ [] E). reflexivity.
  - apply nth_error_None in E. specialize (Hp f (or_introl eq_refl)). unfold af_nterms in Hp. lia.
Qed.

Lemma atc_terms_ok fields n tie : forall ps,
  (forall p, In p ps -> forall f, In f fields -> (p < af_nterms f)%nat) ->
  atc_terms fields n tie ps =
  AOk (map (fun p => tscore tie (acc_cols (acols fields p) (qzeros n, qzeros n))) ps).
Proof.
  induction ps as [|p ps IH]; intros Hp; [reflexivity|].
  cbn [atc_terms]. rewrite (atc_fields_ok p) by (apply Hp; left; reflexivity). cbn [abind].
  destruct (acc_cols (acols fields p) (qzeros n, qzeros n)) as [mx sm] eqn:E.
  rewrite IH by (intros p' Hp'; apply Hp; right; exact Hp'). cbn [abind map]. rewrite E. reflexivity.
Qed.

(* parse_query_terms: what a_is_term_centric = true means (zero-term fields included) *)
Lemma a_term_centric_counts fields : a_is_term_centric fields = true ->
  forall f, In f fields -> af_nterms f = a_num_search_terms fields.
Proof.
  unfold a_is_term_centric, a_num_search_terms.
  destruct fields as [|f0 rest]; intros H f Hf; [contradiction|].
  destruct Hf as [<-|Hf]; [reflexivity|].
  rewrite forallb_forall in H. apply Nat.eqb_eq. apply H. exact Hf.
Qed.

Section ATC.
Variables (mmf mms : Z -> Z) (n : nat) (fields : list afield) (tie : Q).
Hypothesis LEN : forall f v, In f fields -> In v (af_scores f) -> length v = n.
Hypothesis TC : a_is_term_centric fields = true.
Let nt := a_num_search_terms fields.
Hypothesis MM : mmf (Z.of_nat nt) = mms (Z.of_nat nt).

Lemma acols_len p : (p < nt)%nat -> Forall (fun c => length c = n) (acols fields p).
Proof.
  intros Hp. unfold acols. apply Forall_forall. intros c Hc. apply in_map_iff in Hc as (f & <- & Hf).
  rewrite length_vboost. apply (LEN f _ Hf). apply nth_In.
  pose proof (a_term_centric_counts fields TC f Hf) as E. unfold af_nterms in E. fold nt in E. lia.
Qed.

(* no hypothesis on signs, boosts or tie *)
Theorem aterm_centric_is_spec :
  exists r, aterm_centric_g mmf fields n nt tie = AOk r /\
            veq r (map (atc_spec mms fields nt tie) (seq 0 n)).
Proof.
  unfold aterm_centric_g. rewrite atc_terms_ok.
  2:{ intros p Hp f Hf. rewrite (a_term_centric_counts fields TC f Hf). fold nt. apply in_seq in Hp. lia. }
  cbn [abind]. eexists. split; [reflexivity|].
  set (ts := map _ (seq 0 nt)).
  assert (Hts : Forall (fun c => length c = n) ts).
  { unfold ts. apply Forall_forall. intros c Hc. apply in_map_iff in Hc as (p & <- & Hp). apply in_seq in Hp.
    destruct (acc_cols_len n (acols fields p) (qzeros n) (qzeros n)) as [A B];
      [apply acols_len; lia|apply length_qzeros|apply length_qzeros|].
    apply length_tscore; assumption. }
  rewrite mm_filter_gate.
  apply veq_map_seq; [apply length_mm_gate; exact Hts|].
  intros d Hd. rewrite nth_mm_gate by assumption. cbv zeta.
  unfold atc_spec. cbv zeta. rewrite MM.
  set (mv := map (fun c => nth d c 0) ts).
  set (sv := map (fun p => dismax tie (map (fun f => ascore f p d) fields)) (seq 0 nt)).
  assert (Hv : Forall2 Qeq mv sv).
  { unfold mv, sv, ts. rewrite map_map. apply Forall2_map_same. intros p Hp. apply in_seq in Hp.
    rewrite (nth_tscore n) by (try apply acols_len; lia).
    apply dismax_comp. unfold acols. rewrite map_map. apply Forall2_map_same. intros f _.
    unfold ascore, at_doc. apply nth_vboost. }
  rewrite (filter_qpos_comp _ _ Hv).
  destruct (mms (Z.of_nat nt) <=? Z.of_nat (length (filter qpos sv)))%Z; [|reflexivity].
  unfold qsum_list. apply fold_qplus_comp; [exact Hv|reflexivity].
Qed.
End ATC.

(* ------------------------------------------------------------------------------------------ *)
(* field-centric path                                                                           *)
(* ------------------------------------------------------------------------------------------ *)
Section AFC.
Variables (mmf mms : Z -> Z) (n : nat) (fields : list afield) (tie : Q).
Hypothesis LEN : forall f v, In f fields -> In v (af_scores f) -> length v = n.
Hypothesis NONNEG : forall f v, In f fields -> In v (af_scores f) -> Forall (fun x => 0 <= x) v.
Hypothesis BOOST : forall f, In f fields -> 0 <= boostq (af_boost f).
Hypothesis MM : forall f, In f fields -> mmf (Z.of_nat (af_nterms f)) = mms (Z.of_nat (af_nterms f)).

(* the spec's per-field value at document d *)
Definition afc_val (d : nat) (f : afield) : Q :=
  let vals := map (fun v => at_doc v d) (af_scores f) in
  let nt := af_nterms f in
  let need := Z.min (mms (Z.of_nat nt)) (Z.of_nat nt) in
  (if (need <=? Z.of_nat (length (filter qpos vals)))%Z then qsum_list vals else 0) * boostq (af_boost f).

Lemma afc_val_nonneg d f : In f fields -> 0 <= afc_val d f.
Proof.
  intros Hf. unfold afc_val. cbv zeta. apply Qmult_le_0_compat; [|apply BOOST; exact Hf].
  match goal with |- 0 <= (if ?c then _ else _) => destruct c end; [|lra].
  apply qsum_nonneg. apply Forall_forall. intros x Hx. apply in_map_iff in Hx as (v & <- & Hv).
  unfold at_doc. apply nth_nonneg. apply (NONNEG f v Hf Hv).
Qed.

Theorem afield_centric_is_spec :
  exists r, afield_centric_g mmf fields n tie = AOk r /\ veq r (map (afc_spec mms fields tie) (seq 0 n)).
Proof.
  unfold afield_centric_g. eexists. split; [reflexivity|].
  set (fs := map (afc_field mmf n) fields).
  assert (Hsc : forall f, In f fields -> Forall (fun c => length c = n) (af_scores f)).
  { intros f Hf. apply Forall_forall. intros v Hv. apply (LEN f v Hf Hv). }
  assert (Hfs : Forall (fun c => length c = n) fs).
  { unfold fs. apply Forall_forall. intros c Hc. apply in_map_iff in Hc as (f & <- & Hf).
    unfold afc_field. cbv zeta. rewrite length_vboost, mm_filter_gate. apply length_mm_gate. apply Hsc. exact Hf. }
  assert (Hval : forall d, (d < n)%nat -> Forall2 Qeq (map (fun c => nth d c 0) fs) (map (afc_val d) fields)).
  { intros d Hd. unfold fs. rewrite map_map. apply Forall2_map_same. intros f Hf.
    unfold afc_field. cbv zeta. rewrite nth_vboost, mm_filter_gate.
    rewrite nth_mm_gate by (try apply Hsc; assumption). cbv zeta.
    unfold afc_val, af_nterms, at_doc. cbv zeta. pose proof (MM f Hf) as E. unfold af_nterms in E. rewrite E.
    reflexivity. }
  apply veq_map_seq.
  - rewrite length_vadd, length_vscale, length_vadd, length_vscale, length_vmax_all, length_vsum by assumption. lia.
  - intros d Hd.
    assert (Hnn : forall c, In c fs -> 0 <= nth d c 0).
    { intros c Hc. unfold fs in Hc. apply in_map_iff in Hc as (f & <- & Hf).
      assert (E : nth d (afc_field mmf n f) 0 == afc_val d f).
      { pose proof (Hval d Hd) as HV. unfold fs in HV. rewrite map_map in HV.
        clear - HV Hf. induction fields as [|g rest IH]; [contradiction|].
        inversion HV; subst. destruct Hf as [->|Hf]; [assumption|]. apply IH; assumption. }
      rewrite E. apply afc_val_nonneg. exact Hf. }
    rewrite nth_vadd;
      [|rewrite length_vmax_all by assumption; lia
       |rewrite length_vscale, length_vadd, length_vscale, length_vmax_all, length_vsum by assumption; lia].
    rewrite nth_vscale by (rewrite length_vadd, length_vscale, length_vmax_all, length_vsum by assumption; lia).
    rewrite nth_vadd by (rewrite ?length_vscale, ?length_vmax_all, ?length_vsum by assumption; lia).
    rewrite nth_vscale by (rewrite length_vmax_all by assumption; lia).
    rewrite nth_vmax_all, nth_vsum by assumption.
    unfold afc_spec. cbv zeta. fold (afc_val d).
    change (map (fun f : afield => afc_val d f) fields) with (map (afc_val d) fields).
    rewrite <- (dismax_comp tie _ _ (Hval d Hd)). unfold dismax. ring.
Qed.
End AFC.

(* ------------------------------------------------------------------------------------------ *)
(* both paths, mm abstract: closed under the global context (no Flocq)                          *)
(* ------------------------------------------------------------------------------------------ *)
(* the clause counts parse_min_should_match is called with *)
Definition term_counts (fields : list afield) : list nat := a_num_search_terms fields :: map af_nterms fields.

Theorem anysim_g_is_spec (mmf mms : Z -> Z) n fields tie :
  (forall f v, In f fields -> In v (af_scores f) -> length v = n) ->
  (forall k, In k (term_counts fields) -> mmf (Z.of_nat k) = mms (Z.of_nat k)) ->
  (a_is_term_centric fields = false ->
     (forall f v, In f fields -> In v (af_scores f) -> Forall (fun x => 0 <= x) v) /\
     (forall f, In f fields -> 0 <= boostq (af_boost f))) ->
  exists r, edismax_anysim_g mmf n fields tie = AOk r /\ veq r (anysim_spec_g mms n fields tie).
Proof.
  intros LEN MM NN. unfold edismax_anysim_g, anysim_spec_g.
  destruct (a_is_term_centric fields) eqn:TC.
  - apply aterm_centric_is_spec; [exact LEN|exact TC|]. apply MM. left. reflexivity.
  - destruct (NN eq_refl) as [N1 N2]. apply afield_centric_is_spec; try assumption.
    intros f Hf. apply MM. right. apply in_map. exact Hf.
Qed.

(* ------------------------------------------------------------------------------------------ *)
(* the model with the float mm against the spec with Solr's integer mm                          *)
(* ------------------------------------------------------------------------------------------ *)
Record wf_anysim (n : nat) (fields : list afield) (mm : mmspec) : Prop := {
  (* every score vector has one entry per row *)
  as_len : forall f v, In f fields -> In v (af_scores f) -> length v = n;
  (* 0..NMAX query terms per field (the float-exact range of mm; ZERO terms allowed) *)
  as_terms : forall f, In f fields -> (Z.of_nat (af_nterms f) <= NMAX)%Z;
  as_mm : spec_in_range mm;
  (* field-centric path only: the similarity returns non-negative scores, boosts are non-negative *)
  as_nonneg : a_is_term_centric fields = false ->
              forall f v, In f fields -> In v (af_scores f) -> Forall (fun x => 0 <= x) v;
  as_boost : a_is_term_centric fields = false -> forall f, In f fields -> 0 <= boostq (af_boost f);
}.

Theorem anysim_model_is_spec n fields mm tie : wf_anysim n fields mm ->
  exists r, edismax_anysim n fields mm tie = AOk r /\ veq r (anysim_spec n fields mm tie).
Proof.
  intros WF. unfold edismax_anysim, anysim_spec. apply anysim_g_is_spec.
  - exact (as_len _ _ _ WF).
  - intros k Hk.
    assert (R : (0 <= Z.of_nat k <= NMAX)%Z).
    { split; [lia|]. destruct Hk as [<-|Hk].
      - unfold a_num_search_terms. destruct fields as [|f0 rest]; [unfold NMAX; cbn; lia|].
        apply (as_terms _ _ _ WF). left. reflexivity.
      - apply in_map_iff in Hk as (f & <- & Hf). apply (as_terms _ _ _ WF). exact Hf. }
    destruct (mm_f64_is_solr _ mm R (as_mm _ _ _ WF)) as [E _]. exact E.
  - intros FC. split; [exact (as_nonneg _ _ _ WF FC)|exact (as_boost _ _ _ WF FC)].
Qed.

(* the result has one entry per row *)
Corollary anysim_model_length n fields mm tie r : wf_anysim n fields mm ->
  edismax_anysim n fields mm tie = AOk r -> length r = n.
Proof.
  intros WF Hr. destruct (anysim_model_is_spec n fields mm tie WF) as (r' & Hr' & Hv).
  rewrite Hr in Hr'. injection Hr' as <-. rewrite (veq_length _ _ Hv).
  unfold anysim_spec, anysim_spec_g. destruct (a_is_term_centric fields); rewrite map_length, seq_length; reflexivity.
Qed.

(* ------------------------------------------------------------------------------------------ *)
(* the binary32 BM25 model of Solr/Edismax.v is an instance                                     *)
(* ------------------------------------------------------------------------------------------ *)
(* term-centric: the table holds the boosted binary32 products (boosted_scores multiplies in float32),
   so the generic boost is None; field-centric: unboosted scores, generic boost = the field's boost *)
Definition table_tc (S : list (list (list Q))) : list afield :=
  map (fun Sf => {| af_boost := None; af_scores := Sf |}) S.
Definition table_fc (fields : list efield) (S : list (list (list Q))) : list afield :=
  map (fun fS => {| af_boost := Some (boostQ (fst fS)); af_scores := snd fS |}) (combine fields S).

Section Instance.
Variables (idf : idf_table) (n : nat).

Lemma tc_fields_instance p : forall fields fi S mx sm,
  all_scores idf fi fields true = AOk S ->
  tc_fields idf fi fields p mx sm = atc_fields (table_tc S) p mx sm.
Proof.
  induction fields as [|f rest IH]; intros fi S mx sm H.
  - cbn in H. injection H as <-. reflexivity.
  - rewrite all_scores_cons in H. apply abind_ok in H as (pt & Hpt & H).
    apply abind_ok in H as (others & Ho & H). injection H as <-.
    destruct (term_scores_all idf fi (ef_arr f) (ef_boost f) (fun _ => True) _ _ Hpt (fun _ _ _ => I)) as [L _].
    cbn [tc_fields table_tc map atc_fields af_scores af_boost vboost].
    destruct (nth_error (ef_terms f) p) as [t|] eqn:E.
    + rewrite (term_scores_nth _ _ _ _ _ _ p t Hpt E). cbn [abind].
      assert (Hlt : (p < length pt)%nat) by (rewrite L; apply nth_error_Some; congruence).
      rewrite (nth_error_nth' pt [] Hlt). apply (IH _ _ _ _ Ho).
    + apply nth_error_None in E. rewrite <- L in E. apply nth_error_None in E. rewrite E. reflexivity.
Qed.

Lemma tc_terms_instance fields tie S : all_scores idf 0 fields true = AOk S ->
  forall ps, tc_terms idf fields n tie ps = atc_terms (table_tc S) n tie ps.
Proof.
  intros HS. induction ps as [|p ps IH]; [reflexivity|].
  cbn [tc_terms atc_terms]. rewrite (tc_fields_instance p _ _ _ _ _ HS), IH. reflexivity.
Qed.

Theorem term_centric_instance fields nt mm tie S : all_scores idf 0 fields true = AOk S ->
  term_centric idf fields n nt mm tie = aterm_centric_g (fun k => mm_f64 k mm) (table_tc S) n nt tie.
Proof.
  intros HS. unfold term_centric, aterm_centric_g. rewrite (tc_terms_instance _ _ _ HS). reflexivity.
Qed.

Theorem field_centric_instance fields mm tie S : all_scores idf 0 fields false = AOk S ->
  field_centric idf fields n mm tie = afield_centric_g (fun k => mm_f64 k mm) (table_fc fields S) n tie.
Proof.
  intros HS. unfold field_centric, afield_centric_g. rewrite fc_fields_eq, HS. cbn [abind].
  pose proof (all_scores_inv idf (fun _ => True) false fields 0 S HS (fun _ _ _ _ _ _ => I)) as HI.
  assert (E : map (fun fS => fc_vec n mm (fst fS) (snd fS)) (combine fields S) =
              map (afc_field (fun k => mm_f64 k mm) n) (table_fc fields S)).
  { unfold table_fc. rewrite map_map. apply map_ext_in. intros [f Sf] Hin. cbn [fst snd].
    destruct (Forall2_combine_in _ _ _ _ _ HI Hin) as [L _].
    unfold fc_vec, afc_field. cbn [af_scores af_boost vboost]. rewrite L. reflexivity. }
  rewrite E. reflexivity.
Qed.
End Instance.

Lemma forallb_counts_tc k (fields : list efield) S :
  Forall2 (fun f (Sf : list (list Q)) => length Sf = length (ef_terms f)) fields S ->
  forallb (fun f => Nat.eqb (af_nterms f) k) (table_tc S) =
  forallb (fun f => Nat.eqb (length (ef_terms f)) k) fields.
Proof.
  induction 1 as [|f Sf fl Sl L HF IH]; [reflexivity|].
  cbn [table_tc map forallb]. unfold af_nterms at 1. cbn [af_scores]. rewrite L. f_equal. exact IH.
Qed.
Lemma forallb_counts_fc k (fields : list efield) S :
  Forall2 (fun f (Sf : list (list Q)) => length Sf = length (ef_terms f)) fields S ->
  forallb (fun f => Nat.eqb (af_nterms f) k) (table_fc fields S) =
  forallb (fun f => Nat.eqb (length (ef_terms f)) k) fields.
Proof.
  induction 1 as [|f Sf fl Sl L HF IH]; [reflexivity|].
  cbn [table_fc combine map forallb]. unfold af_nterms at 1. cbn [af_scores snd]. rewrite L. f_equal. exact IH.
Qed.

Lemma counts_instance_tc (fields : list efield) S :
  Forall2 (fun f (Sf : list (list Q)) => length Sf = length (ef_terms f)) fields S ->
  a_is_term_centric (table_tc S) = is_term_centric fields /\
  a_num_search_terms (table_tc S) = num_search_terms fields.
Proof.
  intros HF. destruct HF as [|f0 S0 rest Srest L0 HF]; [split; reflexivity|].
  cbn [table_tc map a_is_term_centric is_term_centric a_num_search_terms num_search_terms].
  unfold af_nterms at 2 3. cbn [af_scores]. rewrite L0. split; [|reflexivity].
  apply (forallb_counts_tc _ _ _ HF).
Qed.

Lemma counts_instance_fc (fields : list efield) S :
  Forall2 (fun f (Sf : list (list Q)) => length Sf = length (ef_terms f)) fields S ->
  a_is_term_centric (table_fc fields S) = is_term_centric fields.
Proof.
  intros HF. destruct HF as [|f0 S0 rest Srest L0 HF]; [reflexivity|].
  cbn [table_fc combine map a_is_term_centric is_term_centric].
  unfold af_nterms at 2. cbn [af_scores snd]. rewrite L0.
  apply (forallb_counts_fc _ _ _ HF).
Qed.

(* the query-field score of Solr/Edismax.v (qf_model: what edismax computes before the phrase phases) is the
   generic model applied to the table of its own BM25 scores, whenever those score calls succeed *)
Theorem qf_model_instance idf n q S :
  all_scores idf 0 (eq_fields q) (is_term_centric (eq_fields q)) = AOk S ->
  qf_model idf n q =
  edismax_anysim n (if is_term_centric (eq_fields q) then table_tc S else table_fc (eq_fields q) S)
                 (eq_mm q) (eq_tie q).
Proof.
  intros HS. unfold qf_model, edismax_anysim, edismax_anysim_g.
  assert (HL : Forall2 (fun f (Sf : list (list Q)) => length Sf = length (ef_terms f)) (eq_fields q) S).
  { pose proof (all_scores_inv idf (fun _ => True) _ _ 0 S HS (fun _ _ _ _ _ _ => I)) as HI.
    clear HS. induction HI as [|f Sf fl Sl [L _] HF IH]; constructor; assumption. }
  destruct (is_term_centric (eq_fields q)) eqn:TC.
  - destruct (counts_instance_tc _ _ HL) as [E1 E2]. rewrite E1, E2, TC. apply term_centric_instance. exact HS.
  - rewrite (counts_instance_fc _ _ HL), TC. apply field_centric_instance. exact HS.
Qed.

(* ------------------------------------------------------------------------------------------ *)
(* the hypotheses are satisfiable: 2 fields x 3 terms x 3 rows, and a field-centric variant     *)
(* ------------------------------------------------------------------------------------------ *)
Module AnySimEx.
(* field 0 unboosted, field 1 boosted 2.5; row 1 has only two positive terms *)
Definition f0 : afield := {| af_boost := None; af_scores := [[1#2; 1; 3]; [0; 0; 1#3]; [2; 0; 0]] |}.
Definition f1 : afield := {| af_boost := Some (5#2); af_scores := [[0; 0; 1]; [1#4; 0; 0]; [0; 1; 7#5]] |}.
Definition f1' : afield := {| af_boost := Some (5#2); af_scores := [[0; 0; 1]; [1#4; 1; 1]] |}.
Definition mm3 : mmspec := Cond [(2, SPct (-25))]%Z.        (* "2<-25%": all 3 of 3 terms *)
Definition tie : Q := 1 # 10.

Ltac wf_tac :=
  constructor;
  [ intros f v Hf Hv; repeat (destruct Hf as [<-|Hf]; [cbn in Hv; repeat (destruct Hv as [<-|Hv]; [reflexivity|]); contradiction|]); contradiction
  | intros f Hf; repeat (destruct Hf as [<-|Hf]; [vm_compute; discriminate|]); contradiction
  | repeat constructor; cbn; unfold PMAX; lia
  | first [ discriminate
          | intros _ f v Hf Hv; repeat (destruct Hf as [<-|Hf]; [cbn in Hv; repeat (destruct Hv as [<-|Hv]; [repeat constructor; discriminate|]); contradiction|]); contradiction ]
  | first [ discriminate
          | intros _ f Hf; repeat (destruct Hf as [<-|Hf]; [vm_compute; discriminate|]); contradiction ] ].

(* term-centric: rows 0 and 2 kept, row 1 zeroed out by mm (2 positive terms < 3) *)
Example anysim_tc_example :
  wf_anysim 3 [f0; f1] mm3 /\ a_is_term_centric [f0; f1] = true /\
  exists r, edismax_anysim 3 [f0; f1] mm3 tie = AOk r /\
            Checks.veqb r (anysim_spec 3 [f0; f1] mm3 tie) = true /\
            Checks.veqb r [(1#2) + (5#8) + 2; 0; (3 + (1#10) * (5#2)) + (1#3) + (7#2)] = true.
Proof.
  split; [wf_tac|]. split; [reflexivity|]. eexists. split; [vm_compute; reflexivity|].
  split; vm_compute; reflexivity.
Qed.

(* field-centric (3 and 2 terms), mm = 2: field 0 meets it in rows 0 and 2, field 1' in row 2 only, row 1: neither *)
Example anysim_fc_example :
  wf_anysim 3 [f0; f1'] (Simple (SInt 2)) /\ a_is_term_centric [f0; f1'] = false /\
  exists r, edismax_anysim 3 [f0; f1'] (Simple (SInt 2)) tie = AOk r /\
            Checks.veqb r (anysim_spec 3 [f0; f1'] (Simple (SInt 2)) tie) = true /\
            Checks.veqb r [5#2; 0; 5 + (1#10) * (10#3)] = true.
Proof.
  split; [wf_tac|]. split; [reflexivity|]. eexists. split; [vm_compute; reflexivity|].
  split; vm_compute; reflexivity.
Qed.
End AnySimEx.
