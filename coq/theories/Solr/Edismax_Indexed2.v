(* C10 for frames whose columns are freshly indexed corpora, with NO restriction on the query terms.
   Edismax_Indexed.v needed query_nar (no pf / pf2 / pf3 field with an immediately repeated query term) because
   the commutation "scoring the view of matching rows = gathering the whole-frame scores" was a theorem for
   repeat-free term lists only.  View_Phrase4.C06_score_commutes_any proves it for EVERY term list, so the
   LITERAL premise  Edismax_Proofs.view_commutes_all  holds for fresh fields ([view_commutes_all_fresh]) and
   Edismax_Proofs.C10_phrase_boosts applies as it stands. *)
From Coq Require Import ZArith QArith List Bool Lia Lqa Setoid Sorted.
From SA Require Import Base.Prelude Kernels.Spec Kernels.Linear Index.Index Index.Index_Spec Index.Index_Proofs
  Index.Index_Proofs2 Index.Index_Proofs3 Query.Phrase Query.Phrase_Spec Score.BM25 Score.BM25_Walk_Proofs
  View.View View.View_Spec View.View_Proofs View.View_Phrase View.View_Phrase2 View.View_Phrase4
  Solr.MM Solr.MM_Spec Solr.MM_Proofs Solr.Edismax Solr.Edismax_Spec Solr.Edismax_Proofs Solr.Edismax_Indexed.
Import ListNotations.
Open Scope Q_scope.

(* the view-commutation premise of C10, exactly as Edismax_Proofs states it: any field index, boost, term list *)
Theorem view_commutes_all_fresh idf n q : fresh_fields n q -> view_commutes_all idf n q.
Proof.
  intros HF fi f b ts pos v Hf Hsel _ Hpos.
  destruct (HF f Hf) as (docs & bs & ix & Hwf & E & Ef & Ln). rewrite Ef in *. subst n.
  assert (Hpos' : Forall (fun i => (i < N.of_nat (length docs))%N) pos).
  { eapply Forall_impl; [|exact Hpos]. cbn beta. intros i Hi. lia. }
  assert (Hv : valid_keys (length docs) [pos]) by (split; [exact Hpos'|exact I]).
  assert (Ev : select_chain (of_index ix true) [pos] = AOk v).
  { cbn [select_chain]. rewrite Hsel. reflexivity. }
  unfold boosted_scores.
  rewrite (C06_score_commutes_any docs bs ix true [pos] v ts _ _ _ Hwf E Hv Ev).
  cbn [compose_rows]. rewrite (gather_rows0_id docs pos Hpos').
  destruct (v_score_bm25 (of_index ix true) ts (idf_lookup idf fi ts) K1_BITS B_BITS) as [s| | |] eqn:Es;
    cbn [abind]; try reflexivity.
  pose proof (parent_score_length_wide docs bs ix true ts _ _ _ s Hwf E Es) as Ls.
  f_equal. destruct b as [bb|]; rewrite !map_map; apply map_ext_in; intros i Hi;
    rewrite Forall_forall in Hpos; specialize (Hpos i Hi); symmetry;
    rewrite (nth_map_in _ s _ 0%Z 0%Q) by lia; reflexivity.
Qed.

(* C10, premise-free, every query *)
Theorem C10_indexed_any : forall idf n q, wf_query idf n q -> fresh_fields n q ->
  api_veq (edismax idf n q) (edismax_spec idf n q).
Proof.
  intros idf n q WF HF. apply C10_phrase_boosts; try assumption.
  - intros _. apply (qf_calls_ok_fresh idf n q HF).
  - apply select_ok_fresh. exact HF.
  - apply view_commutes_all_fresh. exact HF.
Qed.

Theorem C10_indexed_any' idf n q : wf_query_indexed idf n q ->
  api_veq (edismax idf n q) (edismax_spec idf n q).
Proof. intros W. apply C10_indexed_any; [apply wf_query_of_indexed; exact W|exact (wi_fresh _ _ _ W)]. Qed.

(* without any success hypothesis on the query-field calls: same vector or both fail *)
Theorem C10_indexed_any_weak : forall idf n q, wf_query idf n q -> fresh_fields n q ->
  api_veq_weak (edismax idf n q) (edismax_spec idf n q).
Proof.
  intros idf n q WF HF. apply C10_phrase_boosts_weak; try assumption.
  - apply select_ok_fresh. exact HF.
  - apply view_commutes_all_fresh. exact HF.
Qed.

(* positions whose query-field score is zero keep score zero, whatever the phrase fields contain *)
Corollary C10_indexed_zero_stays_zero : forall idf n q, wf_query idf n q -> fresh_fields n q ->
  forall qf r d, qf_spec idf n q = AOk qf -> edismax idf n q = AOk r -> (d < n)%nat ->
  nth d qf 0 == 0 -> nth d r 0 == 0.
Proof.
  intros idf n q WF HF. apply C10_zero_stays_zero; try assumption.
  - intros _. apply (qf_calls_ok_fresh idf n q HF).
  - apply select_ok_fresh. exact HF.
  - apply view_commutes_all_fresh. exact HF.
Qed.

(* ------------------------------------------------------------------------------------------ *)
(* example: the query of Edismax_Indexed.Ex with the term list 1 1 3 (an immediately repeated term) *)
(* ------------------------------------------------------------------------------------------ *)
Module Ex2.
Import Ex.
Definition g1 : efield := {| ef_arr := of_index ix1 true; ef_boost := None; ef_terms := [1;1;3]%N |}.
Definition g2 : efield := {| ef_arr := of_index ix2 true; ef_boost := Some Checks.TWO; ef_terms := [1;1;3]%N |}.
Definition idf2 : idf_table :=
  idf ++ [(0%nat,[1;1;3]%N,I0);(1%nat,[1;1;3]%N,I0);(0%nat,[1;1]%N,I0);(1%nat,[1;1]%N,I0);(0%nat,[1;3]%N,I0);(1%nat,[1;3]%N,I0)].
Definition q2 : equery :=
  {| eq_fields := [g1; g2]; eq_mm := Simple (SPct 100); eq_tie := 1 # 10;
     eq_pf := [Checks.P 0 None]; eq_pf2 := [Checks.P 1 (Some Checks.TWO)]; eq_pf3 := [Checks.P 0 None] |}.

Example fresh2 : fresh_fields 4 q2.
Proof.
  intros f [<-|[<-|[]]].
  - exists docs1, 100%nat, ix1. split; [exact wf1|]. split; [exact index1|]. split; reflexivity.
  - exists docs2, 100%nat, ix2. split; [exact wf2|]. split; [exact index2|]. split; reflexivity.
Qed.

(* the old domain rejects this query *)
Example not_nar : query_narb q2 = false.
Proof. vm_compute. reflexivity. Qed.

Lemma idf2_other fi t : t <> 1%N -> t <> 2%N -> t <> 3%N -> idf_lookup idf2 fi [t] = 0%Z.
Proof.
  intros N1 N2 N3. unfold idf2, idf. cbn [app idf_lookup list_n_eqb].
  rewrite (proj2 (N.eqb_neq t 1) N1), (proj2 (N.eqb_neq t 2) N2), (proj2 (N.eqb_neq t 3) N3).
  cbn [andb]. rewrite !andb_false_r. reflexivity.
Qed.

Lemma nonneg_ex2 : forall fi f b t sc, In f (eq_fields q2) -> (b = ef_boost f \/ b = None) ->
  boosted_scores idf2 fi (ef_arr f) b [t] = AOk sc -> Forall (fun x => 0 <= x) sc.
Proof.
  intros fi f b t sc Hf Hb. revert sc. apply nonneg_res_ok.
  destruct (N.eq_dec t 1) as [->|N1]; [|destruct (N.eq_dec t 2) as [->|N2]; [|destruct (N.eq_dec t 3) as [->|N3]]].
  1-3: destruct Hf as [<-|[<-|[]]]; destruct Hb as [-> | ->]; destruct fi as [|[|fi]]; vm_compute; reflexivity.
  assert (U1 : known_a (of_index ix1 true) t = false).
  { apply (unknown_of t docs1 100 ix1 wf1 index1). intros H. vm_compute in H. intuition congruence. }
  assert (U2 : known_a (of_index ix2 true) t = false).
  { apply (unknown_of t docs2 100 ix2 wf2 index2). intros H. vm_compute in H. intuition congruence. }
  destruct Hf as [<-|[<-|[]]]; destruct Hb as [-> | ->]; cbn [ef_arr ef_boost g1 g2];
    unfold boosted_scores; rewrite (idf2_other fi t N1 N2 N3);
    rewrite ?(unknown_term_score _ t _ U1), ?(unknown_term_score _ t _ U2); vm_compute; reflexivity.
Qed.

Example wfi2 : wf_query_indexed idf2 4 q2.
Proof.
  constructor.
  - exact fresh2.
  - exact nonneg_ex2.
  - intros f [<-|[<-|[]]]; cbn [ef_terms g1 g2 length]; unfold NMAX; lia.
  - intros f [<-|[<-|[]]]; vm_compute; discriminate.
  - vm_compute. discriminate.
  - cbn. unfold PMAX. lia.
Qed.

(* the theorem instantiates on a query the restricted theorem does not cover *)
Example agree2 : api_veq (edismax idf2 4 q2) (edismax_spec idf2 4 q2).
Proof. apply C10_indexed_any'. exact wfi2. Qed.

(* ... and the instance is not vacuous: both sides succeed (re-checked by evaluation), some document matches,
   and the phrase phases (which score the repeated-term lists [1;1;3], [1;1], [1;3]) change the scores *)
Example agree2_checked :
  Checks.api_veqb (edismax idf2 4 q2) (edismax_spec idf2 4 q2) = true /\
  existsb (fun b : bool => b) (match edismax idf2 4 q2 with AOk r => map qpos r | _ => [] end) = true /\
  Checks.api_veqb (edismax idf2 4 q2)
                  (edismax idf2 4 {| eq_fields := eq_fields q2; eq_mm := eq_mm q2; eq_tie := eq_tie q2;
                                     eq_pf := []; eq_pf2 := []; eq_pf3 := [] |}) = false.
Proof. vm_compute. repeat split; reflexivity. Qed.
End Ex2.

Print Assumptions view_commutes_all_fresh.
Print Assumptions C10_indexed_any.
Print Assumptions C10_indexed_any'.
Print Assumptions C10_indexed_any_weak.
Print Assumptions Ex2.agree2.
