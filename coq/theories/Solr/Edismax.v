(* Model of searcharray/solr.py: parse_query_terms (86-108), _edismax_term_centric (111-143),
   _edismax_field_centric (146-175), pf_phase / pf2_phase / pf3_phase (178-248), edismax (251-355).
   Per-term scores are the binary32 BM25 model's (Score/BM25.v through View/View.v); the float32
   product with a boost is Flocq's; all further combination (sums, max, tie, adding phrase boosts) is
   modelled in EXACT rational arithmetic (the code does it in float64/float32: compared with a 1e-6
   relative tolerance and an exact zero pattern).  idf values are inputs (numpy log).  No proofs here. *)
From Coq Require Import ZArith QArith List Bool.
From Flocq Require Import IEEE754.BinarySingleNaN IEEE754.Binary IEEE754.Bits.
From SA Require Import Base.Prelude Index.Index Score.BM25 View.View Solr.MM.
Import ListNotations.
Open Scope Q_scope.

(* exact value of a finite binary32 (NaN / infinities map to 0: excluded by the finiteness theorem) *)
Definition Q_of_f32 (x : f32) : Q :=
  match x with
  | B754_finite _ _ s m e _ =>
      let v := if (0 <=? e)%Z then inject_Z (Z.pos m * 2 ^ e) else Z.pos m # (Z.to_pos (2 ^ (- e))) in
      if s then - v else v
  | _ => 0
  end.

Record efield := {
  ef_arr : sarray;                 (* frame[field].array *)
  ef_boost : option Z;             (* 'field^boost': binary64 bits of float(boost), None when absent *)
  ef_terms : list N;               (* tokenizer(query) for this field's tokenizer *)
}.

(* idf of a term / phrase on a field: looked up in a table supplied by the caller *)
Definition idf_table := list (nat * list N * Z).
Fixpoint list_n_eqb (a b : list N) : bool :=
  match a, b with [], [] => true | x :: a', y :: b' => andb (N.eqb x y) (list_n_eqb a' b') | _, _ => false end.
Fixpoint idf_lookup (tb : idf_table) (f : nat) (ts : list N) : Z :=
  match tb with
  | [] => 0%Z
  | (f', ts', v) :: rest => if andb (Nat.eqb f f') (list_n_eqb ts ts') then v else idf_lookup rest f ts
  end.

Definition K1_BITS : Z := 4608083138725491507.   (* 1.2 *)
Definition B_BITS : Z := 4604930618986332160.    (* 0.75 *)

(* post_arr.score(terms) * (1 if boost is None else boost): float32 array times a Python float -> float32 *)
Definition boosted_scores (idf : idf_table) (fi : nat) (a : sarray) (boost : option Z) (ts : list N) : api (list Q) :=
  ado bits <- v_score_bm25 a ts (idf_lookup idf fi ts) K1_BITS B_BITS;
  let fs := map b32_of_bits bits in
  let fs' := match boost with
             | None => fs
             | Some bb => map (fun x => fmul x (f32_of_f64 (b64_of_bits bb))) fs
             end in
  AOk (map Q_of_f32 fs').

Definition qzeros (n : nat) : list Q := repeat 0 n.
Definition vadd (a b : list Q) : list Q := map (fun p => fst p + snd p) (combine a b).
Definition vmax (a b : list Q) : list Q := map (fun p => if Qle_bool (fst p) (snd p) then snd p else fst p) (combine a b).
Definition vscale (a : list Q) (k : Q) : list Q := map (fun x => x * k) a.
Definition qpos (x : Q) : bool := negb (Qle_bool x 0).

(* ---- _edismax_term_centric ---- *)
Fixpoint tc_fields (idf : idf_table) (fi : nat) (fields : list efield) (posn : nat) (mx sm : list Q) : api (list Q * list Q) :=
  match fields with
  | [] => AOk (mx, sm)
  | f :: rest =>
      match nth_error (ef_terms f) posn with
      | None => AExc IndexError
      | Some t =>
          ado sc <- boosted_scores idf fi (ef_arr f) (ef_boost f) [t];
          tc_fields idf (S fi) rest posn (vmax mx sc) (vadd sm sc)
      end
  end.
Fixpoint tc_terms (idf : idf_table) (fields : list efield) (n : nat) (tie : Q) (posns : list nat) : api (list (list Q)) :=
  match posns with
  | [] => AOk []
  | p :: rest =>
      ado ms <- tc_fields idf 0 fields p (qzeros n) (qzeros n);
      let '(mx, sm) := ms in
      let term_score := vadd mx (vscale (vadd sm (vscale mx (-1))) tie) in     (* max + (sum - max) * tie *)
      ado others <- tc_terms idf fields n tie rest;
      AOk (term_score :: others)
  end.
Definition count_pos (cols : list (list Q)) (n : nat) : list nat :=
  map (fun i => length (filter (fun col => qpos (nth i col 0)) cols)) (seq 0 n).
Definition vsum (cols : list (list Q)) (n : nat) : list Q := fold_left vadd cols (qzeros n).

Definition term_centric (idf : idf_table) (fields : list efield) (n : nat) (num_terms : nat) (mm : mmspec) (tie : Q) : api (list Q) :=
  ado ts <- tc_terms idf fields n tie (seq 0 num_terms);
  let msm := mm_f64 (Z.of_nat num_terms) mm in
  let cnt := count_pos ts n in
  AOk (map (fun p => if (msm <=? Z.of_nat (snd p))%Z then fst p else 0) (combine (vsum ts n) cnt)).

(* ---- _edismax_field_centric ---- *)
Fixpoint fc_term_scores (idf : idf_table) (fi : nat) (a : sarray) (ts : list N) : api (list (list Q)) :=
  match ts with
  | [] => AOk []
  | t :: rest => ado sc <- boosted_scores idf fi a None [t]; ado r <- fc_term_scores idf fi a rest; AOk (sc :: r)
  end.
Fixpoint fc_fields (idf : idf_table) (fi : nat) (fields : list efield) (n : nat) (mm : mmspec) : api (list (list Q)) :=
  match fields with
  | [] => AOk []
  | f :: rest =>
      ado ts <- fc_term_scores idf fi (ef_arr f) (ef_terms f);
      let nt := length (ef_terms f) in
      let msm := Z.min (mm_f64 (Z.of_nat nt) mm) (Z.of_nat nt) in
      let cnt := count_pos ts n in
      let summed := map (fun p => if (msm <=? Z.of_nat (snd p))%Z then fst p else 0) (combine (vsum ts n) cnt) in
      let b := match ef_boost f with None => 1 | Some bb => Q_of_f32 (f32_of_f64 (b64_of_bits bb)) end in
      ado r <- fc_fields idf (S fi) rest n mm;
      AOk (vscale summed b :: r)
  end.
Definition vmax_all (cols : list (list Q)) (n : nat) : list Q :=
  match cols with [] => qzeros n | c :: rest => fold_left vmax rest c end.
Definition field_centric (idf : idf_table) (fields : list efield) (n : nat) (mm : mmspec) (tie : Q) : api (list Q) :=
  ado fs <- fc_fields idf 0 fields n mm;
  let summed := vsum fs n in
  let mx := vmax_all fs n in
  AOk (vadd mx (vscale (vadd summed (vscale mx (-1))) tie)).

(* ---- parse_query_terms: term-centric iff every field tokenizes to the first field's count ---- *)
(* parse_query_terms: the FIRST field fixes the number of search terms; any later field with a different number makes
   the query field-centric (repair of D30: the count 0 used to double as "no field seen yet") *)
Definition num_search_terms (fields : list efield) : nat :=
  match fields with [] => O | f0 :: _ => length (ef_terms f0) end.
Definition is_term_centric (fields : list efield) : bool :=
  match fields with
  | [] => true
  | f0 :: rest => forallb (fun f => Nat.eqb (length (ef_terms f)) (length (ef_terms f0))) rest
  end.

(* ---- phrase phases on the view of matching rows ---- *)
Fixpoint shingles2 (ts : list N) : list (list N) :=
  match ts with a :: ((b :: _) as t) => [a; b] :: shingles2 t | _ => [] end.
Fixpoint shingles3 (ts : list N) : list (list N) :=
  match ts with a :: ((b :: (c :: _)) as t) => [a; b; c] :: shingles3 t | _ => [] end.

(* one pf-type phase: for each listed field (index into fields, boost), add boost * score of every shingle *)
Definition phase_field (idf : idf_table) (fi : nat) (view : sarray) (boost : option Z) (shs : list (list N)) (m : nat)
  : api (list Q) :=
  fold_left (fun acc sh => ado a <- acc; ado sc <- boosted_scores idf fi view boost sh; AOk (vadd a sc))
            shs (AOk (qzeros m)).

Record phase_spec := { ph_field : nat; ph_boost : option Z }.

Definition run_phase (idf : idf_table) (fields : list efield) (views : list sarray) (kind : nat) (specs : list phase_spec) (m : nat)
  : api (option (list Q)) :=
  (* kind 1 = pf (whole query, >= 2 terms), 2 = pf2 (adjacent pairs), 3 = pf3 (adjacent triples) *)
  fold_left (fun acc sp =>
               ado a <- acc;
               match nth_error fields (ph_field sp), nth_error views (ph_field sp) with
               | Some f, Some v =>
                   let ts := ef_terms f in
                   let shs := match kind with
                              | 1%nat => if Nat.ltb (length ts) 2 then [] else [ts]
                              | 2%nat => shingles2 ts
                              | _ => shingles3 ts
                              end in
                   match shs with
                   | [] => AOk a                        (* `continue`: nothing appended for this field *)
                   | _ =>
                       ado sc <- phase_field idf (ph_field sp) v (ph_boost sp) shs m;
                       AOk (Some (match a with None => sc | Some prev => vadd prev sc end))
                   end
               | _, _ => AExc KeyError
               end)
            specs (AOk None).

Fixpoint positions_where (i : N) (l : list Q) : list N :=
  match l with [] => [] | x :: t => if qpos x then i :: positions_where (N.succ i) t else positions_where (N.succ i) t end.
Fixpoint scatter_add (qf : list Q) (idx : list N) (vals : list Q) : list Q :=
  match idx, vals with
  | i :: it, v :: vt => scatter_add (firstn (N.to_nat i) qf ++ (nth (N.to_nat i) qf 0 + v) :: skipn (S (N.to_nat i)) qf) it vt
  | _, _ => qf
  end.

Record equery := {
  eq_fields : list efield;
  eq_mm : mmspec;              (* mm already resolved: None -> "1", int -> str, q_op == AND -> "100%" *)
  eq_tie : Q;
  eq_pf : list phase_spec; eq_pf2 : list phase_spec; eq_pf3 : list phase_spec;
}.

Fixpoint select_all (fields : list efield) (pos : list N) : api (list sarray) :=
  match fields with
  | [] => AOk []
  | f :: rest => ado v <- select (ef_arr f) pos; ado vs <- select_all rest pos; AOk (v :: vs)
  end.

Definition edismax (idf : idf_table) (n : nat) (q : equery) : api (list Q) :=
  let fields := eq_fields q in
  ado qf <- (if is_term_centric fields
             then term_centric idf fields n (num_search_terms fields) (eq_mm q) (eq_tie q)
             else field_centric idf fields n (eq_mm q) (eq_tie q));
  let pos := positions_where 0%N qf in            (* frame[field].array[qf_scores > 0] *)
  ado views <- select_all fields pos;
  let m := length pos in
  ado p1 <- run_phase idf fields views 1 (eq_pf q) m;
  ado p2 <- run_phase idf fields views 2 (eq_pf2 q) m;
  ado p3 <- run_phase idf fields views 3 (eq_pf3 q) m;
  (* qf_scores[np.where(qf_scores)[0]] += phase scores (non-negative scores: where(qf) = where(qf > 0)) *)
  let add o qf := match o with None => qf | Some sc => scatter_add qf pos sc end in
  AOk (add p3 (add p2 (add p1 qf))).
