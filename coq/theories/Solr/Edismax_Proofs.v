(* C09 / C10: the edismax model (Solr/Edismax.v) against its declarative spec (Solr/Edismax_Spec.v).
   boosted_scores (the binary32 BM25 model) is kept opaque: every statement is about how the score
   vectors are combined.  Vector results are compared up to pointwise Qeq. *)
From Coq Require Import ZArith QArith List Bool Lia Lqa Setoid Sorted.
From SA Require Import Base.Prelude Index.Index View.View Solr.MM Solr.MM_Spec Solr.MM_Proofs
                       Solr.Edismax Solr.Edismax_Spec.
Import ListNotations.
Open Scope Q_scope.

Opaque boosted_scores.

(* ------------------------------------------------------------------------------------------ *)
(* results up to Qeq                                                                            *)
(* ------------------------------------------------------------------------------------------ *)
Definition veq (a b : list Q) : Prop := Forall2 Qeq a b.

Definition api_rel {A B} (R : A -> B -> Prop) (x : api A) (y : api B) : Prop :=
  match x, y with
  | AOk a, AOk b => R a b
  | AExc e, AExc e' => e = e'
  | AFault k b i, AFault k' b' i' => k = k' /\ b = b' /\ i = i'
  | AFuel, AFuel => True
  | _, _ => False
  end.
(* both AOk with Qeq-equal vectors, or both the same exception / fault *)
Definition api_veq : api (list Q) -> api (list Q) -> Prop := api_rel veq.
(* weaker: both AOk with Qeq-equal vectors, or both fail (possibly differently) *)
Definition api_veq_weak (x y : api (list Q)) : Prop :=
  match x, y with
  | AOk a, AOk b => veq a b
  | AOk _, _ | _, AOk _ => False
  | _, _ => True
  end.

Lemma api_rel_bind {A B A' B'} (R : A -> B -> Prop) (R' : A' -> B' -> Prop) x y f g :
  api_rel R x y -> (forall a b, R a b -> api_rel R' (f a) (g b)) ->
  api_rel R' (abind x f) (abind y g).
Proof. destruct x, y; cbn; intros H K; try contradiction; auto. Qed.

Lemma api_veq_weaken x y : api_veq x y -> api_veq_weak x y.
Proof. destruct x, y; cbn; auto. Qed.

Lemma abind_ok {A B} (r : api A) (f : A -> api B) b :
  abind r f = AOk b -> exists a, r = AOk a /\ f a = AOk b.
Proof. destruct r; cbn; intros H; try discriminate. eauto. Qed.

(* ------------------------------------------------------------------------------------------ *)
(* lists, nth                                                                                   *)
(* ------------------------------------------------------------------------------------------ *)
Lemma nth_map_seq {A} (f : nat -> A) dflt n d : (d < n)%nat -> nth d (map f (seq 0 n)) dflt = f d.
Proof.
  intros H. rewrite (nth_indep _ dflt (f O)) by (rewrite map_length, seq_length; exact H).
  rewrite map_nth, seq_nth by exact H. reflexivity.
Qed.

Lemma nth_map_lt {A B} (f : A -> B) da db l d : (d < length l)%nat -> nth d (map f l) db = f (nth d l da).
Proof.
  intros H. rewrite (nth_indep _ db (f da)) by (rewrite map_length; exact H). apply map_nth.
Qed.

Lemma nth_map_combine {A B C} (f : A * B -> C) da db dc : forall a b d,
  (d < length a)%nat -> (d < length b)%nat -> nth d (map f (combine a b)) dc = f (nth d a da, nth d b db).
Proof.
  induction a as [|x a IH]; intros [|y b] [|d] Ha Hb; cbn in *; try lia; auto. apply IH; lia.
Qed.

Lemma veq_nth a b :
  length a = length b -> (forall d, (d < length a)%nat -> nth d a 0 == nth d b 0) -> veq a b.
Proof.
  revert b. induction a as [|x a IH]; intros [|y b] HL H; cbn in HL; try discriminate.
  - constructor.
  - constructor.
    + apply (H O). cbn. lia.
    + apply IH; [lia|]. intros d Hd. apply (H (S d)). cbn. lia.
Qed.

Lemma veq_length a b : veq a b -> length a = length b.
Proof. induction 1; cbn; congruence. Qed.

Lemma veq_nth_inv a b : veq a b -> forall d, nth d a 0 == nth d b 0.
Proof. induction 1; intros [|d]; cbn; auto; reflexivity. Qed.

Lemma veq_map_seq a n f :
  length a = n -> (forall d, (d < n)%nat -> nth d a 0 == f d) -> veq a (map f (seq 0 n)).
Proof.
  intros HL H. apply veq_nth.
  - rewrite map_length, seq_length. exact HL.
  - intros d Hd. rewrite nth_map_seq by lia. apply H. lia.
Qed.

Lemma Forall2_map_same {A} (f g : A -> Q) l : (forall x, In x l -> f x == g x) -> Forall2 Qeq (map f l) (map g l).
Proof.
  induction l as [|x l IH]; intros H; cbn; constructor.
  - apply H. left. reflexivity.
  - apply IH. intros y Hy. apply H. right. exact Hy.
Qed.

Lemma Forall2_combine_in {A B} (R : A -> B -> Prop) l l' x y :
  Forall2 R l l' -> In (x, y) (combine l l') -> R x y.
Proof.
  induction 1 as [|a b l l' Hab HF IH]; cbn; [contradiction|].
  intros [E|HI]; [inversion E; subst; exact Hab|auto].
Qed.

(* ------------------------------------------------------------------------------------------ *)
(* vector helpers                                                                               *)
(* ------------------------------------------------------------------------------------------ *)
Definition mstep (a x : Q) : Q := if Qle_bool a x then x else a.

Lemma qmax_list_fold l : qmax_list l = fold_left mstep l 0.
Proof. reflexivity. Qed.

Lemma length_qzeros n : length (qzeros n) = n.
Proof. apply repeat_length. Qed.
Lemma nth_qzeros n d : nth d (qzeros n) 0 = 0.
Proof. unfold qzeros. revert d. induction n as [|n IH]; intros [|d]; cbn; auto. Qed.

Lemma nth_qzeros_eq n d : nth d (qzeros n) 0 == 0.
Proof. rewrite nth_qzeros. reflexivity. Qed.

Lemma length_vadd a b : length (vadd a b) = Nat.min (length a) (length b).
Proof. unfold vadd. rewrite map_length, combine_length. reflexivity. Qed.
Lemma length_vmax a b : length (vmax a b) = Nat.min (length a) (length b).
Proof. unfold vmax. rewrite map_length, combine_length. reflexivity. Qed.
Lemma length_vscale a k : length (vscale a k) = length a.
Proof. apply map_length. Qed.

Lemma nth_vadd a b d : (d < length a)%nat -> (d < length b)%nat -> nth d (vadd a b) 0 = nth d a 0 + nth d b 0.
Proof. intros. unfold vadd. rewrite (nth_map_combine _ 0 0) by assumption. reflexivity. Qed.
Lemma nth_vmax a b d : (d < length a)%nat -> (d < length b)%nat -> nth d (vmax a b) 0 = mstep (nth d a 0) (nth d b 0).
Proof. intros. unfold vmax. rewrite (nth_map_combine _ 0 0) by assumption. reflexivity. Qed.
Lemma nth_vscale a k d : (d < length a)%nat -> nth d (vscale a k) 0 = nth d a 0 * k.
Proof. intros. unfold vscale. rewrite (nth_map_lt _ 0) by assumption. reflexivity. Qed.

(* fold_left vadd / vmax, pointwise *)
Lemma fold_vadd_len n : forall cols v, Forall (fun c => length c = n) cols -> length v = n ->
  length (fold_left vadd cols v) = n.
Proof.
  induction cols as [|c cols IH]; intros v HF Hv; cbn; [exact Hv|].
  inversion HF; subst. apply IH; [assumption|]. rewrite length_vadd. lia.
Qed.
Lemma fold_vadd_nth n d : forall cols v, Forall (fun c => length c = n) cols -> length v = n -> (d < n)%nat ->
  nth d (fold_left vadd cols v) 0 = fold_left Qplus (map (fun c => nth d c 0) cols) (nth d v 0).
Proof.
  induction cols as [|c cols IH]; intros v HF Hv Hd; cbn; [reflexivity|].
  inversion HF; subst. rewrite IH; [|assumption|rewrite length_vadd; lia|assumption].
  rewrite nth_vadd by lia. reflexivity.
Qed.
Lemma fold_vmax_len n : forall cols v, Forall (fun c => length c = n) cols -> length v = n ->
  length (fold_left vmax cols v) = n.
Proof.
  induction cols as [|c cols IH]; intros v HF Hv; cbn; [exact Hv|].
  inversion HF; subst. apply IH; [assumption|]. rewrite length_vmax. lia.
Qed.
Lemma fold_vmax_nth n d : forall cols v, Forall (fun c => length c = n) cols -> length v = n -> (d < n)%nat ->
  nth d (fold_left vmax cols v) 0 = fold_left mstep (map (fun c => nth d c 0) cols) (nth d v 0).
Proof.
  induction cols as [|c cols IH]; intros v HF Hv Hd; cbn; [reflexivity|].
  inversion HF; subst. rewrite IH; [|assumption|rewrite length_vmax; lia|assumption].
  rewrite nth_vmax by lia. reflexivity.
Qed.

Lemma length_vsum n cols : Forall (fun c => length c = n) cols -> length (vsum cols n) = n.
Proof. intros. apply fold_vadd_len; [assumption|apply length_qzeros]. Qed.
Lemma nth_vsum n cols d : Forall (fun c => length c = n) cols -> (d < n)%nat ->
  nth d (vsum cols n) 0 = qsum_list (map (fun c => nth d c 0) cols).
Proof.
  intros. unfold vsum. rewrite (fold_vadd_nth n) by (assumption || apply length_qzeros).
  rewrite nth_qzeros. reflexivity.
Qed.

Lemma length_count_pos cols n : length (count_pos cols n) = n.
Proof. unfold count_pos. rewrite map_length, seq_length. reflexivity. Qed.
Lemma filter_map_length {A B} (g : A -> B) (p : B -> bool) l :
  length (filter (fun x => p (g x)) l) = length (filter p (map g l)).
Proof. induction l as [|x l IH]; cbn; [reflexivity|]. destruct (p (g x)); cbn; congruence. Qed.
Lemma nth_count_pos cols n d : (d < n)%nat ->
  nth d (count_pos cols n) O = length (filter qpos (map (fun c => nth d c 0) cols)).
Proof.
  intros. unfold count_pos. rewrite nth_map_seq by assumption.
  apply (filter_map_length (fun c => nth d c 0) qpos).
Qed.

(* the "kept iff enough positive terms" vector *)
Definition mm_gate (msm : Z) (sums : list Q) (cnt : list nat) : list Q :=
  map (fun p => if (msm <=? Z.of_nat (snd p))%Z then fst p else 0) (combine sums cnt).
Lemma length_mm_gate msm n cols : Forall (fun c => length c = n) cols ->
  length (mm_gate msm (vsum cols n) (count_pos cols n)) = n.
Proof.
  intros. unfold mm_gate. rewrite map_length, combine_length, length_vsum, length_count_pos by assumption. lia.
Qed.
Lemma nth_mm_gate msm n cols d : Forall (fun c => length c = n) cols -> (d < n)%nat ->
  nth d (mm_gate msm (vsum cols n) (count_pos cols n)) 0 =
  let vals := map (fun c => nth d c 0) cols in
  if (msm <=? Z.of_nat (length (filter qpos vals)))%Z then qsum_list vals else 0.
Proof.
  intros HF Hd. unfold mm_gate.
  rewrite (nth_map_combine _ 0 O) by (rewrite ?length_vsum, ?length_count_pos; assumption).
  cbn [fst snd]. rewrite nth_vsum, nth_count_pos by assumption. reflexivity.
Qed.

(* ------------------------------------------------------------------------------------------ *)
(* Qeq compatibility and order facts                                                            *)
(* ------------------------------------------------------------------------------------------ *)
Lemma qpos_comp x y : x == y -> qpos x = qpos y.
Proof. intros E. unfold qpos. rewrite E. reflexivity. Qed.
Lemma qpos_true x : qpos x = true <-> 0 < x.
Proof.
  unfold qpos. rewrite negb_true_iff. split; intros H.
  - apply Qnot_le_lt. intros C. apply Qle_bool_iff in C. congruence.
  - destruct (Qle_bool x 0) eqn:E; [|reflexivity]. apply Qle_bool_iff in E. exfalso. lra.
Qed.
Lemma qpos_false x : qpos x = false <-> x <= 0.
Proof.
  unfold qpos. rewrite negb_false_iff. apply Qle_bool_iff.
Qed.

Lemma filter_qpos_comp l l' : Forall2 Qeq l l' -> length (filter qpos l) = length (filter qpos l').
Proof.
  induction 1 as [|x y l l' E HF IH]; cbn; [reflexivity|].
  rewrite (qpos_comp x y E). destruct (qpos y); cbn; congruence.
Qed.
Lemma fold_qplus_comp l l' : Forall2 Qeq l l' -> forall a a', a == a' -> fold_left Qplus l a == fold_left Qplus l' a'.
Proof.
  induction 1 as [|x y l l' E HF IH]; intros a a' Ea; cbn; [exact Ea|].
  apply IH. rewrite E, Ea. reflexivity.
Qed.

Lemma mstep_nonneg a x : 0 <= a -> 0 <= mstep a x.
Proof.
  intros H. unfold mstep. destruct (Qle_bool a x) eqn:E; [|exact H].
  apply Qle_bool_iff in E. lra.
Qed.
Lemma max_le_sum : forall l a s, Forall (fun x => 0 <= x) l -> 0 <= a -> a <= s ->
  0 <= fold_left mstep l a /\ fold_left mstep l a <= fold_left Qplus l s.
Proof.
  induction l as [|x l IH]; intros a s HF Ha Has; cbn; [split; assumption|].
  inversion HF; subst. apply IH; [assumption|apply mstep_nonneg; assumption|].
  unfold mstep. destruct (Qle_bool a x); lra.
Qed.
Lemma qsum_nonneg l : Forall (fun x => 0 <= x) l -> 0 <= qsum_list l.
Proof.
  intros HF. destruct (max_le_sum l 0 0 HF) as [A B]; try lra. unfold qsum_list. lra.
Qed.
Lemma dismax_nonneg tie l : 0 <= tie -> Forall (fun x => 0 <= x) l -> 0 <= dismax tie l.
Proof.
  intros Ht HF. destruct (max_le_sum l 0 0 HF) as [A B]; try lra.
  unfold dismax, qmax_list, qsum_list. fold mstep.
  set (M := fold_left mstep l 0) in *. set (S := fold_left Qplus l 0) in *.
  assert (0 <= tie * (S - M)) by (apply Qmult_le_0_compat; lra). lra.
Qed.
Lemma qmax_cons_nonneg x l : 0 <= x -> qmax_list (x :: l) = fold_left mstep l x.
Proof.
  intros H. unfold qmax_list. cbn [fold_left]. apply Qle_bool_iff in H. rewrite H. reflexivity.
Qed.

(* ------------------------------------------------------------------------------------------ *)
(* per-field term scores (the inner loop of all_scores)                                         *)
(* ------------------------------------------------------------------------------------------ *)
Section TS.
Variables (idf : idf_table) (fi : nat) (a : sarray) (bo : option Z).
Fixpoint term_scores (ts : list N) : api (list (list Q)) :=
  match ts with
  | [] => AOk []
  | t :: r => ado sc <- boosted_scores idf fi a bo [t]; ado more <- term_scores r; AOk (sc :: more)
  end.

Lemma term_scores_nth : forall ts P p t, term_scores ts = AOk P -> nth_error ts p = Some t ->
  boosted_scores idf fi a bo [t] = AOk (nth p P []).
Proof.
  induction ts as [|t0 ts IH]; intros P p t H Hp; [destruct p; discriminate|].
  cbn [term_scores] in H. apply abind_ok in H as (sc & Hsc & H). apply abind_ok in H as (more & Hm & H).
  injection H as <-. destruct p as [|p]; cbn in Hp |- *.
  - injection Hp as <-. exact Hsc.
  - eapply IH; eassumption.
Qed.

Lemma term_scores_all (P : list Q -> Prop) : forall ts S, term_scores ts = AOk S ->
  (forall t sc, boosted_scores idf fi a bo [t] = AOk sc -> P sc) ->
  length S = length ts /\ Forall P S.
Proof.
  induction ts as [|t0 ts IH]; intros S H HP; cbn [term_scores] in H.
  - injection H as <-. split; [reflexivity|constructor].
  - apply abind_ok in H as (sc & Hsc & H). apply abind_ok in H as (more & Hm & H). injection H as <-.
    destruct (IH _ Hm HP) as [L F]. split; [cbn; congruence|]. constructor; [eapply HP; eassumption|exact F].
Qed.

(* term_scores succeeds as soon as every single call does *)
Lemma term_scores_succeeds : forall ts,
  (forall p t, nth_error ts p = Some t -> exists sc, boosted_scores idf fi a bo [t] = AOk sc) ->
  exists S, term_scores ts = AOk S.
Proof.
  induction ts as [|t0 ts IH]; intros H; cbn [term_scores]; [eauto|].
  destruct (H O t0 eq_refl) as [sc Hsc]. rewrite Hsc. cbn [abind].
  destruct IH as [S HS]; [intros p t Hp; apply (H (S p) t Hp)|]. rewrite HS. cbn. eauto.
Qed.
End TS.

Lemma all_scores_cons idf fi f rest b :
  all_scores idf fi (f :: rest) b =
  ado per_term <- term_scores idf fi (ef_arr f) (if b then ef_boost f else None) (ef_terms f);
  ado others <- all_scores idf (S fi) rest b;
  AOk (per_term :: others).
Proof. reflexivity. Qed.

Lemma fc_term_scores_eq idf fi a ts : fc_term_scores idf fi a ts = term_scores idf fi a None ts.
Proof. induction ts as [|t ts IH]; cbn; [reflexivity|]. rewrite IH. reflexivity. Qed.

Lemma all_scores_inv idf (P : list Q -> Prop) b : forall fields fi S,
  all_scores idf fi fields b = AOk S ->
  (forall f, In f fields -> forall fi t sc,
     boosted_scores idf fi (ef_arr f) (if b then ef_boost f else None) [t] = AOk sc -> P sc) ->
  Forall2 (fun f Sf => length Sf = length (ef_terms f) /\ Forall P Sf) fields S.
Proof.
  induction fields as [|f rest IH]; intros fi S H HP.
  - cbn in H. injection H as <-. constructor.
  - rewrite all_scores_cons in H. apply abind_ok in H as (pt & Hpt & H).
    apply abind_ok in H as (others & Ho & H). injection H as <-. constructor.
    + eapply term_scores_all; [exact Hpt|]. intros t sc. apply HP. left. reflexivity.
    + eapply IH; [exact Ho|]. intros f' Hf'. apply HP. right. exact Hf'.
Qed.

(* ------------------------------------------------------------------------------------------ *)
(* well-formed queries                                                                          *)
(* ------------------------------------------------------------------------------------------ *)
Definition boostQ (f : efield) : Q :=
  match ef_boost f with
  | None => 1
  | Some bb => Q_of_f32 (BM25.f32_of_f64 (Flocq.IEEE754.Bits.b64_of_bits bb))
  end.

Record wf_query (idf : idf_table) (n : nat) (q : equery) : Prop := {
  (* every field's array has n rows *)
  wf_rows : forall f, In f (eq_fields q) -> nrows (ef_arr f) = n;
  (* HYPOTHESIS (not derived from the BM25 model): score vectors of those arrays have length n *)
  wf_len : forall fi f b ts sc, In f (eq_fields q) ->
             boosted_scores idf fi (ef_arr f) b ts = AOk sc -> length sc = n;
  (* HYPOTHESIS: BM25 single-term scores (with the field's boost, or unboosted) are non-negative *)
  wf_nonneg : forall fi f b t sc, In f (eq_fields q) -> (b = ef_boost f \/ b = None) ->
             boosted_scores idf fi (ef_arr f) b [t] = AOk sc -> Forall (fun x => 0 <= x) sc;
  (* every field has at least one query term, at most NMAX (the float-exact range of mm) *)
  wf_terms : forall f, In f (eq_fields q) ->
             (1 <= Z.of_nat (length (ef_terms f)) <= NMAX)%Z;
  (* the field boost (a multiplier in the field-centric path) is non-negative *)
  wf_boost : forall f, In f (eq_fields q) -> 0 <= boostQ f;
  wf_tie : 0 <= eq_tie q;
  wf_mm : spec_in_range (eq_mm q);
}.

(* ---- parse_query_terms: what is_term_centric = true means ---- *)
Lemma term_centric_counts fields :
  (forall f, In f fields -> (1 <= length (ef_terms f))%nat) ->
  is_term_centric fields = true ->
  forall f, In f fields -> length (ef_terms f) = num_search_terms fields.
Proof.
  unfold is_term_centric, num_search_terms.
  destruct fields as [|f0 rest]; intros _ H f Hf; [contradiction|].
  destruct Hf as [<-|Hf]; [reflexivity|].
  rewrite forallb_forall in H. apply Nat.eqb_eq. apply H. exact Hf.
Qed.

Lemma num_search_terms_nil : num_search_terms [] = O.
Proof. reflexivity. Qed.

(* ------------------------------------------------------------------------------------------ *)
(* C09, term-centric path                                                                       *)
(* ------------------------------------------------------------------------------------------ *)
Definition acc_cols (cols : list (list Q)) (ms : list Q * list Q) : list Q * list Q :=
  fold_left (fun ms c => (vmax (fst ms) c, vadd (snd ms) c)) cols ms.
Definition tscore (tie : Q) (ms : list Q * list Q) : list Q :=
  vadd (fst ms) (vscale (vadd (snd ms) (vscale (fst ms) (-1))) tie).
Definition Scol (p : nat) (S : list (list (list Q))) : list (list Q) := map (fun Sf => nth p Sf []) S.

Lemma acc_cols_len n : forall cols mx sm, Forall (fun c => length c = n) cols -> length mx = n -> length sm = n ->
  length (fst (acc_cols cols (mx, sm))) = n /\ length (snd (acc_cols cols (mx, sm))) = n.
Proof.
  induction cols as [|c cols IH]; intros mx sm HF Hm Hs; unfold acc_cols; cbn [fold_left fst snd]; [split; assumption|].
  inversion HF; subst. apply IH; [assumption|rewrite length_vmax; lia|rewrite length_vadd; lia].
Qed.
Lemma acc_cols_nth n d : forall cols mx sm, Forall (fun c => length c = n) cols -> length mx = n -> length sm = n ->
  (d < n)%nat ->
  nth d (fst (acc_cols cols (mx, sm))) 0 = fold_left mstep (map (fun c => nth d c 0) cols) (nth d mx 0) /\
  nth d (snd (acc_cols cols (mx, sm))) 0 = fold_left Qplus (map (fun c => nth d c 0) cols) (nth d sm 0).
Proof.
  induction cols as [|c cols IH]; intros mx sm HF Hm Hs Hd; unfold acc_cols; cbn [fold_left fst snd map]; [split; reflexivity|].
  inversion HF; subst. unfold acc_cols in IH.
  destruct (IH (vmax mx c) (vadd sm c)) as [A B]; try assumption;
    [rewrite length_vmax; lia|rewrite length_vadd; lia|].
  rewrite A, B, nth_vmax, nth_vadd by lia. split; reflexivity.
Qed.

Lemma length_tscore n tie ms : length (fst ms) = n -> length (snd ms) = n -> length (tscore tie ms) = n.
Proof.
  intros A B. unfold tscore. rewrite length_vadd, length_vscale, length_vadd, length_vscale. lia.
Qed.
Lemma nth_tscore n tie cols d : Forall (fun c => length c = n) cols -> (d < n)%nat ->
  nth d (tscore tie (acc_cols cols (qzeros n, qzeros n))) 0 == dismax tie (map (fun c => nth d c 0) cols).
Proof.
  intros HF Hd.
  destruct (acc_cols_len n cols (qzeros n) (qzeros n) HF (length_qzeros n) (length_qzeros n)) as [L1 L2].
  destruct (acc_cols_nth n d cols (qzeros n) (qzeros n) HF (length_qzeros n) (length_qzeros n) Hd) as [N1 N2].
  unfold tscore.
  rewrite nth_vadd; [|lia|rewrite length_vscale, length_vadd, length_vscale; lia].
  rewrite nth_vscale by (rewrite length_vadd, length_vscale; lia).
  rewrite nth_vadd by (rewrite ?length_vscale; lia).
  rewrite nth_vscale by lia.
  rewrite N1, N2, nth_qzeros. unfold dismax, qmax_list, qsum_list. fold mstep. ring.
Qed.

Section TC.
Variables (idf : idf_table) (n : nat).

Lemma tc_fields_ok p : forall fields fi S mx sm,
  all_scores idf fi fields true = AOk S ->
  (forall f, In f fields -> (p < length (ef_terms f))%nat) ->
  tc_fields idf fi fields p mx sm = AOk (acc_cols (Scol p S) (mx, sm)).
Proof.
  induction fields as [|f rest IH]; intros fi S mx sm H Hp.
  - cbn in H. injection H as <-. reflexivity.
  - rewrite all_scores_cons in H. apply abind_ok in H as (pt & Hpt & H).
    apply abind_ok in H as (others & Ho & H). injection H as <-.
    cbn [tc_fields]. destruct (nth_error (ef_terms f) p) as [t|] eqn:E.
    + rewrite (term_scores_nth _ _ _ _ _ _ p t Hpt E). cbn [abind].
      rewrite (IH _ _ _ _ Ho) by (intros f' Hf'; apply Hp; right; exact Hf'). reflexivity.
    + apply nth_error_None in E. specialize (Hp f (or_introl eq_refl)). lia.
Qed.

Lemma tc_terms_ok fields tie S : all_scores idf 0 fields true = AOk S ->
  forall ps, (forall p, In p ps -> forall f, In f fields -> (p < length (ef_terms f))%nat) ->
  tc_terms idf fields n tie ps =
  AOk (map (fun p => tscore tie (acc_cols (Scol p S) (qzeros n, qzeros n))) ps).
Proof.
  intros HS. induction ps as [|p ps IH]; intros Hp; [reflexivity|].
  cbn [tc_terms]. rewrite (tc_fields_ok p _ _ _ _ _ HS) by (apply Hp; left; reflexivity). cbn [abind].
  destruct (acc_cols (Scol p S) (qzeros n, qzeros n)) as [mx sm] eqn:E.
  rewrite IH by (intros p' Hp'; apply Hp; right; exact Hp'). cbn [abind map]. rewrite E. reflexivity.
Qed.

(* tc_fields' success does not depend on the accumulators *)
Lemma tc_fields_shape p : forall fields fi mx sm mx' sm' r,
  tc_fields idf fi fields p mx sm = AOk r -> exists r', tc_fields idf fi fields p mx' sm' = AOk r'.
Proof.
  induction fields as [|f rest IH]; intros fi mx sm mx' sm' r H; cbn [tc_fields] in *; [eauto|].
  destruct (nth_error (ef_terms f) p) as [t|]; [|discriminate].
  destruct (boosted_scores idf fi (ef_arr f) (ef_boost f) [t]); cbn [abind] in *; try discriminate.
  eapply IH. exact H.
Qed.

(* conversely: if the term-major loop succeeds for every position, the field-major loop succeeds *)
Lemma all_scores_succeeds nt : forall fields fi,
  (forall f, In f fields -> length (ef_terms f) = nt) ->
  (forall p, (p < nt)%nat -> exists r, tc_fields idf fi fields p (qzeros n) (qzeros n) = AOk r) ->
  exists S, all_scores idf fi fields true = AOk S.
Proof.
  induction fields as [|f rest IH]; intros fi Hlen H; [cbn; eauto|].
  rewrite all_scores_cons.
  destruct (term_scores_succeeds idf fi (ef_arr f) (ef_boost f) (ef_terms f)) as [pt Hpt].
  { intros p t Hp. assert (Hlt : (p < nt)%nat).
    { rewrite <- (Hlen f (or_introl eq_refl)). apply nth_error_Some. congruence. }
    destruct (H p Hlt) as [r Hr]. cbn [tc_fields] in Hr. rewrite Hp in Hr.
    destruct (boosted_scores idf fi (ef_arr f) (ef_boost f) [t]); cbn [abind] in Hr; try discriminate. eauto. }
  rewrite Hpt. cbn [abind].
  destruct (IH (S fi)) as [S HS].
  - intros f' Hf'. apply Hlen. right. exact Hf'.
  - intros p Hlt. destruct (H p Hlt) as [r Hr]. cbn [tc_fields] in Hr.
    destruct (nth_error (ef_terms f) p) as [t|]; [|discriminate].
    destruct (boosted_scores idf fi (ef_arr f) (ef_boost f) [t]); cbn [abind] in Hr; try discriminate.
    eapply tc_fields_shape. exact Hr.
  - rewrite HS. cbn. eauto.
Qed.

Lemma tc_terms_inv fields tie : forall ps ts, tc_terms idf fields n tie ps = AOk ts ->
  forall p, In p ps -> exists r, tc_fields idf 0 fields p (qzeros n) (qzeros n) = AOk r.
Proof.
  induction ps as [|p0 ps IH]; intros ts H p Hp; [contradiction|].
  cbn [tc_terms] in H. apply abind_ok in H as ([mx sm] & Hms & H).
  apply abind_ok in H as (others & Ho & _).
  destruct Hp as [<-|Hp]; [eauto|]. eapply IH; eassumption.
Qed.

End TC.

Lemma term_centric_unfold idf fields n nt mm tie :
  term_centric idf fields n nt mm tie =
  ado ts <- tc_terms idf fields n tie (seq 0 nt);
  AOk (mm_gate (mm_f64 (Z.of_nat nt) mm) (vsum ts n) (count_pos ts n)).
Proof. reflexivity. Qed.

Lemma Forall2_all_len (P : list Q -> Prop) k fl Sl :
  Forall2 (fun f Sf => length Sf = length (ef_terms f) /\ Forall P Sf) fl Sl ->
  (forall f, In f fl -> length (ef_terms f) = k) ->
  Forall (fun Sf : list (list Q) => length Sf = k /\ Forall P Sf) Sl.
Proof.
  induction 1 as [|f Sf fl Sl [L F] HF2 IH]; intros Hall; constructor.
  - split; [rewrite L; apply Hall; left; reflexivity|exact F].
  - apply IH. intros f' Hf'. apply Hall. right. exact Hf'.
Qed.

(* all single-term calls of the query-field phase succeed (spec order: field-major) *)
Definition qf_calls_ok (idf : idf_table) (q : equery) : Prop :=
  exists S, all_scores idf 0 (eq_fields q) (is_term_centric (eq_fields q)) = AOk S.

Section TCmain.
Variables (idf : idf_table) (n : nat) (q : equery).
Hypothesis WF : wf_query idf n q.
Hypothesis TC : is_term_centric (eq_fields q) = true.
Let fields := eq_fields q.
Let nt := num_search_terms fields.

Lemma tc_all_nt : forall f, In f fields -> length (ef_terms f) = nt.
Proof.
  apply term_centric_counts; [|exact TC]. intros f Hf. pose proof (wf_terms _ _ _ WF f Hf). lia.
Qed.

Lemma tc_nt_range : (0 <= Z.of_nat nt <= NMAX)%Z.
Proof.
  assert (K : forall f, In f fields -> (Z.of_nat nt <= NMAX)%Z).
  { intros f Hf. rewrite <- (tc_all_nt f Hf). pose proof (wf_terms _ _ _ WF f Hf). lia. }
  split; [lia|]. revert K. unfold nt, fields. destruct (eq_fields q) as [|f0 rest].
  - intros _. cbn. unfold NMAX. lia.
  - intros K. apply (K f0). left. reflexivity.
Qed.

(* the result when every call succeeds *)
Lemma term_centric_ok S : all_scores idf 0 fields true = AOk S ->
  exists r, term_centric idf fields n nt (eq_mm q) (eq_tie q) = AOk r /\
            veq r (map (term_centric_spec S nt (eq_mm q) (eq_tie q)) (seq 0 n)).
Proof.
  intros HS. rewrite term_centric_unfold.
  rewrite (tc_terms_ok idf n fields (eq_tie q) S HS).
  2:{ intros p Hp f Hf. rewrite (tc_all_nt f Hf). apply in_seq in Hp. lia. }
  cbn [abind]. eexists. split; [reflexivity|].
  set (ts := map _ (seq 0 nt)).
  (* shapes *)
  assert (HS2 : Forall (fun Sf => length Sf = nt /\ Forall (fun sc => length sc = n) Sf) S).
  { pose proof (all_scores_inv idf (fun sc => length sc = n) true fields 0 S HS) as HI.
    assert (HP : forall f, In f fields -> forall fi t sc,
               boosted_scores idf fi (ef_arr f) (if true then ef_boost f else None) [t] = AOk sc -> length sc = n).
    { intros f Hf fi t sc Hsc. eapply (wf_len _ _ _ WF); eassumption. }
    specialize (HI HP). clear HP.
    eapply Forall2_all_len; [exact HI|exact tc_all_nt]. }
  assert (Hcols : forall p, (p < nt)%nat -> Forall (fun c => length c = n) (Scol p S)).
  { intros p Hp. unfold Scol. apply Forall_forall. intros c Hc. apply in_map_iff in Hc as (Sf & <- & HSf).
    rewrite Forall_forall in HS2. destruct (HS2 Sf HSf) as [L F]. rewrite Forall_forall in F.
    apply F. apply nth_In. lia. }
  assert (Hts : Forall (fun c => length c = n) ts).
  { unfold ts. apply Forall_forall. intros c Hc. apply in_map_iff in Hc as (p & <- & Hp). apply in_seq in Hp.
    destruct (acc_cols_len n (Scol p S) (qzeros n) (qzeros n)) as [A B];
      [apply Hcols; lia|apply length_qzeros|apply length_qzeros|].
    apply length_tscore; assumption. }
  apply veq_map_seq; [apply length_mm_gate; exact Hts|].
  intros d Hd. rewrite nth_mm_gate by assumption. cbv zeta.
  unfold term_centric_spec. cbv zeta.
  destruct (mm_f64_is_solr (Z.of_nat nt) (eq_mm q) tc_nt_range (wf_mm _ _ _ WF)) as [-> _].
  set (mv := map (fun c => nth d c 0) ts).
  set (sv := map (fun p => dismax (eq_tie q) (map (fun Sf => at_doc (nth p Sf []) d) S)) (seq 0 nt)).
  assert (Hv : Forall2 Qeq mv sv).
  { unfold mv, sv, ts. rewrite map_map. apply Forall2_map_same. intros p Hp. apply in_seq in Hp.
    rewrite (nth_tscore n) by (try apply Hcols; lia).
    unfold Scol. rewrite map_map. reflexivity. }
  rewrite (filter_qpos_comp _ _ Hv).
  destruct (solr_mm (Z.of_nat nt) (eq_mm q) <=? Z.of_nat (length (filter qpos sv)))%Z; [|reflexivity].
  unfold qsum_list. apply fold_qplus_comp; [exact Hv|reflexivity].
Qed.

Lemma qf_spec_tc : qf_spec idf n q =
  ado S <- all_scores idf 0 fields true;
  AOk (map (term_centric_spec S nt (eq_mm q) (eq_tie q)) (seq 0 n)).
Proof. unfold qf_spec, nt, fields. rewrite TC. reflexivity. Qed.

(* C09, term-centric: exact agreement when every boosted_scores call succeeds *)
Theorem term_centric_is_spec_ok : qf_calls_ok idf q ->
  api_veq (term_centric idf fields n nt (eq_mm q) (eq_tie q)) (qf_spec idf n q).
Proof.
  intros [S HS]. rewrite TC in HS. fold fields in HS.
  destruct (term_centric_ok S HS) as (r & Hr & Hv). rewrite Hr, qf_spec_tc, HS. exact Hv.
Qed.

(* C09, term-centric, no success hypothesis: same vector, or both fail *)
Theorem term_centric_is_spec_weak :
  api_veq_weak (term_centric idf fields n nt (eq_mm q) (eq_tie q)) (qf_spec idf n q).
Proof.
  destruct (all_scores idf 0 fields true) as [S| | |] eqn:HS.
  - apply api_veq_weaken. apply term_centric_is_spec_ok. exists S. rewrite TC. exact HS.
  - rewrite qf_spec_tc, HS. cbn [abind].
    destruct (term_centric idf fields n nt (eq_mm q) (eq_tie q)) as [r| | |] eqn:Hr; cbn; auto.
    exfalso. unfold term_centric in Hr. apply abind_ok in Hr as (ts & Hts & _).
    destruct (all_scores_succeeds idf n nt fields 0 tc_all_nt) as [S' HS'].
    { intros p Hp. eapply tc_terms_inv; [exact Hts|]. apply in_seq. lia. }
    congruence.
  - rewrite qf_spec_tc, HS. cbn [abind].
    destruct (term_centric idf fields n nt (eq_mm q) (eq_tie q)) as [r| | |] eqn:Hr; cbn; auto.
    exfalso. unfold term_centric in Hr. apply abind_ok in Hr as (ts & Hts & _).
    destruct (all_scores_succeeds idf n nt fields 0 tc_all_nt) as [S' HS'].
    { intros p Hp. eapply tc_terms_inv; [exact Hts|]. apply in_seq. lia. }
    congruence.
  - rewrite qf_spec_tc, HS. cbn [abind].
    destruct (term_centric idf fields n nt (eq_mm q) (eq_tie q)) as [r| | |] eqn:Hr; cbn; auto.
    exfalso. unfold term_centric in Hr. apply abind_ok in Hr as (ts & Hts & _).
    destruct (all_scores_succeeds idf n nt fields 0 tc_all_nt) as [S' HS'].
    { intros p Hp. eapply tc_terms_inv; [exact Hts|]. apply in_seq. lia. }
    congruence.
Qed.
End TCmain.

(* ------------------------------------------------------------------------------------------ *)
(* C09, field-centric path (same call order in model and spec: exceptions agree exactly)        *)
(* ------------------------------------------------------------------------------------------ *)
Definition fc_vec (n : nat) (mm : mmspec) (f : efield) (ts : list (list Q)) : list Q :=
  let nt := length (ef_terms f) in
  vscale (mm_gate (Z.min (mm_f64 (Z.of_nat nt) mm) (Z.of_nat nt)) (vsum ts n) (count_pos ts n)) (boostQ f).

Lemma fc_fields_eq idf n mm : forall fields fi,
  fc_fields idf fi fields n mm =
  ado S <- all_scores idf fi fields false;
  AOk (map (fun fS => fc_vec n mm (fst fS) (snd fS)) (combine fields S)).
Proof.
  induction fields as [|f rest IH]; intros fi; [reflexivity|].
  cbn [fc_fields]. rewrite all_scores_cons, fc_term_scores_eq.
  destruct (term_scores idf fi (ef_arr f) None (ef_terms f)) as [ts| | |]; cbn [abind]; try reflexivity.
  rewrite IH. destruct (all_scores idf (S fi) rest false) as [S| | |]; cbn [abind]; reflexivity.
Qed.

Lemma nth_vmax_all n cols d : Forall (fun c => length c = n) cols -> (d < n)%nat ->
  (forall c, In c cols -> 0 <= nth d c 0) ->
  nth d (vmax_all cols n) 0 = qmax_list (map (fun c => nth d c 0) cols).
Proof.
  intros HF Hd Hnn. destruct cols as [|c rest]; cbn [vmax_all map].
  - apply nth_qzeros.
  - inversion HF; subst. rewrite (fold_vmax_nth (length c)) by auto.
    rewrite qmax_cons_nonneg by (apply Hnn; left; reflexivity). reflexivity.
Qed.
Lemma length_vmax_all n cols : Forall (fun c => length c = n) cols -> length (vmax_all cols n) = n.
Proof.
  intros HF. destruct cols as [|c rest]; cbn [vmax_all]; [apply length_qzeros|].
  inversion HF; subst. apply fold_vmax_len; auto.
Qed.

Section FCmain.
Variables (idf : idf_table) (n : nat) (q : equery).
Hypothesis WF : wf_query idf n q.
Hypothesis FC : is_term_centric (eq_fields q) = false.
Let fields := eq_fields q.

Theorem field_centric_is_spec :
  api_veq (field_centric idf fields n (eq_mm q) (eq_tie q)) (qf_spec idf n q).
Proof.
  unfold qf_spec, field_centric. rewrite FC. fold fields. rewrite fc_fields_eq.
  destruct (all_scores idf 0 fields false) as [S| | |] eqn:HS; cbn [abind]; unfold api_veq; cbn [api_rel]; auto.
  set (fs := map _ (combine fields S)).
  pose proof (all_scores_inv idf (fun sc => length sc = n /\ Forall (fun x => 0 <= x) sc) false fields 0 S HS) as HI.
  assert (HP : forall f, In f fields -> forall fi t sc,
             boosted_scores idf fi (ef_arr f) (if false then ef_boost f else None) [t] = AOk sc ->
             length sc = n /\ Forall (fun x => 0 <= x) sc).
  { intros f Hf fi t sc Hsc. split.
    - eapply (wf_len _ _ _ WF); eassumption.
    - eapply (wf_nonneg _ _ _ WF); [exact Hf|right; reflexivity|exact Hsc]. }
  specialize (HI HP). clear HP.
  (* facts about every (field, scores) pair *)
  assert (Hpair : forall f Sf, In (f, Sf) (combine fields S) ->
            In f fields /\ Forall (fun c => length c = n) Sf /\
            forall d, Forall (fun x => 0 <= x) (map (fun c => nth d c 0) Sf)).
  { intros f Sf Hin. split; [eapply in_combine_l; exact Hin|].
    destruct (Forall2_combine_in _ _ _ _ _ HI Hin) as [_ F]. rewrite Forall_forall in F. split.
    - apply Forall_forall. intros c Hc. apply (F c Hc).
    - intros d. apply Forall_forall. intros x Hx. apply in_map_iff in Hx as (c & <- & Hc).
      destruct (F c Hc) as [L NN]. destruct (Nat.lt_ge_cases d (length c)) as [Hlt|Hge].
      + rewrite Forall_forall in NN. apply NN. apply nth_In. exact Hlt.
      + rewrite nth_overflow by exact Hge. lra. }
  assert (Hfs : Forall (fun c => length c = n) fs).
  { unfold fs. apply Forall_forall. intros c Hc. apply in_map_iff in Hc as ([f Sf] & <- & Hin).
    cbn [fst snd]. unfold fc_vec. rewrite length_vscale. apply length_mm_gate. apply (Hpair f Sf Hin). }
  (* pointwise: the model's per-field value is the spec's *)
  assert (Hval : forall d, (d < n)%nat ->
            map (fun c => nth d c 0) fs =
            map (fun fS : efield * list (list Q) => let '(f, Sf) := fS in
                   let vals := map (fun v => at_doc v d) Sf in
                   let nt := length (ef_terms f) in
                   let need := Z.min (solr_mm (Z.of_nat nt) (eq_mm q)) (Z.of_nat nt) in
                   let b := match ef_boost f with
                            | None => 1
                            | Some bb => Q_of_f32 (BM25.f32_of_f64 (Flocq.IEEE754.Bits.b64_of_bits bb)) end in
                   (if (need <=? Z.of_nat (length (filter qpos vals)))%Z then qsum_list vals else 0) * b)
                (combine fields S)).
  { intros d Hd. unfold fs. rewrite map_map. apply map_ext_in. intros [f Sf] Hin. cbn [fst snd].
    destruct (Hpair f Sf Hin) as (Hf & HL & _).
    unfold fc_vec. rewrite nth_vscale by (rewrite length_mm_gate; assumption).
    rewrite nth_mm_gate by assumption. cbv zeta.
    assert (R : (0 <= Z.of_nat (length (ef_terms f)) <= NMAX)%Z) by (pose proof (wf_terms _ _ _ WF f Hf); lia).
    destruct (mm_f64_is_solr _ (eq_mm q) R (wf_mm _ _ _ WF)) as [-> _]. reflexivity. }
  apply veq_map_seq.
  - rewrite length_vadd, length_vscale, length_vadd, length_vscale, length_vmax_all, length_vsum by assumption. lia.
  - intros d Hd.
    assert (Hnn : forall c, In c fs -> 0 <= nth d c 0).
    { intros c Hc. assert (Hx : In (nth d c 0) (map (fun c => nth d c 0) fs)) by (exact (in_map (fun c => nth d c 0) fs c Hc)).
      rewrite (Hval d Hd) in Hx. apply in_map_iff in Hx as ([f Sf] & Hx & Hin). rewrite <- Hx.
      destruct (Hpair f Sf Hin) as (Hf & _ & NN). specialize (NN d).
      apply Qmult_le_0_compat; [|exact (wf_boost _ _ _ WF f Hf)].
      match goal with |- 0 <= (if ?c then _ else _) => destruct c end; [|lra].
      apply qsum_nonneg. exact NN. }
    rewrite nth_vadd;
      [|rewrite length_vmax_all by assumption; lia
       |rewrite length_vscale, length_vadd, length_vscale, length_vmax_all, length_vsum by assumption; lia].
    rewrite nth_vscale by (rewrite length_vadd, length_vscale, length_vmax_all, length_vsum by assumption; lia).
    rewrite nth_vadd by (rewrite ?length_vscale, ?length_vmax_all, ?length_vsum by assumption; lia).
    rewrite nth_vscale by (rewrite length_vmax_all by assumption; lia).
    rewrite nth_vmax_all, nth_vsum by assumption.
    unfold field_centric_spec. pose proof (Hval d Hd) as E. cbv zeta in E. rewrite <- E. unfold dismax. ring.
Qed.
End FCmain.

(* ------------------------------------------------------------------------------------------ *)
(* non-negativity of the spec's query-field score                                               *)
(* ------------------------------------------------------------------------------------------ *)
Lemma nth_nonneg sc d : Forall (fun x => 0 <= x) sc -> 0 <= nth d sc 0.
Proof.
  intros F. destruct (Nat.lt_ge_cases d (length sc)) as [Hlt|Hge].
  - rewrite Forall_forall in F. apply F. apply nth_In. exact Hlt.
  - rewrite nth_overflow by exact Hge. lra.
Qed.
Lemma nth_nth_nonneg (Sf : list (list Q)) p d : Forall (fun sc => Forall (fun x => 0 <= x) sc) Sf -> 0 <= nth d (nth p Sf []) 0.
Proof.
  intros F. apply nth_nonneg. destruct (Nat.lt_ge_cases p (length Sf)) as [Hlt|Hge].
  - rewrite Forall_forall in F. apply F. apply nth_In. exact Hlt.
  - rewrite nth_overflow by exact Hge. constructor.
Qed.

Lemma qf_spec_facts idf n q v : wf_query idf n q -> qf_spec idf n q = AOk v ->
  length v = n /\ forall d, (d < n)%nat -> 0 <= nth d v 0.
Proof.
  intros WF H. unfold qf_spec in H. destruct (is_term_centric (eq_fields q)) eqn:TC.
  - apply abind_ok in H as (S & HS & H). injection H as <-. split; [rewrite map_length, seq_length; reflexivity|].
    intros d Hd. rewrite nth_map_seq by exact Hd.
    pose proof (all_scores_inv idf (fun sc => Forall (fun x => 0 <= x) sc) true (eq_fields q) 0 S HS) as HI.
    assert (HP : forall f, In f (eq_fields q) -> forall fi t sc,
               boosted_scores idf fi (ef_arr f) (if true then ef_boost f else None) [t] = AOk sc ->
               Forall (fun x => 0 <= x) sc).
    { intros f Hf fi t sc Hsc. eapply (wf_nonneg _ _ _ WF); [exact Hf|left; reflexivity|exact Hsc]. }
    specialize (HI HP). clear HP.
    assert (HS2 : Forall (fun Sf => Forall (fun sc => Forall (fun x => 0 <= x) sc) Sf) S).
    { clear -HI. induction HI as [|f Sf fl Sl [_ F] _ IH]; constructor; assumption. }
    unfold term_centric_spec.
    match goal with |- 0 <= (if ?c then _ else _) => destruct c end; [|lra].
    apply qsum_nonneg. apply Forall_forall. intros x Hx. apply in_map_iff in Hx as (p & <- & _).
    apply dismax_nonneg; [exact (wf_tie _ _ _ WF)|].
    apply Forall_forall. intros y Hy. apply in_map_iff in Hy as (Sf & <- & HSf).
    unfold at_doc. apply nth_nth_nonneg. rewrite Forall_forall in HS2. apply HS2. exact HSf.
  - apply abind_ok in H as (S & HS & H). injection H as <-. split; [rewrite map_length, seq_length; reflexivity|].
    intros d Hd. rewrite nth_map_seq by exact Hd.
    pose proof (all_scores_inv idf (fun sc => Forall (fun x => 0 <= x) sc) false (eq_fields q) 0 S HS) as HI.
    assert (HP : forall f, In f (eq_fields q) -> forall fi t sc,
               boosted_scores idf fi (ef_arr f) (if false then ef_boost f else None) [t] = AOk sc ->
               Forall (fun x => 0 <= x) sc).
    { intros f Hf fi t sc Hsc. eapply (wf_nonneg _ _ _ WF); [exact Hf|right; reflexivity|exact Hsc]. }
    specialize (HI HP). clear HP.
    unfold field_centric_spec. apply dismax_nonneg; [exact (wf_tie _ _ _ WF)|].
    apply Forall_forall. intros x Hx. apply in_map_iff in Hx as ([f Sf] & <- & Hin).
    destruct (Forall2_combine_in _ _ _ _ _ HI Hin) as [_ F].
    apply Qmult_le_0_compat; [|exact (wf_boost _ _ _ WF f (in_combine_l _ _ _ _ Hin))].
    match goal with |- 0 <= (if ?c then _ else _) => destruct c end; [|lra].
    apply qsum_nonneg. apply Forall_forall. intros y Hy. apply in_map_iff in Hy as (sc & <- & Hsc).
    unfold at_doc. apply nth_nonneg. rewrite Forall_forall in F. apply F. exact Hsc.
Qed.

(* ------------------------------------------------------------------------------------------ *)
(* positions_where, scatter_add                                                                 *)
(* ------------------------------------------------------------------------------------------ *)
Lemma positions_where_in : forall l i x,
  In x (positions_where i l) <->
  exists d, x = (i + N.of_nat d)%N /\ (d < length l)%nat /\ qpos (nth d l 0) = true.
Proof.
  induction l as [|x0 t IH]; intros i x; cbn [positions_where].
  - split; [intros []|]. intros (d & _ & Hd & _). cbn in Hd. lia.
  - assert (T : In x (positions_where (N.succ i) t) <->
                exists d, x = (i + N.of_nat (S d))%N /\ (S d < length (x0 :: t))%nat /\ qpos (nth (S d) (x0 :: t) 0) = true).
    { rewrite IH. split; intros (d & E & Hd & Hq); exists d; cbn [length nth] in *; (split; [lia|split; [lia|exact Hq]]). }
    destruct (qpos x0) eqn:Q0; cbn [In]; rewrite ?T; split.
    + intros [<-|(d & E)]; [exists O; cbn; split; [lia|split; [lia|exact Q0]]|exists (S d); exact E].
    + intros ([|d] & E & Hd & Hq); [left; lia|right; exists d; auto].
    + intros (d & E). exists (S d). exact E.
    + intros ([|d] & E & Hd & Hq); [cbn in Hq; congruence|exists d; auto].
Qed.

Lemma positions_where_sorted : forall l i, StronglySorted N.lt (positions_where i l).
Proof.
  induction l as [|x0 t IH]; intros i; cbn [positions_where]; [constructor|].
  destruct (qpos x0); [|apply IH]. constructor; [apply IH|].
  apply Forall_forall. intros y Hy. apply positions_where_in in Hy as (d & -> & _). lia.
Qed.

Lemma positions_where_lt l : Forall (fun i => (N.to_nat i < length l)%nat) (positions_where 0 l).
Proof.
  apply Forall_forall. intros y Hy. apply positions_where_in in Hy as (d & -> & Hd & _). lia.
Qed.

Lemma positions_where_veq a b : veq a b -> forall i, positions_where i a = positions_where i b.
Proof.
  induction 1 as [|x y a b E HF IH]; intros i; cbn [positions_where]; [reflexivity|].
  rewrite (qpos_comp x y E), !IH. reflexivity.
Qed.

Lemma sorted_nodup l : StronglySorted N.lt l -> NoDup l.
Proof.
  induction 1 as [|x l HS IH HF]; constructor; [|exact IH].
  intros Hin. rewrite Forall_forall in HF. specialize (HF x Hin). lia.
Qed.

Definition upd (qf : list Q) (i : nat) (v : Q) : list Q := firstn i qf ++ v :: skipn (S i) qf.

Lemma upd_facts : forall qf i v, (i < length qf)%nat ->
  length (upd qf i v) = length qf /\ nth i (upd qf i v) 0 = v /\
  forall d, d <> i -> nth d (upd qf i v) 0 = nth d qf 0.
Proof.
  induction qf as [|x qf IH]; intros i v Hi; cbn [length] in Hi; [lia|].
  destruct i as [|i].
  - unfold upd. cbn. split; [reflexivity|split; [reflexivity|]]. intros [|d] Hd; [lia|reflexivity].
  - destruct (IH i v) as (A & B & C); [lia|].
    change (upd (x :: qf) (S i) v) with (x :: upd qf i v). cbn [length nth].
    split; [congruence|split; [exact B|]]. intros [|d] Hd; [reflexivity|]. apply C. lia.
Qed.

Lemma scatter_add_cons qf i it v vt :
  scatter_add qf (i :: it) (v :: vt) =
  scatter_add (upd qf (N.to_nat i) (nth (N.to_nat i) qf 0 + v)) it vt.
Proof. reflexivity. Qed.

Lemma scatter_len : forall pos vals qf, Forall (fun i => (N.to_nat i < length qf)%nat) pos ->
  length (scatter_add qf pos vals) = length qf.
Proof.
  induction pos as [|i it IH]; intros [|v vt] qf HF; try reflexivity.
  rewrite scatter_add_cons. inversion HF as [|? ? Hi HF']; subst.
  destruct (upd_facts qf (N.to_nat i) (nth (N.to_nat i) qf 0 + v) Hi) as (L & _ & _).
  rewrite IH by (rewrite L; exact HF'). exact L.
Qed.

Lemma scatter_out : forall pos vals qf d, Forall (fun i => (N.to_nat i < length qf)%nat) pos ->
  ~ In (N.of_nat d) pos -> nth d (scatter_add qf pos vals) 0 = nth d qf 0.
Proof.
  induction pos as [|i it IH]; intros [|v vt] qf d HF Hnin; try reflexivity.
  rewrite scatter_add_cons. inversion HF as [|? ? Hi HF']; subst.
  destruct (upd_facts qf (N.to_nat i) (nth (N.to_nat i) qf 0 + v) Hi) as (L & _ & O).
  rewrite IH; [|rewrite L; exact HF'|intros C; apply Hnin; right; exact C].
  apply O. intros ->. apply Hnin. left. lia.
Qed.

Lemma scatter_in : forall pos vals qf k, NoDup pos -> Forall (fun i => (N.to_nat i < length qf)%nat) pos ->
  length vals = length pos -> (k < length pos)%nat ->
  nth (N.to_nat (nth k pos 0%N)) (scatter_add qf pos vals) 0 =
  nth (N.to_nat (nth k pos 0%N)) qf 0 + nth k vals 0.
Proof.
  induction pos as [|i it IH]; intros [|v vt] qf k ND HF HL Hk; cbn [length] in *; try lia.
  rewrite scatter_add_cons. inversion HF as [|? ? Hi HF']; subst. inversion ND as [|? ? Hni ND']; subst.
  destruct (upd_facts qf (N.to_nat i) (nth (N.to_nat i) qf 0 + v) Hi) as (L & Sm & O).
  destruct k as [|k]; cbn [nth].
  - rewrite scatter_out; [exact Sm|rewrite L; exact HF'|rewrite N2Nat.id; exact Hni].
  - rewrite IH; [|exact ND'|rewrite L; exact HF'|lia|lia].
    rewrite O; [reflexivity|]. intros C. apply N2Nat.inj in C. apply Hni. rewrite <- C. apply nth_In. lia.
Qed.

Lemma select_all_ok pos : forall fields,
  (forall f, In f fields -> exists v, select (ef_arr f) pos = AOk v) ->
  exists views, select_all fields pos = AOk views.
Proof.
  induction fields as [|f rest IH]; intros H; cbn [select_all]; [eauto|].
  destruct (H f (or_introl eq_refl)) as [v Hv]. rewrite Hv. cbn [abind].
  destruct IH as [vs Hvs]; [intros f' Hf'; apply H; right; exact Hf'|]. rewrite Hvs. cbn. eauto.
Qed.

Lemma select_all_nth pos : forall fields views, select_all fields pos = AOk views -> forall i,
  match nth_error fields i with
  | Some f => exists v, nth_error views i = Some v /\ select (ef_arr f) pos = AOk v
  | None => nth_error views i = None
  end.
Proof.
  induction fields as [|f rest IH]; intros views H i; cbn [select_all] in H.
  - injection H as <-. destruct i; reflexivity.
  - apply abind_ok in H as (v & Hv & H). apply abind_ok in H as (vs & Hvs & H). injection H as <-.
    destruct i as [|i]; cbn [nth_error]; [eauto|]. apply IH. exact Hvs.
Qed.

(* ------------------------------------------------------------------------------------------ *)
(* C10: phrase phases on the views = gather of the whole-frame phases                           *)
(* ------------------------------------------------------------------------------------------ *)
Definition qgather (sc : list Q) (pos : list N) : list Q := map (fun i => nth (N.to_nat i) sc 0) pos.

Section Phase.
Variables (idf : idf_table) (n : nat) (fields : list efield) (pos : list N) (views : list sarray).
Variable specs_all : list phase_spec.
Let m := length pos.
Hypothesis Hlen : forall fi f b ts sc, In f fields ->
  boosted_scores idf fi (ef_arr f) b ts = AOk sc -> length sc = n.
Hypothesis Hpos : Forall (fun i => (N.to_nat i < n)%nat) pos.
Hypothesis Hviews : select_all fields pos = AOk views.
Hypothesis Hcomm : forall sp f v ts, In sp specs_all -> nth_error fields (ph_field sp) = Some f ->
  select (ef_arr f) pos = AOk v ->
  boosted_scores idf (ph_field sp) v (ph_boost sp) ts =
  ado sc <- boosted_scores idf (ph_field sp) (ef_arr f) (ph_boost sp) ts; AOk (qgather sc pos).

Definition posn (k : nat) : nat := N.to_nat (nth k pos 0%N).
Lemma posn_lt k : (k < m)%nat -> (posn k < n)%nat.
Proof. intros Hk. rewrite Forall_forall in Hpos. apply Hpos. apply nth_In. exact Hk. Qed.

(* accumulated phase: model (on the views, None = nothing added yet) vs spec (whole frame) *)
Definition PR (o : option (list Q)) (v : list Q) : Prop :=
  length v = n /\
  match o with
  | None => forall k, (k < m)%nat -> nth (posn k) v 0 == 0
  | Some w => length w = m /\ forall k, (k < m)%nat -> nth k w 0 == nth (posn k) v 0
  end.
Definition IR (v a a2 : list Q) : Prop :=
  length a = m /\ length a2 = n /\
  forall k, (k < m)%nat -> nth (posn k) a2 0 == nth (posn k) v 0 + nth k a 0.

Lemma inner_rel f vw fi b v : In f fields ->
  (forall ts, boosted_scores idf fi vw b ts =
              ado sc <- boosted_scores idf fi (ef_arr f) b ts; AOk (qgather sc pos)) ->
  forall shs accm accs, api_rel (IR v) accm accs ->
  api_rel (IR v)
    (fold_left (fun acc sh => ado a <- acc; ado sc <- boosted_scores idf fi vw b sh; AOk (vadd a sc)) shs accm)
    (fold_left (fun acc2 sh => ado a2 <- acc2; ado sc <- boosted_scores idf fi (ef_arr f) b sh; AOk (vadd a2 sc)) shs accs).
Proof.
  intros Hf Hc. induction shs as [|sh shs IH]; intros accm accs H; cbn [fold_left]; [exact H|].
  apply IH. eapply api_rel_bind; [exact H|]. intros a a2 (La & La2 & Hk).
  rewrite Hc. destruct (boosted_scores idf fi (ef_arr f) b sh) as [sc| | |] eqn:E; cbn; auto.
  pose proof (Hlen _ _ _ _ _ Hf E) as Lsc.
  assert (Lg : length (qgather sc pos) = m) by apply map_length.
  split; [rewrite length_vadd; lia|]. split; [rewrite length_vadd; lia|].
  intros k Hk'. pose proof (posn_lt k Hk') as Hp.
  rewrite !nth_vadd by lia. rewrite (Hk k Hk').
  unfold qgather. rewrite (nth_map_lt _ 0%N) by exact Hk'. fold (posn k). ring.
Qed.

Lemma phase_rel kind : forall specs, (forall sp, In sp specs -> In sp specs_all) ->
  forall accm accs, api_rel PR accm accs ->
  api_rel PR
    (fold_left (fun acc sp =>
               ado a <- acc;
               match nth_error fields (ph_field sp), nth_error views (ph_field sp) with
               | Some f, Some v =>
                   let ts := ef_terms f in
                   let shs := match kind with
                              | 1%nat => if Nat.ltb (length ts) 2 then [] else [ts]
                              | 2%nat => shingles2 ts
                              | _ => shingles3 ts
                              end in
                   match shs with
                   | [] => AOk a
                   | _ =>
                       ado sc <- phase_field idf (ph_field sp) v (ph_boost sp) shs m;
                       AOk (Some (match a with None => sc | Some prev => vadd prev sc end))
                   end
               | _, _ => AExc KeyError
               end) specs accm)
    (fold_left (fun acc sp =>
               ado a <- acc;
               match nth_error fields (ph_field sp) with
               | Some f =>
                   let ts := ef_terms f in
                   let shs := match kind with
                              | 1%nat => if Nat.ltb (length ts) 2 then [] else [ts]
                              | 2%nat => shingles2 ts
                              | _ => shingles3 ts end in
                   fold_left (fun acc2 sh => ado a2 <- acc2;
                                             ado sc <- boosted_scores idf (ph_field sp) (ef_arr f) (ph_boost sp) sh;
                                             AOk (vadd a2 sc)) shs (AOk a)
               | None => AExc KeyError
               end) specs accs).
Proof.
  induction specs as [|sp specs IH]; intros Hin accm accs H; cbn [fold_left]; [exact H|].
  apply IH; [intros sp' Hsp'; apply Hin; right; exact Hsp'|].
  eapply api_rel_bind; [exact H|]. intros o v HPR.
  pose proof (select_all_nth pos fields views Hviews (ph_field sp)) as Hn.
  destruct (nth_error fields (ph_field sp)) as [f|] eqn:Ef; [|reflexivity].
  destruct Hn as (vw & Ev & Hsel). rewrite Ev. cbv zeta.
  destruct (match kind with
            | 1%nat => if Nat.ltb (length (ef_terms f)) 2 then [] else [ef_terms f]
            | 2%nat => shingles2 (ef_terms f)
            | _ => shingles3 (ef_terms f) end) as [|sh shs]; [exact HPR|].
  assert (Hf : In f fields) by (eapply nth_error_In; exact Ef).
  destruct HPR as [Lv HPR].
  unfold phase_field.
  match goal with |- api_rel _ (abind ?X _) ?Y => assert (HI : api_rel (IR v) X Y) end.
  { apply (inner_rel f vw); [exact Hf| |].
    - intros ts. apply Hcomm; [apply Hin; left; reflexivity|exact Ef|exact Hsel].
    - cbn. split; [apply length_qzeros|]. split; [exact Lv|]. intros k Hk. rewrite nth_qzeros. ring. }
  match goal with |- api_rel _ (abind ?X _) ?Y => destruct X as [a| | |], Y as [a2| | |] end;
    cbn in HI |- *; try contradiction; auto.
  destruct HI as (La & La2 & Hk). split; [exact La2|].
  destruct o as [prev|].
  - destruct HPR as [Lp HPR]. split; [rewrite length_vadd; lia|]. intros k Hk'.
    rewrite nth_vadd by lia. rewrite (Hk k Hk'), (HPR k Hk'). reflexivity.
  - split; [exact La|]. intros k Hk'. rewrite (Hk k Hk'), (HPR k Hk'). ring.
Qed.

Lemma run_phase_rel kind specs : (forall sp, In sp specs -> In sp specs_all) ->
  api_rel PR (run_phase idf fields views kind specs m) (phase_frame idf fields kind specs n).
Proof.
  intros Hin. unfold run_phase, phase_frame. apply phase_rel; [exact Hin|].
  cbn. split; [apply length_qzeros|]. intros k Hk. apply nth_qzeros_eq.
Qed.
End Phase.

(* ------------------------------------------------------------------------------------------ *)
(* assembling edismax                                                                           *)
(* ------------------------------------------------------------------------------------------ *)
Definition sadd (pos : list N) (o : option (list Q)) (x : list Q) : list Q :=
  match o with None => x | Some sc => scatter_add x pos sc end.

Definition edismax_tail (idf : idf_table) (n : nat) (q : equery) (qf : list Q) : api (list Q) :=
  let fields := eq_fields q in
  let pos := positions_where 0%N qf in
  ado views <- select_all fields pos;
  let m := length pos in
  ado p1 <- run_phase idf fields views 1 (eq_pf q) m;
  ado p2 <- run_phase idf fields views 2 (eq_pf2 q) m;
  ado p3 <- run_phase idf fields views 3 (eq_pf3 q) m;
  AOk (sadd pos p3 (sadd pos p2 (sadd pos p1 qf))).

Definition qf_model (idf : idf_table) (n : nat) (q : equery) : api (list Q) :=
  if is_term_centric (eq_fields q)
  then term_centric idf (eq_fields q) n (num_search_terms (eq_fields q)) (eq_mm q) (eq_tie q)
  else field_centric idf (eq_fields q) n (eq_mm q) (eq_tie q).

Lemma edismax_unfold idf n q : edismax idf n q = ado qf <- qf_model idf n q; edismax_tail idf n q qf.
Proof. reflexivity. Qed.

Definition spec_tail (idf : idf_table) (n : nat) (q : equery) (qf : list Q) : api (list Q) :=
  ado p1 <- phase_frame idf (eq_fields q) 1 (eq_pf q) n;
  ado p2 <- phase_frame idf (eq_fields q) 2 (eq_pf2 q) n;
  ado p3 <- phase_frame idf (eq_fields q) 3 (eq_pf3 q) n;
  AOk (map (fun d => let s := nth d qf 0 in
                     if qpos s then s + nth d p1 0 + nth d p2 0 + nth d p3 0 else 0) (seq 0 n)).
Lemma edismax_spec_unfold idf n q : edismax_spec idf n q = ado qf <- qf_spec idf n q; spec_tail idf n q qf.
Proof. reflexivity. Qed.

(* every view selection succeeds (true e.g. when a_avoid_copies = true, see select_avoid_copies_ok) *)
Definition select_ok (n : nat) (q : equery) : Prop :=
  forall f pos, In f (eq_fields q) -> StronglySorted N.lt pos -> Forall (fun i => (N.to_nat i < n)%nat) pos ->
  exists v, select (ef_arr f) pos = AOk v.

Lemma select_avoid_copies_ok a pos : a_avoid_copies a = true -> exists v, select a pos = AOk v.
Proof. intros H. unfold select. rewrite H. cbn [abind]. eauto. Qed.

(* view scores = whole-frame scores gathered at the selected rows, for the calls the phases make *)
Definition phase_specs (q : equery) : list phase_spec := eq_pf q ++ eq_pf2 q ++ eq_pf3 q.
Definition view_commutes (idf : idf_table) (n : nat) (q : equery) : Prop :=
  forall sp f ts pos v, In sp (phase_specs q) -> nth_error (eq_fields q) (ph_field sp) = Some f ->
    select (ef_arr f) pos = AOk v -> StronglySorted N.lt pos -> Forall (fun i => (N.to_nat i < n)%nat) pos ->
    boosted_scores idf (ph_field sp) v (ph_boost sp) ts =
    ado sc <- boosted_scores idf (ph_field sp) (ef_arr f) (ph_boost sp) ts; AOk (qgather sc pos).

Section Tail.
Variables (idf : idf_table) (n : nat) (q : equery).
Hypothesis WF : wf_query idf n q.
Hypothesis SEL : select_ok n q.
Hypothesis COMM : view_commutes idf n q.

Lemma sadd_len pos o x v : PR n pos o v -> Forall (fun i => (N.to_nat i < n)%nat) pos -> length x = n ->
  length (sadd pos o x) = n.
Proof.
  intros [_ H] Hp Lx. destruct o as [w|]; cbn [sadd]; [|exact Lx].
  rewrite scatter_len; [exact Lx|rewrite Lx; exact Hp].
Qed.
Lemma sadd_out pos o x v d : PR n pos o v -> Forall (fun i => (N.to_nat i < n)%nat) pos -> length x = n ->
  ~ In (N.of_nat d) pos -> nth d (sadd pos o x) 0 = nth d x 0.
Proof.
  intros [_ H] Hp Lx Hn. destruct o as [w|]; cbn [sadd]; [|reflexivity].
  apply scatter_out; [rewrite Lx; exact Hp|exact Hn].
Qed.
Lemma sadd_in pos o x v k : PR n pos o v -> NoDup pos -> Forall (fun i => (N.to_nat i < n)%nat) pos ->
  length x = n -> (k < length pos)%nat ->
  nth (posn pos k) (sadd pos o x) 0 == nth (posn pos k) x 0 + nth (posn pos k) v 0.
Proof.
  intros [_ H] ND Hp Lx Hk. destruct o as [w|]; cbn [sadd].
  - destruct H as [Lw H]. unfold posn. rewrite scatter_in; [|exact ND|rewrite Lx; exact Hp|exact Lw|exact Hk].
    rewrite (H k Hk). reflexivity.
  - rewrite (H k Hk). ring.
Qed.

Lemma tail_rel qf qf' : veq qf qf' -> length qf' = n -> (forall d, (d < n)%nat -> 0 <= nth d qf' 0) ->
  api_veq (edismax_tail idf n q qf) (spec_tail idf n q qf').
Proof.
  intros Hv Ln Hnn. pose proof (veq_length _ _ Hv) as Lq. rewrite Ln in Lq.
  unfold edismax_tail. cbv zeta. set (pos := positions_where 0%N qf).
  assert (Hsorted : StronglySorted N.lt pos) by apply positions_where_sorted.
  assert (Hlt : Forall (fun i => (N.to_nat i < n)%nat) pos).
  { unfold pos. rewrite <- Lq. apply positions_where_lt. }
  destruct (select_all_ok pos (eq_fields q)) as [views Hviews].
  { intros f Hf. apply SEL; assumption. }
  rewrite Hviews. cbn [abind]. unfold spec_tail.
  assert (RP : forall kind specs, (forall sp, In sp specs -> In sp (phase_specs q)) ->
            api_rel (PR n pos) (run_phase idf (eq_fields q) views kind specs (length pos))
                               (phase_frame idf (eq_fields q) kind specs n)).
  { intros kind specs Hin. apply (run_phase_rel idf n (eq_fields q) pos views (phase_specs q)); try assumption.
    - exact (wf_len _ _ _ WF).
    - intros sp f v ts Hsp Ef Hsel. apply COMM; assumption. }
  unfold api_veq.
  eapply api_rel_bind; [apply RP; intros sp Hsp; unfold phase_specs; apply in_or_app; left; exact Hsp|].
  intros o1 v1 H1.
  eapply api_rel_bind; [apply RP; intros sp Hsp; unfold phase_specs; apply in_or_app; right; apply in_or_app; left; exact Hsp|].
  intros o2 v2 H2.
  eapply api_rel_bind; [apply RP; intros sp Hsp; unfold phase_specs; apply in_or_app; right; apply in_or_app; right; exact Hsp|].
  intros o3 v3 H3. cbn [api_rel].
  pose proof (sadd_len pos o1 qf v1 H1 Hlt Lq) as L1.
  pose proof (sadd_len pos o2 _ v2 H2 Hlt L1) as L2.
  pose proof (sadd_len pos o3 _ v3 H3 Hlt L2) as L3.
  apply veq_map_seq; [exact L3|]. intros d Hd. cbv zeta.
  pose proof (veq_nth_inv _ _ Hv d) as Ed.
  destruct (in_dec N.eq_dec (N.of_nat d) pos) as [Hin|Hnin].
  - destruct (In_nth _ _ 0%N Hin) as (k & Hk & Ek).
    assert (Epk : posn pos k = d) by (unfold posn; rewrite Ek; apply Nat2N.id).
    pose proof (sorted_nodup _ Hsorted) as ND.
    pose proof (sadd_in pos o3 _ v3 k H3 ND Hlt L2 Hk) as E3.
    pose proof (sadd_in pos o2 _ v2 k H2 ND Hlt L1 Hk) as E2.
    pose proof (sadd_in pos o1 _ v1 k H1 ND Hlt Lq Hk) as E1.
    rewrite Epk in E1, E2, E3. rewrite E3, E2, E1.
    apply positions_where_in in Hin as (d' & Ed' & _ & Hq). assert (d' = d) by lia. subst d'.
    rewrite <- (qpos_comp _ _ Ed), Hq. rewrite Ed. reflexivity.
  - rewrite (sadd_out pos o3 _ v3 d H3 Hlt L2 Hnin), (sadd_out pos o2 _ v2 d H2 Hlt L1 Hnin),
            (sadd_out pos o1 _ v1 d H1 Hlt Lq Hnin).
    destruct (qpos (nth d qf 0)) eqn:Hq.
    + exfalso. apply Hnin. apply positions_where_in. exists d. split; [lia|]. split; [lia|exact Hq].
    + rewrite <- (qpos_comp _ _ Ed), Hq. apply qpos_false in Hq. specialize (Hnn d Hd). lra.
Qed.

(* the query-field part is a parameter: any model computation agreeing with qf_spec *)
Lemma edismax_core qfm : api_veq qfm (qf_spec idf n q) ->
  api_veq (ado qf <- qfm; edismax_tail idf n q qf) (edismax_spec idf n q).
Proof.
  intros H. rewrite edismax_spec_unfold.
  destruct (qf_spec idf n q) as [qf'| | |] eqn:E; destruct qfm as [qf| | |];
    unfold api_veq in *; cbn [api_rel abind] in H |- *; try contradiction; auto.
  destruct (qf_spec_facts idf n q qf' WF E) as [Ln Hnn]. apply tail_rel; assumption.
Qed.
End Tail.

(* ------------------------------------------------------------------------------------------ *)
(* main theorems                                                                                *)
(* ------------------------------------------------------------------------------------------ *)
(* C09, query-field score, both paths (term-centric needs all calls to succeed: its call order
   is term-major while the spec's is field-major, so the FIRST failing call may differ) *)
Theorem qf_model_is_spec idf n q : wf_query idf n q ->
  (is_term_centric (eq_fields q) = true -> qf_calls_ok idf q) ->
  api_veq (qf_model idf n q) (qf_spec idf n q).
Proof.
  intros WF OK. unfold qf_model. destruct (is_term_centric (eq_fields q)) eqn:TC.
  - apply term_centric_is_spec_ok; auto.
  - apply field_centric_is_spec; auto.
Qed.
Theorem qf_model_is_spec_weak idf n q : wf_query idf n q ->
  api_veq_weak (qf_model idf n q) (qf_spec idf n q).
Proof.
  intros WF. unfold qf_model. destruct (is_term_centric (eq_fields q)) eqn:TC.
  - apply term_centric_is_spec_weak; auto.
  - apply api_veq_weaken. apply field_centric_is_spec; auto.
Qed.

(* the forms asked for: explicit fields / mm / tie and a query record without phrase fields *)
Definition mkq (fields : list efield) (mm : mmspec) (tie : Q) : equery :=
  {| eq_fields := fields; eq_mm := mm; eq_tie := tie; eq_pf := []; eq_pf2 := []; eq_pf3 := [] |}.

Theorem term_centric_is_spec idf n fields mm tie :
  wf_query idf n (mkq fields mm tie) -> is_term_centric fields = true ->
  (exists S, all_scores idf 0 fields true = AOk S) ->
  api_veq (term_centric idf fields n (num_search_terms fields) mm tie) (qf_spec idf n (mkq fields mm tie)).
Proof.
  intros WF TC [S HS]. apply (term_centric_is_spec_ok idf n (mkq fields mm tie) WF TC).
  exists S. cbn [eq_fields mkq]. rewrite TC. exact HS.
Qed.
Theorem term_centric_is_spec_both_fail idf n fields mm tie :
  wf_query idf n (mkq fields mm tie) -> is_term_centric fields = true ->
  api_veq_weak (term_centric idf fields n (num_search_terms fields) mm tie) (qf_spec idf n (mkq fields mm tie)).
Proof. intros WF TC. exact (term_centric_is_spec_weak idf n (mkq fields mm tie) WF TC). Qed.
Theorem field_centric_is_spec' idf n fields mm tie :
  wf_query idf n (mkq fields mm tie) -> is_term_centric fields = false ->
  api_veq (field_centric idf fields n mm tie) (qf_spec idf n (mkq fields mm tie)).
Proof. intros WF FC. exact (field_centric_is_spec idf n (mkq fields mm tie) WF FC). Qed.

Theorem C09_no_phrases idf n q : wf_query idf n q ->
  (is_term_centric (eq_fields q) = true -> qf_calls_ok idf q) -> select_ok n q ->
  eq_pf q = [] -> eq_pf2 q = [] -> eq_pf3 q = [] ->
  api_veq (edismax idf n q) (edismax_spec idf n q).
Proof.
  intros WF OK SEL E1 E2 E3. rewrite edismax_unfold. apply edismax_core; try assumption.
  - intros sp f ts pos v Hsp. unfold phase_specs in Hsp. rewrite E1, E2, E3 in Hsp. destruct Hsp.
  - apply qf_model_is_spec; assumption.
Qed.

(* the commutation hypothesis in the form of C06 (any field index, boost, terms) *)
Definition view_commutes_all (idf : idf_table) (n : nat) (q : equery) : Prop :=
  forall fi f b ts pos v, In f (eq_fields q) -> select (ef_arr f) pos = AOk v ->
    StronglySorted N.lt pos -> Forall (fun i => (N.to_nat i < n)%nat) pos ->
    boosted_scores idf fi v b ts =
    ado sc <- boosted_scores idf fi (ef_arr f) b ts; AOk (map (fun i => nth (N.to_nat i) sc 0) pos).

Lemma view_commutes_all_restrict idf n q : view_commutes_all idf n q -> view_commutes idf n q.
Proof.
  intros H sp f ts pos v _ Ef Hsel Hs Hl. apply (H (ph_field sp) f (ph_boost sp) ts pos v); try assumption.
  eapply nth_error_In. exact Ef.
Qed.

Theorem C10_phrase_boosts idf n q : wf_query idf n q ->
  (is_term_centric (eq_fields q) = true -> qf_calls_ok idf q) -> select_ok n q ->
  view_commutes_all idf n q ->
  api_veq (edismax idf n q) (edismax_spec idf n q).
Proof.
  intros WF OK SEL COMM. rewrite edismax_unfold. apply edismax_core; try assumption.
  - apply view_commutes_all_restrict. exact COMM.
  - apply qf_model_is_spec; assumption.
Qed.

(* without any success hypothesis on the query-field calls: same vector or both fail *)
Theorem C10_phrase_boosts_weak idf n q : wf_query idf n q -> select_ok n q -> view_commutes_all idf n q ->
  api_veq_weak (edismax idf n q) (edismax_spec idf n q).
Proof.
  intros WF SEL COMM. pose proof (qf_model_is_spec_weak idf n q WF) as HW.
  destruct (qf_spec idf n q) as [qf'| | |] eqn:E.
  1:{ apply api_veq_weaken. rewrite edismax_unfold. apply edismax_core; try assumption.
      - apply view_commutes_all_restrict. exact COMM.
      - rewrite E. destruct (qf_model idf n q); cbn in HW |- *; try contradiction; exact HW. }
  all: rewrite edismax_unfold, edismax_spec_unfold, E;
       destruct (qf_model idf n q); cbn in HW |- *; try contradiction; exact I.
Qed.

(* positions whose query-field score is zero keep score zero *)
Corollary C10_zero_stays_zero idf n q : wf_query idf n q ->
  (is_term_centric (eq_fields q) = true -> qf_calls_ok idf q) -> select_ok n q ->
  view_commutes_all idf n q ->
  forall qf r d, qf_spec idf n q = AOk qf -> edismax idf n q = AOk r -> (d < n)%nat ->
  nth d qf 0 == 0 -> nth d r 0 == 0.
Proof.
  intros WF OK SEL COMM qf r d Hqf Hr Hd Hz.
  pose proof (C10_phrase_boosts idf n q WF OK SEL COMM) as H.
  rewrite Hr, edismax_spec_unfold, Hqf in H. cbn [abind] in H. unfold spec_tail in H.
  destruct (phase_frame idf (eq_fields q) 1 (eq_pf q) n) as [p1| | |]; cbn in H; try contradiction.
  destruct (phase_frame idf (eq_fields q) 2 (eq_pf2 q) n) as [p2| | |]; cbn in H; try contradiction.
  destruct (phase_frame idf (eq_fields q) 3 (eq_pf3 q) n) as [p3| | |]; cbn in H; try contradiction.
  rewrite (veq_nth_inv _ _ H d), nth_map_seq by exact Hd. cbv zeta.
  assert (Q0 : qpos (nth d qf 0) = false) by (apply qpos_false; lra). rewrite Q0. reflexivity.
Qed.

(* ------------------------------------------------------------------------------------------ *)
(* shingles: each adjacent pair / triple exactly once                                           *)
(* ------------------------------------------------------------------------------------------ *)
Lemma shingles2_spec : forall ts,
  shingles2 ts = map (fun i => [nth i ts 0%N; nth (S i) ts 0%N]) (seq 0 (length ts - 1)).
Proof.
  induction ts as [|a t IH]; [reflexivity|].
  destruct t as [|b t']; [reflexivity|].
  change (shingles2 (a :: b :: t')) with ([a; b] :: shingles2 (b :: t')). rewrite IH.
  replace (length (a :: b :: t') - 1)%nat with (S (length (b :: t') - 1)) by (cbn [length]; lia).
  rewrite <- cons_seq, <- seq_shift. cbn [map]. rewrite map_map. reflexivity.
Qed.
Lemma shingles3_spec : forall ts,
  shingles3 ts = map (fun i => [nth i ts 0%N; nth (S i) ts 0%N; nth (S (S i)) ts 0%N]) (seq 0 (length ts - 2)).
Proof.
  induction ts as [|a t IH]; [reflexivity|].
  destruct t as [|b [|c t']]; [reflexivity|reflexivity|].
  change (shingles3 (a :: b :: c :: t')) with ([a; b; c] :: shingles3 (b :: c :: t')). rewrite IH.
  replace (length (a :: b :: c :: t') - 2)%nat with (S (length (b :: c :: t') - 2)) by (cbn [length]; lia).
  rewrite <- cons_seq, <- seq_shift. cbn [map]. rewrite map_map. reflexivity.
Qed.
Lemma shingles2_short ts : (length ts < 2)%nat -> shingles2 ts = [].
Proof. destruct ts as [|a [|b t]]; cbn; intros; try reflexivity; lia. Qed.
Lemma shingles3_short ts : (length ts < 3)%nat -> shingles3 ts = [].
Proof. destruct ts as [|a [|b [|c t]]]; cbn; intros; try reflexivity; lia. Qed.
Lemma shingles2_length ts : length (shingles2 ts) = (length ts - 1)%nat.
Proof. rewrite shingles2_spec, map_length, seq_length. reflexivity. Qed.
Lemma shingles3_length ts : length (shingles3 ts) = (length ts - 2)%nat.
Proof. rewrite shingles3_spec, map_length, seq_length. reflexivity. Qed.

(* q_op = AND is mm = "100%": all terms required *)
Theorem and_is_100pct : forall n, (0 <= n <= NMAX)%Z -> mm_f64 n (Simple (SPct 100)) = n.
Proof.
  intros n Hn. destruct (mm_f64_is_solr n (Simple (SPct 100)) Hn) as [-> _].
  - cbn; unfold PMAX; lia.
  - cbn [solr_mm s_simple]. change (100 <? 0)%Z with false. cbv iota. rewrite Z.div_mul by lia. lia.
Qed.

(* ------------------------------------------------------------------------------------------ *)
(* evaluation checks: agreement on small frames, and why the side conditions are there          *)
(* ------------------------------------------------------------------------------------------ *)
Module Checks.
Definition veqb (a b : list Q) : bool :=
  Nat.eqb (length a) (length b) && forallb (fun p => Qeq_bool (fst p) (snd p)) (combine a b).
Definition api_veqb (x y : api (list Q)) : bool :=
  match x, y with
  | AOk a, AOk b => veqb a b
  | AExc e, AExc e' => match e, e' with
                       | ValueError, ValueError | KeyError, KeyError | TypeError, TypeError
                       | IndexError, IndexError | TermMissing, TermMissing => true
                       | _, _ => false end
  | AFault _ b i, AFault _ b' i' => N.eqb b b' && N.eqb i i'
  | AFuel, AFuel => true
  | _, _ => false
  end.
Definition empty_ix := {| ix_terms := []; ix_posts := []; ix_lens := [] |}.
Definition arr (ix : api sindex) := match ix with AOk i => of_index i true | _ => of_index empty_ix true end.
Definition a1 := arr (index false 100 [[1;2];[2];[1;1;3];[3;1;2;3]]%N).
Definition a2 := arr (index false 100 [[2;1];[1;2;3];[3];[1;2]]%N).
Definition I0 := 4604418534313441775%Z.
Definition TWO := 4611686018427387904%Z.        (* 2.0 *)
Definition MINUS_TWO := 13835058055282163712%Z. (* -2.0 *)
Definition idf : idf_table :=
  [(0%nat,[1%N],I0);(1%nat,[1%N],I0);(0%nat,[2%N],I0);(1%nat,[2%N],I0);(0%nat,[1%N;2%N],I0);(1%nat,[1%N;2%N],I0)].
Definition F a b ts := {| ef_arr := a; ef_boost := b; ef_terms := ts |}.
Definition P i b := {| ph_field := i; ph_boost := b |}.

(* term-centric, boosts, all three phrase phases: model = spec *)
Definition q_tc := {| eq_fields := [F a1 None [1;2]%N; F a2 (Some TWO) [1;2]%N]; eq_mm := Simple (SPct 100);
                      eq_tie := 1 # 10; eq_pf := [P 0 None]; eq_pf2 := [P 1 (Some TWO)]; eq_pf3 := [P 0 None] |}.
Example check_tc : is_term_centric (eq_fields q_tc) = true /\
                   api_veqb (edismax idf 4 q_tc) (edismax_spec idf 4 q_tc) = true.
Proof. vm_compute. split; reflexivity. Qed.
(* field-centric (different term counts), boosts, phrase phases: model = spec *)
Definition q_fc := {| eq_fields := [F a1 None [1;2]%N; F a2 (Some TWO) [1]%N]; eq_mm := Simple (SPct 50);
                      eq_tie := 1 # 10; eq_pf := [P 0 None]; eq_pf2 := [P 0 (Some TWO)]; eq_pf3 := [P 0 None] |}.
Example check_fc : is_term_centric (eq_fields q_fc) = false /\
                   api_veqb (edismax idf 4 q_fc) (edismax_spec idf 4 q_fc) = true.
Proof. vm_compute. split; reflexivity. Qed.
(* wf_boost is needed: with a negative field boost the field-centric model (max starts from the first
   field) and the spec (max starts from 0, result clipped at 0) differ *)
Definition q_negboost := {| eq_fields := [F a1 (Some MINUS_TWO) [1;2]%N; F a2 (Some MINUS_TWO) [1]%N];
                            eq_mm := Simple (SInt 1); eq_tie := 1 # 10; eq_pf := []; eq_pf2 := []; eq_pf3 := [] |}.
Example check_negboost_differs : api_veqb (edismax idf 4 q_negboost) (edismax_spec idf 4 q_negboost) = false.
Proof. vm_compute. reflexivity. Qed.
(* wf_tie is needed: with tie < 0 a score can be negative in the model, the spec reports 0 *)
Definition q_negtie := {| eq_fields := [F a1 None [1;2]%N; F a2 None [1;2]%N];
                          eq_mm := Simple (SInt 1); eq_tie := -3; eq_pf := []; eq_pf2 := []; eq_pf3 := [] |}.
Example check_negtie_differs : api_veqb (edismax idf 4 q_negtie) (edismax_spec idf 4 q_negtie) = false.
Proof. vm_compute. reflexivity. Qed.
(* qf_calls_ok is needed for exact agreement of failures on the term-centric path: the model asks
   term-major, the spec field-major.  On these two hand-built MALFORMED arrays (not produced by
   `index`: rows cut to 2 under postings that mention document 2; a dictionary term without postings)
   the model raises KeyError and the spec faults.  term_centric_is_spec_both_fail still applies. *)
Definition good := arr (index false 100 [[5;2];[5];[2];[2]]%N).
Definition bad0 := {| a_terms := a_terms good; a_posns := a_posns good; a_rows := [0;1]%N; a_subset := false;
                      a_lens := a_lens good; a_total := a_total good; a_n := a_n good; a_avoid_copies := true |}.
Definition bad1 := of_index {| ix_terms := [7%N]; ix_posts := []; ix_lens := [1;1]%N |} true.
Definition q_order := {| eq_fields := [F bad0 None [5;2]%N; F bad1 None [7;7]%N];
                         eq_mm := Simple (SInt 1); eq_tie := 1 # 10; eq_pf := []; eq_pf2 := []; eq_pf3 := [] |}.
Example check_exception_order :
  is_term_centric (eq_fields q_order) = true /\
  edismax [] 2 q_order = AExc KeyError /\ edismax_spec [] 2 q_order = AFault Wr 0 2.
Proof. vm_compute. repeat split; reflexivity. Qed.
End Checks.


Transparent boosted_scores.   (* the opacity above is for this file's proofs only *)

Print Assumptions term_centric_is_spec.
Print Assumptions term_centric_is_spec_both_fail.
Print Assumptions field_centric_is_spec'.
Print Assumptions C09_no_phrases.
Print Assumptions C10_phrase_boosts.
Print Assumptions C10_phrase_boosts_weak.
Print Assumptions C10_zero_stays_zero.
Print Assumptions shingles2_spec.
Print Assumptions shingles3_spec.
Print Assumptions and_is_100pct.
(* pure algebra: no axioms *)
Print Assumptions nth_tscore.
Print Assumptions nth_vmax_all.
Print Assumptions max_le_sum.
Print Assumptions positions_where_in.
Print Assumptions scatter_in.
