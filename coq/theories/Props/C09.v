(* C09 — edismax query-field score follows the DisMax + minimum-should-match model.
   Statement-only file.  Model Solr/Edismax.v (the code's running max / sum, tie, mm filter, term- vs
   field-centric choice); spec Solr/Edismax_Spec.v (dismax per document).  Equality is pointwise Qeq. *)
From Coq Require Import ZArith QArith List.
From SA Require Import Base.Prelude Index.Index View.View Solr.MM Solr.MM_Spec Solr.MM_Proofs
  Solr.Edismax Solr.Edismax_Spec Solr.Edismax_Proofs Solr.Edismax_AnySim Solr.Edismax_AnySim_Proofs.
From SA Require Import View.View_Phrase2 Solr.Edismax_Indexed.
Import ListNotations.

(* wf_query: every field has n rows and score vectors of length n, single-term scores are non-negative,
   1..NMAX query terms per field, non-negative boosts and tie, mm spec in the float-exact range of C11.
   qf_calls_ok: the per-term score calls succeed (needed on the term-centric path only because the code
   evaluates term-major and the spec field-major, so the FIRST failing call could differ).
   select_ok: selecting the matching rows succeeds (always true for avoid_copies arrays). *)
Theorem C09_query_field_score : forall idf n q, wf_query idf n q ->
  (is_term_centric (eq_fields q) = true -> qf_calls_ok idf q) -> select_ok n q ->
  eq_pf q = [] -> eq_pf2 q = [] -> eq_pf3 q = [] ->
  api_veq (edismax idf n q) (edismax_spec idf n q).
Proof. exact C09_no_phrases. Qed.
Print Assumptions C09_query_field_score.

(* q_op = AND is mm = 100%: all clauses required *)
Theorem C09_and_is_100pct : forall n, (0 <= n <= NMAX)%Z -> mm_f64 n (Simple (SPct 100)) = n.
Proof. exact and_is_100pct. Qed.

Example C09_dismax_example : dismax (1 # 2) [3; 1; 2] == 3 + (1 # 2) * 3.
Proof. vm_compute. reflexivity. Qed.

(* ================= premise-free, for frames of freshly indexed columns =================
   qf_calls_ok and select_ok are PROVED for fresh fields (Solr/Edismax_Indexed.v). *)
Theorem C09_indexed_query_field_score : forall idf n q, wf_query idf n q -> fresh_fields n q ->
  eq_pf q = [] -> eq_pf2 q = [] -> eq_pf3 q = [] ->
  api_veq (edismax idf n q) (edismax_spec idf n q).
Proof. exact C09_indexed. Qed.
Print Assumptions C09_indexed_query_field_score.

(* Assumptions of the remaining named statements of this file (the gate requires one per statement). *)
Print Assumptions C09_and_is_100pct.

(* ================= any per-field similarity =================
   Solr/Edismax_AnySim.v: the per-field per-term score vectors  post_arr.score(term, similarity=similarity[field])
   are an abstract input (a list of `afield`: optional boost + one exact score vector per query term of the field,
   ZERO terms allowed); model = the code's running max / sum, tie, mm filter, term- vs field-centric choice;
   spec = dismax per document.  wf_anysim: vectors have one entry per row, at most NMAX terms per field, mm spec
   in the float-exact range of C11 and -- on the field-centric path only -- non-negative scores and boosts
   (the code's np.max over fields has no zero seed).  No hypothesis on tie; none on signs for term-centric queries. *)
Theorem C09_any_similarity : forall n fields mm tie, wf_anysim n fields mm ->
  exists r, edismax_anysim n fields mm tie = AOk r /\ veq r (anysim_spec n fields mm tie).
Proof. exact anysim_model_is_spec. Qed.
Print Assumptions C09_any_similarity.

(* the same with min-should-match abstract (any mmf / mms that agree on the clause counts that occur): no float,
   no Flocq -- closed under the global context *)
Theorem C09_any_similarity_any_mm : forall (mmf mms : Z -> Z) n fields tie,
  (forall f v, In f fields -> In v (af_scores f) -> length v = n) ->
  (forall k, In k (term_counts fields) -> mmf (Z.of_nat k) = mms (Z.of_nat k)) ->
  (a_is_term_centric fields = false ->
     (forall f v, In f fields -> In v (af_scores f) -> Forall (fun x => (0 <= x)%Q) v) /\
     (forall f, In f fields -> (0 <= boostq (af_boost f))%Q)) ->
  exists r, edismax_anysim_g mmf n fields tie = AOk r /\ veq r (anysim_spec_g mms n fields tie).
Proof. exact anysim_g_is_spec. Qed.
Print Assumptions C09_any_similarity_any_mm.

(* the binary32 BM25 model above is an instance: its query-field score is the generic model applied to the table
   of its own BM25 score vectors (when those calls succeed) *)
Theorem C09_bm25_is_instance : forall idf n q S,
  all_scores idf 0 (eq_fields q) (is_term_centric (eq_fields q)) = AOk S ->
  qf_model idf n q =
  edismax_anysim n (if is_term_centric (eq_fields q) then table_tc S else table_fc (eq_fields q) S)
                 (eq_mm q) (eq_tie q).
Proof. exact qf_model_instance. Qed.
Print Assumptions C09_bm25_is_instance.

(* satisfiable: 2 fields x 3 terms x 3 rows with a row zeroed out by mm (Solr/Edismax_AnySim_Proofs.v, AnySimEx) *)
Example C09_any_similarity_example :
  wf_anysim 3 [AnySimEx.f0; AnySimEx.f1] AnySimEx.mm3 /\ a_is_term_centric [AnySimEx.f0; AnySimEx.f1] = true /\
  exists r, edismax_anysim 3 [AnySimEx.f0; AnySimEx.f1] AnySimEx.mm3 AnySimEx.tie = AOk r /\
            Checks.veqb r (anysim_spec 3 [AnySimEx.f0; AnySimEx.f1] AnySimEx.mm3 AnySimEx.tie) = true /\
            Checks.veqb r [(1#2) + (5#8) + 2; 0; (3 + (1#10) * (5#2)) + (1#3) + (7#2)]%Q = true.
Proof. exact AnySimEx.anysim_tc_example. Qed.
