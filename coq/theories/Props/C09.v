(* C09 — theorems are added as they close; model Solr/Edismax.v, spec Solr/Edismax_Spec.v *)
From Coq Require Import QArith.
From SA Require Import Base.Prelude Solr.Edismax Solr.Edismax_Spec.
Example C09_dismax_example : dismax (1 # 2) [3; 1; 2] == 3 + (1 # 2) * 3.
Proof. vm_compute. reflexivity. Qed.
