(* C09 — edismax query-field score follows the DisMax + minimum-should-match model.
   Statement-only file.  Model Solr/Edismax.v (the code's running max / sum, tie, mm filter, term- vs
   field-centric choice); spec Solr/Edismax_Spec.v (dismax per document).  Equality is pointwise Qeq. *)
From Coq Require Import ZArith QArith List.
From SA Require Import Base.Prelude Index.Index View.View Solr.MM Solr.MM_Spec Solr.MM_Proofs
  Solr.Edismax Solr.Edismax_Spec Solr.Edismax_Proofs.
From SA Require Import View.View_Phrase2 Solr.Edismax_Indexed.
Import ListNotations.

(* wf_query: every field has n rows and score vectors of length n, single-term scores are non-negative,
   1..NMAX query terms per field, non-negative boosts and tie, mm spec in the float-exact range of C11.
   qf_calls_ok: the per-term score calls succeed (needed on the term-centric path only because the code
   evaluates term-major and the spec field-major, so the FIRST failing call could differ).
   select_ok: selecting the matching rows succeeds (always true for avoid_copies arrays). *)
Theorem C09_query_field_score : forall idf n q, wf_query idf n q ->
  (is_term_centric (eq_fields q) = true -> qf_calls_ok idf q) -> select_ok n q ->
  eq_pf q = [] -> eq_pf2 q = [] -> eq_pf3 q = [] ->
  api_veq (edismax idf n q) (edismax_spec idf n q).
Proof. exact C09_no_phrases. Qed.
Print Assumptions C09_query_field_score.

(* q_op = AND is mm = 100%: all clauses required *)
Theorem C09_and_is_100pct : forall n, (0 <= n <= NMAX)%Z -> mm_f64 n (Simple (SPct 100)) = n.
Proof. exact and_is_100pct. Qed.

Example C09_dismax_example : dismax (1 # 2) [3; 1; 2] == 3 + (1 # 2) * 3.
Proof. vm_compute. reflexivity. Qed.

(* ================= premise-free, for frames of freshly indexed columns =================
   qf_calls_ok and select_ok are PROVED for fresh fields (Solr/Edismax_Indexed.v). *)
Theorem C09_indexed_query_field_score : forall idf n q, wf_query idf n q -> fresh_fields n q ->
  eq_pf q = [] -> eq_pf2 q = [] -> eq_pf3 q = [] ->
  api_veq (edismax idf n q) (edismax_spec idf n q).
Proof. exact C09_indexed. Qed.
Print Assumptions C09_indexed_query_field_score.

(* Assumptions of the remaining named statements of this file (the gate requires one per statement). *)
Print Assumptions C09_and_is_100pct.
