(* C05 — positions() returns exactly the token offsets of the term in every document.  Statement-only file. *)
From SA Require Import Base.Prelude Index.Index Index.Index_Spec Index.Index_Proofs3.
Open Scope N_scope.

Theorem C05_positions_are_offsets : forall docs bs, wf_docs docs ->
  exists ix, index false bs docs = AOk ix /\
    (forall t, In t (concat docs) -> positions ix t = AOk (positions_spec docs t)) /\
    (forall t, ~ In t (concat docs) -> positions ix t = AExc TermMissing).
Proof. exact C05_positions_any. Qed.
Print Assumptions C05_positions_are_offsets.

Example C05_nonvacuous :
  let d := [0;1;1;1;1;1;1;1;1;1;1;1;1;1;1;1;1;0;0;1;1;1;1;1;1;1;1;1;1;1;1;1;1;1;1;0;0] in
  match index false 10 [d; [1]; [0]] with
  | AOk ix => positions ix 0 = AOk [[0;17;18;35;36]; []; [0]]
  | _ => False end.
Proof. vm_compute. reflexivity. Qed.
