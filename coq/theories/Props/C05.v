(* C05 — theorems are added as they close; see Index/Index.v (model) and Index/Index_Spec.v (spec) *)
From SA Require Import Base.Prelude Index.Index Index.Index_Spec.
Open Scope N_scope.
Example C05_model_spec_example :
  match index false 2 [[1;2;1;3];[];[2];[1;1;2];[]] with
  | AOk ix => termfreqs ix 1 = AOk (tf_spec [[1;2;1;3];[];[2];[1;1;2];[]] 1) /\
              docfreq ix 2 = AOk (df_spec [[1;2;1;3];[];[2];[1;1;2];[]] 2) /\
              doclengths ix = lens_spec [[1;2;1;3];[];[2];[1;1;2];[]] /\
              positions ix 2 = AOk (positions_spec [[1;2;1;3];[];[2];[1;1;2];[]] 2)
  | _ => False end.
Proof. vm_compute. repeat split. Qed.
