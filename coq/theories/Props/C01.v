(* C01 — term frequency equals the number of times the tokenizer emitted the term.
   Statement-only file.  Model: Index/Index.v (gather -> sort by (term, doc, posn) -> boundary encoding ->
   per-batch postings -> concat; termfreqs = popcount reduce + unrolled scatter).  Spec: Index/Index_Spec.v.
   docs = the tokenizer's output per document (tokens renamed to term ids by any injection). *)
From SA Require Import Base.Prelude Index.Index Index.Index_Spec Index.Index_Proofs3.
Open Scope N_scope.

(* for every corpus within the limits (each document <= 262143 tokens, fewer than 2^28 rows), EVERY batch size,
   every term present or absent: indexing succeeds and termfreqs is the per-document count, one entry per row *)
Theorem C01_termfreqs_is_count : forall docs bs, wf_docs docs ->
  exists ix, index false bs docs = AOk ix /\ forall t, termfreqs ix t = AOk (tf_spec docs t).
Proof. exact C01_termfreqs_any. Qed.
Print Assumptions C01_termfreqs_is_count.

Example C01_nonvacuous :
  wf_docs [[1;2;1;3];[];[2];[1;1;2];[]] /\
  match index false 2 [[1;2;1;3];[];[2];[1;1;2];[]] with
  | AOk ix => termfreqs ix 1 = AOk [2;0;0;2;0] /\ termfreqs ix 9 = AOk [0;0;0;0;0]
  | _ => False end.
Proof. split; [split; [repeat constructor; cbn; lia | cbn; lia] | vm_compute; split; reflexivity]. Qed.
