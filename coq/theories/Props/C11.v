(* C11 — Minimum-should-match parsing equals Solr's definition and stays within [0, n].
   Statement-only file: each theorem is closed by [exact] of a lemma proved elsewhere. *)
From Coq Require Import ZArith List.
From SA Require Import Solr.MM Solr.MM_Spec Solr.MM_Proofs.
Open Scope Z_scope.

(* The code's algorithm (loop with early return, clamping, Python's binary64 percentage step)
   equals Solr's calculateMinShouldMatch in exact arithmetic, and the value lies in [0, n];
   for every clause count 0..NMAX (= 50), every spec whose percentages lie in -PMAX..PMAX (= 200),
   any integers, any number of conditional clauses. *)
Theorem C11_mm_is_solr : forall n sp, 0 <= n <= NMAX -> spec_in_range sp ->
  mm_f64 n sp = solr_mm n sp /\ 0 <= mm_f64 n sp <= n.
Proof. exact mm_f64_is_solr. Qed.
Print Assumptions C11_mm_is_solr.

(* In exact arithmetic the same holds for every n >= 0 and every percentage (no bound). *)
Theorem C11_mm_exact : forall n sp, 0 <= n -> mm_model pct_exact n sp = solr_mm n sp.
Proof. exact mm_model_is_solr. Qed.
Print Assumptions C11_mm_exact.

Theorem C11_bounds : forall n sp, 0 <= n -> 0 <= solr_mm n sp <= n.
Proof. exact solr_mm_bounds. Qed.
Print Assumptions C11_bounds.
