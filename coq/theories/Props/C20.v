(* C20 — concurrent read-only queries return the serial answers (interleaving model).
   Generic form: two premises about the immutable postings table are explicit (slicing twice = slicing once; a document's
   phrase count depends only on that document's postings, whichever of the two handles each term was read through); both
   are PROVED for every indexed corpus, giving the premise-free C20_every_interleaving / C20_schedule_eq_serial at the end.
   PARTIAL for the runtime - what the model cannot exhibit: real preemption points, nogil sections, dict atomicity; slop
   searches are not programs of the model.
   Model: Conc/Conc.v (queries as programs of atomic actions on the shared state of View/Purity.v);
   Conc/Conc_Dyn.v (DYNAMIC programs: what a thread does next depends on what it has read, and a thread queries the views it
   created itself - EDISMAX, Conc/Conc_Edismax.v); theorems for them at the end of this file. *)
From Coq Require Import ZArith.
From SA Require Import Base.Prelude Index.Index View.View View.Purity View.Purity_Proofs View.Purity_Indexed Index.Index_Spec Conc.Conc Conc.Conc_Proofs Conc.Conc_Indexed Conc.Conc_Indexed2.
From SA Require Import Solr.Edismax Conc.Conc_Dyn Conc.Conc_Dyn_Proofs Conc.Conc_Edismax Conc.Conc_Dyn_Indexed.
Open Scope N_scope.
(* an interleaving in which a view is sliced (its handle reset) between the two term reads of a phrase query *)
Example C20_interleaving_example :
  match index false 100 [[1;2;1;3];[];[2];[1;1;2];[3;1]] with
  | AOk ix =>
      let p0 := snd (run (init_pool ix 0) [OSelect 0 [4;2;0;3]]) in
      let a1 := nth 1 (arrays p0) {| pa_arr := of_index ix true; pa_pid := 0 |} in
      let ths := [spawn (prog_phrase p0 a1 [1;2]); spawn (prog_select 1%nat [0;1]); spawn (prog_tf p0 a1 1 None None)] in
      let inter := snd (run_sched p0 ths [0;1;0;2]%nat) in
      let ser := snd (run_sched p0 ths (serial_schedule ths)) in
      results inter = results ser
  | _ => False end.
Proof. vm_compute. reflexivity. Qed.

(* in EVERY interleaving (any schedule, finished or not), a thread that has finished holds the history-free answer
   computed on the initial pool *)
Theorem C20_every_interleaving_partial : forall (good_posts : posts -> N -> Prop),
  slice_idem_hyp good_posts -> phrase_mixed_local_hyp good_posts ->
  forall p0 queries pgs sched p' ths',
  Inv good_posts p0 -> progs_of p0 queries = Some pgs ->
  run_sched p0 (map spawn pgs) sched = (p', ths') ->
  forall i q th r, nth_error queries i = Some q -> nth_error ths' i = Some th -> th_result th = Some r ->
    is_select q = false -> Some r = pure_answer p0 (op_of q).
Proof. exact sched_results_pure. Qed.
Print Assumptions C20_every_interleaving_partial.

(* any schedule that lets every thread finish gives exactly the results of the serial schedule *)
Theorem C20_schedule_eq_serial_partial : forall (good_posts : posts -> N -> Prop),
  slice_idem_hyp good_posts -> phrase_mixed_local_hyp good_posts ->
  forall p0 queries pgs s, Inv good_posts p0 -> progs_of p0 queries = Some pgs ->
  all_done (snd (run_sched p0 (map spawn pgs) s)) ->
  results (snd (run_sched p0 (map spawn pgs) s))
  = results (snd (run_sched p0 (map spawn pgs) (serial_schedule (map spawn pgs)))).
Proof. exact C20_any_schedule_eq_serial. Qed.

(* the serial schedule always finishes every thread (no premise): the comparison above is never vacuous *)
Theorem C20_serial_finishes : forall p ths, all_done (snd (run_sched p ths (serial_schedule ths))).
Proof. exact serial_all_done. Qed.
Print Assumptions C20_serial_finishes.

(* each atomic action preserves the cache invariant, only appends arrays, only grows the heap (no premise) *)
Theorem C20_action_inv : forall (good_posts : posts -> N -> Prop) p a v p',
  Inv good_posts p -> action_wf p a -> do_action p a = (v, p') ->
  Inv good_posts p' /\ (exists extra, arrays p' = arrays p ++ extra) /\ heap_le p p'.
Proof. exact do_action_inv. Qed.
Print Assumptions C20_action_inv.

(* ================= premise-free, for indexed corpora =================
   Both postings premises are proved for indexed corpora (Conc/Conc_Indexed.v); the only restriction left is on
   concurrent PHRASE queries against a VIEW: >= 2 terms must not contain an immediately repeated term
   (queries_in_domain_after).  The pool may be any state reached by an in-domain history (ops_in_domain). *)
Theorem C20_indexed_every_interleaving : forall docs bs ix cg ops outs p0 queries pgs sched p' ths',
  wf_docs docs -> index false bs docs = AOk ix ->
  ops_in_domain docs ops -> run (init_pool ix cg) ops = (outs, p0) ->
  queries_in_domain_after docs ops queries -> progs_of p0 queries = Some pgs ->
  run_sched p0 (map spawn pgs) sched = (p', ths') ->
  forall i q th r, nth_error queries i = Some q -> nth_error ths' i = Some th -> th_result th = Some r ->
    is_select q = false -> Some r = pure_answer p0 (op_of q).
Proof. exact indexed_sched_results_pure. Qed.
Print Assumptions C20_indexed_every_interleaving.

Theorem C20_indexed_schedule_eq_serial : forall docs bs ix cg ops outs p0 queries pgs s,
  wf_docs docs -> index false bs docs = AOk ix ->
  ops_in_domain docs ops -> run (init_pool ix cg) ops = (outs, p0) ->
  queries_in_domain_after docs ops queries -> progs_of p0 queries = Some pgs ->
  all_done (snd (run_sched p0 (map spawn pgs) s)) ->
  results (snd (run_sched p0 (map spawn pgs) s))
  = results (snd (run_sched p0 (map spawn pgs) (serial_schedule (map spawn pgs)))).
Proof. exact indexed_C20_any_schedule_eq_serial. Qed.

(* on a freshly indexed array: no domain condition at all *)
Theorem C20_indexed_fresh : forall docs bs ix cg queries pgs s,
  wf_docs docs -> index false bs docs = AOk ix ->
  progs_of (init_pool ix cg) queries = Some pgs ->
  all_done (snd (run_sched (init_pool ix cg) (map spawn pgs) s)) ->
  results (snd (run_sched (init_pool ix cg) (map spawn pgs) s))
  = results (snd (run_sched (init_pool ix cg) (map spawn pgs) (serial_schedule (map spawn pgs)))) /\
  results (snd (run_sched (init_pool ix cg) (map spawn pgs) s)) = map (answer_of (init_pool ix cg)) queries.
Proof. exact indexed_C20_fresh. Qed.

(* ================= NO premise and NO domain condition: every non-empty indexed corpus =================
   any pool reached by ANY history, ANY concurrent queries (tf with ranges, phrases with repetitions, docfreq, scores,
   selections), ANY schedule (Conc/Conc_Indexed2.v, from the phrase locality theorem of View/View_Phrase3.v) *)
Theorem C20_every_interleaving : forall docs bs ix cg ops outs p0 queries pgs sched p' ths',
  wf_docs docs -> docs <> [] -> index false bs docs = AOk ix ->
  run (init_pool ix cg) ops = (outs, p0) ->
  progs_of p0 queries = Some pgs -> run_sched p0 (map spawn pgs) sched = (p', ths') ->
  forall i q th r, nth_error queries i = Some q -> nth_error ths' i = Some th -> th_result th = Some r ->
    Some r = answer_of p0 q.
Proof. exact indexed_sched_results_answer_any. Qed.
Print Assumptions C20_every_interleaving.

Theorem C20_schedule_eq_serial : forall docs bs ix cg ops outs p0 queries pgs s,
  wf_docs docs -> docs <> [] -> index false bs docs = AOk ix ->
  run (init_pool ix cg) ops = (outs, p0) -> progs_of p0 queries = Some pgs ->
  all_done (snd (run_sched p0 (map spawn pgs) s)) ->
  results (snd (run_sched p0 (map spawn pgs) s))
  = results (snd (run_sched p0 (map spawn pgs) (serial_schedule (map spawn pgs)))) /\
  results (snd (run_sched p0 (map spawn pgs) s)) = map (answer_of p0) queries.
Proof. exact indexed_C20_any. Qed.

(* Assumptions of the remaining named statements of this file (the gate requires one per statement). *)
Print Assumptions C20_schedule_eq_serial_partial.
Print Assumptions C20_indexed_schedule_eq_serial.
Print Assumptions C20_indexed_fresh.
Print Assumptions C20_schedule_eq_serial.

(* ================= DYNAMIC programs: edismax and any other client code over queries =================
   A thread runs a program over whole queries (term frequencies with ranges, phrases, docfreq, scores of terms and of
   phrases, selections) with arbitrary pure computation in between; what it asks next may depend on what it was
   answered, and it may query the views it created itself, held BY REFERENCE (Conc/Conc_Dyn.v: qprog, compile).  Every
   query is executed as the atomic actions of Conc.v.  qprog_hf is the HISTORY-FREE evaluation of the program: every
   query answered by the pure functions of View/View.v on immutable descriptors.
   Every non-empty indexed corpus, any pool reached by ANY history, ANY such programs, ANY schedule: a finished thread
   holds the history-free evaluation; a schedule that lets every thread finish gives the serial results. *)
Theorem C20_every_interleaving_dynamic : forall docs (T : Type) bs ix cg ops outs p0 (qps : list (qprog T)),
  wf_docs docs -> docs <> [] -> index false bs docs = AOk ix ->
  run (init_pool ix cg) ops = (outs, p0) ->
  (forall sched p' ths', drun_sched p0 (map (qspawn p0) qps) sched = (p', ths') ->
     forall i qp th r, nth_error qps i = Some qp -> nth_error ths' i = Some th -> dresult th = Some r ->
       r = qprog_hf p0 qp) /\
  (forall s, dall_done (snd (drun_sched p0 (map (qspawn p0) qps) s)) ->
     dresults (snd (drun_sched p0 (map (qspawn p0) qps) s))
     = dresults (snd (drun_sched p0 (map (qspawn p0) qps) (dserial_schedule p0 (map (qspawn p0) qps)))) /\
     dresults (snd (drun_sched p0 (map (qspawn p0) qps) s)) = map (fun qp => Some (qprog_hf p0 qp)) qps).
Proof. exact (@indexed_C20_dynamic). Qed.
Print Assumptions C20_every_interleaving_dynamic.

(* threads running EDISMAX (solr.py 262-366; general multi-field query, any boosts / mm / tie / pf / pf2 / pf3; the fields
   are arrays of the pool): in every interleaving a finished thread holds Solr/Edismax.v's edismax on the immutable
   descriptors of its field arrays (the function C09 / C10 are about); finishing schedules give the serial results *)
Theorem C20_edismax_threads : forall docs bs ix cg ops outs p0 (es : list ethread),
  wf_docs docs -> docs <> [] -> index false bs docs = AOk ix ->
  run (init_pool ix cg) ops = (outs, p0) ->
  Forall (fun e => fields_at p0 (et_fields e)) es ->
  (forall sched p' ths', drun_sched p0 (map (qspawn p0) (map et_prog es)) sched = (p', ths') ->
     forall i e th r, nth_error es i = Some e -> nth_error ths' i = Some th -> dresult th = Some r ->
       r = et_answer e) /\
  (forall s, dall_done (snd (drun_sched p0 (map (qspawn p0) (map et_prog es)) s)) ->
     dresults (snd (drun_sched p0 (map (qspawn p0) (map et_prog es)) s))
     = dresults (snd (drun_sched p0 (map (qspawn p0) (map et_prog es))
                        (dserial_schedule p0 (map (qspawn p0) (map et_prog es))))) /\
     dresults (snd (drun_sched p0 (map (qspawn p0) (map et_prog es)) s)) = map (fun e => Some (et_answer e)) es).
Proof. exact indexed_edismax_threads. Qed.
Print Assumptions C20_edismax_threads.

(* the history-free evaluation of the edismax program IS Solr/Edismax.v's edismax (avoid_copies arrays: every array of a
   reachable pool) *)
Theorem C20_edismax_program_is_edismax : forall p0 idf n fields mm tie pf pf2 pf3, fields_at p0 fields ->
  Forall (fun f => a_avoid_copies (ef_arr (qf_ef f)) = true) fields ->
  qprog_hf p0 (q_edismax idf n fields 0 mm tie pf pf2 pf3) = edismax idf n (equery_of fields mm tie pf pf2 pf3).
Proof. exact q_edismax_hf. Qed.
Print Assumptions C20_edismax_program_is_edismax.

(* the serial schedule of dynamic programs always lets every thread finish (no premise) *)
Theorem C20_dynamic_serial_finishes : forall (T : Type) p (ths : list (dthread T)),
  dall_done (snd (drun_sched p ths (dserial_schedule p ths))).
Proof. exact (@dserial_all_done). Qed.
Print Assumptions C20_dynamic_serial_finishes.

(* the static programs of Conc.v are dynamic programs: same pools, same threads, same results, same serial schedule *)
Theorem C20_static_programs_embed : forall sched p ths,
  drun_sched p (map dthread_of_thread ths) sched
  = (let '(p', ths') := run_sched p ths sched in (p', map dthread_of_thread ths')) /\
  dresults (map dthread_of_thread ths) = results ths /\
  dserial_schedule p (map dthread_of_thread ths) = serial_schedule ths.
Proof. intros sched p ths. exact (conj (drun_sched_embed sched p ths) (conj (dresults_embed ths) (dserial_schedule_embed p ths))). Qed.
Print Assumptions C20_static_programs_embed.
