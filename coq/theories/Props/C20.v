(* C20 — concurrent read-only queries return the serial answers (theorems are added as they close).
   Model: Conc/Conc.v (queries as programs of atomic actions on the shared state of View/Purity.v). *)
From Coq Require Import ZArith.
From SA Require Import Base.Prelude Index.Index View.View View.Purity Conc.Conc.
Open Scope N_scope.
(* an interleaving in which a view is sliced (its handle reset) between the two term reads of a phrase query *)
Example C20_interleaving_example :
  match index false 100 [[1;2;1;3];[];[2];[1;1;2];[3;1]] with
  | AOk ix =>
      let p0 := snd (run (init_pool ix 0) [OSelect 0 [4;2;0;3]]) in
      let a1 := nth 1 (arrays p0) {| pa_arr := of_index ix true; pa_pid := 0 |} in
      let ths := [spawn (prog_phrase p0 a1 [1;2]); spawn (prog_select 1%nat [0;1]); spawn (prog_tf p0 a1 1 None None)] in
      let inter := snd (run_sched p0 ths [0;1;0;2]%nat) in
      let ser := snd (run_sched p0 ths (serial_schedule ths)) in
      results inter = results ser
  | _ => False end.
Proof. vm_compute. reflexivity. Qed.
