(* C20 — concurrent read-only queries return the serial answers (interleaving model).
   Generic form: two premises about the immutable postings table are explicit (slicing twice = slicing once; a document's
   phrase count depends only on that document's postings, whichever of the two handles each term was read through); both
   are PROVED for every indexed corpus, giving the premise-free C20_every_interleaving / C20_schedule_eq_serial at the end.
   PARTIAL for the runtime - what the model cannot exhibit: real preemption points, nogil sections, dict atomicity; edismax
   and slop searches are not programs of the model.
   Model: Conc/Conc.v (queries as programs of atomic actions on the shared state of View/Purity.v). *)
From Coq Require Import ZArith.
From SA Require Import Base.Prelude Index.Index View.View View.Purity View.Purity_Proofs View.Purity_Indexed Index.Index_Spec Conc.Conc Conc.Conc_Proofs Conc.Conc_Indexed Conc.Conc_Indexed2.
Open Scope N_scope.
(* an interleaving in which a view is sliced (its handle reset) between the two term reads of a phrase query *)
Example C20_interleaving_example :
  match index false 100 [[1;2;1;3];[];[2];[1;1;2];[3;1]] with
  | AOk ix =>
      let p0 := snd (run (init_pool ix 0) [OSelect 0 [4;2;0;3]]) in
      let a1 := nth 1 (arrays p0) {| pa_arr := of_index ix true; pa_pid := 0 |} in
      let ths := [spawn (prog_phrase p0 a1 [1;2]); spawn (prog_select 1%nat [0;1]); spawn (prog_tf p0 a1 1 None None)] in
      let inter := snd (run_sched p0 ths [0;1;0;2]%nat) in
      let ser := snd (run_sched p0 ths (serial_schedule ths)) in
      results inter = results ser
  | _ => False end.
Proof. vm_compute. reflexivity. Qed.

(* in EVERY interleaving (any schedule, finished or not), a thread that has finished holds the history-free answer
   computed on the initial pool *)
Theorem C20_every_interleaving_partial : forall (good_posts : posts -> N -> Prop),
  slice_idem_hyp good_posts -> phrase_mixed_local_hyp good_posts ->
  forall p0 queries pgs sched p' ths',
  Inv good_posts p0 -> progs_of p0 queries = Some pgs ->
  run_sched p0 (map spawn pgs) sched = (p', ths') ->
  forall i q th r, nth_error queries i = Some q -> nth_error ths' i = Some th -> th_result th = Some r ->
    is_select q = false -> Some r = pure_answer p0 (op_of q).
Proof. exact sched_results_pure. Qed.
Print Assumptions C20_every_interleaving_partial.

(* any schedule that lets every thread finish gives exactly the results of the serial schedule *)
Theorem C20_schedule_eq_serial_partial : forall (good_posts : posts -> N -> Prop),
  slice_idem_hyp good_posts -> phrase_mixed_local_hyp good_posts ->
  forall p0 queries pgs s, Inv good_posts p0 -> progs_of p0 queries = Some pgs ->
  all_done (snd (run_sched p0 (map spawn pgs) s)) ->
  results (snd (run_sched p0 (map spawn pgs) s))
  = results (snd (run_sched p0 (map spawn pgs) (serial_schedule (map spawn pgs)))).
Proof. exact C20_any_schedule_eq_serial. Qed.

(* the serial schedule always finishes every thread (no premise): the comparison above is never vacuous *)
Theorem C20_serial_finishes : forall p ths, all_done (snd (run_sched p ths (serial_schedule ths))).
Proof. exact serial_all_done. Qed.
Print Assumptions C20_serial_finishes.

(* each atomic action preserves the cache invariant, only appends arrays, only grows the heap (no premise) *)
Theorem C20_action_inv : forall (good_posts : posts -> N -> Prop) p a v p',
  Inv good_posts p -> action_wf p a -> do_action p a = (v, p') ->
  Inv good_posts p' /\ (exists extra, arrays p' = arrays p ++ extra) /\ heap_le p p'.
Proof. exact do_action_inv. Qed.
Print Assumptions C20_action_inv.

(* ================= premise-free, for indexed corpora =================
   Both postings premises are proved for indexed corpora (Conc/Conc_Indexed.v); the only restriction left is on
   concurrent PHRASE queries against a VIEW: >= 2 terms must not contain an immediately repeated term
   (queries_in_domain_after).  The pool may be any state reached by an in-domain history (ops_in_domain). *)
Theorem C20_indexed_every_interleaving : forall docs bs ix cg ops outs p0 queries pgs sched p' ths',
  wf_docs docs -> index false bs docs = AOk ix ->
  ops_in_domain docs ops -> run (init_pool ix cg) ops = (outs, p0) ->
  queries_in_domain_after docs ops queries -> progs_of p0 queries = Some pgs ->
  run_sched p0 (map spawn pgs) sched = (p', ths') ->
  forall i q th r, nth_error queries i = Some q -> nth_error ths' i = Some th -> th_result th = Some r ->
    is_select q = false -> Some r = pure_answer p0 (op_of q).
Proof. exact indexed_sched_results_pure. Qed.
Print Assumptions C20_indexed_every_interleaving.

Theorem C20_indexed_schedule_eq_serial : forall docs bs ix cg ops outs p0 queries pgs s,
  wf_docs docs -> index false bs docs = AOk ix ->
  ops_in_domain docs ops -> run (init_pool ix cg) ops = (outs, p0) ->
  queries_in_domain_after docs ops queries -> progs_of p0 queries = Some pgs ->
  all_done (snd (run_sched p0 (map spawn pgs) s)) ->
  results (snd (run_sched p0 (map spawn pgs) s))
  = results (snd (run_sched p0 (map spawn pgs) (serial_schedule (map spawn pgs)))).
Proof. exact indexed_C20_any_schedule_eq_serial. Qed.

(* on a freshly indexed array: no domain condition at all *)
Theorem C20_indexed_fresh : forall docs bs ix cg queries pgs s,
  wf_docs docs -> index false bs docs = AOk ix ->
  progs_of (init_pool ix cg) queries = Some pgs ->
  all_done (snd (run_sched (init_pool ix cg) (map spawn pgs) s)) ->
  results (snd (run_sched (init_pool ix cg) (map spawn pgs) s))
  = results (snd (run_sched (init_pool ix cg) (map spawn pgs) (serial_schedule (map spawn pgs)))) /\
  results (snd (run_sched (init_pool ix cg) (map spawn pgs) s)) = map (answer_of (init_pool ix cg)) queries.
Proof. exact indexed_C20_fresh. Qed.

(* ================= NO premise and NO domain condition: every non-empty indexed corpus =================
   any pool reached by ANY history, ANY concurrent queries (tf with ranges, phrases with repetitions, docfreq, scores,
   selections), ANY schedule (Conc/Conc_Indexed2.v, from the phrase locality theorem of View/View_Phrase3.v) *)
Theorem C20_every_interleaving : forall docs bs ix cg ops outs p0 queries pgs sched p' ths',
  wf_docs docs -> docs <> [] -> index false bs docs = AOk ix ->
  run (init_pool ix cg) ops = (outs, p0) ->
  progs_of p0 queries = Some pgs -> run_sched p0 (map spawn pgs) sched = (p', ths') ->
  forall i q th r, nth_error queries i = Some q -> nth_error ths' i = Some th -> th_result th = Some r ->
    Some r = answer_of p0 q.
Proof. exact indexed_sched_results_answer_any. Qed.
Print Assumptions C20_every_interleaving.

Theorem C20_schedule_eq_serial : forall docs bs ix cg ops outs p0 queries pgs s,
  wf_docs docs -> docs <> [] -> index false bs docs = AOk ix ->
  run (init_pool ix cg) ops = (outs, p0) -> progs_of p0 queries = Some pgs ->
  all_done (snd (run_sched p0 (map spawn pgs) s)) ->
  results (snd (run_sched p0 (map spawn pgs) s))
  = results (snd (run_sched p0 (map spawn pgs) (serial_schedule (map spawn pgs)))) /\
  results (snd (run_sched p0 (map spawn pgs) s)) = map (answer_of p0) queries.
Proof. exact indexed_C20_any. Qed.

(* Assumptions of the remaining named statements of this file (the gate requires one per statement). *)
Print Assumptions C20_schedule_eq_serial_partial.
Print Assumptions C20_indexed_schedule_eq_serial.
Print Assumptions C20_indexed_fresh.
Print Assumptions C20_schedule_eq_serial.
