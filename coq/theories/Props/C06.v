(* C06 — row selection commutes with every query (theorems are added as they close) *)
From SA Require Import Base.Prelude Index.Index Index.Index_Spec View.View View.View_Spec.
Open Scope N_scope.
Example C06_unsorted_duplicate_negative_keys :
  let docs := [[1;2;1;3];[];[2];[1;1;2];[3;1]] in
  match index false 100 docs with
  | AOk ix => match select_chain (of_index ix true) [[4;2;0;0];[1;0;3]] with
              | AOk v => v_termfreqs v 1 None None = AOk (tf_spec (view_docs docs [[4;2;0;0];[1;0;3]]) 1) /\
                         v_positions v 1 = AOk (positions_spec (view_docs docs [[4;2;0;0];[1;0;3]]) 1) /\
                         v_docfreq v 1 = AOk (df_spec docs 1)
              | _ => False end
  | _ => False end.
Proof. vm_compute. repeat split. Qed.
