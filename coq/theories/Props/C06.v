(* C06 — row selection commutes with every query (views answer like the parent).
   Statement-only file.  Model: View/View.v (rows-vector composition, FilteredPosns / physical slice,
   filtering by the sorted distinct row ids, dense gather, positions per row, root document frequencies,
   inherited statistics).  Spec: View/View_Spec.v (the parent's answer re-indexed by the composed key).
   A key is a list of positions into the current array: ANY order, repeats allowed; chains of any depth;
   both avoid_copies modes (pandas' normalisation of slices / masks / negative ints to positions is done by
   the harness and not modelled). *)
From SA Require Import Base.Prelude Index.Index Index.Index_Spec View.View View.View_Spec View.View_Proofs View.View_Phrase Query.Phrase_Spec View.View_Phrase4 Rebuild.Rebuild Rebuild.Element_Access.
Open Scope N_scope.

Theorem C06_selection_succeeds : forall docs bs ix avoid keys,
  wf_docs docs -> index false bs docs = AOk ix -> valid_keys (length docs) keys ->
  exists v, select_chain (of_index ix avoid) keys = AOk v.
Proof. exact C06_select_total. Qed.

Theorem C06_commutes : forall docs bs ix avoid keys v,
  wf_docs docs -> index false bs docs = AOk ix -> valid_keys (length docs) keys ->
  select_chain (of_index ix avoid) keys = AOk v ->
  a_rows v = compose_rows (rows0 docs) keys /\
  (forall t, v_termfreqs v t None None = AOk (tf_spec (view_docs docs keys) t)) /\
  (forall t, In t (concat docs) -> v_positions v t = AOk (positions_spec (view_docs docs keys) t)) /\
  v_doclengths v = lens_spec (view_docs docs keys) /\
  (forall t, v_docfreq v t = AOk (df_spec docs t)) /\          (* PARENT statistics *)
  a_total v = total_spec docs /\ a_n v = N.of_nat (length docs).
Proof. exact C06_commute. Qed.
Print Assumptions C06_commutes.

(* the same, as "the parent's answer re-indexed by the key" *)
Theorem C06_reindexes_parent_answers : forall docs bs ix avoid keys v,
  wf_docs docs -> index false bs docs = AOk ix -> valid_keys (length docs) keys ->
  select_chain (of_index ix avoid) keys = AOk v ->
  (forall t, v_termfreqs v t None None = AOk (reindex 0 (tf_spec docs t) docs keys)) /\
  (forall t, In t (concat docs) -> v_positions v t = AOk (reindex [] (positions_spec docs t) docs keys)) /\
  v_doclengths v = reindex 0 (lens_spec docs) docs keys.
Proof. exact C06_reindex. Qed.

(* what a similarity receives from a selection: view tf and lengths, PARENT df / total / N *)
Theorem C06_score_statistics : forall docs bs ix avoid keys v t,
  wf_docs docs -> index false bs docs = AOk ix -> valid_keys (length docs) keys ->
  select_chain (of_index ix avoid) keys = AOk v ->
  v_score_args v [t] None None =
    AOk (tf_spec (view_docs docs keys) t, [df_spec docs t], lens_spec (view_docs docs keys), total_spec docs, N.of_nat (length docs)).
Proof. exact C06_score_args. Qed.
Print Assumptions C06_score_statistics.

(* phrase frequencies of a selection (phrases of >= 2 terms without an immediately repeated term) *)
Theorem C06_phrase_commutes : forall docs bs ix avoid keys v ph,
  wf_docs docs -> index false bs docs = AOk ix -> valid_keys (length docs) keys ->
  select_chain (of_index ix avoid) keys = AOk v ->
  (2 <= length ph)%nat -> no_adjacent_repeat ph = true ->
  v_phrase_freqs v ph None None = AOk (phrase_spec (view_docs docs keys) ph).
Proof. exact C06_phrase. Qed.
Print Assumptions C06_phrase_commutes.

(* scoring a selection = re-indexing the parent's scores (default / parameterised BM25, single terms and
   phrases without adjacent repeats): "scoring a filtered or re-ordered frame equals filtering or re-ordering the scores" *)
Theorem C06_score_commutes_with_selection : forall docs bs ix avoid keys v ts idf k1 b,
  wf_docs docs -> index false bs docs = AOk ix -> valid_keys (length docs) keys ->
  select_chain (of_index ix avoid) keys = AOk v -> no_adjacent_repeat ts = true ->
  v_score_bm25 v ts idf k1 b =
    ado s <- v_score_bm25 (of_index ix avoid) ts idf k1 b;
    AOk (map (fun r => nth (N.to_nat r) s 0%Z) (compose_rows (rows0 docs) keys)).
Proof. exact C06_score_commutes. Qed.
Print Assumptions C06_score_commutes_with_selection.

(* Range-restricted tf on views, phrases with adjacent repeats and element access are proved further down
   (C06_ranged_*, C06_*_any*, C06_element_access). *)
Example C06_unsorted_duplicate_negative_keys :
  let docs := [[1;2;1;3];[];[2];[1;1;2];[3;1]] in
  match index false 100 docs with
  | AOk ix => match select_chain (of_index ix true) [[4;2;0;0];[1;0;3]] with
              | AOk v => v_termfreqs v 1 None None = AOk (tf_spec (view_docs docs [[4;2;0;0];[1;0;3]]) 1) /\
                         v_phrase_freqs v [1;2] None None = AOk [0;0;1]
              | _ => False end
  | _ => False end.
Proof. vm_compute. repeat split. Qed.

(* ================= no restriction on the phrase or the position range (View/View_Phrase4.v) =================
   The view's answer equals the PARENT's answer re-indexed by the composed key for EVERY term list (immediate
   repetitions included; fewer than two terms or an unaligned range raise the same error on both sides) and EVERY
   position range; likewise BM25 scores and position-ranged term frequencies. *)
Theorem C06_phrase_commutes_any_phrase_any_range : forall docs bs ix avoid keys v ph lo hi,
  wf_docs docs -> index false bs docs = AOk ix -> valid_keys (length docs) keys ->
  select_chain (of_index ix avoid) keys = AOk v ->
  v_phrase_freqs v ph lo hi =
    ado s <- v_phrase_freqs (of_index ix avoid) ph lo hi;
    AOk (map (fun r => nth (N.to_nat r) s 0) (compose_rows (rows0 docs) keys)).
Proof. exact View_Phrase4.C06_phrase_commutes_any. Qed.
Print Assumptions C06_phrase_commutes_any_phrase_any_range.

Theorem C06_ranged_term_frequency_commutes : forall docs bs ix avoid keys v t lo hi,
  wf_docs docs -> index false bs docs = AOk ix -> valid_keys (length docs) keys ->
  select_chain (of_index ix avoid) keys = AOk v ->
  v_termfreqs v t lo hi =
    ado s <- v_termfreqs (of_index ix avoid) t lo hi;
    AOk (map (fun r => nth (N.to_nat r) s 0) (compose_rows (rows0 docs) keys)).
Proof. exact View_Phrase4.C06_ranged_tf_commutes. Qed.

Theorem C06_score_commutes_any_query : forall docs bs ix avoid keys v ts idf k1 b,
  wf_docs docs -> index false bs docs = AOk ix -> valid_keys (length docs) keys ->
  select_chain (of_index ix avoid) keys = AOk v ->
  v_score_bm25 v ts idf k1 b =
    ado s <- v_score_bm25 (of_index ix avoid) ts idf k1 b;
    AOk (map (fun r => nth (N.to_nat r) s 0%Z) (compose_rows (rows0 docs) keys)).
Proof. exact View_Phrase4.C06_score_commutes_any. Qed.
Print Assumptions C06_score_commutes_any_query.

(* element access: arr[i] on any chain of selections returns, for every row, the document's distinct terms and its length *)
Theorem C06_element_access : forall docs bs ix avoid keys v els,
  wf_docs docs -> index false bs docs = AOk ix -> valid_keys (length docs) keys ->
  select_chain (of_index ix avoid) keys = AOk v -> elements_of v = AOk els ->
  Forall2 (fun d e => el_len e = N.of_nat (length d) /\ forall t, In t (map fst (el_terms e)) <-> In t d)
          (view_docs docs keys) els.
Proof. exact element_access_ok. Qed.
Print Assumptions C06_element_access.

(* Assumptions of the remaining named statements of this file (the gate requires one per statement). *)
Print Assumptions C06_selection_succeeds.
Print Assumptions C06_reindexes_parent_answers.
Print Assumptions C06_ranged_term_frequency_commutes.
