(* C15 — slop only relaxes.  Statement-only file.  Model: Span/Span.v (line-level model of _intersect_all and the
   repaired _span_freqs); proofs: Span/Span_Proofs.v.
   PROVED here (closed, every corpus within the limits, every batch size, every phrase, every slop):
     - the result has one entry per row (entries are naturals: non-negative whole numbers by type);
     - every matching document contains each of the phrase's terms.
     - PARTIAL: a document containing the phrase exactly still matches with slop >= 1, PROVIDED the positions of the
       phrase's terms in that document are pairwise distinct modulo 64 (e.g. every document of at most 64 tokens);
       without that proviso the clause is FALSE for the model and the code (C15_exact_match_refuted, known finding
       D27: a stale position bit shadows the term 64 positions further on).
     - PARTIAL, same proviso: length + slop <= 18 and the terms in order within a window of length + slop tokens
       => the document matches (C15_window_match_partial, against the executable oracle window_match of Span/Span_Spec.v);
       false without the proviso on the same inputs as D27.
   All clauses are also decided per input by the clause oracle on model and implementation (the check). *)
From SA Require Import Base.Prelude Index.Index Index.Index_Spec Span.Span Span.Span_Spec Span.Span_Proofs Span.Span_Exact2 Span.Span_Window Query.Phrase_Spec.
Open Scope N_scope.

Theorem C15_one_entry_per_row_partial : forall ix ts slop v,
  slop_freqs ix ts slop = AOk v -> length v = length (ix_lens ix).
Proof. exact slop_freqs_length. Qed.
Print Assumptions C15_one_entry_per_row_partial.

Theorem C15_match_contains_every_term_partial : forall docs bs ix ts slop v d,
  wf_docs docs -> index false bs docs = AOk ix -> slop_freqs ix ts slop = AOk v ->
  (d < length v)%nat -> nth d v 0 <> 0 -> forall t, In t ts -> In t (nth d docs []).
Proof. exact slop_match_has_all_terms. Qed.
Print Assumptions C15_match_contains_every_term_partial.

(* clause 1, partial: exact matches are kept when no two phrase-term positions of the document collide modulo 64 *)
Theorem C15_exact_match_kept_partial : forall docs bs ix ts slop v d,
  wf_docs docs -> index false bs docs = AOk ix -> 1 <= slop -> (2 <= length ts)%nat ->
  slop_freqs ix ts slop = AOk v -> (d < length docs)%nat -> occ ts (nth d docs []) > 0 ->
  no_alias64 ts (nth d docs []) -> (length ts <= 19)%nat ->
  nth d v 0 <> 0.
Proof. exact slop_keeps_exact_match_partial. Qed.
Print Assumptions C15_exact_match_kept_partial.

(* ... and FALSE without the proviso (the unchanged code violates clause 1 here: known finding D27; the witness is the
   71-token document a@0 b@4 c@6 b@64 a@68 b@69 c@70, phrase a b c, slop 1, replayed on the implementation by the check) *)
Theorem C15_exact_match_refuted :
  exists docs bs ix ts slop v d,
    wf_docs docs /\ index false bs docs = AOk ix /\ 1 <= slop /\ (2 <= length ts)%nat /\
    slop_freqs ix ts slop = AOk v /\ (d < length docs)%nat /\ occ ts (nth d docs []) > 0 /\ nth d v 0 = 0.
Proof. exact slop_loses_exact_match_refuted_repaired. Qed.

(* clause 3, partial: in-order windows match under the same proviso (the proof tracks the copies of the span seeded at the
   window's first term: a copy keeps the term bit and drops the position, so first-fit on an earlier decoy does no harm) *)
Theorem C15_window_match_partial : forall docs bs ix ts slop v d,
  wf_docs docs -> index false bs docs = AOk ix -> 1 <= slop -> (2 <= length ts)%nat -> NoDup ts ->
  N.of_nat (length ts) + slop <= 18 ->
  slop_freqs ix ts slop = AOk v -> (d < length docs)%nat ->
  window_match ts (nth d docs []) (N.of_nat (length ts) + slop) = true ->
  no_alias64 ts (nth d docs []) ->
  nth d v 0 <> 0.
Proof. exact slop_window_match_partial. Qed.
Print Assumptions C15_window_match_partial.

Example C15_model_example :
  match index false 100 [[1;9;2;9;9;3];[1;2;3];[3;2;1];[1;2];[]] with
  | AOk ix => slop_freqs ix [1;2;3] 3 = AOk [2;2;4;0;0] /\ slop_freqs ix [1;2] 2 = AOk [1;1;2;1;0]
  | _ => False end.
Proof. vm_compute. split; reflexivity. Qed.

(* Assumptions of the remaining named statements of this file (the gate requires one per statement). *)
Print Assumptions C15_exact_match_refuted.
