(* C15 — slop only relaxes.  No theorem about the span machine is closed; this file records concrete
   evaluations of the line-level model (Span/Span.v) against the clause oracle (Span/Span_Spec.v). *)
From SA Require Import Base.Prelude Index.Index Span.Span Span.Span_Spec.
Open Scope N_scope.
Example C15_model_example :
  match index false 100 [[1;9;2;9;9;3];[1;2;3];[3;2;1];[1;2];[]] with
  | AOk ix => slop_freqs ix [1;2;3] 3 = AOk [2;2;4;0;0] /\ slop_freqs ix [1;2] 2 = AOk [1;1;2;1;0]
  | _ => False end.
Proof. vm_compute. split; reflexivity. Qed.
