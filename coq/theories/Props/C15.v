(* C15 — slop only relaxes.  Statement-only file.  Model: Span/Span.v (line-level model of _intersect_all and the
   repaired _span_freqs); proofs: Span/Span_Proofs.v.
   PROVED here (closed, every corpus within the limits, every batch size, every phrase, every slop):
     - the result has one entry per row (entries are naturals: non-negative whole numbers by type);
     - every matching document contains each of the phrase's terms.
   NOT proved (decided on generated inputs by the clause oracle Span/Span_Spec.v on model and implementation):
     - a document containing the phrase exactly still matches with slop >= 1;
     - distinct terms, length + slop <= 18: an in-order window of length + slop tokens matches. *)
From SA Require Import Base.Prelude Index.Index Index.Index_Spec Span.Span Span.Span_Spec Span.Span_Proofs.
Open Scope N_scope.

Theorem C15_one_entry_per_row_partial : forall ix ts slop v,
  slop_freqs ix ts slop = AOk v -> length v = length (ix_lens ix).
Proof. exact slop_freqs_length. Qed.
Print Assumptions C15_one_entry_per_row_partial.

Theorem C15_match_contains_every_term_partial : forall docs bs ix ts slop v d,
  wf_docs docs -> index false bs docs = AOk ix -> slop_freqs ix ts slop = AOk v ->
  (d < length v)%nat -> nth d v 0 <> 0 -> forall t, In t ts -> In t (nth d docs []).
Proof. exact slop_match_has_all_terms. Qed.
Print Assumptions C15_match_contains_every_term_partial.

Example C15_model_example :
  match index false 100 [[1;9;2;9;9;3];[1;2;3];[3;2;1];[1;2];[]] with
  | AOk ix => slop_freqs ix [1;2;3] 3 = AOk [2;2;4;0;0] /\ slop_freqs ix [1;2] 2 = AOk [1;1;2;1;0]
  | _ => False end.
Proof. vm_compute. split; reflexivity. Qed.
