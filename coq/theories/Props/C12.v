(* C12 — sorted-array kernels compute their set-theoretic definitions.
   Statement-only file: each theorem is closed by [exact] of a lemma proved in Kernels/*_Correct.v / Linear_Proofs.v.
   Model = line-level transliteration of the .pyx kernels (Kernels/Intersect.v, Kernels/Linear.v);
   Spec  = Kernels/Spec.v.  `= Done spec` includes: no out-of-bounds access, no fuel exhaustion. *)
From Coq Require Import Sorted.
From SA Require Import Base.Prelude Kernels.Intersect Kernels.Linear Kernels.Spec
  Kernels.Intersect_Correct Kernels.Linear_Proofs Kernels.Adjacent_Correct.
Open Scope N_scope.

(* masked values non-decreasing (what "sorted under a mask of contiguous high bits" gives) *)
Notation msorted_idx := Intersect_Correct.msorted.

Theorem C12_intersect_drop : forall l r mask,
  msorted_idx l mask -> msorted_idx r mask ->
  N.of_nat (length l) < 2 ^ 62 -> N.of_nat (length r) < 2 ^ 62 ->
  intersect_drop l r mask = Done (intersect_drop_spec l r mask).
Proof. exact intersect_drop_correct. Qed.
Print Assumptions C12_intersect_drop.

Theorem C12_intersect_keep : forall l r mask,
  msorted_idx l mask -> msorted_idx r mask ->
  N.of_nat (length l) < 2 ^ 62 -> N.of_nat (length r) < 2 ^ 62 ->
  intersect_keep l r mask = Done (intersect_keep_spec l r mask).
Proof. exact intersect_keep_correct. Qed.
Print Assumptions C12_intersect_keep.

Theorem C12_sorted_gives_msorted : forall l mask, Sorted N.le (mvals l mask) -> msorted_idx l mask.
Proof. exact sorted_msorted. Qed.

Theorem C12_merge : forall l r, Sorted N.le l -> Sorted N.le r -> merge l r = Done (merge_spec l r).
Proof. exact merge_correct. Qed.
Print Assumptions C12_merge.

Theorem C12_merge_drop : forall l r, Sorted N.lt l -> Sorted N.lt r -> merge_drop l r = Done (merge_drop_spec l r).
Proof. exact merge_drop_correct. Qed.
Print Assumptions C12_merge_drop.

Theorem C12_sort_merge_counts : forall li lc ri rc, length li = length lc -> length ri = length rc ->
  Sorted N.lt li -> Sorted N.lt ri ->
  sort_merge_counts li lc ri rc = Done (sort_merge_counts_spec li lc ri rc).
Proof. exact sort_merge_counts_correct. Qed.
Print Assumptions C12_sort_merge_counts.

Theorem C12_unique : forall a rshift, a <> [] \/ rshift = 0 -> unique a rshift = Done (unique_spec a rshift).
Proof. exact unique_correct. Qed.
Print Assumptions C12_unique.

(* lower bound + presence; the (None, _) case is "target larger than every element": never reported present *)
Theorem C12_binary_search : forall a t m start,
  Linear_Proofs.msorted a m -> N.of_nat (length a) < 2 ^ 62 -> start <= count_lt (N.land t m) (mvals a m) ->
  match search_spec a t m start with
  | (Some lb, present) => binary_search a t m start = Done (lb, present)
  | (None, _) => exists i, binary_search a t m start = Done (i, false)
  end.
Proof. exact binary_search_correct. Qed.
Print Assumptions C12_binary_search.

Theorem C12_galloping_search : forall a t m start,
  Linear_Proofs.msorted a m -> N.of_nat (length a) < 2 ^ 62 -> start <= count_lt (N.land t m) (mvals a m) ->
  match search_spec a t m start with
  | (Some lb, present) => galloping_search a t m start = Done (lb, present)
  | (None, _) => exists i, galloping_search a t m start = Done (i, false)
  end.
Proof. exact galloping_search_correct. Qed.
Print Assumptions C12_galloping_search.

Theorem C12_popcount_reduce_at : forall ids p, length ids = length p ->
  popcount_reduce_at ids p = PyOk (Done (popcount_reduce_at_spec ids p)).
Proof. exact popcount_reduce_at_correct. Qed.
Print Assumptions C12_popcount_reduce_at.

Theorem C12_key_sum_over : forall ids c, length ids = length c ->
  key_sum_over ids c = PyOk (Done (key_sum_over_spec ids c)).
Proof. exact key_sum_over_correct. Qed.

Theorem C12_reduce_length_mismatch : forall w ids p, length ids <> length p -> reduce_at_wrapper w ids p = PyValueError.
Proof. exact reduce_at_length_mismatch. Qed.

Theorem C12_popcount64_reduce : forall a ks vm, popcount64_reduce a ks vm = Done (popcount64_reduce_spec a ks vm).
Proof. exact popcount64_reduce_correct. Qed.
Print Assumptions C12_popcount64_reduce.

Theorem C12_as_dense : forall idx vals size, length idx = length vals -> Forall (fun i => i < size) idx ->
  as_dense idx vals size = PyOk (Done (as_dense_spec idx vals size)).
Proof. exact as_dense_correct. Qed.
Print Assumptions C12_as_dense.

(* non-vacuity: hypotheses met by concrete inputs with duplicates under the header mask *)
Example C12_nonvacuous :
  let l := [262144; 262145; 524288; 786432; 786440] in let r := [5; 524289; 786432; 786433; 1048576] in
  let m := 18446744073709289472 in
  Sorted N.le (mvals l m) /\ Sorted N.le (mvals r m) /\
  intersect_drop l r m = Done ([2; 3], [1; 2]) /\ intersect_keep l r m = Done ([2; 3; 4], [1; 2; 3]).
Proof. cbv zeta. repeat split; try (vm_compute; reflexivity); vm_compute; repeat constructor; discriminate. Qed.

(* adjacency: first-occurrence pairs whose masked values differ by one unit of the mask's lowest bit.
   Any non-zero 64-bit mask (contiguity is not needed: every masked value is a multiple of lowbit mask). *)
Theorem C12_adjacent : forall l r mask,
  msorted_idx l mask -> msorted_idx r mask ->
  N.of_nat (length l) < 2 ^ 62 -> N.of_nat (length r) < 2 ^ 62 ->
  mask <> 0 -> mask < W64 ->
  adjacent l r mask = Done (adjacent_spec l r mask (lowbit mask)).
Proof. exact adjacent_correct. Qed.
Print Assumptions C12_adjacent.

(* the fused kernel returns both answers at once; for a common value repeated in the right input the
   intersection may report ANY of its right occurrences; needs the no-overflow proviso of the property *)
Theorem C12_intersect_with_adjacents : forall l r mask,
  msorted_idx l mask -> msorted_idx r mask ->
  N.of_nat (length l) < 2 ^ 62 -> N.of_nat (length r) < 2 ^ 62 ->
  mask <> 0 -> mask < W64 ->
  (forall a, In a l -> N.land a mask + lowbit mask < W64) ->
  exists o, intersect_with_adjacents l r mask = Done o /\
    ia_lo o = fst (intersect_drop_spec l r mask) /\
    length (ia_ro o) = length (ia_lo o) /\
    (forall k a b, nth_error (ia_lo o) k = Some a -> nth_error (ia_ro o) k = Some b ->
        b < N.of_nat (length r) /\
        N.land (nth (N.to_nat b) r 0) mask = N.land (nth (N.to_nat a) l 0) mask) /\
    (ia_alo o, ia_aro o) = adjacent_spec l r mask (lowbit mask).
Proof. exact intersect_with_adjacents_correct. Qed.
Print Assumptions C12_intersect_with_adjacents.

(* Assumptions of the remaining named statements of this file (the gate requires one per statement). *)
Print Assumptions C12_sorted_gives_msorted.
Print Assumptions C12_key_sum_over.
Print Assumptions C12_reduce_length_mismatch.
