(* C12 — sorted-array kernels compute their set-theoretic definitions.  (theorems are added as they close) *)
From SA Require Import Base.Prelude Kernels.Intersect Kernels.Linear Kernels.Spec.
Open Scope N_scope.
Example C12_placeholder_nonvacuity :
  intersect_drop [1;2;3;5;5;9] [0;5;5;6;9] wmask = Done (fst (intersect_drop_spec [1;2;3;5;5;9] [0;5;5;6;9] wmask),
                                                         snd (intersect_drop_spec [1;2;3;5;5;9] [0;5;5;6;9] wmask)).
Proof. vm_compute. reflexivity. Qed.
