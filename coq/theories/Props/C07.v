(* C07 — queries are pure: no read-only history changes any later answer.
   Statement-only file.  Machine: View/Purity.v (doc-freq / term-freq / filtered-postings caches, the
   filter reset of a sliced view's parent, fresh output vectors); history-free answers: View/View.v.
   Generic form: two facts about the immutable postings (slicing twice = slicing once; a document's phrase count
   depends only on that document's postings) are explicit premises, quantified over a predicate good_posts that every
   postings table in the pool satisfies.  Both are PROVED for every indexed corpus (View/View_Phrase3.v,
   View/Purity_Indexed2.v), which gives the premise-free statements at the end of this file
   (C07_every_output_is_history_free, C07_repeat_same, C07_history_free).  Not operations of the machine: slop searches,
   custom similarities.  EDISMAX is not an operation either (what it does depends on what it reads): it is a dynamic program
   over the machine's atomic actions (Conc/Conc_Dyn.v, Conc/Conc_Edismax.v); its purity is stated at the end of this file. *)
From Coq Require Import ZArith.
From SA Require Import Base.Prelude Index.Index Index.Index_Spec View.View View.Purity View.Purity_Proofs View.Purity_Gen View.Purity_Indexed View.Purity_Indexed2.
From SA Require Import Solr.Edismax Conc.Conc Conc.Conc_Dyn Conc.Conc_Dyn_Proofs Conc.Conc_Edismax Conc.Conc_Dyn_Indexed.
Open Scope N_scope.

(* every output of every operation equals the history-free answer, in every state reachable from a pool
   satisfying the cache invariant; arrays are only ever appended, never modified *)
Theorem C07_step_pure_partial : forall (good_posts : posts -> N -> Prop),
  slice_idem_hyp good_posts -> phrase_local_hyp good_posts ->
  forall p o r p', Inv good_posts p -> step p o = (r, p') ->
    Inv good_posts p' /\ (forall r0, pure_answer p o = Some r0 -> r = r0) /\
    (exists extra, arrays p' = arrays p ++ extra) /\ heap_le p p'.
Proof. exact step_pure. Qed.
Print Assumptions C07_step_pure_partial.

(* repeating a query after ANY operation sequence returns what it returned the first time *)
Theorem C07_repeat_same_partial : forall (good_posts : posts -> N -> Prop),
  slice_idem_hyp good_posts -> phrase_local_hyp good_posts ->
  forall p q r1 p1 ops outs p2 r2 p3, Inv good_posts p -> pure_answer p q <> None ->
    step p q = (r1, p1) -> run p1 ops = (outs, p2) -> step p2 q = (r2, p3) -> r2 = r1.
Proof. exact repeat_same. Qed.

Theorem C07_history_free_partial : forall (good_posts : posts -> N -> Prop),
  slice_idem_hyp good_posts -> phrase_local_hyp good_posts ->
  forall p q ops outs p', Inv good_posts p -> pure_answer p q <> None ->
    run p ops = (outs, p') -> fst (step p' q) = fst (step p q).
Proof. exact history_free. Qed.

(* the invariant holds initially (no premise) and is preserved by every operation (no premise) *)
Theorem C07_init_inv : forall (good_posts : posts -> N -> Prop) ix cg,
  good_posts (ix_posts ix) (N.of_nat (length (ix_lens ix)) - 1) -> Inv good_posts (init_pool ix cg).
Proof. exact init_inv. Qed.
Print Assumptions C07_init_inv.
Theorem C07_inv_preserved : forall (good_posts : posts -> N -> Prop) p o r p', Inv good_posts p -> step p o = (r, p') ->
  Inv good_posts p' /\ (exists extra, arrays p' = arrays p ++ extra) /\ heap_le p p'.
Proof. exact step_inv. Qed.

(* a history that crosses the cache threshold, slices a view (resetting its parent's filter) and repeats queries *)
Example C07_history_example :
  match index false 100 [[1;2;1;3];[];[2];[1;1;2];[3;1]] with
  | AOk ix =>
      let ops := [OTf 0 1 None None; OSelect 0 [4;2;0;0]; ODf 1 1; OTf 1 1 None None; OPhrase 1 [1;2] None None;
                  OSelect 1 [1;0]; OTf 1 1 None None; OPhrase 1 [1;2] None None; ODf 1 1; OTf 0 1 None None] in
      let outs := fst (run (init_pool ix 0) ops) in
      nth 3 outs (RUnit (AOk tt)) = nth 6 outs (RUnit (AOk tt)) /\
      nth 4 outs (RUnit (AOk tt)) = nth 7 outs (RUnit (AOk tt)) /\
      nth 0 outs (RUnit (AOk tt)) = nth 9 outs (RUnit (AOk tt))
  | _ => False end.
Proof. vm_compute. repeat split. Qed.

(* ================= premise-free, for indexed corpora =================
   For the postings of an indexed corpus both premises are PROVED on a static, boolean operation domain
   (View/Purity_Indexed.v: ops_in_domain).  Unrestricted: term frequencies with any position range, positions,
   docfreq, lengths, copies, cache warming, selections of in-range rows, and phrase / score queries on the root
   array.  Restricted: on a VIEW, a phrase of >= 2 terms must have no position range and no immediately repeated
   term (score: no immediately repeated term).  Nothing else is assumed. *)
Theorem C07_indexed_every_output_is_history_free : forall docs bs ix cg ops outs p',
  wf_docs docs -> index false bs docs = AOk ix ->
  ops_in_domain docs ops -> run (init_pool ix cg) ops = (outs, p') ->
  forall k o r, nth_error ops k = Some o -> nth_error outs k = Some r ->
    forall r0, pure_answer (snd (run (init_pool ix cg) (firstn k ops))) o = Some r0 -> r = r0.
Proof. exact indexed_run_pure. Qed.
Print Assumptions C07_indexed_every_output_is_history_free.

Theorem C07_indexed_repeat_same : forall docs bs ix cg ops1 outs1 p1 q r1 p1' ops2 outs2 p2 r2 p3,
  wf_docs docs -> index false bs docs = AOk ix ->
  ops_in_domain docs (ops1 ++ q :: ops2) ->
  run (init_pool ix cg) ops1 = (outs1, p1) -> pure_answer p1 q <> None ->
  step p1 q = (r1, p1') -> run p1' ops2 = (outs2, p2) -> step p2 q = (r2, p3) -> r2 = r1.
Proof. exact indexed_repeat_same. Qed.

Theorem C07_indexed_history_free : forall docs bs ix cg ops1 outs1 p1 ops2 outs2 p2 q,
  wf_docs docs -> index false bs docs = AOk ix ->
  ops_in_domain docs (ops1 ++ ops2) ->
  run (init_pool ix cg) ops1 = (outs1, p1) -> run p1 ops2 = (outs2, p2) ->
  op_in_domain_after docs ops1 q -> pure_answer p1 q <> None ->
  fst (step p2 q) = fst (step p1 q).
Proof. exact indexed_history_free. Qed.

(* a query on the freshly indexed array answers the same after ANY in-domain history (no condition on the query) *)
Theorem C07_indexed_history_free_initial : forall docs bs ix cg ops outs p' q,
  wf_docs docs -> index false bs docs = AOk ix ->
  ops_in_domain docs ops -> pure_answer (init_pool ix cg) q <> None ->
  run (init_pool ix cg) ops = (outs, p') ->
  fst (step p' q) = fst (step (init_pool ix cg) q).
Proof. exact indexed_history_free_initial. Qed.

(* the domain is not empty: an 18-operation history with views of views, ranged tf, phrases, scores, copies *)
Example C07_domain_nonvacuous : ops_in_domain Purity_Proofs.ex_docs ex_ops2.
Proof. exact (proj1 ex2_in_domain). Qed.

(* ================= NO premise and NO domain condition: every non-empty indexed corpus =================
   View/View_Phrase3.v proves locality of the phrase pipeline for EVERY phrase (immediate repetitions included) and EVERY
   position range, through either handle; hence (View/Purity_Indexed2.v), for every non-empty corpus within the limits,
   every operation sequence whatsoever: *)
Theorem C07_every_output_is_history_free : forall docs bs ix cg ops outs p',
  wf_docs docs -> docs <> [] -> index false bs docs = AOk ix -> run (init_pool ix cg) ops = (outs, p') ->
  forall k o r, nth_error ops k = Some o -> nth_error outs k = Some r ->
    forall r0, pure_answer (snd (run (init_pool ix cg) (firstn k ops))) o = Some r0 -> r = r0.
Proof. exact indexed_run_pure_any. Qed.
Print Assumptions C07_every_output_is_history_free.

Theorem C07_repeat_same : forall docs bs ix cg ops1 outs1 p1 q r1 p1' ops2 outs2 p2 r2 p3,
  wf_docs docs -> docs <> [] -> index false bs docs = AOk ix ->
  run (init_pool ix cg) ops1 = (outs1, p1) -> pure_answer p1 q <> None ->
  step p1 q = (r1, p1') -> run p1' ops2 = (outs2, p2) -> step p2 q = (r2, p3) -> r2 = r1.
Proof. exact indexed_repeat_same_any. Qed.

Theorem C07_history_free : forall docs bs ix cg ops1 outs1 p1 ops2 outs2 p2 q,
  wf_docs docs -> docs <> [] -> index false bs docs = AOk ix ->
  run (init_pool ix cg) ops1 = (outs1, p1) -> run p1 ops2 = (outs2, p2) -> pure_answer p1 q <> None ->
  fst (step p2 q) = fst (step p1 q).
Proof. exact indexed_history_free_any. Qed.

(* Assumptions of the remaining named statements of this file (the gate requires one per statement). *)
Print Assumptions C07_repeat_same_partial.
Print Assumptions C07_history_free_partial.
Print Assumptions C07_inv_preserved.
Print Assumptions C07_indexed_repeat_same.
Print Assumptions C07_indexed_history_free.
Print Assumptions C07_indexed_history_free_initial.
Print Assumptions C07_repeat_same.
Print Assumptions C07_history_free.

(* ================= running EDISMAX (or any dynamic query program) is pure =================
   One thread runs edismax ALONE (drun_thread: its atomic actions one after the other) on any pool reached by any
   operation history of a non-empty indexed corpus.  (1) It returns Solr/Edismax.v's edismax on the immutable descriptors
   of its field arrays: the caches and handle resets left by the history do not show.  (2) Running it changes no later
   answer: in the pool p1 it leaves (doc-freq cache entries, filtered postings of ITS views, the parents' handles reset by
   its selections), every later operation history is answered history-free, and every query that had an answer before
   edismax ran returns exactly that answer afterwards. *)
Theorem C07_edismax_is_history_free : forall docs bs ix cg ops outs p0 (e : ethread) o p1 env n,
  wf_docs docs -> docs <> [] -> index false bs docs = AOk ix ->
  run (init_pool ix cg) ops = (outs, p0) -> fields_at p0 (et_fields e) ->
  drun_thread p0 [] (compile p0 [] (et_prog e)) = (o, p1, env, n) ->
  o = et_answer e /\
  forall ops2 outs2 p2, run p1 ops2 = (outs2, p2) ->
    (forall k q r, nth_error ops2 k = Some q -> nth_error outs2 k = Some r ->
       forall r0, pure_answer (snd (run p1 (firstn k ops2))) q = Some r0 -> r = r0) /\
    (forall q, pure_answer p0 q <> None -> fst (step p2 q) = fst (step p0 q)).
Proof. exact indexed_edismax_single_thread. Qed.
Print Assumptions C07_edismax_is_history_free.

(* the same for ANY dynamic program over queries (Conc/Conc_Dyn.v: qprog), with its history-free evaluation qprog_hf *)
Theorem C07_dynamic_program_is_history_free : forall docs (T : Type) bs ix cg ops outs p0 (qp : qprog T) o p1 env n,
  wf_docs docs -> docs <> [] -> index false bs docs = AOk ix ->
  run (init_pool ix cg) ops = (outs, p0) ->
  drun_thread p0 [] (compile p0 [] qp) = (o, p1, env, n) ->
  o = qprog_hf p0 qp /\
  forall ops2 outs2 p2, run p1 ops2 = (outs2, p2) ->
    (forall k q r, nth_error ops2 k = Some q -> nth_error outs2 k = Some r ->
       forall r0, pure_answer (snd (run p1 (firstn k ops2))) q = Some r0 -> r = r0) /\
    (forall q, pure_answer p0 q <> None -> fst (step p2 q) = fst (step p0 q)).
Proof. exact (@indexed_qprog_single_thread). Qed.
Print Assumptions C07_dynamic_program_is_history_free.
