(* C07 — queries are pure (theorems are added as they close) *)
From Coq Require Import ZArith.
From SA Require Import Base.Prelude Index.Index View.View View.Purity.
Open Scope N_scope.
(* a history that crosses the cache threshold, slices a view (resetting its parent's filter) and repeats queries *)
Example C07_history_example :
  match index false 100 [[1;2;1;3];[];[2];[1;1;2];[3;1]] with
  | AOk ix =>
      let ops := [OTf 0 1 None None; OSelect 0 [4;2;0;0]; ODf 1 1; OTf 1 1 None None; OPhrase 1 [1;2] None None;
                  OSelect 1 [1;0]; OTf 1 1 None None; OPhrase 1 [1;2] None None; ODf 1 1; OTf 0 1 None None] in
      let outs := fst (run (init_pool ix 0) ops) in
      nth 3 outs (RUnit (AOk tt)) = nth 6 outs (RUnit (AOk tt)) /\
      nth 4 outs (RUnit (AOk tt)) = nth 7 outs (RUnit (AOk tt)) /\
      nth 0 outs (RUnit (AOk tt)) = nth 9 outs (RUnit (AOk tt))
  | _ => False end.
Proof. vm_compute. repeat split. Qed.
