(* C03 — exact phrase frequency counts contiguous in-order occurrences.
   Statement-only file.  Model: Query/Phrase.v (line-level bigram chain).  Spec: Query/Phrase_Spec.v. *)
From Coq Require Import Sorted.
From SA Require Import Base.Prelude Codec.Codec_Spec Index.Index Query.Phrase Query.Phrase_Spec
  Query.Phrase_Proofs Query.Phrase_Proofs2 Query.Phrase_Proofs3 Query.Phrase_Final Index.Index_Spec Query.Phrase_Repeats View.View_Phrase3.
Open Scope N_scope.

(* MAIN THEOREM: for every corpus within the limits, every batch size, every phrase of two or more terms in which
   no term is immediately followed by itself (terms present in the corpus or not): indexing succeeds and the
   phrase frequency of every document is the number of offsets at which the phrase occurs contiguously *)
Theorem C03_phrase_frequency_is_occurrence_count : forall docs bs ph,
  wf_docs docs -> (2 <= length ph)%nat -> no_adjacent_repeat ph = true ->
  exists ix, index false bs docs = AOk ix /\ phrase_freqs ix ph = AOk (phrase_spec docs ph).
Proof. exact C03_phrase_freqs. Qed.
Print Assumptions C03_phrase_frequency_is_occurrence_count.

(* positive exactly for the documents that contain the phrase contiguously *)
Theorem C03_positive_iff_phrase_occurs : forall docs bs ph,
  wf_docs docs -> (2 <= length ph)%nat -> no_adjacent_repeat ph = true ->
  exists ix res, index false bs docs = AOk ix /\ phrase_freqs ix ph = AOk res /\ length res = length docs /\
    forall d, nth d res 0 > 0 <-> exists pre suf, nth d docs [] = pre ++ ph ++ suf.
Proof. exact C03_positive_iff_contains. Qed.

(* the bigram step: on well-formed posting lists (strictly increasing headers, buckets <= 14563, zero payloads
   allowed on the left) with no common word, the continuation holds exactly the END positions p+1 of the
   bigrams (p in A, p+1 in B) and the per-document counts are their numbers; both continuations *)
Theorem C03_bigram_step_rhs : forall A B, wf_post A -> wf_post B ->
  N.of_nat (length A) < 2 ^ 62 -> N.of_nat (length B) < 2 ^ 62 -> nocommon A B ->
  exists counts next, bigram_freqs CR A B = AOk (counts, next) /\ wf_post next /\
    (forall d, dposns next d = map N.succ (filter (fun p => existsb (N.eqb (p + 1)) (dposns B d)) (dposns A d))) /\
    StronglySorted N.lt (map fst counts) /\
    (forall d, match lookup d counts with
               | Some n => n = N.of_nat (length (dposns next d))
               | None => dposns next d = [] end).
Proof. exact bigram_step_CR. Qed.
Print Assumptions C03_bigram_step_rhs.

(* the whole chain, either strategy (left-to-right or right-to-left), on the encodings of per-term
   (doc, position) lists with positions <= 262142 and no two consecutive terms sharing a position:
   for every document the reported count (0 when unlisted) is the number of occurrences of the phrase *)
Theorem C03_chain_counts_occurrences : forall pss, (2 <= length pss)%nat -> Forall good_term pss -> adj_distinct pss ->
  exists res, compute_phrase_freqs (map encode_spec pss) = AOk res /\
    StronglySorted N.lt (map fst res) /\
    forall ph d doc,
      Forall2 (fun t ps => map snd (filter (fun kp => fst kp =? d) ps) = offsets t doc) ph pss ->
      match lookup d res with Some n => n | None => 0 end = occ ph doc.
Proof. exact phrase_on_encoded. Qed.
Print Assumptions C03_chain_counts_occurrences.

(* The adjacent-repeats clause (phrases such as 'a a b': support and the bounds non-overlapping <= freq <= overlapping)
   is proved further down: C03_every_phrase_bounds and C03_exact_count_unless_one_repeated_term. *)

(* regression witness for D1 (halves apart) *)
Example C03_witnesses :
  match index false 100 [[1;2;9;3;1;2];[1;2];[1;2]] with
  | AOk ix => phrase_freqs ix [1;2;3;1;2] = AOk (phrase_spec [[1;2;9;3;1;2];[1;2];[1;2]] [1;2;3;1;2])
  | _ => False end.
Proof. vm_compute. reflexivity. Qed.

(* SECOND SENTENCE OF THE PROPERTY — every phrase of two or more terms, INCLUDING immediate repetitions ('a a b'),
   terms present in the corpus or not: the frequency is positive exactly for the documents containing the phrase
   contiguously, and lies between the number of non-overlapping (greedy) and overlapping occurrences.
   Every corpus within the limits, every batch size.  (Query/Phrase_Repeats.v: the same-term bigram step is
   characterised on all 2^18 payloads by a computed check; both chain directions and the strategy chooser.) *)
Theorem C03_every_phrase_bounds : forall docs bs ph, wf_docs docs -> (2 <= length ph)%nat ->
  exists ix res, index false bs docs = AOk ix /\ phrase_freqs ix ph = AOk res /\ length res = length docs /\
    forall d, (d < length docs)%nat ->
      (nth d res 0 > 0 <-> occ ph (nth d docs []) > 0) /\
      nonoverlapping ph (nth d docs []) <= nth d res 0 <= occ ph (nth d docs []).
Proof. exact phrase_repeats_bounds. Qed.
Print Assumptions C03_every_phrase_bounds.

(* the EXACT count holds for every phrase that mentions two different terms (immediate repetitions allowed: 'a a b',
   'b a a a'): such a phrase cannot match at two adjacent offsets.  Only a^k is left to the bounds above. *)
Theorem C03_exact_count_unless_one_repeated_term : forall docs bs ph, wf_docs docs -> (2 <= length ph)%nat ->
  is_const ph = false ->
  exists ix, index false bs docs = AOk ix /\ phrase_freqs ix ph = AOk (phrase_spec docs ph).
Proof. exact phrase_exact_nonconst_on_index. Qed.
Print Assumptions C03_exact_count_unless_one_repeated_term.

(* Assumptions of the remaining named statements of this file (the gate requires one per statement). *)
Print Assumptions C03_positive_iff_phrase_occurs.
