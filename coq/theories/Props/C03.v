(* C03 — exact phrase frequency counts contiguous in-order occurrences (theorems are added as they close) *)
From SA Require Import Base.Prelude Index.Index Query.Phrase Query.Phrase_Spec.
Open Scope N_scope.
(* regression witnesses for D1 (halves apart) and a word-boundary crossing *)
Example C03_witnesses :
  match index false 100 [[1;2;9;3;1;2];[1;2];[1;2]] with
  | AOk ix => phrase_freqs ix [1;2;3;1;2] = AOk (phrase_spec [[1;2;9;3;1;2];[1;2];[1;2]] [1;2;3;1;2])
  | _ => False end.
Proof. vm_compute. reflexivity. Qed.
