(* C08 — index contents do not depend on batching, threading, caching or memory-mapping.
   Statement-only file.  First part: batch size, worker threads, completion order, thread interleavings (Index/Sched.v).
   Second part (further down): cache_gt_than, autowarm, avoid_copies, data_dir (Store/Settings.v, Store/Settings_Proofs.v). *)
From Coq Require Import Permutation.
From SA Require Import Base.Prelude Index.Index Index.Index_Spec Index.Index_Proofs2 Index.Index_Proofs3
  Query.Phrase Query.Phrase_Spec Index.Sched Index.Sched_Proofs.
Open Scope N_scope.

(* any two batch sizes give the same per-term postings, lengths and dictionary *)
Theorem C08_batch_size_irrelevant : forall docs bs bs' ix ix', wf_docs docs ->
  index false bs docs = AOk ix -> index false bs' docs = AOk ix' ->
  (forall t, lookup t (ix_posts ix') = lookup t (ix_posts ix)) /\
  ix_lens ix' = ix_lens ix /\ ix_terms ix' = ix_terms ix.
Proof. exact batch_size_irrelevant. Qed.
Print Assumptions C08_batch_size_irrelevant.

(* and indexing always succeeds within the limits, whatever the batch size *)
Theorem C08_index_total : forall docs bs, wf_docs docs -> exists ix, index false bs docs = AOk ix /\ index_ok docs ix.
Proof. exact index_any_ok. Qed.

Example C08_batch_sizes_agree :
  let docs := [[1;2;1;3];[];[2];[1;1;2];[];[3;3;1]] in
  match index false 1 docs, index false 4 docs, index false 100 docs with
  | AOk a, AOk c, AOk d =>
      (termfreqs a 1, docfreq a 3, ix_lens a) = (termfreqs d 1, docfreq d 3, ix_lens d) /\
      (termfreqs c 1, docfreq c 3, ix_lens c) = (termfreqs d 1, docfreq d 3, ix_lens d)
  | _, _, _ => False end.
Proof. vm_compute. repeat split. Qed.
(* Not modelled: real thread interleavings; the slotting of completed futures by batch offset is exercised by the
   check with forced completion orders. *)

(* ================= worker threads: completion order and arrival-order term ids (Index/Sched.v) =================
   Model: batches are tokenised by threads sharing ONE term dictionary that hands out ids in arrival order (any
   interleaving of the threads' token streams: [sched]); each round of [workers] futures completes in ANY order
   ([orders]) and is slotted by (batch_beg - last) / batch_size as _process_batches does.
   Assumed, and tested by the check with a forced preemption: TermDict.add_term is atomic. *)

(* the slotting of one round returns the batches in document order for ANY completion order *)
Theorem C08_completion_order_irrelevant : forall (A : Type) bs last (rs : list A) completed, (1 <= bs)%nat ->
  Permutation completed (with_begs bs last rs) -> place_round bs last (length rs) completed = Some rs.
Proof. intro A. exact (@place_round_any_order A). Qed.
Print Assumptions C08_completion_order_irrelevant.

(* any interleaving of the worker threads yields a dictionary that is total and injective on the corpus vocabulary *)
Theorem C08_arrival_order_dictionary : forall bs tdocs sched, complete (streams_of bs tdocs) sched = true ->
  dict_ok (sched_dict bs tdocs sched) /\
  (forall t, In t (concat tdocs) <-> exists i, lookup_tok (sched_dict bs tdocs sched) t = Some i) /\
  (forall t1 t2 i, lookup_tok (sched_dict bs tdocs sched) t1 = Some i ->
                   lookup_tok (sched_dict bs tdocs sched) t2 = Some i -> t1 = t2) /\
  (forall t1 t2, id_of (sched_dict bs tdocs sched) t1 = id_of (sched_dict bs tdocs sched) t2 -> t1 = t2).
Proof. exact sched_dict_total_injective. Qed.

(* MAIN: two threaded builds with different batch sizes, worker counts, completion orders and thread interleavings
   answer every query alike (and, by threaded_build_correct, like the counting specs) *)
Theorem C08_threaded_builds_agree : forall tdocs bs1 w1 orders1 sched1 bs2 w2 orders2 sched2,
  wf_docs tdocs ->
  legal_orders bs1 w1 orders1 tdocs -> complete (streams_of bs1 tdocs) sched1 = true ->
  legal_orders bs2 w2 orders2 tdocs -> complete (streams_of bs2 tdocs) sched2 = true ->
  let d1 := sched_dict bs1 tdocs sched1 in
  let d2 := sched_dict bs2 tdocs sched2 in
  exists ix1 ix2,
    index_run bs1 w1 orders1 sched1 tdocs = Some (AOk ix1) /\
    index_run bs2 w2 orders2 sched2 tdocs = Some (AOk ix2) /\
    (forall t, termfreqs ix1 (id_of d1 t) = termfreqs ix2 (id_of d2 t)) /\
    (forall t, docfreq ix1 (id_of d1 t) = docfreq ix2 (id_of d2 t)) /\
    doclengths ix1 = doclengths ix2 /\ corpus_size ix1 = corpus_size ix2 /\ total_len ix1 = total_len ix2 /\
    (forall t, positions ix1 (id_of d1 t) = positions ix2 (id_of d2 t)).
Proof.
  intros tdocs bs1 w1 o1 s1 bs2 w2 o2 s2 Hwf L1 C1 L2 C2 d1 d2.
  destruct (threaded_build_irrelevant tdocs bs1 w1 o1 s1 bs2 w2 o2 s2 Hwf L1 C1 L2 C2)
    as (ix1 & ix2 & E1 & E2 & T & D & Le & N & To & P & _).
  exists ix1, ix2. repeat split; assumption.
Qed.
Print Assumptions C08_threaded_builds_agree.

(* Assumptions of the remaining named statements of this file (the gate requires one per statement). *)
Print Assumptions C08_index_total.
Print Assumptions C08_arrival_order_dictionary.

(* ================= the other settings of SearchArray.index: cache_gt_than, autowarm, avoid_copies, data_dir =================
   Models (all made for other properties; nothing here is new but the comparison of two configurations):
     cache_gt_than, autowarm : View/Purity.v, the query-time state machine with docfreq_cache / termfreq_cache /
                               FilteredPosns.sliced and the threshold (C07).  [fresh_pool ix cg autowarm] is the state
                               SearchArray.index leaves: threshold cg, then posns.warm() iff autowarm (Store/Settings.v).
                               An operation history [ops] is any list of queries (term / phrase frequencies with any position
                               range, positions, docfreq, lengths, BM25 scores), selections arr[key], copies and warm() calls;
                               operations name arrays by their position in the pool (0 = the indexed array, k = the k-th
                               array made by a selection or copy; warm() makes none, so positions mean the same on both sides).
     avoid_copies            : View/View.v, [of_index ix avoid] and [select] (FilteredPosns wrapper vs physical slice) (C06).
     data_dir                : Store/Store_View.v, [store_index] / [pickle_arr] / [unpickle_arr] (C18).  In the indexing process
                               MemoryMappedArrays writes the file and keeps serving reads from the ArrayDict it was given
                               (memmap_arrays.py 146-161, 167-195), so the index record is untouched; the file is read by a
                               process that LOADS the array.
   Hypothesis docs <> []: on an empty corpus a selection with a non-empty key is outside the machine's domain (C07). *)
From Coq Require Import ZArith.
From SA Require Import View.View View.View_Proofs View.Purity Store.Store Store.Store_View Store.Settings Store.Settings_Proofs.

(* the machine with ANY threshold, warmed or not, returns what a reference evaluator WITHOUT heap, caches and threshold
   returns ([hf_run]: it carries only the immutable descriptors of the arrays and applies the pure functions of View/View.v) *)
Theorem C08_answers_are_cache_free : forall docs bs ix cg autowarm ops,
  wf_docs docs -> docs <> [] -> index false bs docs = AOk ix ->
  fst (run (fresh_pool ix cg autowarm) ops) = hf_run [of_index ix true] ops.
Proof. exact fresh_pool_is_cache_free. Qed.
Print Assumptions C08_answers_are_cache_free.

(* hence: ANY two thresholds, autowarm or not on either side: every operation history is answered alike, output by output *)
Theorem C08_cache_threshold_and_warming_irrelevant : forall docs bs ix cg1 cg2 autowarm1 autowarm2 ops,
  wf_docs docs -> docs <> [] -> index false bs docs = AOk ix ->
  fst (run (fresh_pool ix cg1 autowarm1) ops) = fst (run (fresh_pool ix cg2 autowarm2) ops).
Proof. exact cache_threshold_and_warming_irrelevant. Qed.
Print Assumptions C08_cache_threshold_and_warming_irrelevant.

(* the same with warm() written as the first operation of the history ([autowarm_ops w] = [OWarm 0] or []; skipn drops
   its output) *)
Theorem C08_cache_threshold_and_warming_irrelevant_ops : forall docs bs ix cg1 cg2 w1 w2 ops,
  wf_docs docs -> docs <> [] -> index false bs docs = AOk ix ->
  skipn (length (autowarm_ops w1)) (fst (run (init_pool ix cg1) (autowarm_ops w1 ++ ops))) =
  skipn (length (autowarm_ops w2)) (fst (run (init_pool ix cg2) (autowarm_ops w2 ++ ops))).
Proof. exact cache_threshold_and_warming_irrelevant_ops. Qed.
Print Assumptions C08_cache_threshold_and_warming_irrelevant_ops.

(* copy avoidance: any chain of selections (keys in any order, repeats allowed), the two flags: neither fails, and the two
   views agree on term frequencies (any position range), document frequencies, positions, phrase frequencies (any phrase,
   any range), the statistics handed to a similarity, BM25 scores, lengths, corpus statistics, row vector, dictionary *)
Theorem C08_avoid_copies_irrelevant : forall docs bs ix keys,
  wf_docs docs -> index false bs docs = AOk ix -> valid_keys (length docs) keys ->
  exists vt vf, select_chain (of_index ix true) keys = AOk vt /\ select_chain (of_index ix false) keys = AOk vf /\
    (forall t lo hi, v_termfreqs vf t lo hi = v_termfreqs vt t lo hi) /\
    (forall t, v_docfreq vf t = v_docfreq vt t) /\
    (forall t, v_positions vf t = v_positions vt t) /\
    (forall ph lo hi, v_phrase_freqs vf ph lo hi = v_phrase_freqs vt ph lo hi) /\
    (forall ts lo hi, v_score_args vf ts lo hi = v_score_args vt ts lo hi) /\
    (forall ts idf k1 b, v_score_bm25 vf ts idf k1 b = v_score_bm25 vt ts idf k1 b) /\
    v_doclengths vf = v_doclengths vt /\ a_total vf = a_total vt /\ a_n vf = a_n vt /\
    a_rows vf = a_rows vt /\ a_subset vf = a_subset vt /\ a_terms vf = a_terms vt.
Proof. exact avoid_copies_irrelevant. Qed.
Print Assumptions C08_avoid_copies_irrelevant.

(* data directory.  d0: the directory before indexing, in ANY state with the naming invariant; d: ANY later state of it
   (further indexes, unrelated files); v: the array (keys = []) or any view of it, either avoid_copies mode.
   (a) what the file and the pickled metadata give back is exactly the in-memory postings table;
   (b) the array loaded from the directory is literally the array;  (c) without a directory nothing is written, and
   (d) the array loads, to the same value, in any directory state d' *)
Theorem C08_data_dir_irrelevant : forall docs bs ix avoid keys v d0 d1 res d d',
  wf_docs docs -> index false bs docs = AOk ix -> select_chain (of_index ix avoid) keys = AOk v ->
  names_below_count d0 -> store_index d0 true ix = (d1, res) -> dir_later d1 d ->
  (forall m, res = OnDisk m -> mm_load d m = Some (ix_posts ix)) /\
  unpickle_arr d (pickle_arr res (shares_root avoid keys) v) = Some v /\
  store_index d0 false ix = (d0, InMemory) /\
  unpickle_arr d' (pickle_arr InMemory (shares_root avoid keys) v) = Some v.
Proof. exact data_dir_irrelevant. Qed.
Print Assumptions C08_data_dir_irrelevant.

(* ALL SETTINGS AT ONCE: two configurations (batch_size, cache_gt_than, autowarm, avoid_copies, data_dir) on one corpus.
   (i)  every operation history on the query-time machine returns the same outputs;
   (ii) every chain of selections: neither fails; the view of the second configuration, whose index went to a directory
        (or not: use_dir) and which is loaded back in any later state of it, is that view; the two views answer alike. *)
Theorem C08_settings_irrelevant : forall docs bs1 bs2 ix1 ix2 cg1 cg2 autowarm1 autowarm2 avoid1 avoid2 ops keys d0 use_dir d1 res d,
  wf_docs docs -> docs <> [] -> index false bs1 docs = AOk ix1 -> index false bs2 docs = AOk ix2 ->
  valid_keys (length docs) keys -> names_below_count d0 -> store_index d0 use_dir ix2 = (d1, res) -> dir_later d1 d ->
  fst (run (fresh_pool ix1 cg1 autowarm1) ops) = fst (run (fresh_pool ix2 cg2 autowarm2) ops) /\
  exists v1 v2, select_chain (of_index ix1 avoid1) keys = AOk v1 /\ select_chain (of_index ix2 avoid2) keys = AOk v2 /\
                unpickle_arr d (pickle_arr res (shares_root avoid2 keys) v2) = Some v2 /\
                same_view_answers v1 v2.
Proof. exact settings_irrelevant. Qed.
Print Assumptions C08_settings_irrelevant.

(* 5 documents.  Left: batches of 2, threshold 0 (every docfreq is cached), autowarm.  Right: one batch, threshold 25,
   no warm.  A history with a view, a view of the view, a copy, ranged tf, phrases (one with a repeated term), a score;
   then the same views cut with avoid_copies = False, and the index written to a directory and loaded back. *)
Example C08_settings_agree :
  let docs := [[1;2;1;3];[];[2];[1;1;2];[3;1]] in
  let ops := [OTf 0 1 None None; ODf 0 1; OSelect 0 [4;2;0;0;3]; OPhrase 1 [1;2] None None; OTf 1 1 (Some 0) (Some 17);
              OPos 1 1; OScore 1 [1;2] 1065353216 1067030938 1061158912; OSelect 1 [4;0]; OPhrase 2 [1;1;2] None None;
              ODf 2 2; OLens 2; OTf 0 1 None None; OWarm 0; OCopy 2; OTf 3 1 None None] in
  match index false 2 docs, index false 100 docs with
  | AOk ix1, AOk ix2 =>
      let '(outs1, p1) := run (fresh_pool ix1 0 true) ops in
      let '(outs2, p2) := run (fresh_pool ix2 25 false) ops in
      outs1 = outs2 /\
      nth 3 outs1 (RUnit (AOk tt)) = RVec (AOk [0;0;1;1;1]) /\ nth 8 outs1 (RUnit (AOk tt)) = RVec (AOk [1;0]) /\
      ps_dfcache (get_ps p1 0) <> [] /\ ps_dfcache (get_ps p2 0) = [] /\           (* the caches do differ *)
      match select_chain (of_index ix1 true) [[4;2;0;0;3];[4;0]], select_chain (of_index ix2 false) [[4;2;0;0;3];[4;0]] with
      | AOk vt, AOk vf =>
          RVec (v_phrase_freqs vf [1;1;2] None None) = nth 8 outs1 (RUnit (AOk tt)) /\
          v_phrase_freqs vt [1;1;2] None None = v_phrase_freqs vf [1;1;2] None None /\
          v_termfreqs vt 1 (Some 0) (Some 17) = v_termfreqs vf 1 (Some 0) (Some 17) /\
          v_positions vt 1 = v_positions vf 1 /\ v_docfreq vt 2 = v_docfreq vf 2 /\
          v_score_bm25 vt [1;2] 1065353216 1067030938 1061158912 = v_score_bm25 vf [1;2] 1065353216 1067030938 1061158912 /\
          let '(d1, res) := store_index [(None, [42]); (Some 0, [1;2;3])] true ix2 in
          (match res with OnDisk m => mm_load (d1 ++ [(None, [5])]) m = Some (ix_posts ix2) | InMemory => False end) /\
          unpickle_arr (d1 ++ [(None, [5])]) (pickle_arr res false vf) = Some vf
      | _, _ => False end
  | _, _ => False end.
Proof. vm_compute. repeat split; discriminate. Qed.

(* autowarm that DOES fill the caches (300 documents: both terms have more than 255 posting words), against a build with
   another batch size, a threshold nothing exceeds, and no warm *)
Example C08_autowarm_fills_caches_same_answers :
  let docs := repeat [1;2] 299 ++ [[2;1;1]] in
  let ops := [OTf 0 1 None None; ODf 0 1; OSelect 0 [299;0;7]; OPhrase 1 [1;2] None None; OTf 1 1 None None; OTf 0 1 None None] in
  match index false 64 docs, index false 1000 docs with
  | AOk ix1, AOk ix2 =>
      map fst (ps_dfcache (get_ps (fresh_pool ix1 25 true) 0)) = [2;1] /\ map fst (ps_tfcache (get_ps (fresh_pool ix1 25 true) 0)) = [2;1] /\
      ps_dfcache (get_ps (fresh_pool ix2 1000 false) 0) = [] /\ ps_tfcache (get_ps (fresh_pool ix2 1000 false) 0) = [] /\
      fst (run (fresh_pool ix1 25 true) ops) = fst (run (fresh_pool ix2 1000 false) ops) /\
      nth 3 (fst (run (fresh_pool ix1 25 true) ops)) (RUnit (AOk tt)) = RVec (AOk [0;1;1])
  | _, _ => False end.
Proof. vm_compute. repeat split. Qed.
(* Not modelled / not covered by the second part:
   - the query-time machine (caches, threshold, warm) covers avoid_copies = True pools only (init_pool: of_index ix true,
     m_select: posns.filter); with avoid_copies = False a selection builds a NEW PosnBitArray over a sliced dict with fresh
     caches (middle_out.py slice 404-413) and copy() deep-copies the postings (postings.py 539-541): those objects are
     compared at the level of the pure answers (C08_avoid_copies_irrelevant), not on a machine with caches;
   - warm() on a view, slop phrase search, custom similarities and edismax are not operations of the machine (edismax as a
     dynamic program over it: C07 / C20);
   - MemoryMappedArrays.__setitem__ / __delitem__ (mutation after indexing), np.memmap itself, file deletion or
     modification in the data directory (the directory only grows: dir_later), pickle bytes: exercised by the check. *)
