(* C08 — index contents do not depend on batching (threading / caching / memory-mapping: see DESIGN.md).
   Statement-only file. *)
From Coq Require Import Permutation.
From SA Require Import Base.Prelude Index.Index Index.Index_Spec Index.Index_Proofs2 Index.Index_Proofs3
  Query.Phrase Query.Phrase_Spec Index.Sched Index.Sched_Proofs.
Open Scope N_scope.

(* any two batch sizes give the same per-term postings, lengths and dictionary *)
Theorem C08_batch_size_irrelevant : forall docs bs bs' ix ix', wf_docs docs ->
  index false bs docs = AOk ix -> index false bs' docs = AOk ix' ->
  (forall t, lookup t (ix_posts ix') = lookup t (ix_posts ix)) /\
  ix_lens ix' = ix_lens ix /\ ix_terms ix' = ix_terms ix.
Proof. exact batch_size_irrelevant. Qed.
Print Assumptions C08_batch_size_irrelevant.

(* and indexing always succeeds within the limits, whatever the batch size *)
Theorem C08_index_total : forall docs bs, wf_docs docs -> exists ix, index false bs docs = AOk ix /\ index_ok docs ix.
Proof. exact index_any_ok. Qed.

Example C08_batch_sizes_agree :
  let docs := [[1;2;1;3];[];[2];[1;1;2];[];[3;3;1]] in
  match index false 1 docs, index false 4 docs, index false 100 docs with
  | AOk a, AOk c, AOk d =>
      (termfreqs a 1, docfreq a 3, ix_lens a) = (termfreqs d 1, docfreq d 3, ix_lens d) /\
      (termfreqs c 1, docfreq c 3, ix_lens c) = (termfreqs d 1, docfreq d 3, ix_lens d)
  | _, _, _ => False end.
Proof. vm_compute. repeat split. Qed.
(* Not modelled: real thread interleavings; the slotting of completed futures by batch offset is exercised by the
   check with forced completion orders. *)

(* ================= worker threads: completion order and arrival-order term ids (Index/Sched.v) =================
   Model: batches are tokenised by threads sharing ONE term dictionary that hands out ids in arrival order (any
   interleaving of the threads' token streams: [sched]); each round of [workers] futures completes in ANY order
   ([orders]) and is slotted by (batch_beg - last) / batch_size as _process_batches does.
   Assumed, and tested by the check with a forced preemption: TermDict.add_term is atomic. *)

(* the slotting of one round returns the batches in document order for ANY completion order *)
Theorem C08_completion_order_irrelevant : forall (A : Type) bs last (rs : list A) completed, (1 <= bs)%nat ->
  Permutation completed (with_begs bs last rs) -> place_round bs last (length rs) completed = Some rs.
Proof. intro A. exact (@place_round_any_order A). Qed.
Print Assumptions C08_completion_order_irrelevant.

(* any interleaving of the worker threads yields a dictionary that is total and injective on the corpus vocabulary *)
Theorem C08_arrival_order_dictionary : forall bs tdocs sched, complete (streams_of bs tdocs) sched = true ->
  dict_ok (sched_dict bs tdocs sched) /\
  (forall t, In t (concat tdocs) <-> exists i, lookup_tok (sched_dict bs tdocs sched) t = Some i) /\
  (forall t1 t2 i, lookup_tok (sched_dict bs tdocs sched) t1 = Some i ->
                   lookup_tok (sched_dict bs tdocs sched) t2 = Some i -> t1 = t2) /\
  (forall t1 t2, id_of (sched_dict bs tdocs sched) t1 = id_of (sched_dict bs tdocs sched) t2 -> t1 = t2).
Proof. exact sched_dict_total_injective. Qed.

(* MAIN: two threaded builds with different batch sizes, worker counts, completion orders and thread interleavings
   answer every query alike (and, by threaded_build_correct, like the counting specs) *)
Theorem C08_threaded_builds_agree : forall tdocs bs1 w1 orders1 sched1 bs2 w2 orders2 sched2,
  wf_docs tdocs ->
  legal_orders bs1 w1 orders1 tdocs -> complete (streams_of bs1 tdocs) sched1 = true ->
  legal_orders bs2 w2 orders2 tdocs -> complete (streams_of bs2 tdocs) sched2 = true ->
  let d1 := sched_dict bs1 tdocs sched1 in
  let d2 := sched_dict bs2 tdocs sched2 in
  exists ix1 ix2,
    index_run bs1 w1 orders1 sched1 tdocs = Some (AOk ix1) /\
    index_run bs2 w2 orders2 sched2 tdocs = Some (AOk ix2) /\
    (forall t, termfreqs ix1 (id_of d1 t) = termfreqs ix2 (id_of d2 t)) /\
    (forall t, docfreq ix1 (id_of d1 t) = docfreq ix2 (id_of d2 t)) /\
    doclengths ix1 = doclengths ix2 /\ corpus_size ix1 = corpus_size ix2 /\ total_len ix1 = total_len ix2 /\
    (forall t, positions ix1 (id_of d1 t) = positions ix2 (id_of d2 t)).
Proof.
  intros tdocs bs1 w1 o1 s1 bs2 w2 o2 s2 Hwf L1 C1 L2 C2 d1 d2.
  destruct (threaded_build_irrelevant tdocs bs1 w1 o1 s1 bs2 w2 o2 s2 Hwf L1 C1 L2 C2)
    as (ix1 & ix2 & E1 & E2 & T & D & Le & N & To & P & _).
  exists ix1, ix2. repeat split; assumption.
Qed.
Print Assumptions C08_threaded_builds_agree.

(* Assumptions of the remaining named statements of this file (the gate requires one per statement). *)
Print Assumptions C08_index_total.
Print Assumptions C08_arrival_order_dictionary.
