(* C08 — index contents do not depend on batching, threading, caching or memory-mapping (theorems are added as they close) *)
From SA Require Import Base.Prelude Index.Index Index.Index_Spec.
Open Scope N_scope.
Example C08_batch_sizes_agree :
  let docs := [[1;2;1;3];[];[2];[1;1;2];[];[3;3;1]] in
  match index false 1 docs, index false 2 docs, index false 4 docs, index false 100 docs with
  | AOk a, AOk b, AOk c, AOk d =>
      (termfreqs a 1, docfreq a 3, ix_lens a) = (termfreqs d 1, docfreq d 3, ix_lens d) /\
      (termfreqs b 1, docfreq b 3, ix_lens b) = (termfreqs d 1, docfreq d 3, ix_lens d) /\
      (termfreqs c 1, docfreq c 3, ix_lens c) = (termfreqs d 1, docfreq d 3, ix_lens d)
  | _, _, _, _ => False end.
Proof. vm_compute. repeat split. Qed.
