(* C08 — index contents do not depend on batching (threading / caching / memory-mapping: see DESIGN.md).
   Statement-only file. *)
From SA Require Import Base.Prelude Index.Index Index.Index_Spec Index.Index_Proofs2 Index.Index_Proofs3.
Open Scope N_scope.

(* any two batch sizes give the same per-term postings, lengths and dictionary *)
Theorem C08_batch_size_irrelevant : forall docs bs bs' ix ix', wf_docs docs ->
  index false bs docs = AOk ix -> index false bs' docs = AOk ix' ->
  (forall t, lookup t (ix_posts ix') = lookup t (ix_posts ix)) /\
  ix_lens ix' = ix_lens ix /\ ix_terms ix' = ix_terms ix.
Proof. exact batch_size_irrelevant. Qed.
Print Assumptions C08_batch_size_irrelevant.

(* and indexing always succeeds within the limits, whatever the batch size *)
Theorem C08_index_total : forall docs bs, wf_docs docs -> exists ix, index false bs docs = AOk ix /\ index_ok docs ix.
Proof. exact index_any_ok. Qed.

Example C08_batch_sizes_agree :
  let docs := [[1;2;1;3];[];[2];[1;1;2];[];[3;3;1]] in
  match index false 1 docs, index false 4 docs, index false 100 docs with
  | AOk a, AOk c, AOk d =>
      (termfreqs a 1, docfreq a 3, ix_lens a) = (termfreqs d 1, docfreq d 3, ix_lens d) /\
      (termfreqs c 1, docfreq c 3, ix_lens c) = (termfreqs d 1, docfreq d 3, ix_lens d)
  | _, _, _ => False end.
Proof. vm_compute. repeat split. Qed.
(* Not modelled: real thread interleavings; the slotting of completed futures by batch offset is exercised by the
   check with forced completion orders. *)
