(* C13 — the position codec is lossless, canonical and sliceable by key.
   Statement-only file.  Model: Codec/Codec.v (numpy-combinator level: floor_divide, wrapping shifts,
   diff/nonzero, reduceat, bit-by-bit decode + lexsort + split).  Spec: Codec/Codec_Spec.v. *)
From Coq Require Import Sorted.
From SA Require Import Base.Prelude Codec.Codec Codec.Codec_Spec Codec.Codec_Proofs Codec.Codec_Proofs2 Kernels.Spec.
Open Scope N_scope.

(* ps strictly increasing in (key, position), key < 2^28, position < 2^18 *)
Theorem C13_encode_is_grouping : forall ps, sorted2 ps -> bounded ps ->
  encode (map fst ps) (map snd ps) = encode_spec ps.
Proof. exact encode_correct. Qed.
Print Assumptions C13_encode_is_grouping.

Theorem C13_roundtrip : forall ps, sorted2 ps -> bounded ps ->
  decode (encode (map fst ps) (map snd ps)) = group_by_key ps.
Proof. exact roundtrip. Qed.
Print Assumptions C13_roundtrip.

Theorem C13_canonical : forall ps, sorted2 ps -> bounded ps ->
  StronglySorted N.lt (map header_of (encode (map fst ps) (map snd ps))) /\
  Forall (fun w => payload_lsb_of w <> 0 /\ w < 2 ^ 64) (encode (map fst ps) (map snd ps)).
Proof. exact encode_canonical_real. Qed.
Print Assumptions C13_canonical.

Theorem C13_counts : forall ps, sorted2 ps -> bounded ps ->
  num_values_per_key (encode (map fst ps) (map snd ps)) = Done (counts_spec ps).
Proof. exact counts_correct_real. Qed.
Print Assumptions C13_counts.

Theorem C13_keys_unique : forall ps, sorted2 ps -> bounded ps -> ps <> [] ->
  keys_unique (encode (map fst ps) (map snd ps)) = Done (keys_spec ps).
Proof. exact keys_unique_correct_real. Qed.
Print Assumptions C13_keys_unique.

(* non-vacuity: both ends of the key and position ranges *)
Example C13_nonvacuous :
  let ps := [(0,0);(0,17);(0,18);(3,5);(3,40);(268435455,0);(268435455,262143)] in
  sorted2 ps /\ bounded ps /\
  decode (encode (map fst ps) (map snd ps)) = [(0,[0;17;18]);(3,[5;40]);(268435455,[0;262143])].
Proof.
  cbv zeta. split; [cbn; unfold lt2; cbn; repeat split; lia|].
  split; [repeat constructor; cbn; lia|]. vm_compute. reflexivity.
Qed.

(* slicing by a sorted set of (uint64) keys = encoding only the pairs with those keys *)
Theorem C13_slice_by_keys : forall ps ks, sorted2 ps -> bounded ps ->
  Sorted N.lt ks -> Forall (fun k => k < 2 ^ 64) ks ->
  N.of_nat (length ps) < 2 ^ 62 -> N.of_nat (length ks) < 2 ^ 62 ->
  slice_keys (encode (map fst ps) (map snd ps)) ks = Done (slice_spec ps ks).
Proof. exact slice_keys_correct_real. Qed.
Print Assumptions C13_slice_by_keys.

(* encoding several non-empty sequences at once with boundaries = encoding each separately
   (including two sequences that meet inside one 18-position word) *)
Theorem C13_boundaries : forall segs,
  Forall (fun s => sorted2 s /\ bounded s /\ s <> []) segs -> segs <> [] ->
  N.of_nat (length (concat segs)) < 2 ^ 62 ->
  let flat := concat segs in
  encode_b (map fst flat) (map snd flat) (starts segs) = Done (boundaries_spec segs).
Proof. exact encode_b_correct. Qed.
Print Assumptions C13_boundaries.
