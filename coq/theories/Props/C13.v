(* C13 — the position codec is lossless, canonical and sliceable by key.
   Statement-only file.  Model: Codec/Codec.v (numpy-combinator level: floor_divide, wrapping shifts,
   diff/nonzero, reduceat, bit-by-bit decode + lexsort + split).  Spec: Codec/Codec_Spec.v. *)
From Coq Require Import Sorted.
From SA Require Import Base.Prelude Codec.Codec Codec.Codec_Spec Codec.Codec_Proofs.
Open Scope N_scope.

(* ps strictly increasing in (key, position), key < 2^28, position < 2^18 *)
Theorem C13_encode_is_grouping : forall ps, sorted2 ps -> bounded ps ->
  encode (map fst ps) (map snd ps) = encode_spec ps.
Proof. exact encode_correct. Qed.
Print Assumptions C13_encode_is_grouping.

Theorem C13_roundtrip : forall ps, sorted2 ps -> bounded ps ->
  decode (encode (map fst ps) (map snd ps)) = group_by_key ps.
Proof. exact roundtrip. Qed.
Print Assumptions C13_roundtrip.

Theorem C13_canonical : forall ps, sorted2 ps -> bounded ps ->
  StronglySorted N.lt (map header_of (encode (map fst ps) (map snd ps))) /\
  Forall (fun w => payload_lsb_of w <> 0 /\ w < 2 ^ 64) (encode (map fst ps) (map snd ps)).
Proof. exact encode_canonical_real. Qed.
Print Assumptions C13_canonical.

Theorem C13_counts : forall ps, sorted2 ps -> bounded ps ->
  num_values_per_key (encode (map fst ps) (map snd ps)) = Done (counts_spec ps).
Proof. exact counts_correct_real. Qed.
Print Assumptions C13_counts.

Theorem C13_keys_unique : forall ps, sorted2 ps -> bounded ps -> ps <> [] ->
  keys_unique (encode (map fst ps) (map snd ps)) = Done (keys_spec ps).
Proof. exact keys_unique_correct_real. Qed.
Print Assumptions C13_keys_unique.

(* non-vacuity: both ends of the key and position ranges *)
Example C13_nonvacuous :
  let ps := [(0,0);(0,17);(0,18);(3,5);(3,40);(268435455,0);(268435455,262143)] in
  sorted2 ps /\ bounded ps /\
  decode (encode (map fst ps) (map snd ps)) = [(0,[0;17;18]);(3,[5;40]);(268435455,[0;262143])].
Proof.
  cbv zeta. split; [cbn; unfold lt2; cbn; repeat split; lia|].
  split; [repeat constructor; cbn; lia|]. vm_compute. reflexivity.
Qed.

(* Still only checked by correspondence (model = spec = implementation on generated inputs), not yet proved:
   slice by a sorted key set = encoding of the filtered pairs; boundary encoding = per-segment encodings. *)
