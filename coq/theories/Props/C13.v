(* C13 — the position codec is lossless, canonical and sliceable by key (theorems are added as they close) *)
From SA Require Import Base.Prelude Codec.Codec Codec.Codec_Spec.
Open Scope N_scope.
Example C13_roundtrip_example :
  decode (encode [0;0;0;3;3;3] [0;17;18;5;40;262143]) = group_by_key [(0,0);(0,17);(0,18);(3,5);(3,40);(3,262143)].
Proof. vm_compute. reflexivity. Qed.
