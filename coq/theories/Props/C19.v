(* C19 — arrays rebuilt from elements answer like an index of the same documents.  Statement-only file.
   Proved: (1) answers_like — every term-frequency, document-frequency, length, position query and every phrase without
   an immediately repeated term answers as the spec on the new documents; (2) LITERAL equality with the fresh index of
   the new documents (any batch size) for EVERY term list as a phrase (immediate repetitions included, any position
   range), for the statistics a similarity receives and for the BM25 scores; (3) the C03 bounds / exact counts for
   phrases with repeated terms against the new documents; (4) the same for take with fill.
   Model: Rebuild/Rebuild.v (after the repairs of D12).  Proofs: Rebuild/Rebuild_Proofs{,2,3}.v. *)
From SA Require Import Base.Prelude Index.Index Index.Index_Spec Query.Phrase Query.Phrase_Spec Query.Phrase_Repeats Query.Range Score.Score View.View View.View_Spec View.View_Proofs View.View_Phrase3 Rebuild.Rebuild Rebuild.Rebuild_Proofs Rebuild.Rebuild_Proofs2 Rebuild.Rebuild_Proofs3.
Open Scope N_scope.
(* answers_like docs' ix: every term-frequency, document-frequency, length, position and phrase query on ix answers
   as the spec on docs' (a fresh index of docs' does, by C01/C02/C03/C05).
   Sources are fresh indexes with views selected by valid key chains (any order, repeats); the new array takes, per new
   row, an element of some source view or a fill value; fewer than 2^28 new rows. Covers SearchArray(list(arr)),
   SearchArray(list(view)), pd.concat, take / reindex / shift with fill, object round trips. *)
Theorem C19_rebuilt_answers_like_fresh_index : forall srcs refs els,
  Forall source_ok srcs -> Forall2 (ref_el srcs) refs els -> N.of_nat (length refs) < 2 ^ 28 ->
  answers_like (map (ref_doc srcs) refs) (rebuild els).
Proof. exact rebuild_answers. Qed.
Print Assumptions C19_rebuilt_answers_like_fresh_index.

Theorem C19_take_with_fill : forall docs bs ix avoid keys v idx els,
  wf_docs docs -> index false bs docs = AOk ix -> valid_keys (length docs) keys ->
  select_chain (of_index ix avoid) keys = AOk v -> take_fill_elements v idx = AOk els ->
  N.of_nat (length idx) < 2 ^ 28 ->
  answers_like (taken_docs (view_docs docs keys) idx) (rebuild els).
Proof. exact take_fill_answers. Qed.
Print Assumptions C19_take_with_fill.

(* ================= literal equality with the fresh index of the new documents (Rebuild/Rebuild_Proofs3.v) =================
   ix' is the index built from scratch over the new documents (any batch size bs; it always exists:
   Rebuild_Proofs3.rebuild_fresh_exists).  The rebuilt record is NOT ix' (dictionary and posting table are in another
   order: Rebuild_Proofs3.rb3_run), but every query reads only  lookup / known / lengths,  on which the two agree. *)

(* EVERY term list as a phrase — immediate repetitions ('a a b', 'a a a'), unknown terms, fewer than two terms (the same
   error) — and every position range; on the index and on the unsliced array (the entry C06 uses) *)
Theorem C19_rebuilt_phrases_like_fresh_index : forall srcs refs els bs ix',
  Forall source_ok srcs -> Forall2 (ref_el srcs) refs els -> N.of_nat (length refs) < 2 ^ 28 ->
  index false bs (map (ref_doc srcs) refs) = AOk ix' ->
  (forall ph, phrase_freqs (rebuild els) ph = phrase_freqs ix' ph) /\
  (forall ph lo hi, phrase_freqs_range (rebuild els) ph lo hi = phrase_freqs_range ix' ph lo hi) /\
  (forall avoid ph lo hi,
     v_phrase_freqs (of_index (rebuild els) avoid) ph lo hi = v_phrase_freqs (of_index ix' avoid) ph lo hi).
Proof. exact rebuild_phrases_like_fresh. Qed.
Print Assumptions C19_rebuilt_phrases_like_fresh_index.

(* the statistics a similarity receives (tf vector of a term or a phrase, document frequencies, lengths, total, N) and the
   BM25 scores (idf, k1, b given as binary64 bit patterns; scores as binary32 bit patterns), for every term list *)
Theorem C19_rebuilt_scores_like_fresh_index : forall srcs refs els bs ix',
  Forall source_ok srcs -> Forall2 (ref_el srcs) refs els -> N.of_nat (length refs) < 2 ^ 28 ->
  index false bs (map (ref_doc srcs) refs) = AOk ix' ->
  (forall ts, score_args (rebuild els) ts = score_args ix' ts) /\
  (forall ts idf k1 b, score_bm25 (rebuild els) ts idf k1 b = score_bm25 ix' ts idf k1 b) /\
  (forall avoid ts lo hi,
     v_score_args (of_index (rebuild els) avoid) ts lo hi = v_score_args (of_index ix' avoid) ts lo hi) /\
  (forall avoid ts idf k1 b,
     v_score_bm25 (of_index (rebuild els) avoid) ts idf k1 b = v_score_bm25 (of_index ix' avoid) ts idf k1 b).
Proof. exact rebuild_scores_like_fresh. Qed.
Print Assumptions C19_rebuilt_scores_like_fresh_index.

(* every query of the model at once (same_answers: Rebuild_Proofs3.v, fifteen equalities) *)
Theorem C19_rebuilt_every_query_like_fresh_index : forall srcs refs els bs ix',
  Forall source_ok srcs -> Forall2 (ref_el srcs) refs els -> N.of_nat (length refs) < 2 ^ 28 ->
  index false bs (map (ref_doc srcs) refs) = AOk ix' -> same_answers (rebuild els) ix'.
Proof. exact rebuild_same_answers. Qed.
Print Assumptions C19_rebuilt_every_query_like_fresh_index.

(* against the new documents themselves: every phrase of two or more terms is positive exactly on the rows whose document
   contains it, between the non-overlapping and the overlapping count; exact when two different terms are mentioned *)
Theorem C19_rebuilt_phrase_counts : forall srcs refs els,
  Forall source_ok srcs -> Forall2 (ref_el srcs) refs els -> N.of_nat (length refs) < 2 ^ 28 ->
  forall ph, (2 <= length ph)%nat ->
  (exists res, phrase_freqs (rebuild els) ph = AOk res /\ length res = length refs /\
     forall d, (d < length refs)%nat ->
       (nth d res 0 > 0 <-> occ ph (nth d (map (ref_doc srcs) refs) []) > 0) /\
       nonoverlapping ph (nth d (map (ref_doc srcs) refs) []) <= nth d res 0 <= occ ph (nth d (map (ref_doc srcs) refs) [])) /\
  (is_const ph = false -> phrase_freqs (rebuild els) ph = AOk (phrase_spec (map (ref_doc srcs) refs) ph)).
Proof. exact rebuild_phrase_counts. Qed.
Print Assumptions C19_rebuilt_phrase_counts.

Theorem C19_take_with_fill_every_query_like_fresh_index : forall docs bs ix avoid keys v idx els bs' ix',
  wf_docs docs -> index false bs docs = AOk ix -> valid_keys (length docs) keys ->
  select_chain (of_index ix avoid) keys = AOk v -> take_fill_elements v idx = AOk els ->
  N.of_nat (length idx) < 2 ^ 28 ->
  index false bs' (taken_docs (view_docs docs keys) idx) = AOk ix' -> same_answers (rebuild els) ix'.
Proof. exact take_fill_same_answers. Qed.
Print Assumptions C19_take_with_fill_every_query_like_fresh_index.

Example C19_rebuilt_view_answers_like_fresh_index :
  let docs := [[1;2;1;3];[];[2];[1;1;2];[3;1]] in
  match index false 100 docs with
  | AOk ix =>
      match select_chain (of_index ix true) [[4;2;0]] with
      | AOk v =>
          match elements_of v with
          | AOk els =>
              let r := rebuild (els ++ [fill_element]) in
              let docs' := [[3;1];[2];[1;2;1;3];[]] in
              termfreqs r 1 = AOk (tf_spec docs' 1) /\ positions r 1 = AOk (positions_spec docs' 1) /\
              doclengths r = lens_spec docs' /\ docfreq r 1 = AOk (df_spec docs' 1)
          | _ => False end
      | _ => False end
  | _ => False end.
Proof. vm_compute. repeat split. Qed.
