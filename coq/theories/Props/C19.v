(* C19 — arrays rebuilt from elements answer like an index of the same documents (theorems are added as they close).
   Model: Rebuild/Rebuild.v (after the repairs of D12). *)
From SA Require Import Base.Prelude Index.Index Index.Index_Spec Query.Phrase Query.Phrase_Spec View.View View.View_Spec View.View_Proofs Rebuild.Rebuild Rebuild.Rebuild_Proofs Rebuild.Rebuild_Proofs2.
Open Scope N_scope.
(* answers_like docs' ix: every term-frequency, document-frequency, length, position and phrase query on ix answers
   as the spec on docs' (a fresh index of docs' does, by C01/C02/C03/C05).
   Sources are fresh indexes with views selected by valid key chains (any order, repeats); the new array takes, per new
   row, an element of some source view or a fill value; fewer than 2^28 new rows. Covers SearchArray(list(arr)),
   SearchArray(list(view)), pd.concat, take / reindex / shift with fill, object round trips. *)
Theorem C19_rebuilt_answers_like_fresh_index : forall srcs refs els,
  Forall source_ok srcs -> Forall2 (ref_el srcs) refs els -> N.of_nat (length refs) < 2 ^ 28 ->
  answers_like (map (ref_doc srcs) refs) (rebuild els).
Proof. exact rebuild_answers. Qed.
Print Assumptions C19_rebuilt_answers_like_fresh_index.

Theorem C19_take_with_fill : forall docs bs ix avoid keys v idx els,
  wf_docs docs -> index false bs docs = AOk ix -> valid_keys (length docs) keys ->
  select_chain (of_index ix avoid) keys = AOk v -> take_fill_elements v idx = AOk els ->
  N.of_nat (length idx) < 2 ^ 28 ->
  answers_like (taken_docs (view_docs docs keys) idx) (rebuild els).
Proof. exact take_fill_answers. Qed.
Print Assumptions C19_take_with_fill.

Example C19_rebuilt_view_answers_like_fresh_index :
  let docs := [[1;2;1;3];[];[2];[1;1;2];[3;1]] in
  match index false 100 docs with
  | AOk ix =>
      match select_chain (of_index ix true) [[4;2;0]] with
      | AOk v =>
          match elements_of v with
          | AOk els =>
              let r := rebuild (els ++ [fill_element]) in
              let docs' := [[3;1];[2];[1;2;1;3];[]] in
              termfreqs r 1 = AOk (tf_spec docs' 1) /\ positions r 1 = AOk (positions_spec docs' 1) /\
              doclengths r = lens_spec docs' /\ docfreq r 1 = AOk (df_spec docs' 1)
          | _ => False end
      | _ => False end
  | _ => False end.
Proof. vm_compute. repeat split. Qed.
