(* C19 — arrays rebuilt from elements answer like an index of the same documents (theorems are added as they close).
   Model: Rebuild/Rebuild.v (after the repairs of D12). *)
From SA Require Import Base.Prelude Index.Index Index.Index_Spec View.View Rebuild.Rebuild.
Open Scope N_scope.
Example C19_rebuilt_view_answers_like_fresh_index :
  let docs := [[1;2;1;3];[];[2];[1;1;2];[3;1]] in
  match index false 100 docs with
  | AOk ix =>
      match select_chain (of_index ix true) [[4;2;0]] with
      | AOk v =>
          match elements_of v with
          | AOk els =>
              let r := rebuild (els ++ [fill_element]) in
              let docs' := [[3;1];[2];[1;2;1;3];[]] in
              termfreqs r 1 = AOk (tf_spec docs' 1) /\ positions r 1 = AOk (positions_spec docs' 1) /\
              doclengths r = lens_spec docs' /\ docfreq r 1 = AOk (df_spec docs' 1)
          | _ => False end
      | _ => False end
  | _ => False end.
Proof. vm_compute. repeat split. Qed.
