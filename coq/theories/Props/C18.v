(* C18 — pickle round-trips preserve every answer, with or without a data directory.
   Statement-only file for the storage state machine (Store/Store.v): a directory is a list of entries,
   an index file is named by the number of entries at creation, the pickle state is (metadata, filename).
   PARTIAL: actual file contents, np.memmap, pickle bytes and a fresh interpreter are exercised by the check
   (subprocess round trips, several indexes per directory), not modelled. *)
From SA Require Import Base.Prelude Codec.Codec Index.Index Store.Store Store.Store_Proofs.
Open Scope N_scope.

(* no file is ever overwritten: a new index file is appended under a fresh name, and the naming invariant is kept *)
Theorem C18_no_overwrite : forall d p d' m, names_below_count d -> mm_create d p = (d', m) ->
  d' = d ++ [(Some (mm_file m), ad_data (adict_of_posts p))] /\ mm_file m = dir_count d /\ names_below_count d'.
Proof. exact create_no_overwrite. Qed.
Print Assumptions C18_no_overwrite.

(* unpickling (re-mapping the file and slicing it by the pickled metadata) yields exactly the original postings,
   hence every answer — also after further indexes were written to the same directory *)
Theorem C18_roundtrip : forall d p d' m, names_below_count d -> NoDup (map fst p) -> mm_create d p = (d', m) ->
  mm_load d' m = Some p.
Proof. exact mm_roundtrip. Qed.
Theorem C18_roundtrip_after_more_indexes : forall d p d1 m p2 d2 m2, names_below_count d -> NoDup (map fst p) ->
  mm_create d p = (d1, m) -> mm_create d1 p2 = (d2, m2) -> mm_load d2 m = Some p.
Proof. exact mm_roundtrip_after. Qed.
Print Assumptions C18_roundtrip_after_more_indexes.

(* indexes sharing a directory never affect one another: earlier files keep their content *)
Theorem C18_isolation : forall d p d' m k, names_below_count d -> mm_create d p = (d', m) ->
  dir_read d k <> None -> dir_read d' k = dir_read d k.
Proof. exact create_isolation. Qed.

(* the invariant holds for an empty directory and survives unrelated files *)
Theorem C18_inv_empty : names_below_count [].
Proof. exact empty_dir_inv. Qed.
Theorem C18_inv_foreign_file : forall d b, names_below_count d -> names_below_count (d ++ [(None, b)]).
Proof. exact foreign_file_inv. Qed.

Example C18_two_indexes_one_dir :
  let p1 := [(1, [5; 9]); (2, [7])] in let p2 := [(1, [11]); (3, [13; 17; 19])] in
  let '(d1, m1) := mm_create [(None, [42])] p1 in
  let '(d2, m2) := mm_create d1 p2 in
  mm_file m1 = 1 /\ mm_file m2 = 2 /\ mm_load d2 m1 = Some p1 /\ mm_load d2 m2 = Some p2.
Proof. vm_compute. repeat split. Qed.

(* Assumptions of the remaining named statements of this file (the gate requires one per statement). *)
Print Assumptions C18_roundtrip.
Print Assumptions C18_isolation.
Print Assumptions C18_inv_empty.
Print Assumptions C18_inv_foreign_file.
