(* C18 — pickle round-trips preserve every answer, with or without a data directory.
   Statement-only file.
   Part 1: the storage state machine (Store/Store.v): a directory is a list of entries, an index file is named by the
   number of entries at creation, the pickle state of the postings is (metadata, filename).
   Part 2 (further down): what pickle stores for an ARRAY OR ANY VIEW of it, in memory or with a data directory, and
   what loading rebuilds (Store/Store_View.v): rows vector, dictionary, lengths, statistics by value; the ROOT postings
   object by value (ArrayDict) or as (metadata, filename) (MemoryMappedArrays); the handle's base either as that same
   object (avoid_copies views carry the parent's FULL postings) or as its own sliced dict by value.
   Part 3: the caches that are pickled along (FilteredPosns.sliced, docfreq_cache, termfreq_cache, the root's caches
   through df_source) on the query-time state machine of View/Purity.v.
   PARTIAL: actual file contents, np.memmap, pickle bytes, the tokenizer (pickled by reference) and a fresh interpreter
   are exercised by the check (subprocess round trips, several indexes per directory), not modelled; deleting files from
   the directory is outside the model (names are the NUMBER of entries). *)
From Coq Require Import ZArith.
From SA Require Import Base.Prelude Codec.Codec Index.Index Index.Index_Spec View.View View.View_Spec View.View_Proofs View.Purity View.Purity_Proofs
  View.View_Phrase2 View.Purity_Gen View.Purity_Indexed Rebuild.Rebuild
  Store.Store Store.Store_Proofs Store.Store_View Store.Store_View_Proofs Store.Store_View_Proofs2.
Open Scope N_scope.

(* no file is ever overwritten: a new index file is appended under a fresh name, and the naming invariant is kept *)
Theorem C18_no_overwrite : forall d p d' m, names_below_count d -> mm_create d p = (d', m) ->
  d' = d ++ [(Some (mm_file m), ad_data (adict_of_posts p))] /\ mm_file m = dir_count d /\ names_below_count d'.
Proof. exact create_no_overwrite. Qed.
Print Assumptions C18_no_overwrite.

(* unpickling (re-mapping the file and slicing it by the pickled metadata) yields exactly the original postings,
   hence every answer — also after further indexes were written to the same directory *)
Theorem C18_roundtrip : forall d p d' m, names_below_count d -> NoDup (map fst p) -> mm_create d p = (d', m) ->
  mm_load d' m = Some p.
Proof. exact mm_roundtrip. Qed.
Theorem C18_roundtrip_after_more_indexes : forall d p d1 m p2 d2 m2, names_below_count d -> NoDup (map fst p) ->
  mm_create d p = (d1, m) -> mm_create d1 p2 = (d2, m2) -> mm_load d2 m = Some p.
Proof. exact mm_roundtrip_after. Qed.
Print Assumptions C18_roundtrip_after_more_indexes.

(* indexes sharing a directory never affect one another: earlier files keep their content *)
Theorem C18_isolation : forall d p d' m k, names_below_count d -> mm_create d p = (d', m) ->
  dir_read d k <> None -> dir_read d' k = dir_read d k.
Proof. exact create_isolation. Qed.

(* the invariant holds for an empty directory and survives unrelated files *)
Theorem C18_inv_empty : names_below_count [].
Proof. exact empty_dir_inv. Qed.
Theorem C18_inv_foreign_file : forall d b, names_below_count d -> names_below_count (d ++ [(None, b)]).
Proof. exact foreign_file_inv. Qed.

Example C18_two_indexes_one_dir :
  let p1 := [(1, [5; 9]); (2, [7])] in let p2 := [(1, [11]); (3, [13; 17; 19])] in
  let '(d1, m1) := mm_create [(None, [42])] p1 in
  let '(d2, m2) := mm_create d1 p2 in
  mm_file m1 = 1 /\ mm_file m2 = 2 /\ mm_load d2 m1 = Some p1 /\ mm_load d2 m2 = Some p2.
Proof. vm_compute. repeat split. Qed.

(* Assumptions of the remaining named statements of this file (the gate requires one per statement). *)
Print Assumptions C18_roundtrip.
Print Assumptions C18_isolation.
Print Assumptions C18_inv_empty.
Print Assumptions C18_inv_foreign_file.

(* ================= Part 2: arrays AND views, in memory AND with a data directory (Store/Store_View.v) =================
   v      : any chain of selections [keys] from the fresh index of [docs] (either avoid_copies mode; keys in any order,
            repeats allowed) -- keys = [] is the array itself;
   d0     : the directory before indexing, ANY state with the naming invariant (older indexes, unrelated files);
   use_dir: data_dir given or not (store_index: the postings go to a new file unless there is no term at all);
   d      : ANY later state of the directory (dir_later: further indexes, further unrelated files);
   shares_root avoid keys : whether the handle's base IS the root postings object (then pickle stores it once). *)

(* the unpickled array is literally the original: every field, hence every answer and every further selection *)
Theorem C18_view_roundtrip : forall docs bs ix avoid keys v d0 use_dir d1 res d,
  wf_docs docs -> index false bs docs = AOk ix -> select_chain (of_index ix avoid) keys = AOk v ->
  names_below_count d0 -> store_index d0 use_dir ix = (d1, res) -> dir_later d1 d ->
  unpickle_arr d (pickle_arr res (shares_root avoid keys) v) = Some v.
Proof. exact view_pickle_roundtrip. Qed.
Print Assumptions C18_view_roundtrip.

(* ... and such views exist for all valid keys (non-vacuity for every corpus / chain / directory) *)
Theorem C18_view_roundtrip_exists : forall docs bs ix avoid keys d0 use_dir d1 res d,
  wf_docs docs -> index false bs docs = AOk ix -> valid_keys (length docs) keys ->
  names_below_count d0 -> store_index d0 use_dir ix = (d1, res) -> dir_later d1 d ->
  exists v, select_chain (of_index ix avoid) keys = AOk v /\
            unpickle_arr d (pickle_arr res (shares_root avoid keys) v) = Some v.
Proof. exact view_pickle_total. Qed.
Print Assumptions C18_view_roundtrip_exists.

(* spelled out: term frequencies (any position range), document frequency, positions, phrase frequencies (any phrase, any
   range), the statistics handed to a similarity, BM25 scores, lengths, corpus statistics, rows -- and further selections *)
Theorem C18_view_answers : forall docs bs ix avoid keys v d0 use_dir d1 res d,
  wf_docs docs -> index false bs docs = AOk ix -> select_chain (of_index ix avoid) keys = AOk v ->
  names_below_count d0 -> store_index d0 use_dir ix = (d1, res) -> dir_later d1 d ->
  exists v', unpickle_arr d (pickle_arr res (shares_root avoid keys) v) = Some v' /\
    ((forall t lo hi, v_termfreqs v' t lo hi = v_termfreqs v t lo hi) /\
     (forall t, v_docfreq v' t = v_docfreq v t) /\
     (forall t, v_positions v' t = v_positions v t) /\
     (forall ph lo hi, v_phrase_freqs v' ph lo hi = v_phrase_freqs v ph lo hi) /\
     (forall ts lo hi, v_score_args v' ts lo hi = v_score_args v ts lo hi) /\
     (forall ts idf k1 b, v_score_bm25 v' ts idf k1 b = v_score_bm25 v ts idf k1 b) /\
     v_doclengths v' = v_doclengths v /\ a_total v' = a_total v /\ a_n v' = a_n v /\
     a_rows v' = a_rows v /\ a_subset v' = a_subset v /\ a_terms v' = a_terms v) /\
    forall more, select_chain v' more = select_chain v more.
Proof. exact view_pickle_answers. Qed.
Print Assumptions C18_view_answers.

(* without a data directory nothing outside the pickle is read: it loads in every directory state *)
Theorem C18_in_memory_roundtrip : forall docs bs ix avoid keys v d,
  wf_docs docs -> index false bs docs = AOk ix -> select_chain (of_index ix avoid) keys = AOk v ->
  unpickle_arr d (pickle_arr InMemory (shares_root avoid keys) v) = Some v.
Proof. exact in_memory_pickle_roundtrip. Qed.
Print Assumptions C18_in_memory_roundtrip.

(* ANY index record (not only a fresh one; the list that models the postings dict may even repeat a term): the unpickled
   array agrees with the original on every field except the two postings tables, which agree term by term (same_view),
   and that is enough for every answer *)
Theorem C18_view_roundtrip_any_index : forall ix avoid keys v d0 use_dir d1 res d,
  select_chain (of_index ix avoid) keys = AOk v ->
  names_below_count d0 -> store_index d0 use_dir ix = (d1, res) -> dir_later d1 d ->
  exists v', unpickle_arr d (pickle_arr res (shares_root avoid keys) v) = Some v' /\ same_view v v' /\ same_view_answers v v'.
Proof. exact view_pickle_any_index. Qed.
Print Assumptions C18_view_roundtrip_any_index.

(* what same_view gives: every query of View/View.v, and element access arr[i] *)
Theorem C18_same_view_same_answers : forall v v', same_view v v' -> same_view_answers v v'.
Proof. exact same_view_same_answers. Qed.
Print Assumptions C18_same_view_same_answers.
Theorem C18_same_view_element_access : forall v v', same_view v v' -> elements_of v' = elements_of v.
Proof. exact sv_elements. Qed.
Print Assumptions C18_same_view_element_access.

(* the flag given to pickle_arr is the object identity tracked along the chain: filter() keeps the root object, slice()
   does not, and every selection result has avoid_copies = True *)
Theorem C18_shares_root_tracks_identity : forall ix avoid keys,
  select_chain_sh (of_index ix avoid) true keys =
  ado v <- select_chain (of_index ix avoid) keys; AOk (v, shares_root avoid keys).
Proof. exact select_chain_sh_of_index. Qed.
Print Assumptions C18_shares_root_tracks_identity.

(* every view keeps the root's FULL postings as its document-frequency source, and reads through them when it shares them *)
Theorem C18_view_keeps_root_postings : forall ix avoid keys v, select_chain (of_index ix avoid) keys = AOk v ->
  p_df_root (a_posns v) = ix_posts ix /\
  (shares_root avoid keys = true -> handle_base (p_handle (a_posns v)) = ix_posts ix).
Proof. exact chain_root. Qed.
Print Assumptions C18_view_keeps_root_postings.

(* later states of the directory keep the naming invariant and the content of every existing file *)
Theorem C18_directory_only_grows : forall d d', names_below_count d -> dir_later d d' ->
  names_below_count d' /\ forall k, dir_read d k <> None -> dir_read d' k = dir_read d k.
Proof. exact dir_later_keeps. Qed.
Print Assumptions C18_directory_only_grows.

(* the postings dictionary of a fresh index has distinct keys (what makes the ArrayDict / file round trip literal) *)
Theorem C18_fresh_index_distinct_terms : forall docs bs ix, wf_docs docs -> index false bs docs = AOk ix ->
  NoDup (map fst (ix_posts ix)).
Proof. exact index_posts_nodup. Qed.
Print Assumptions C18_fresh_index_distinct_terms.

Example C18_view_4_2_0 : forall avoid use_dir,
  match index false 2 ex_docs5, index false 100 [[7;8];[8]], index false 100 [[9]] with
  | AOk ix, AOk ix2, AOk ix3 =>
    match select_chain (of_index ix avoid) [[4;2;0]] with
    | AOk v =>
       let '(d1, res) := store_index ex_d0 use_dir ix in       (* ex_d0: an unrelated file and an older index *)
       let '(d2, _) := store_index d1 true ix2 in              (* two more indexes and an unrelated file afterwards *)
       let d3 := d2 ++ [(None, [5])] in
       let '(d4, _) := store_index d3 true ix3 in
       let pk := pickle_arr res (shares_root avoid [[4;2;0]]) v in
       (match pk_root_store pk with
        | PkMapped m => use_dir = true /\ mm_file m = 2
        | PkArrayDict ad => use_dir = false /\ length (ad_data ad) = 8%nat
        end) /\
       (match pk_base_store pk with PkSameAsRoot => avoid = true | PkDict _ => avoid = false end) /\
       pk_rows pk = [4;2;0] /\
       unpickle_arr d4 pk = Some v /\
       (use_dir = true -> unpickle_arr ex_d0 pk = None) /\
       v_termfreqs v 1 None None = AOk [1;0;2] /\ v_phrase_freqs v [1;2] None None = AOk [0;0;1] /\
       v_docfreq v 1 = AOk 3 /\ v_positions v 1 = AOk [[1]; []; [0;2]]
    | _ => False end
  | _, _, _ => False end.
Proof. intros [|] [|]; vm_compute; repeat split; try reflexivity; intro H; discriminate H. Qed.

(* ================= Part 3: the pickled caches (View/Purity.v machine; avoid_copies arrays) =================
   p : the pool reached from a freshly indexed array by ANY history [ops] (queries that fill docfreq_cache / termfreq_cache /
   FilteredPosns.sliced, selections, copies, warm); a : any array of it.  Its pickle holds the array, its PosnBitArray with
   caches and installed wrapper, the root PosnBitArray with caches (df_source) and one postings object. *)

(* the pool of the loading process: one array, equal to the pickled one, and the purity invariant (cache soundness) holds *)
Theorem C18_loaded_pool_invariant : forall docs bs ix cg ops outs p ai a d0 use_dir d1 res d,
  wf_docs docs -> docs <> [] -> index false bs docs = AOk ix ->
  run (init_pool ix cg) ops = (outs, p) -> nth_error (arrays p) ai = Some a ->
  names_below_count d0 -> store_index d0 use_dir ix = (d1, res) -> dir_later d1 d ->
  exists p' pid, unpickle_pool_array d (pickle_pool_array res p a) = Some p' /\
                 arrays p' = [{| pa_arr := pa_arr a; pa_pid := pid |}] /\
                 InvR (good_posts_of docs) (rows_in docs) p'.
Proof. exact pool_pickle_roundtrip. Qed.
Print Assumptions C18_loaded_pool_invariant.

(* with the caches it was pickled with, and after ANY further history of the loading process, the loaded array answers
   every query q like the original array does in the pickling process *)
Theorem C18_pickled_caches_do_not_matter : forall docs bs ix cg ops outs p a d0 use_dir d1 res d q,
  wf_docs docs -> docs <> [] -> index false bs docs = AOk ix ->
  run (init_pool ix cg) ops = (outs, p) -> nth_error (arrays p) (op_array q) = Some a ->
  names_below_count d0 -> store_index d0 use_dir ix = (d1, res) -> dir_later d1 d ->
  pure_answer p q <> None ->
  exists p', unpickle_pool_array d (pickle_pool_array res p a) = Some p' /\
    forall ops2 outs2 p2, run p' ops2 = (outs2, p2) -> fst (step p2 (retarget q)) = fst (step p q).
Proof. exact pickled_caches_do_not_matter. Qed.
Print Assumptions C18_pickled_caches_do_not_matter.

Example C18_caches_travel_with_the_pickle : forall use_dir,
  match index false 2 ex_docs5, index false 100 [[7;8];[8]] with
  | AOk ix, AOk ix2 =>
      let '(d1, res) := store_index ex_d0 use_dir ix in
      let '(d2, _) := store_index d1 true ix2 in
      let '(_, p) := run (init_pool ix 0) ex_before in
      match nth_error (arrays p) 1 with
      | Some a =>
          let k := pickle_pool_array res p a in
          (match pb_wrapper (pa_self k) with Some (ids, sl) => ids = [0;2;4] /\ map fst sl <> [] | None => False end) /\
          (match pa_dfsrc k with Some kr => map fst (pb_dfcache kr) = [1] /\ map fst (pb_tfcache kr) = [1] | None => False end) /\
          match unpickle_pool_array d2 k with
          | Some p' =>
              fst (step p' (OTf 0 1 None None)) = fst (step p (OTf 1 1 None None)) /\
              fst (step p' (OTf 0 1 None None)) = RVec (AOk [1;0;2]) /\
              fst (step p' (ODf 0 1)) = RNum (AOk 3)
          | None => False end
      | None => False end
  | _, _ => False end.
Proof. intros [|]; vm_compute; repeat split; discriminate. Qed.
