(* C04 — default score is Lucene BM25 over the index's own statistics.
   Statement-only file.  Model: Score/BM25.v (binary32 kernel, bit-exact with the C), Score/Score.v
   (statistics handed to the similarity); real-number spec: Score/BM25_Real.v. *)
From Coq Require Import ZArith List Reals.
From Flocq Require Import Core IEEE754.BinarySingleNaN IEEE754.Binary IEEE754.Bits.
From SA Require Import Score.BM25 Score.BM25_Real Score.BM25_Proofs Score.BM25_Accuracy2.
From SA Require Import Base.Prelude Index.Index Index.Index_Spec Query.Phrase Query.Phrase_Spec Query.Phrase_Repeats
  View.View_Phrase3 Score.Score Score.Score_Stats.
Import ListNotations.

(* documents with tf = 0 score exactly 0 — for ALL parameters (k1 rounding to 0, b rounding to 1, NaN idf ...) *)
Theorem C04_zero_tf_scores_zero : forall tfs dls total n idf_bits k1_bits b_bits i,
  nth_error tfs i = Some 0%Z -> (i < length dls)%nat ->
  nth_error (score_bits tfs dls total n idf_bits k1_bits b_bits) i = Some 0%Z.
Proof. exact score_zero_pattern. Qed.
Print Assumptions C04_zero_tf_scores_zero.

(* all-empty corpus (avg = 0): all zeros *)
Theorem C04_avg_zero : forall tfs dls avg idf k1 b, is_zero32 avg = true ->
  bm25_similarity tfs dls avg idf k1 b = map (fun _ => B754_zero 24 128 false) tfs.
Proof. exact bm25_similarity_avg_zero. Qed.

(* every score is finite: integer tf and lengths up to 2^18, avg >= 2^-10, any finite idf, 0 <= k1 <= 128, 0 <= b <= 1 *)
Theorem C04_scores_finite : forall tfs dls avg idf k1 b,
  Forall (fun n => 0 <= n <= 262144)%Z tfs -> Forall (fun m => 0 <= m <= 262144)%Z dls ->
  is_finite 24 128 avg = true -> (bpow radix2 (-10) <= B2R 24 128 avg)%R ->
  is_finite 24 128 idf = true ->
  is_finite 24 128 k1 = true -> (0 <= B2R 24 128 k1 <= bpow radix2 7)%R ->
  is_finite 24 128 b = true -> (0 <= B2R 24 128 b <= 1)%R ->
  Forall (fun x => is_finite 24 128 x = true) (bm25_kernel (map f32_of_Z tfs) (map f32_of_Z dls) avg idf k1 b).
Proof. exact bm25_kernel_all_finite. Qed.
Print Assumptions C04_scores_finite.

(* the binary32 kernel is within relative error 2^-17 (< 1e-5) of the real-number formula
   idf*tf/(tf + k1*(1 - b + b*len/avg)) on an explicit box (PARTIAL: the property's "all k1 > 0, 0 <= b < 1"
   cannot hold at a fixed tolerance; tiny positive lengths and b outside [1/16, 15/16] are not covered) *)
Theorem C04_accuracy_partial : forall tf dl avg idf k1 b,
  is_finite 24 128 tf = true -> (1 <= B2R 24 128 tf <= 1024)%R ->
  is_finite 24 128 dl = true -> (B2R 24 128 dl = 0 \/ 1 <= B2R 24 128 dl <= 4096)%R ->
  is_finite 24 128 avg = true -> (1 <= B2R 24 128 avg <= 4096)%R ->
  is_finite 24 128 idf = true -> (/ 1024 <= B2R 24 128 idf <= 32)%R ->
  is_finite 24 128 k1 = true -> (/ 16 <= B2R 24 128 k1 <= 4)%R ->
  is_finite 24 128 b = true -> (/ 16 <= B2R 24 128 b <= 15 / 16)%R ->
  let exact := bm25_R (B2R 24 128 idf) (B2R 24 128 tf) (B2R 24 128 dl) (B2R 24 128 avg) (B2R 24 128 k1) (B2R 24 128 b) in
  (Rabs (B2R 24 128 (bm25_one tf dl avg idf k1 b (one_minus b)) - exact) <= bpow radix2 (-17) * Rabs exact)%R.
Proof. exact bm25_accuracy_2pm17. Qed.
Print Assumptions C04_accuracy_partial.

(* real-number facts of the formula *)
Theorem C04_formula_zero : forall idf len avg k1 b, bm25_R idf 0 len avg k1 b = 0%R.
Proof. exact bm25_R_zero. Qed.
Theorem C04_denominator_positive : forall tf len avg k1 b,
  (0 < tf -> 0 < k1 -> 0 <= b < 1 -> 0 <= len -> 0 < avg -> 0 < tf + k1 * (1 - b + b * len / avg))%R.
Proof. exact bm25_R_denominator_pos. Qed.
Theorem C04_legacy_is_k1_plus_1_times_modern : forall idf tf len avg k1 b,
  legacy_R idf tf len avg k1 b = ((k1 + 1) * bm25_R idf tf len avg k1 b)%R.
Proof. exact legacy_is_k1_plus_1_times_modern. Qed.
Theorem C04_idf_positive : forall N df, (0 <= df <= N -> 0 < idf_term N df)%R.
Proof. exact idf_term_pos. Qed.
Print Assumptions C04_idf_positive.

(* bit-exactness witness against the real kernel *)
Example C04_kernel_bits_example :
  score_bits [2;1;3;0]%Z [5;3;4;2]%Z 14 4 4604418534313441775 4608083138725491507 4604930618986332160
  = [1053160071; 1051415468; 1056306910; 0]%Z.
Proof. vm_compute. reflexivity. Qed.

(* ACCURACY ON THE PROPERTY'S DOMAIN: term / phrase frequency and document length any value up to 2^18 (documents are
   limited to 262143 tokens), avg in [2^-32, 2^18], idf in [2^-64, 2^64], EVERY k1 in [2^-32, 2^10] and EVERY
   0 <= b < 1 (b = 0, subnormal b, b = 1 - 2^-24 included): the binary32 kernel is within relative error 2^-17
   (the proof gives 2^-20) of idf*tf/(tf + k1*(1 - b + b*len/avg)). *)
Theorem C04_accuracy : forall tf dl avg idf k1 b,
  is_finite 24 128 tf = true -> (1 <= B2R 24 128 tf <= bpow radix2 18)%R ->
  is_finite 24 128 dl = true -> (B2R 24 128 dl = 0 \/ 1 <= B2R 24 128 dl <= bpow radix2 18)%R ->
  is_finite 24 128 avg = true -> (bpow radix2 (-32) <= B2R 24 128 avg <= bpow radix2 18)%R ->
  is_finite 24 128 idf = true -> (bpow radix2 (-64) <= B2R 24 128 idf <= bpow radix2 64)%R ->
  is_finite 24 128 k1 = true -> (bpow radix2 (-32) <= B2R 24 128 k1 <= bpow radix2 10)%R ->
  is_finite 24 128 b = true -> (0 <= B2R 24 128 b < 1)%R ->
  let exact := bm25_R (B2R 24 128 idf) (B2R 24 128 tf) (B2R 24 128 dl) (B2R 24 128 avg)
                      (B2R 24 128 k1) (B2R 24 128 b) in
  (Rabs (B2R 24 128 (bm25_one tf dl avg idf k1 b (one_minus b)) - exact) <= bpow radix2 (-17) * Rabs exact)%R.
Proof. exact bm25_accuracy_wide. Qed.
Print Assumptions C04_accuracy.
(* the DEFAULT similarity: k1 = 1.2f, b = 0.75f (the binary32 values the code passes), integer counts, against the
   formula at the REAL parameters 6/5 and 3/4 *)
Theorem C04_default_accuracy : forall n m avg idf,
  (1 <= n <= 262144)%Z -> (0 <= m <= 262144)%Z ->
  is_finite 24 128 avg = true -> (bpow radix2 (-32) <= B2R 24 128 avg <= bpow radix2 18)%R ->
  is_finite 24 128 idf = true -> (bpow radix2 (-64) <= B2R 24 128 idf <= bpow radix2 64)%R ->
  let exact := bm25_R (B2R 24 128 idf) (IZR n) (IZR m) (B2R 24 128 avg) (6 / 5) (3 / 4) in
  let res := bm25_one (f32_of_Z n) (f32_of_Z m) avg idf k1_default b_default (one_minus b_default) in
  (Rabs (B2R 24 128 res - exact) <= bpow radix2 (-17) * Rabs exact)%R.
Proof. exact bm25_default_accuracy_real. Qed.

(* Assumptions of the remaining named statements of this file (the gate requires one per statement). *)
Print Assumptions C04_avg_zero.
Print Assumptions C04_formula_zero.
Print Assumptions C04_denominator_positive.
Print Assumptions C04_legacy_is_k1_plus_1_times_modern.
Print Assumptions C04_default_accuracy.

(* ================= THE SIMILARITY IS CALLED WITH THE INDEX'S OWN STATISTICS (Score/Score_Stats.v) =================
   SearchArray.score (postings.py 649-680) calls  similarity(tfs, all_dfs, doc_lens, avg_doc_length, corpus_size);
   Score.score_args is that tuple on the index model, as (tfs, dfs, doc_lens, total, n): the model hands over the
   sum of the lengths and the number of rows and the average is total / n (avg_doc_length = np.mean of the float32
   lengths = the correctly rounded total / n; 0 when n = 0).  docs = the tokenizer's output per document.
   Every corpus within the limits, every batch size. *)

(* one term, present in the corpus or not (absent: a vector of zeros and df = 0, which is what the specs say):
   per-document counts of the term, ITS document frequency, the lengths / total length / number of rows of the whole corpus *)
Theorem C04_statistics_single_term : forall docs bs ix,
  wf_docs docs -> index false bs docs = AOk ix -> forall t,
  score_args ix [t] =
    AOk (tf_spec docs t, [df_spec docs t], lens_spec docs, total_spec docs, N.of_nat (length docs)).
Proof. exact score_args_single_term. Qed.
Print Assumptions C04_statistics_single_term.

(* two or more terms (ANY term list: immediate repetitions, absent terms): the call succeeds; the frequency vector is the
   phrase path's answer, one entry per document, positive exactly where the phrase occurs contiguously and between the
   non-overlapping and the overlapping occurrence counts (C03), EQUAL to the occurrence count when the phrase mentions
   two different terms; the document frequencies are one per query term IN QUERY ORDER; lengths / total / n are the corpus's *)
Theorem C04_statistics_phrase : forall docs bs ix,
  wf_docs docs -> index false bs docs = AOk ix -> forall ts, (2 <= length ts)%nat ->
  exists tfs,
    phrase_freqs ix ts = AOk tfs /\
    score_args ix ts = AOk (tfs, map (df_spec docs) ts, lens_spec docs, total_spec docs, N.of_nat (length docs)) /\
    length tfs = length docs /\
    (forall d, (d < length docs)%nat ->
       (nth d tfs 0 > 0 <-> occ ts (nth d docs []) > 0)%N /\
       (nonoverlapping ts (nth d docs []) <= nth d tfs 0 <= occ ts (nth d docs []))%N) /\
    (is_const ts = false -> tfs = phrase_spec docs ts).
Proof. exact score_args_phrase. Qed.
Print Assumptions C04_statistics_phrase.

(* the property's "distinct-term phrase queries" (and every other phrase that is not one term repeated), in closed form *)
Theorem C04_statistics_phrase_exact : forall docs bs ix,
  wf_docs docs -> index false bs docs = AOk ix -> forall ts, (2 <= length ts)%nat -> is_const ts = false ->
  score_args ix ts =
    AOk (phrase_spec docs ts, map (df_spec docs) ts, lens_spec docs, total_spec docs, N.of_nat (length docs)).
Proof. exact score_args_phrase_exact. Qed.
Print Assumptions C04_statistics_phrase_exact.
Theorem C04_no_adjacent_repeat_is_not_const : forall ts, (2 <= length ts)%nat ->
  no_adjacent_repeat ts = true -> is_const ts = false.
Proof. exact no_adjacent_repeat_not_const. Qed.
Print Assumptions C04_no_adjacent_repeat_is_not_const.

(* default / parameterised BM25 = the binary32 kernel on exactly those statistics (idf, k1, b: binary64 bit patterns) *)
Theorem C04_default_score_over_the_statistics : forall docs bs ix,
  wf_docs docs -> index false bs docs = AOk ix -> forall ts idf k1 b,
  (length ts = 1 \/ (2 <= length ts /\ is_const ts = false))%nat ->
  score_bm25 ix ts idf k1 b =
    AOk (score_bits (map Z.of_N (match ts with [t] => tf_spec docs t | _ => phrase_spec docs ts end))
                    (map Z.of_N (lens_spec docs)) (Z.of_N (total_spec docs)) (Z.of_N (N.of_nat (length docs))) idf k1 b).
Proof. exact score_bm25_on_spec. Qed.
Print Assumptions C04_default_score_over_the_statistics.

(* The same for selections (views): C06_score_statistics in Props/C06.v — view tf and view lengths, PARENT df / total / n. *)

(* idf.  The model does not compute it: score_bm25 takes the bit pattern as an input and the harness evaluates
   np.sum(np.log(1 + (n - dfs + 0.5) / (dfs + 0.5)))  (similarity.py compute_idf; harness/props/c04.py idf_of) on the
   document frequencies above.  The formula over R: a sum over the query's terms — additive, independent of the order
   of the terms, strictly positive on the range of the index's statistics (0 <= df <= n). *)
Theorem C04_phrase_idf_is_sum_over_terms : forall n a b,
  (phrase_idf n (a ++ b) = phrase_idf n a + phrase_idf n b)%R.
Proof. exact phrase_idf_app. Qed.
Print Assumptions C04_phrase_idf_is_sum_over_terms.
Theorem C04_phrase_idf_unfold : forall n df dfs, (phrase_idf n (df :: dfs) = idf_of n df + phrase_idf n dfs)%R.
Proof. exact phrase_idf_cons. Qed.
Print Assumptions C04_phrase_idf_unfold.
Theorem C04_phrase_idf_order_independent : forall n a b, Permutation.Permutation a b -> phrase_idf n a = phrase_idf n b.
Proof. exact phrase_idf_perm. Qed.
Print Assumptions C04_phrase_idf_order_independent.
Theorem C04_phrase_idf_positive : forall n dfs, dfs <> [] -> Forall (fun df => 0 <= df <= n)%R dfs ->
  (0 < phrase_idf n dfs)%R.
Proof. exact phrase_idf_pos. Qed.
Print Assumptions C04_phrase_idf_positive.
(* ... in particular on the document frequencies handed over by score_args *)
Theorem C04_query_idf_positive : forall docs ts, ts <> [] ->
  (0 < phrase_idf (R_of_N (N.of_nat (length docs))) (map (fun t => R_of_N (df_spec docs t)) ts))%R.
Proof. exact query_idf_pos. Qed.
Print Assumptions C04_query_idf_positive.
(* the same formula as idf_term / idf_sum above *)
Theorem C04_idf_of_is_idf_term : forall n df, idf_of n df = idf_term n df.
Proof. exact idf_of_is_idf_term. Qed.
Print Assumptions C04_idf_of_is_idf_term.

(* non-vacuity: a 4-document corpus (one empty document), batch size 3; the phrase [1;2] (twice in document 0, not in
   [2;1]), its reverse, a phrase with an absent term, a phrase with an immediate repetition, a rare and an absent term *)
Example C04_statistics_example :
  let docs := [[1;2;1;2;3];[];[2;1];[1;1;2;7]]%N in
  wf_docs docs /\
  match index false 3 docs with
  | AOk ix =>
      score_args ix [1;2]%N = AOk ([2;0;0;1], [3;3], [5;0;2;4], 11, 4)%N /\
      score_args ix [1;2]%N = AOk (phrase_spec docs [1;2]%N, map (df_spec docs) [1;2]%N, lens_spec docs, total_spec docs, 4%N) /\
      score_args ix [2;1]%N = AOk ([1;0;1;0], [3;3], [5;0;2;4], 11, 4)%N /\
      score_args ix [1;9]%N = AOk ([0;0;0;0], [3;0], [5;0;2;4], 11, 4)%N /\
      score_args ix [1;1;2]%N = AOk ([0;0;0;1], [3;3;3], [5;0;2;4], 11, 4)%N /\
      score_args ix [7]%N = AOk ([0;0;0;1], [1], [5;0;2;4], 11, 4)%N /\
      score_args ix [9]%N = AOk ([0;0;0;0], [0], [5;0;2;4], 11, 4)%N
  | _ => False end.
Proof. split; [exact stats_ex_wf|vm_compute; repeat split]. Qed.
