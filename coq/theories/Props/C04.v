(* C04 — default score is Lucene BM25 over the index's own statistics.
   Statement-only file.  Model: Score/BM25.v (binary32 kernel, bit-exact with the C), Score/Score.v
   (statistics handed to the similarity); real-number spec: Score/BM25_Real.v. *)
From Coq Require Import ZArith List Reals.
From Flocq Require Import Core IEEE754.BinarySingleNaN IEEE754.Binary IEEE754.Bits.
From SA Require Import Score.BM25 Score.BM25_Real Score.BM25_Proofs Score.BM25_Accuracy2.
Import ListNotations.

(* documents with tf = 0 score exactly 0 — for ALL parameters (k1 rounding to 0, b rounding to 1, NaN idf ...) *)
Theorem C04_zero_tf_scores_zero : forall tfs dls total n idf_bits k1_bits b_bits i,
  nth_error tfs i = Some 0%Z -> (i < length dls)%nat ->
  nth_error (score_bits tfs dls total n idf_bits k1_bits b_bits) i = Some 0%Z.
Proof. exact score_zero_pattern. Qed.
Print Assumptions C04_zero_tf_scores_zero.

(* all-empty corpus (avg = 0): all zeros *)
Theorem C04_avg_zero : forall tfs dls avg idf k1 b, is_zero32 avg = true ->
  bm25_similarity tfs dls avg idf k1 b = map (fun _ => B754_zero 24 128 false) tfs.
Proof. exact bm25_similarity_avg_zero. Qed.

(* every score is finite: integer tf and lengths up to 2^18, avg >= 2^-10, any finite idf, 0 <= k1 <= 128, 0 <= b <= 1 *)
Theorem C04_scores_finite : forall tfs dls avg idf k1 b,
  Forall (fun n => 0 <= n <= 262144)%Z tfs -> Forall (fun m => 0 <= m <= 262144)%Z dls ->
  is_finite 24 128 avg = true -> (bpow radix2 (-10) <= B2R 24 128 avg)%R ->
  is_finite 24 128 idf = true ->
  is_finite 24 128 k1 = true -> (0 <= B2R 24 128 k1 <= bpow radix2 7)%R ->
  is_finite 24 128 b = true -> (0 <= B2R 24 128 b <= 1)%R ->
  Forall (fun x => is_finite 24 128 x = true) (bm25_kernel (map f32_of_Z tfs) (map f32_of_Z dls) avg idf k1 b).
Proof. exact bm25_kernel_all_finite. Qed.
Print Assumptions C04_scores_finite.

(* the binary32 kernel is within relative error 2^-17 (< 1e-5) of the real-number formula
   idf*tf/(tf + k1*(1 - b + b*len/avg)) on an explicit box (PARTIAL: the property's "all k1 > 0, 0 <= b < 1"
   cannot hold at a fixed tolerance; tiny positive lengths and b outside [1/16, 15/16] are not covered) *)
Theorem C04_accuracy_partial : forall tf dl avg idf k1 b,
  is_finite 24 128 tf = true -> (1 <= B2R 24 128 tf <= 1024)%R ->
  is_finite 24 128 dl = true -> (B2R 24 128 dl = 0 \/ 1 <= B2R 24 128 dl <= 4096)%R ->
  is_finite 24 128 avg = true -> (1 <= B2R 24 128 avg <= 4096)%R ->
  is_finite 24 128 idf = true -> (/ 1024 <= B2R 24 128 idf <= 32)%R ->
  is_finite 24 128 k1 = true -> (/ 16 <= B2R 24 128 k1 <= 4)%R ->
  is_finite 24 128 b = true -> (/ 16 <= B2R 24 128 b <= 15 / 16)%R ->
  let exact := bm25_R (B2R 24 128 idf) (B2R 24 128 tf) (B2R 24 128 dl) (B2R 24 128 avg) (B2R 24 128 k1) (B2R 24 128 b) in
  (Rabs (B2R 24 128 (bm25_one tf dl avg idf k1 b (one_minus b)) - exact) <= bpow radix2 (-17) * Rabs exact)%R.
Proof. exact bm25_accuracy_2pm17. Qed.
Print Assumptions C04_accuracy_partial.

(* real-number facts of the formula *)
Theorem C04_formula_zero : forall idf len avg k1 b, bm25_R idf 0 len avg k1 b = 0%R.
Proof. exact bm25_R_zero. Qed.
Theorem C04_denominator_positive : forall tf len avg k1 b,
  (0 < tf -> 0 < k1 -> 0 <= b < 1 -> 0 <= len -> 0 < avg -> 0 < tf + k1 * (1 - b + b * len / avg))%R.
Proof. exact bm25_R_denominator_pos. Qed.
Theorem C04_legacy_is_k1_plus_1_times_modern : forall idf tf len avg k1 b,
  legacy_R idf tf len avg k1 b = ((k1 + 1) * bm25_R idf tf len avg k1 b)%R.
Proof. exact legacy_is_k1_plus_1_times_modern. Qed.
Theorem C04_idf_positive : forall N df, (0 <= df <= N -> 0 < idf_term N df)%R.
Proof. exact idf_term_pos. Qed.
Print Assumptions C04_idf_positive.

(* bit-exactness witness against the real kernel *)
Example C04_kernel_bits_example :
  score_bits [2;1;3;0]%Z [5;3;4;2]%Z 14 4 4604418534313441775 4608083138725491507 4604930618986332160
  = [1053160071; 1051415468; 1056306910; 0]%Z.
Proof. vm_compute. reflexivity. Qed.

(* ACCURACY ON THE PROPERTY'S DOMAIN: term / phrase frequency and document length any value up to 2^18 (documents are
   limited to 262143 tokens), avg in [2^-32, 2^18], idf in [2^-64, 2^64], EVERY k1 in [2^-32, 2^10] and EVERY
   0 <= b < 1 (b = 0, subnormal b, b = 1 - 2^-24 included): the binary32 kernel is within relative error 2^-17
   (the proof gives 2^-20) of idf*tf/(tf + k1*(1 - b + b*len/avg)). *)
Theorem C04_accuracy : forall tf dl avg idf k1 b,
  is_finite 24 128 tf = true -> (1 <= B2R 24 128 tf <= bpow radix2 18)%R ->
  is_finite 24 128 dl = true -> (B2R 24 128 dl = 0 \/ 1 <= B2R 24 128 dl <= bpow radix2 18)%R ->
  is_finite 24 128 avg = true -> (bpow radix2 (-32) <= B2R 24 128 avg <= bpow radix2 18)%R ->
  is_finite 24 128 idf = true -> (bpow radix2 (-64) <= B2R 24 128 idf <= bpow radix2 64)%R ->
  is_finite 24 128 k1 = true -> (bpow radix2 (-32) <= B2R 24 128 k1 <= bpow radix2 10)%R ->
  is_finite 24 128 b = true -> (0 <= B2R 24 128 b < 1)%R ->
  let exact := bm25_R (B2R 24 128 idf) (B2R 24 128 tf) (B2R 24 128 dl) (B2R 24 128 avg)
                      (B2R 24 128 k1) (B2R 24 128 b) in
  (Rabs (B2R 24 128 (bm25_one tf dl avg idf k1 b (one_minus b)) - exact) <= bpow radix2 (-17) * Rabs exact)%R.
Proof. exact bm25_accuracy_wide. Qed.
Print Assumptions C04_accuracy.
(* the DEFAULT similarity: k1 = 1.2f, b = 0.75f (the binary32 values the code passes), integer counts, against the
   formula at the REAL parameters 6/5 and 3/4 *)
Theorem C04_default_accuracy : forall n m avg idf,
  (1 <= n <= 262144)%Z -> (0 <= m <= 262144)%Z ->
  is_finite 24 128 avg = true -> (bpow radix2 (-32) <= B2R 24 128 avg <= bpow radix2 18)%R ->
  is_finite 24 128 idf = true -> (bpow radix2 (-64) <= B2R 24 128 idf <= bpow radix2 64)%R ->
  let exact := bm25_R (B2R 24 128 idf) (IZR n) (IZR m) (B2R 24 128 avg) (6 / 5) (3 / 4) in
  let res := bm25_one (f32_of_Z n) (f32_of_Z m) avg idf k1_default b_default (one_minus b_default) in
  (Rabs (B2R 24 128 res - exact) <= bpow radix2 (-17) * Rabs exact)%R.
Proof. exact bm25_default_accuracy_real. Qed.

(* Assumptions of the remaining named statements of this file (the gate requires one per statement). *)
Print Assumptions C04_avg_zero.
Print Assumptions C04_formula_zero.
Print Assumptions C04_denominator_positive.
Print Assumptions C04_legacy_is_k1_plus_1_times_modern.
Print Assumptions C04_default_accuracy.
