(* C04 — default score is Lucene BM25 over the index's own statistics (theorems are added as they close) *)
From Coq Require Import ZArith List.
From SA Require Import Score.BM25.
Import ListNotations. Open Scope Z_scope.
(* bit-exactness witness against the real kernel (same inputs as harness smoke test) *)
Example C04_kernel_bits_example :
  score_bits [2;1;3;0] [5;3;4;2] 14 4 4604418534313441775 4608083138725491507 4604930618986332160
  = [1053160071; 1051415468; 1056306910; 0].
Proof. vm_compute. reflexivity. Qed.
