(* C10 — edismax phrase boosts only re-rank matches, adding each phrase score once.
   Statement-only file.  The model runs the pf / pf2 / pf3 phases on the VIEW of rows with a positive
   query-field score and scatters them back; the spec adds WHOLE-FRAME phrase scores at those rows. *)
From Coq Require Import ZArith QArith List.
From SA Require Import Base.Prelude Index.Index View.View Solr.MM Solr.Edismax Solr.Edismax_Spec Solr.Edismax_Proofs.
From SA Require Import View.View_Phrase2 Solr.Edismax_Indexed Solr.Edismax_Indexed2.
Import ListNotations.

(* view_commutes_all is property C06 for a mask key: scoring the view of matching rows = gathering the
   whole-frame scores at those rows (document frequencies, avg length, corpus size inherited).  It is an
   explicit premise of this generic form and is PROVED for frames of freshly indexed columns further down
   (C10_indexed_phrase_boosts, C10_indexed_phrase_boosts_any_query).  wf_query's side conditions (n rows per field,
   non-negative idf table, tie / boosts >= 0, mm in the range of C11, >= 1 query term per field) remain hypotheses. *)
Theorem C10_phrase_boosts_partial : forall idf n q, wf_query idf n q ->
  (is_term_centric (eq_fields q) = true -> qf_calls_ok idf q) -> select_ok n q ->
  view_commutes_all idf n q ->
  api_veq (edismax idf n q) (edismax_spec idf n q).
Proof. exact C10_phrase_boosts. Qed.
Print Assumptions C10_phrase_boosts_partial.

(* each adjacent pair / triple exactly once; queries shorter than the shingle size add nothing *)
Theorem C10_shingles2_each_once : forall ts,
  shingles2 ts = map (fun i => [nth i ts 0%N; nth (S i) ts 0%N]) (seq 0 (length ts - 1)).
Proof. exact shingles2_spec. Qed.
Print Assumptions C10_shingles2_each_once.
Theorem C10_shingles3_each_once : forall ts,
  shingles3 ts = map (fun i => [nth i ts 0%N; nth (S i) ts 0%N; nth (S (S i)) ts 0%N]) (seq 0 (length ts - 2)).
Proof. exact shingles3_spec. Qed.

(* ================= premise-free, for frames of freshly indexed columns =================
   The view-commutation premise is PROVED at exactly the term lists the phases score (whole phrase, 2-shingles,
   3-shingles) when no phrase field's term list has an immediately repeated term (query_nar, a boolean);
   qf_calls_ok and select_ok are proved for fresh fields (Solr/Edismax_Indexed.v). *)
Theorem C10_indexed_phrase_boosts : forall idf n q, wf_query idf n q -> fresh_fields n q -> query_nar q ->
  api_veq (edismax idf n q) (edismax_spec idf n q).
Proof. exact C10_indexed. Qed.
Print Assumptions C10_indexed_phrase_boosts.
(* the hypotheses are satisfiable: 2 fields, 3 terms, pf + boosted pf2 + pf3, and the phases change the result *)
Example C10_indexed_nonvacuous : api_veq (edismax Ex.idf 4 Ex.q) (edismax_spec Ex.idf 4 Ex.q).
Proof. exact Ex.agree. Qed.

(* NO restriction on the phrase fields: repeated terms included (view commutation proved for every term list) *)
Theorem C10_indexed_phrase_boosts_any_query : forall idf n q, wf_query idf n q -> fresh_fields n q ->
  api_veq (edismax idf n q) (edismax_spec idf n q).
Proof. exact C10_indexed_any. Qed.
Print Assumptions C10_indexed_phrase_boosts_any_query.

(* Assumptions of the remaining named statements of this file (the gate requires one per statement). *)
Print Assumptions C10_shingles3_each_once.
