(* C14 — compiled kernels never touch memory outside their arguments.
   Statement-only file.  The kernel models perform only CHECKED accesses (a read outside [0,len) or a
   store beyond the capacity the wrapper allocated is a [Fault]); these theorems say no access faults,
   for ARBITRARY inputs (not assumed sorted), any mask, empty arrays, any search target / start. *)
From Coq Require Import ZArith.
From SA Require Import Base.Prelude Kernels.Intersect Kernels.Linear Kernels.Intersect_Safe Kernels.Linear_Proofs Kernels.Linear2 Kernels.Linear2_Proofs
  Index.Index Index.Index_Spec Score.BM25 Score.BM25_Walk Score.Score View.View Score.BM25_Walk_Proofs Index.Index_Proofs2 Span.Span Span.Span_Safe.
Open Scope N_scope.

Theorem C14_intersect_drop : forall l r mask, ~ is_fault (intersect_drop l r mask).
Proof. exact intersect_drop_safe. Qed.
Print Assumptions C14_intersect_drop.
Theorem C14_intersect_keep : forall l r mask, ~ is_fault (intersect_keep l r mask).
Proof. exact intersect_keep_safe. Qed.
Print Assumptions C14_intersect_keep.
Theorem C14_adjacent : forall l r mask, ~ is_fault (adjacent l r mask).
Proof. exact adjacent_safe. Qed.
Print Assumptions C14_adjacent.
(* the fused kernel: elements are 64-bit words (the model's lists hold unbounded N; a uint64 array satisfies this) *)
Theorem C14_intersect_with_adjacents : forall l r mask,
  mask < W64 \/ Forall (fun x => x < W64) l -> ~ is_fault (intersect_with_adjacents l r mask).
Proof. exact intersect_with_adjacents_safe. Qed.
Print Assumptions C14_intersect_with_adjacents.

Theorem C14_merge : forall l r, ~ is_fault (merge l r).
Proof. exact merge_safe. Qed.
Theorem C14_merge_drop : forall l r, ~ is_fault (merge_drop l r).
Proof. exact merge_drop_safe. Qed.
Theorem C14_sort_merge_counts : forall li lc ri rc, length li = length lc -> length ri = length rc ->
  ~ is_fault (sort_merge_counts li lc ri rc).
Proof. exact sort_merge_counts_safe. Qed.
Theorem C14_unique : forall a rshift, a <> [] \/ rshift = 0 -> ~ is_fault (unique a rshift).
Proof. exact unique_safe. Qed.
(* the one model fault that remains: the shifted scan reads arr[0] before its loop; the value is unused on an
   empty array (gcc deletes the load, ASan is silent) — recorded as a dead load, see DESIGN.md C14 *)
Theorem C14_unique_empty_shifted_dead_load : forall rshift, 0 < rshift -> unique [] rshift = Fault Rd 0 0.
Proof. exact unique_empty_shifted_faults. Qed.
Theorem C14_binary_search : forall a t m start, ~ is_fault (binary_search a t m start).
Proof. exact binary_search_safe. Qed.
Print Assumptions C14_binary_search.
Theorem C14_galloping_search : forall a t m start, ~ is_fault (galloping_search a t m start).
Proof. exact galloping_search_safe. Qed.
Print Assumptions C14_galloping_search.
Theorem C14_reduce_at : forall w ids p r, reduce_at_wrapper w ids p = PyOk r -> ~ is_fault r.
Proof. exact reduce_at_safe. Qed.
Theorem C14_popcount64_reduce : forall a ks vm, ~ is_fault (popcount64_reduce a ks vm).
Proof. exact popcount64_reduce_safe. Qed.
Theorem C14_as_dense : forall idx vals size r, Forall (fun i => i < size) idx -> as_dense idx vals size = PyOk r -> ~ is_fault r.
Proof. exact as_dense_safe. Qed.
Print Assumptions C14_as_dense.

(* ---- popcount64 and payload_slice at line level (Kernels/Linear2.v): explicit output buffer of exactly the
   allocated length (np.empty / np.zeros of arr.shape[0]), checked reads and checked stores.  For EVERY input
   (any length, unsorted, any mask, lo > hi, empty array; any content of the uninitialised np.empty buffer):
   no access faults, the loop ends within the model's fuel, and the value is the list model's ---- *)
Theorem C14_popcount64 : forall junk a, ~ is_fault (popcount64_ll junk a) /\ is_done (popcount64_ll junk a).
Proof. exact popcount64_ll_safe. Qed.
Print Assumptions C14_popcount64.
Theorem C14_popcount64_is_map : forall junk a, popcount64_ll junk a = Done (popcount64 a).
Proof. exact popcount64_ll_eq. Qed.
Print Assumptions C14_popcount64_is_map.
Theorem C14_payload_slice : forall a msb_mask lo hi,
  ~ is_fault (payload_slice_ll a msb_mask lo hi) /\ is_done (payload_slice_ll a msb_mask lo hi).
Proof. exact payload_slice_ll_safe. Qed.
Print Assumptions C14_payload_slice.
Theorem C14_payload_slice_is_filter : forall a msb_mask lo hi,
  payload_slice_ll a msb_mask lo hi = Done (payload_slice a msb_mask lo hi).
Proof. exact payload_slice_ll_eq. Qed.
Print Assumptions C14_payload_slice_is_filter.
(* popcount64_arr_naive (popcount.pyx 72-78) has NO caller (dead code); its counter is a C int, so its model is safe
   below 2^31 words and faults from there on (two's-complement wrap of the counter) *)
Theorem C14_popcount64_naive_dead_code : forall junk a,
  (N.of_nat (length a) < 2147483648 -> popcount64_naive_ll junk a = Done (popcount64 a)) /\
  (2147483648 <= N.of_nat (length a) -> N.of_nat (length a) < 4611686018427387904 -> is_fault (popcount64_naive_ll junk a)).
Proof. exact (fun junk a => conj (popcount64_naive_ll_eq junk a) (popcount64_naive_ll_faults junk a)). Qed.
Print Assumptions C14_popcount64_naive_dead_code.

(* termination within the fuel the models carry (so "no fault" is not vacuous through OutOfFuel) *)
Theorem C14_intersect_drop_terminates : forall l r mask,
  N.of_nat (length l) < 2 ^ 62 -> N.of_nat (length r) < 2 ^ 62 -> is_done (intersect_drop l r mask).
Proof. exact intersect_drop_terminates. Qed.
Theorem C14_intersect_keep_terminates : forall l r mask,
  N.of_nat (length l) < 2 ^ 62 -> N.of_nat (length r) < 2 ^ 62 -> is_done (intersect_keep l r mask).
Proof. exact intersect_keep_terminates. Qed.
Theorem C14_adjacent_terminates : forall l r mask,
  N.of_nat (length l) < 2 ^ 62 -> N.of_nat (length r) < 2 ^ 62 -> is_done (adjacent l r mask).
Proof. exact adjacent_terminates. Qed.
Theorem C14_intersect_with_adjacents_terminates : forall l r mask,
  mask < W64 \/ Forall (fun x => x < W64) l ->
  N.of_nat (length l) < 2 ^ 62 -> N.of_nat (length r) < 2 ^ 62 -> is_done (intersect_with_adjacents l r mask).
Proof. exact intersect_with_adjacents_terminates. Qed.

(* non-vacuity / regression witnesses: the inputs that faulted before the repairs of D8, D9, D14 *)
Example C14_witnesses :
  ~ is_fault (intersect_keep [1;2;3;5;5] [5;5;5] wmask) /\
  galloping_search [13;31] 32 wmask 0 = Done (2, false) /\
  binary_search [] 3 wmask 0 = Done (0, false).
Proof. repeat split; vm_compute; try reflexivity. exact (fun x => x). Qed.

(* ---- the BM25 kernel (bm25.pyx): walks term_freqs AND doc_lens len(term_freqs) steps ---- *)
(* safe exactly when doc_lens is long enough (or the overhanging term frequencies are all zero: doc_lens is read only
   for a non-zero term frequency), and then equal to the value-level model used by C04 *)
Theorem C14_bm25_walk : forall tfs dls avg idf k1 b, (length tfs <= length dls)%nat ->
  bm25_score_walk tfs dls avg idf k1 b = Done (bm25_kernel tfs dls avg idf k1 b).
Proof. exact bm25_walk_safe. Qed.
Print Assumptions C14_bm25_walk.
Theorem C14_bm25_walk_fault_iff : forall tfs dls avg idf k1 b,
  is_fault (bm25_score_walk tfs dls avg idf k1 b) <-> existsb nonzero32 (skipn (length dls) tfs) = true.
Proof. exact bm25_walk_fault_iff. Qed.
(* the call sites: SearchArray.score on a fresh index and on any chain of selections hands the kernel vectors of equal length *)
Theorem C14_bm25_call_site_index : forall ix ts tfs dfs dls total n avg idf k1 b,
  score_args ix ts = AOk (tfs, dfs, dls, total, n) ->
  ~ is_fault (bm25_score_walk (map f32_of_Z (map Z.of_N tfs)) (map f32_of_Z (map Z.of_N dls)) avg idf k1 b).
Proof. exact score_args_walk_safe. Qed.
Theorem C14_bm25_call_site_view : forall docs bs ix avoid keys v ts lo hi tfs dfs dls total n avg idf k1 b,
  wf_docs docs -> index false bs docs = AOk ix -> select_chain (of_index ix avoid) keys = AOk v ->
  v_score_args v ts lo hi = AOk (tfs, dfs, dls, total, n) ->
  ~ is_fault (bm25_score_walk (map f32_of_Z (map Z.of_N tfs)) (map f32_of_Z (map Z.of_N dls)) avg idf k1 b).
Proof. exact view_score_walk_safe. Qed.
Print Assumptions C14_bm25_call_site_view.

(* ---- the span (slop) search: spans.py _intersect_all + spans.pyx _span_freqs with its 512-slot table ---- *)
(* no checked access faults, for ARBITRARY posting arrays (unsorted, empty, any number of terms) and any slop:
   every read of the flattened postings is inside it, every store into the span table is below its capacity *)
Theorem C14_span_search_no_fault : forall encs slop, api_nofault (span_search encs slop).
Proof. exact span_search_no_fault. Qed.
Print Assumptions C14_span_search_no_fault.
(* ... and every loop ends within the model's fuel (arrays below 2^58 words: the galloping kernels' 66 doublings) *)
Theorem C14_span_search_terminates : forall encs slop, Forall (fun e => N.of_nat (length e) < 2 ^ 58) encs ->
  api_safe (span_search encs slop).
Proof. exact span_search_safe. Qed.
(* the public entry point on an indexed corpus, incl. the scatter of the counts into the per-row vector *)
Theorem C14_slop_freqs_safe : forall docs ix ts slop, wf_docs docs -> index_ok docs ix -> api_safe (slop_freqs ix ts slop).
Proof. exact slop_freqs_safe. Qed.
Print Assumptions C14_slop_freqs_safe.

(* Assumptions of the remaining named statements of this file (the gate requires one per statement). *)
Print Assumptions C14_merge.
Print Assumptions C14_merge_drop.
Print Assumptions C14_sort_merge_counts.
Print Assumptions C14_unique.
Print Assumptions C14_unique_empty_shifted_dead_load.
Print Assumptions C14_reduce_at.
Print Assumptions C14_popcount64_reduce.
Print Assumptions C14_intersect_drop_terminates.
Print Assumptions C14_intersect_keep_terminates.
Print Assumptions C14_adjacent_terminates.
Print Assumptions C14_intersect_with_adjacents_terminates.
Print Assumptions C14_bm25_walk_fault_iff.
Print Assumptions C14_bm25_call_site_index.
Print Assumptions C14_span_search_terminates.
