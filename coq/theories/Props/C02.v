(* C02 — document frequency, document lengths and corpus statistics match the corpus.  Statement-only file. *)
From Coq Require Import ZArith Reals.
From Flocq Require Import Core IEEE754.BinarySingleNaN IEEE754.Binary.
From SA Require Import Base.Prelude Index.Index Index.Index_Spec Index.Index_Proofs3 Score.BM25 Score.AvgLen.
Open Scope N_scope.

Theorem C02_docfreq_is_count : forall docs bs, wf_docs docs ->
  exists ix, index false bs docs = AOk ix /\ forall t, docfreq ix t = AOk (df_spec docs t).
Proof. exact C02_docfreq_any. Qed.
Print Assumptions C02_docfreq_is_count.

(* lengths (0 for empty documents), number of rows, and the total the average is computed from;
   holds for every batch size, i.e. wherever empty documents fall relative to batch boundaries *)
Theorem C02_lengths_and_statistics : forall docs bs, wf_docs docs ->
  exists ix, index false bs docs = AOk ix /\
    doclengths ix = lens_spec docs /\ corpus_size ix = N.of_nat (length docs) /\ total_len ix = total_spec docs.
Proof. exact C02_doclens_any. Qed.
Print Assumptions C02_lengths_and_statistics.

(* avg_doc_length as a binary32: C02_average_is_rounded_mean below (Score/AvgLen.v), for fewer than 2^24 tokens and rows.
   That numpy's mean is a tree of float32 additions is read off numpy's source, not proved. *)
Example C02_nonvacuous :
  match index false 1 [[];[1;2;1];[];[];[2]] with
  | AOk ix => doclengths ix = [0;3;0;0;1] /\ docfreq ix 1 = AOk 1 /\ docfreq ix 7 = AOk 0
  | _ => False end.
Proof. vm_compute. repeat split. Qed.

(* the AVERAGE length that scoring uses (a binary32): whenever the corpus has fewer than 2^24 tokens and rows, ANY
   bracketing of the float32 additions of the lengths (sequential, pairwise, numpy's blocked scheme, with zero seeds of
   either sign) is exact, and the average is the correctly rounded mean token count: relative error <= 2^-24, and it is 0
   exactly for an all-empty corpus.  (Beyond 2^24 tokens numpy's float32 accumulator rounds: a 2-ulp witness is recorded
   in Score/AvgLen.v; outside this theorem.) *)
Theorem C02_average_is_rounded_mean : forall ix : sindex,
  Forall (fun l => (l <= 262143)%N) (doclengths ix) ->
  (total_len ix < 16777216)%N -> (0 < corpus_size ix < 16777216)%N ->
  B2R 24 128 (index_avg ix) = round radix2 (FLT_exp (-149) 24) ZnearestE (mean_len ix) /\
  is_finite 24 128 (index_avg ix) = true /\
  ((0 < total_len ix)%N -> (Rabs (B2R 24 128 (index_avg ix) - mean_len ix) <= bpow radix2 (-24) * mean_len ix)%R) /\
  (is_zero32 (index_avg ix) = true <-> total_len ix = 0%N).
Proof.
  intros ix H1 H2 H3. destruct (index_avg_is_rounded_mean ix H1 H2 H3) as (_ & _ & _ & A & B & C & D).
  repeat split; try assumption; apply D.
Qed.
Print Assumptions C02_average_is_rounded_mean.
