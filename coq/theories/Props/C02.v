(* C02 — document frequency, document lengths and corpus statistics match the corpus.  Statement-only file. *)
From SA Require Import Base.Prelude Index.Index Index.Index_Spec Index.Index_Proofs3.
Open Scope N_scope.

Theorem C02_docfreq_is_count : forall docs bs, wf_docs docs ->
  exists ix, index false bs docs = AOk ix /\ forall t, docfreq ix t = AOk (df_spec docs t).
Proof. exact C02_docfreq_any. Qed.
Print Assumptions C02_docfreq_is_count.

(* lengths (0 for empty documents), number of rows, and the total the average is computed from;
   holds for every batch size, i.e. wherever empty documents fall relative to batch boundaries *)
Theorem C02_lengths_and_statistics : forall docs bs, wf_docs docs ->
  exists ix, index false bs docs = AOk ix /\
    doclengths ix = lens_spec docs /\ corpus_size ix = N.of_nat (length docs) /\ total_len ix = total_spec docs.
Proof. exact C02_doclens_any. Qed.
Print Assumptions C02_lengths_and_statistics.

(* NOT proved in Coq: avg_doc_length = float32 rounding of total/n as numpy's mean computes it (validated by the
   correspondence check against the correctly rounded quotient; see DESIGN.md C02). *)
Example C02_nonvacuous :
  match index false 1 [[];[1;2;1];[];[];[2]] with
  | AOk ix => doclengths ix = [0;3;0;0;1] /\ docfreq ix 1 = AOk 1 /\ docfreq ix 7 = AOk 0
  | _ => False end.
Proof. vm_compute. repeat split. Qed.
