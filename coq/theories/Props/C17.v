(* C17 — over-long documents are rejected (C17_overlong_rejected) or truncated exactly (the C17_truncate theorems).
   The first two statements are definitional / a short induction and are proved inline; the others are closed by `exact`. *)
From SA Require Import Base.Prelude Codec.Codec Index.Index Index.Fast Index.Fast_Proofs Index.Truncate Index.Truncate_Proofs Index.Index_Spec Index.Index_Proofs2.
Open Scope N_scope.
(* truncate=True is by construction the index of the first MAX_POSN tokens of every document *)
Theorem C17_truncate_is_index_of_prefix : forall bs docs,
  index_opt true bs docs = index false bs (map (firstn (N.to_nat MAX_POSN)) docs).
Proof. reflexivity. Qed.
(* documents at or below the limit are never altered *)
Theorem C17_short_documents_unaltered : forall docs,
  Forall (fun d => N.of_nat (length d) <= MAX_POSN) docs -> truncate_docs docs = docs.
Proof.
  intros docs H. unfold truncate_docs. induction H as [|d ds Hd _ IH]; [reflexivity|].
  cbn [map]. rewrite IH. f_equal. apply firstn_all2. lia.
Qed.
(* the linear-time variant the check executes IS the model *)
Theorem C17_fast_model_is_model : forall tr bs docs, index_g tr bs docs = index tr bs docs.
Proof. exact index_g_eq. Qed.
Print Assumptions C17_fast_model_is_model.
(* an over-long document is rejected, whatever the batch size and wherever it sits (total size below 2^61 tokens:
   a bound of the kernels' fuel model, not of the property) *)
Theorem C17_overlong_rejected : forall docs bs, N.of_nat (length docs) < 2 ^ 28 ->
  Exists (fun d => MAX_POSN < N.of_nat (length d)) docs ->
  N.of_nat (length (concat docs)) < 2 ^ 61 ->
  index false bs docs = AExc ValueError.
Proof. exact C17_reject. Qed.
Print Assumptions C17_overlong_rejected.

(* with truncate=True indexing always succeeds and the result is a correct index of the truncated documents:
   every answer is that of the first 262143 tokens of each document (by C01/C02/C03/C05 on index_ok) *)
Theorem C17_truncate_answers_like_prefix : forall docs bs, N.of_nat (length docs) < 2 ^ 28 ->
  exists ix, index_opt true bs docs = AOk ix /\ index_ok (truncate_docs docs) ix.
Proof. exact C17_truncate. Qed.
Print Assumptions C17_truncate_answers_like_prefix.

Theorem C17_within_limit_truncate_is_noop : forall docs, wf_docs docs -> forall bs, index_opt true bs docs = index_opt false bs docs.
Proof. exact C17_unaltered. Qed.

Example C17_limit_value : MAX_POSN = 262143. Proof. reflexivity. Qed.

(* Assumptions of the remaining named statements of this file (the gate requires one per statement). *)
Print Assumptions C17_truncate_is_index_of_prefix.
Print Assumptions C17_short_documents_unaltered.
Print Assumptions C17_within_limit_truncate_is_noop.
