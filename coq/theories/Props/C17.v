(* C17 — over-long documents are rejected or truncated exactly (theorems are added as they close) *)
From SA Require Import Base.Prelude Codec.Codec Index.Index Index.Fast Index.Fast_Proofs Index.Truncate Index.Index_Spec.
Open Scope N_scope.
(* truncate=True is by construction the index of the first MAX_POSN tokens of every document *)
Theorem C17_truncate_is_index_of_prefix : forall bs docs,
  index_opt true bs docs = index false bs (map (firstn (N.to_nat MAX_POSN)) docs).
Proof. reflexivity. Qed.
(* documents at or below the limit are never altered *)
Theorem C17_short_documents_unaltered : forall docs,
  Forall (fun d => N.of_nat (length d) <= MAX_POSN) docs -> truncate_docs docs = docs.
Proof.
  intros docs H. unfold truncate_docs. induction H as [|d ds Hd _ IH]; [reflexivity|].
  cbn [map]. rewrite IH. f_equal. apply firstn_all2. lia.
Qed.
(* the linear-time variant the check executes IS the model *)
Theorem C17_fast_model_is_model : forall tr bs docs, index_g tr bs docs = index tr bs docs.
Proof. exact index_g_eq. Qed.
Print Assumptions C17_fast_model_is_model.
Example C17_limit_value : MAX_POSN = 262143. Proof. reflexivity. Qed.
