(* C16 — position-range restriction counts exactly the occurrences inside the range.  Statement-only file.
   Model: Query/Range.v (alignment validation, bounds shifted into the bucket field, payload filter, typed empty
   results, then the term / phrase paths).  Spec: Query/Range_Spec.v. *)
From SA Require Import Base.Prelude Index.Index Index.Index_Spec Query.Phrase_Spec Query.Range Query.Range_Spec Query.Range_Proofs.
Open Scope N_scope.

Theorem C16_term_frequency_in_range : forall docs bs t lo hi,
  wf_docs docs -> aligned lo hi = true -> (lo, hi) <> (None, None) ->
  exists ix, index false bs docs = AOk ix /\ termfreqs_range ix t lo hi = AOk (tf_range_spec docs t lo hi).
Proof. exact C16_term_range. Qed.
Print Assumptions C16_term_frequency_in_range.

(* phrases of >= 2 terms without an immediately repeated term: occurrences lying ENTIRELY inside the range *)
Theorem C16_phrase_frequency_in_range : forall docs bs ph lo hi,
  wf_docs docs -> aligned lo hi = true -> (lo, hi) <> (None, None) ->
  (2 <= length ph)%nat -> no_adjacent_repeat ph = true ->
  exists ix, index false bs docs = AOk ix /\ phrase_freqs_range ix ph lo hi = AOk (phrase_range_spec docs ph lo hi).
Proof. exact C16_phrase_range. Qed.
Print Assumptions C16_phrase_frequency_in_range.

(* a range that excludes every occurrence yields zeros, not an error *)
Theorem C16_empty_range_gives_zeros : forall docs bs t lo hi,
  wf_docs docs -> aligned lo hi = true -> (lo, hi) <> (None, None) ->
  (forall d p, In d docs -> In p (offsets_from 0 t d) -> in_range lo hi p = false) ->
  exists ix, index false bs docs = AOk ix /\ termfreqs_range ix t lo hi = AOk (repeat 0 (length docs)).
Proof. exact C16_empty_range_is_zeros. Qed.

(* bounds not aligned to 18 are rejected (for a term of the corpus; an unknown term returns zeros before validation) *)
Theorem C16_unaligned_bounds_rejected : forall docs bs ix t lo hi,
  wf_docs docs -> index false bs docs = AOk ix -> In t (concat docs) -> aligned lo hi = false ->
  termfreqs_range ix t lo hi = AExc ValueError.
Proof. exact C16_unaligned_rejected. Qed.

Example C16_second_word_only :
  let d := [0;1;1;1;1;1;1;1;1;1;1;1;1;1;1;1;1;1; 0;0;1;1;1;1;1;1;1;1;1;1;1;1;1;1;1;1; 0;1] in
  match index false 10 [d; [0]] with
  | AOk ix => termfreqs_range ix 0 (Some 18) (Some 35) = AOk (tf_range_spec [d; [0]] 0 (Some 18) (Some 35)) /\
              termfreqs_range ix 0 (Some 360) (Some 377) = AOk [0; 0] /\
              termfreqs_range ix 0 (Some 19) None = AExc ValueError
  | _ => False end.
Proof. vm_compute. repeat split. Qed.

(* Assumptions of the remaining named statements of this file (the gate requires one per statement). *)
Print Assumptions C16_empty_range_gives_zeros.
Print Assumptions C16_unaligned_bounds_rejected.
