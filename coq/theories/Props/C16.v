(* C16 — position-range restriction counts exactly the occurrences inside the range (theorems are added as they close) *)
From SA Require Import Base.Prelude Index.Index Query.Range Query.Range_Spec.
Open Scope N_scope.
Example C16_second_word_only :
  let d := [0;1;1;1;1;1;1;1;1;1;1;1;1;1;1;1;1;1; 0;0;1;1;1;1;1;1;1;1;1;1;1;1;1;1;1;1; 0;1] in
  match index false 10 [d; [0]] with
  | AOk ix => termfreqs_range ix 0 (Some 18) (Some 35) = AOk (tf_range_spec [d; [0]] 0 (Some 18) (Some 35)) /\
              termfreqs_range ix 0 (Some 360) (Some 377) = AOk [0; 0] /\
              termfreqs_range ix 0 (Some 19) None = AExc ValueError
  | _ => False end.
Proof. vm_compute. repeat split. Qed.
