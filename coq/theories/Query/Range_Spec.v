(* Spec for C16: occurrences inside an aligned position range *)
From SA Require Import Base.Prelude Index.Index_Spec Query.Phrase_Spec.
Open Scope N_scope.

Definition aligned (min_p max_p : option N) : bool :=
  andb (match min_p with Some m => m mod 18 =? 0 | None => true end)
       (match max_p with Some m => m mod 18 =? 17 | None => true end).
Definition in_range (min_p max_p : option N) (p : N) : bool :=
  andb (match min_p with Some m => m <=? p | None => true end)
       (match max_p with Some m => p <=? m | None => true end).
Definition tf_range_spec (docs : list (list N)) (t : N) (min_p max_p : option N) : list N :=
  map (fun d => N.of_nat (length (filter (in_range min_p max_p) (offsets_from 0 t d)))) docs.
(* occurrences lying entirely inside the range: start p and end p + |ph| - 1 both inside *)
Fixpoint occ_range_from (i : N) (ph d : list N) (min_p max_p : option N) : N :=
  match d with
  | [] => 0
  | _ :: t =>
      (if andb (prefix_eqb ph d) (andb (in_range min_p max_p i) (in_range min_p max_p (i + N.of_nat (length ph) - 1)))
       then 1 else 0) + occ_range_from (i + 1) ph t min_p max_p
  end.
Definition phrase_range_spec (docs : list (list N)) (ph : list N) (min_p max_p : option N) : list N :=
  map (fun d => occ_range_from 0 ph d min_p max_p) docs.
