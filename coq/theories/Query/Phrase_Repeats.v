(* C03, second sentence: phrases WITH immediately repeated terms ('a a', 'a a b', 'b a a a' ...).

   The same-term branch of _inner_bigram_freqs (taken when the two intersected word lists are literally
   equal) keeps the ordinary continuation but reports, per word, pairs - ceil(triples / 2) instead of
   the number of adjacent pairs.  This file proves, for the line-level model Query/Phrase.v:

     same_term_word          per 18-bit payload: greedy disjoint pairs <= adjusted <= adjacent pairs,
                             and the same-term continuations equal the ordinary ones  (2^18 cases, computed)
     bigram_step_any         one bigram step WITHOUT the [nocommon] premise
     compute_phrase_freqs_bounds   the chain, either strategy, on arbitrary canonical posting lists
     phrase_repeats_bounds   on the index of any corpus: positive iff the phrase occurs, and
                             occ_nonoverlap <= freq <= occ *)
From Coq Require Import Sorted Permutation.
From SA Require Import Base.Prelude Kernels.Spec Kernels.Intersect Kernels.Linear Kernels.Intersect_Correct
  Kernels.Adjacent_Correct Kernels.Linear_Proofs Codec.Codec Codec.Codec_Spec Codec.Codec_Proofs
  Index.Index Index.Index_Spec Index.Index_Proofs Index.Index_Proofs2 Index.Index_Proofs3
  Query.Phrase Query.Phrase_Spec Query.Phrase_Proofs Query.Phrase_Proofs2 Query.Phrase_Proofs3 Query.Phrase_Final.
Open Scope N_scope.

(* ------------------------------------------------------------------ *)
(* 0. exhaustive checks over the 2^18 payloads                         *)
(* ------------------------------------------------------------------ *)
Fixpoint allb (k : nat) (acc : N) (P : N -> bool) : bool :=
  match k with O => P acc | S k' => allb k' (2 * acc) P && allb k' (2 * acc + 1) P end.

Lemma allb_spec P : forall k acc, allb k acc P = true ->
  forall s, acc * 2 ^ N.of_nat k <= s < (acc + 1) * 2 ^ N.of_nat k -> P s = true.
Proof.
  induction k as [|k IH]; intros acc H s Hs.
  - cbn [allb] in H. change (2 ^ N.of_nat 0) with 1 in Hs. replace s with acc by lia. exact H.
  - cbn [allb] in H. apply andb_true_iff in H. destruct H as [H1 H2].
    rewrite Nat2N.inj_succ, N.pow_succ_r' in Hs.
    assert (Hm : 0 < 2 ^ N.of_nat k) by (apply N.neq_0_lt_0, N.pow_nonzero; lia).
    remember (2 ^ N.of_nat k) as m eqn:Em.
    destruct (N.lt_ge_cases s ((2 * acc + 1) * m)) as [Hlt|Hge].
    + apply (IH (2 * acc) H1). lia.
    + apply (IH (2 * acc + 1) H2). lia.
Qed.

Lemma all18 P : allb 18 0 P = true -> forall s, s < 262144 -> P s = true.
Proof. intros H s Hs. apply (allb_spec P 18 0 H). change (2 ^ N.of_nat 18) with 262144. lia. Qed.

(* greedy left-to-right count of disjoint adjacent pairs (p, p+1) in an increasing position list *)
Fixpoint GL (l : list N) : N :=
  match l with
  | [] => 0
  | x :: r => match r with
              | [] => 0
              | y :: t => if y =? x + 1 then 1 + GL t else GL r
              end
  end.

Definition sh18 (s : N) : N := (2 * s) mod 262144.
(* the adjusted count of one word, on its payload s *)
Definition adjp (s : N) : N :=
  let o := N.land s (sh18 s) in popcount o - (popcount (N.land o (sh18 o)) + 1) / 2.
Definition pairs18 (s : N) : N := popcount (N.land s (N.shiftr s 1)).

Definition payload_check (s : N) : bool :=
  (GL (bit_list s) <=? adjp s) && (adjp s <=? pairs18 s) &&
  (N.land (sh18 s) s =? sh18 (N.land s (N.shiftr s 1))).

Lemma payload_check_all : allb 18 0 payload_check = true.
Proof. vm_cast_no_check (eq_refl true). Qed.

Lemma payload_facts s : s < 262144 ->
  GL (bit_list s) <= adjp s /\ adjp s <= pairs18 s /\ N.land (sh18 s) s = sh18 (N.land s (N.shiftr s 1)).
Proof.
  intro Hs. pose proof (all18 _ payload_check_all s Hs) as H. unfold payload_check in H.
  apply andb_true_iff in H. destruct H as [H H3]. apply andb_true_iff in H. destruct H as [H1 H2].
  apply N.leb_le in H1. apply N.leb_le in H2. apply N.eqb_eq in H3. auto.
Qed.
