(* C03, second sentence: phrases WITH immediately repeated terms ('a a', 'a a b', 'b a a a' ...).

   The same-term branch of _inner_bigram_freqs (taken when the two intersected word lists are literally
   equal) keeps the ordinary continuation but reports, per word, pairs - ceil(triples / 2) instead of
   the number of adjacent pairs.  This file proves, for the line-level model Query/Phrase.v:

     same_term_word          per 18-bit payload: greedy disjoint pairs <= adjusted <= adjacent pairs,
                             and the same-term continuations equal the ordinary ones  (2^18 cases, computed)
     bigram_step_any         one bigram step WITHOUT the [nocommon] premise
     compute_phrase_freqs_bounds   the chain, either strategy, on arbitrary canonical posting lists
     phrase_repeats_bounds   on the index of any corpus: positive iff the phrase occurs, and
                             occ_nonoverlap <= freq <= occ

   Shape of the argument.  Whichever branch a step takes, its continuation is the ordinary one (END / START
   positions of ALL matched bigrams), so the chain of continuations is the one of Phrase_Proofs3; only the
   per-step counts differ.  Each step's count of a document is bounded above by the number of matches and
   below by the size of ANY family of pairwise disjoint matches (starts >= 2 apart): in the ordinary branch
   because the count is the number of matches, in the same-term branch because per word the adjusted count
   dominates the greedy number of disjoint pairs, which is optimal (GL_optimal).  The final answer is the
   minimum of the step counts (0 for an unlisted document); the offsets taken by the greedy non-overlapping
   scan are >= length ph >= 2 apart, so they induce such a family at every step.  No case analysis on WHERE
   the same-term branch fires is needed (it can fire in the middle of a chain, e.g. 'b a a' when every
   'a' of the shared words follows a 'b').  No restriction on the phrase beyond 2 <= length. *)
From Coq Require Import Sorted Permutation.
From SA Require Import Base.Prelude Kernels.Spec Kernels.Intersect Kernels.Linear Kernels.Intersect_Correct
  Kernels.Adjacent_Correct Kernels.Linear_Proofs Codec.Codec Codec.Codec_Spec Codec.Codec_Proofs
  Index.Index Index.Index_Spec Index.Index_Proofs Index.Index_Proofs2 Index.Index_Proofs3
  Query.Phrase Query.Phrase_Spec Query.Phrase_Proofs Query.Phrase_Proofs2 Query.Phrase_Proofs3 Query.Phrase_Final.
Open Scope N_scope.

(* ------------------------------------------------------------------ *)
(* 0. exhaustive checks over the 2^18 payloads                         *)
(* ------------------------------------------------------------------ *)
Fixpoint allb (k : nat) (acc : N) (P : N -> bool) : bool :=
  match k with O => P acc | S k' => allb k' (2 * acc) P && allb k' (2 * acc + 1) P end.

Lemma allb_spec P : forall k acc, allb k acc P = true ->
  forall s, acc * 2 ^ N.of_nat k <= s < (acc + 1) * 2 ^ N.of_nat k -> P s = true.
Proof.
  induction k as [|k IH]; intros acc H s Hs.
  - cbn [allb] in H. change (2 ^ N.of_nat 0) with 1 in Hs. replace s with acc by lia. exact H.
  - cbn [allb] in H. apply andb_true_iff in H. destruct H as [H1 H2].
    rewrite Nat2N.inj_succ, N.pow_succ_r' in Hs.
    assert (Hm : 0 < 2 ^ N.of_nat k) by (apply N.neq_0_lt_0, N.pow_nonzero; lia).
    remember (2 ^ N.of_nat k) as m eqn:Em.
    destruct (N.lt_ge_cases s ((2 * acc + 1) * m)) as [Hlt|Hge].
    + apply (IH (2 * acc) H1). lia.
    + apply (IH (2 * acc + 1) H2). lia.
Qed.

Lemma all18 P : allb 18 0 P = true -> forall s, s < 262144 -> P s = true.
Proof. intros H s Hs. apply (allb_spec P 18 0 H). change (2 ^ N.of_nat 18) with 262144. lia. Qed.

(* greedy left-to-right count of disjoint adjacent pairs (p, p+1) in an increasing position list *)
Fixpoint GL (l : list N) : N :=
  match l with
  | [] => 0
  | x :: r => match r with
              | [] => 0
              | y :: t => if y =? x + 1 then 1 + GL t else GL r
              end
  end.

Definition sh18 (s : N) : N := (2 * s) mod 262144.
(* the adjusted count of one word, on its payload s *)
Definition adjp (s : N) : N :=
  let o := N.land s (sh18 s) in popcount o - (popcount (N.land o (sh18 o)) + 1) / 2.
Definition pairs18 (s : N) : N := popcount (N.land s (N.shiftr s 1)).

Definition payload_check (s : N) : bool :=
  (GL (bit_list s) <=? adjp s) && (adjp s <=? pairs18 s) &&
  (N.land (sh18 s) s =? sh18 (N.land s (N.shiftr s 1))).

Lemma payload_check_all : allb 18 0 payload_check = true.
Proof. vm_cast_no_check (eq_refl true). Qed.

Lemma payload_facts s : s < 262144 ->
  GL (bit_list s) <= adjp s /\ adjp s <= pairs18 s /\ N.land (sh18 s) s = sh18 (N.land s (N.shiftr s 1)).
Proof.
  intro Hs. pose proof (all18 _ payload_check_all s Hs) as H. unfold payload_check in H.
  apply andb_true_iff in H. destruct H as [H H3]. apply andb_true_iff in H. destruct H as [H1 H2].
  apply N.leb_le in H1. apply N.leb_le in H2. apply N.eqb_eq in H3. auto.
Qed.

(* ------------------------------------------------------------------ *)
(* 1. greedy pairs: shift invariance and optimality                    *)
(* ------------------------------------------------------------------ *)
Lemma list_ind2 {X} (P : list X -> Prop) :
  P [] -> (forall x, P [x]) -> (forall x y t, P t -> P (y :: t) -> P (x :: y :: t)) -> forall l, P l.
Proof.
  intros H0 H1 H2. assert (H : forall l, P l /\ forall x, P (x :: l)).
  { induction l as [|y t [IH1 IH2]]; [split; [exact H0|exact H1]|].
    split; [apply IH2|]. intro x. apply H2; [exact IH1|apply IH2]. }
  intro l. apply H.
Qed.

Lemma GL_cons2 x y t : GL (x :: y :: t) = if y =? x + 1 then 1 + GL t else GL (y :: t).
Proof. reflexivity. Qed.

Lemma GL_shift c : forall l, GL (map (fun i => c + i) l) = GL l.
Proof.
  apply (list_ind2 (fun l => GL (map (fun i => c + i) l) = GL l)); [reflexivity|reflexivity|].
  intros x y t IH1 IH2. cbn [map] in *. rewrite !GL_cons2, IH1, IH2.
  replace (c + y =? c + x + 1) with (y =? x + 1); [reflexivity|].
  destruct (N.eqb_spec y (x + 1)), (N.eqb_spec (c + y) (c + x + 1)); try reflexivity; lia.
Qed.

Definition gap2 (a b : N) : Prop := a + 2 <= b.

Lemma ss_filter_gen {X} (R : X -> X -> Prop) (P : X -> bool) l :
  StronglySorted R l -> StronglySorted R (filter P l).
Proof.
  induction 1 as [|a t Hs IH Hf]; cbn [filter]; [constructor|].
  destruct (P a); [|exact IH]. constructor; [exact IH|]. apply Forall_filter'. exact Hf.
Qed.

Lemma ss_map_gen {X Y} (R : X -> X -> Prop) (S : Y -> Y -> Prop) (f : X -> Y) l :
  (forall a b, R a b -> S (f a) (f b)) -> StronglySorted R l -> StronglySorted S (map f l).
Proof.
  intros Hf. induction 1 as [|a t Hs IH Hfa]; cbn [map]; constructor; [exact IH|].
  apply Forall_map. eapply Forall_impl; [|exact Hfa]. intros b Hb. apply Hf. exact Hb.
Qed.

Lemma gap2_lt l : StronglySorted gap2 l -> StronglySorted N.lt l.
Proof.
  induction 1 as [|a t Hs IH Hf]; constructor; [exact IH|].
  eapply Forall_impl; [|exact Hf]. unfold gap2. intros; lia.
Qed.
Lemma gap2_nodup l : StronglySorted gap2 l -> NoDup l.
Proof. intro H. apply ss_lt_nodup', gap2_lt. exact H. Qed.

(* any family of pairwise disjoint adjacent pairs of L is at most as large as the greedy one *)
Lemma GL_optimal : forall L M, StronglySorted N.lt L -> StronglySorted gap2 M ->
  (forall s, In s M -> In s L /\ In (s + 1) L) -> N.of_nat (length M) <= GL L.
Proof.
  intro L. pattern L. apply list_ind2; clear L.
  - intros M _ _ H. destruct M as [|s M]; [cbn; lia|]. destruct (H s (or_introl eq_refl)) as [[] _].
  - intros x M _ _ H. destruct M as [|s M]; [cbn; lia|]. exfalso.
    destruct (H s (or_introl eq_refl)) as [[E1|[]] [E2|[]]]. lia.
  - intros x y t IH1 IH2 M HL HM H. rewrite GL_cons2.
    apply StronglySorted_inv in HL. destruct HL as [HL' Hx].
    pose proof (StronglySorted_inv HL') as [HL'' Hy].
    rewrite Forall_forall in Hx, Hy.
    assert (Hxy : x < y) by (apply Hx; now left).
    destruct (N.eqb_spec y (x + 1)) as [E|NE].
    + (* the greedy pair (x, x+1); at most one member of M is <= y *)
      set (M2 := filter (fun s => y <? s) M).
      assert (H2 : N.of_nat (length M2) <= GL t).
      { apply IH1; [exact HL''|apply ss_filter_gen; exact HM|].
        intros s Hs. apply filter_In in Hs. destruct Hs as [Hs Hlt]. apply N.ltb_lt in Hlt.
        destruct (H s Hs) as [[E1|[E1|E1]] [E2|[E2|E2]]]; try lia. split; assumption. }
      assert (H1 : (length M <= S (length M2))%nat).
      { unfold M2. destruct M as [|s1 M1]; [cbn; lia|]. apply StronglySorted_inv in HM. destruct HM as [HM1 Hg].
        cbn [filter length]. assert (EM : filter (fun s => y <? s) M1 = M1).
        { rewrite <- (filter_true M1) at 2. apply filter_ext_in. intros s Hs.
          rewrite Forall_forall in Hg. specialize (Hg s Hs). unfold gap2 in Hg.
          assert (x <= s1).
          { destruct (H s1 (or_introl eq_refl)) as [[E1|[E1|E1]] _]; try lia. specialize (Hx s1 (or_intror E1)). lia. }
          apply N.ltb_lt. lia. }
        rewrite EM. destruct (y <? s1); cbn [length]; lia. }
      lia.
    + apply IH2; [exact HL'|exact HM|]. intros s Hs.
      destruct (H s Hs) as [H1 H2].
      assert (Hne : s <> x).
      { intro; subst s. destruct H2 as [E2|[E2|E2]]; try lia. specialize (Hy _ E2). lia. }
      destruct H1 as [E1|H1]; [congruence|]. split; [exact H1|].
      destruct H2 as [E2|H2]; [|exact H2]. exfalso.
      assert (x < s) by (destruct H1 as [<-|H1]; [exact Hxy|specialize (Hy _ H1); lia]). lia.
Qed.

(* ------------------------------------------------------------------ *)
(* 2. the same-term word operations, on the payload                    *)
(* ------------------------------------------------------------------ *)
Lemma lsb_land a b : lsb (N.land a b) = N.land (lsb a) (lsb b).
Proof.
  apply N.bits_inj. intro i. rewrite N.land_spec, !lsb_testbit, N.land_spec.
  destruct (i <? 18), (N.testbit a i), (N.testbit b i); reflexivity.
Qed.

Lemma lsb_wshl1 w : lsb (wshl w 1) = sh18 (lsb w).
Proof.
  rewrite !lsb_arith. unfold wshl, sh18. rewrite N.shiftl_mul_pow2, W64_val. change (2 ^ 1) with 2.
  change 18446744073709551616 with (262144 * 70368744177664).
  rewrite N.mod_mul_r by lia.
  replace ((w * 2) mod 262144 + 262144 * ((w * 2 / 262144) mod 70368744177664)) with
          ((w * 2) mod 262144 + ((w * 2 / 262144) mod 70368744177664) * 262144) by lia.
  rewrite N.mod_add by lia. rewrite N.mod_mod by lia.
  rewrite (N.mul_comm 2), N.mul_mod_idemp_l by lia. reflexivity.
Qed.

Lemma same_term_adjusted_payload x : same_term_adjusted x x = adjp (lsb x).
Proof.
  unfold same_term_adjusted, adjp. cbv zeta.
  rewrite !lsb_land, !lsb_wshl1, lsb_land, lsb_wshl1. reflexivity.
Qed.

Lemma ov_self x : ov x x = N.land (lsb x) (N.shiftr (lsb x) 1).
Proof. reflexivity. Qed.

Lemma wnot_plm : wnot payload_lsb_mask = header_mask.
Proof. vm_compute. reflexivity. Qed.

Lemma same_rhs_cont_self x : x < 18446744073709551616 -> same_term_rhs_cont x x = cwR x x.
Proof.
  intro Hx. unfold same_term_rhs_cont, cwR. rewrite wnot_plm. fold (hdr x). f_equal.
  rewrite lsb_land, lsb_wshl1. fold (lsb (wshl (ov x x) 1)). rewrite lsb_wshl1.
  pose proof (ov_lt x x) as Ho. rewrite (lsb_arith (ov x x)), N.mod_small by lia.
  rewrite ov_self. apply payload_facts. apply lsb_lt.
Qed.

Lemma same_lhs_cont_self x : same_term_lhs_cont x = cwL x x.
Proof. unfold same_term_lhs_cont, cwL. rewrite wnot_plm. fold (hdr x). rewrite ov_self. apply N.lor_comm. Qed.

Lemma GL_wposns x : GL (wposns x) = GL (bit_list (lsb x)).
Proof. unfold wposns. apply GL_shift. Qed.

(* the three word facts used below *)
Theorem same_term_word x : x < 18446744073709551616 ->
  GL (wposns x) <= same_term_adjusted x x /\ same_term_adjusted x x <= popcount (ov x x) /\
  same_term_rhs_cont x x = cwR x x /\ same_term_lhs_cont x = cwL x x.
Proof.
  intro Hx. pose proof (payload_facts (lsb x) (lsb_lt x)) as (H1 & H2 & _).
  rewrite GL_wposns, same_term_adjusted_payload, ov_self.
  split; [exact H1|]. split; [exact H2|]. split; [apply same_rhs_cont_self; exact Hx|apply same_lhs_cont_self].
Qed.

(* ------------------------------------------------------------------ *)
(* 3. _inner_bigram_freqs without the [nocommon] premise               *)
(* ------------------------------------------------------------------ *)
Definition same_kvs (ps : list (N * N)) : list (N * N) :=
  map (fun p => (key (fst p), same_term_adjusted (fst p) (snd p))) ps.
Definition is_same (ps : list (N * N)) : bool := list_eqb (map fst ps) (map snd ps).
Definition gen_kvs (ps : list (N * N)) : list (N * N) := if is_same ps then same_kvs ps else inner_kvs ps.

Lemma is_same_true : forall ps, is_same ps = true -> forall p, In p ps -> fst p = snd p.
Proof.
  unfold is_same, list_eqb. intros ps H p Hp. apply andb_true_iff in H. destruct H as [_ H].
  rewrite combine_fst_snd in H. rewrite forallb_forall in H. apply N.eqb_eq. apply H. exact Hp.
Qed.

Lemma gen_kvs_keys ps : map fst (gen_kvs ps) = map (fun p => key (fst p)) ps.
Proof. unfold gen_kvs, same_kvs, inner_kvs. destruct (is_same ps); rewrite map_map; reflexivity. Qed.

Lemma inner_bigram_any c ps : (forall p, In p ps -> fst p < 18446744073709551616) ->
  inner_bigram c (map fst ps) (map snd ps) = AOk (runs_sum (gen_kvs ps), map (contI c) ps).
Proof.
  intro H64. unfold inner_bigram. rewrite !map_length, Nat.eqb_refl. cbn [negb].
  destruct ps as [|p ps]; [reflexivity|].
  set (L := map fst (p :: ps)) in *. set (R := map snd (p :: ps)) in *.
  assert (EL : L = fst p :: map fst ps) by reflexivity. rewrite EL at 1.
  unfold gen_kvs, is_same. fold L. fold R.
  destruct (list_eqb L R) eqn:Heq.
  - pose proof (is_same_true (p :: ps) Heq) as Hsame.
    rewrite key_sum_over_correct by (unfold L, R; rewrite map_length, map2_fst_snd, !map_length; reflexivity).
    cbn [unpy lift abind]. f_equal. f_equal.
    + unfold key_sum_over_spec, same_kvs, L, R. rewrite map2_fst_snd, !map_map, combine_map2. reflexivity.
    + unfold L, R. destruct c.
      * rewrite map_map. apply map_ext_in. intros q Hq. cbn [contI]. rewrite <- (Hsame q Hq).
        apply same_lhs_cont_self.
      * rewrite map2_fst_snd. apply map_ext_in. intros q Hq. cbn [contI]. rewrite <- (Hsame q Hq).
        apply same_rhs_cont_self. apply H64. exact Hq.
  - rewrite popcount_reduce_at_correct by (unfold L, R; rewrite map_length, map2_fst_snd, !map_length; reflexivity).
    cbn [unpy lift abind]. f_equal. f_equal.
    + unfold popcount_reduce_at_spec, L, R. rewrite map2_fst_snd, !map_map, combine_map2. reflexivity.
    + unfold L, R. destruct c.
      * rewrite map2_map2_l, map2_fst_snd. reflexivity.
      * rewrite map2_map2_r, map2_fst_snd. reflexivity.
Qed.

(* ------------------------------------------------------------------ *)
(* 4. bigram_freqs on any two well-formed posting lists                *)
(* ------------------------------------------------------------------ *)
Definition any_counts (A B : list N) : list (N * N) :=
  let pfi := runs_sum (gen_kvs (ipairs A B)) in
  let pfa := run_counts (np_sort (map (fun p => key (fst p)) (aps A B))) in
  sort_merge_counts_spec (map fst pfi) (map snd pfi) (map fst pfa) (map snd pfa).

Section AnyStep.
Variables (c : cont) (A B : list N).
Hypothesis HA : wf_post A.
Hypothesis HB : wf_post B.

Lemma bigram_freqs_any : N.of_nat (length A) < 2 ^ 62 -> N.of_nat (length B) < 2 ^ 62 ->
  bigram_freqs c A B = AOk (any_counts A B, step_next c A B).
Proof.
  intros HlA HlB. unfold bigram_freqs.
  destruct (kernel_pairs A B HA HB HlA HlB) as (ia & E & E1 & E2 & E3 & E4).
  rewrite E. cbn [lift abind]. rewrite E1, E2, E3, E4.
  rewrite inner_bigram_any.
  2:{ intros p Hp. apply (ipairs_wf A B HA HB) in Hp. tauto. }
  cbn [abind]. rewrite adjacent_bigram_generic. fold (aps A B).
  cbv beta iota zeta.
  rewrite sort_merge_counts_correct.
  - cbn [lift abind]. fold (NI c A B). fold (NA c A B).
    rewrite set_adjbit_spec.
    + reflexivity.
    + apply NI_sorted; assumption.
    + apply NA_sorted; assumption.
    + pose proof (NI_length c A B). rewrite pow62 in *. lia.
    + pose proof (NA_length c A B). rewrite pow62 in *. lia.
  - rewrite !map_length. reflexivity.
  - rewrite !map_length. reflexivity.
  - apply StronglySorted_Sorted, runs_sum_sorted_keys. rewrite gen_kvs_keys.
    rewrite <- (map_map fst key). apply ss_key_of_hdr.
    + rewrite map_map. apply ipairs_sorted. exact HA.
    + apply Forall_map, Forall_forall. intros p Hp. apply (ipairs_wf A B HA HB) in Hp. tauto.
  - apply StronglySorted_Sorted. rewrite run_counts_runs_sum. apply runs_sum_sorted_keys.
    rewrite map_map. cbn [fst]. rewrite map_id. apply np_sort_sorted.
Qed.
End AnyStep.

(* ------------------------------------------------------------------ *)
(* 5. the counts of one step: between any disjoint family and all matches *)
(* ------------------------------------------------------------------ *)
Definition look0 (d : N) (cs : list (N * N)) : N := match lookup d cs with Some v => v | None => 0 end.

Lemma nsum_le f g l : (forall x, In x l -> f x <= g x) -> nsum f l <= nsum g l.
Proof.
  induction l as [|x l IH]; intro H; [cbn; lia|]. cbn [nsum fold_right]. fold (nsum f l). fold (nsum g l).
  pose proof (H x (or_introl eq_refl)). pose proof (IH (fun y Hy => H y (or_intror Hy))). lia.
Qed.
Lemma nsum_ge_in f l x : In x l -> f x <= nsum f l.
Proof.
  induction l as [|y l IH]; intros []; cbn [nsum fold_right]; fold (nsum f l).
  - subst. lia.
  - specialize (IH H). lia.
Qed.
Lemma nsum_cons f x l : nsum f (x :: l) = f x + nsum f l.
Proof. reflexivity. Qed.

(* a list all of whose members are covered by some x is at most the sum of the covered parts *)
Lemma cover_count (f : N -> N -> bool) Xs : forall M : list N,
  (forall s, In s M -> exists x, In x Xs /\ f x s = true) ->
  N.of_nat (length M) <= nsum (fun x => N.of_nat (length (filter (f x) M))) Xs.
Proof.
  induction M as [|s M IH]; intro H; [cbn [length]; lia|].
  assert (E : nsum (fun x => N.of_nat (length (filter (f x) (s :: M)))) Xs =
              nsum (fun x => (if f x s then 1 else 0) + N.of_nat (length (filter (f x) M))) Xs).
  { apply nsum_ext_in. intros x _. cbn [filter]. destruct (f x s); cbn [length]; lia. }
  rewrite E, nsum_add. specialize (IH (fun s' Hs' => H s' (or_intror Hs'))).
  destruct (H s (or_introl eq_refl)) as (x & Hx & Fx).
  pose proof (nsum_ge_in (fun x => if f x s then 1 else 0) Xs x Hx) as H1. cbv beta in H1. rewrite Fx in H1.
  cbn [length]. lia.
Qed.

Lemma length_le1 (c : N) (l : list N) : NoDup l -> (forall s, In s l -> s = c) -> (length l <= 1)%nat.
Proof.
  intros Hnd H. destruct l as [|a [|b l]]; cbn [length]; try lia. exfalso.
  inversion Hnd as [|? ? Hn _]; subst. apply Hn. left.
  rewrite (H a (or_introl eq_refl)), (H b (or_intror (or_introl eq_refl))). reflexivity.
Qed.

Section AnyCounts.
Variables (A B : list N).
Hypothesis HA : wf_post A.
Hypothesis HB : wf_post B.

Definition gfun (p : N * N) : N :=
  if is_same (ipairs A B) then same_term_adjusted (fst p) (snd p) else popcount (ov (fst p) (snd p)).
Definition gw (x : N) : N := match partner_i B x with Some y => gfun (x, y) | None => 0 end.
Definition pcw (x : N) : N := match partner_i B x with Some y => popcount (ov x y) | None => 0 end.
Definition adw (x : N) : N := match sel_a B x with Some _ => 1 | None => 0 end.

Lemma any_counts_look0 : StronglySorted N.lt (map fst (any_counts A B)) /\
  forall d, look0 d (any_counts A B) = nsum (fun x => if key x =? d then gw x + adw x else 0) A.
Proof.
  unfold any_counts. cbn zeta.
  destruct (merged_counts (runs_sum (gen_kvs (ipairs A B)))
              (run_counts (np_sort (map (fun p => key (fst p)) (aps A B))))) as [Hs Hl].
  split; [exact Hs|]. intro d. specialize (Hl d). unfold look0.
  assert (E : ksum d (runs_sum (gen_kvs (ipairs A B))) +
              ksum d (run_counts (np_sort (map (fun p => key (fst p)) (aps A B)))) =
              nsum (fun x => if key x =? d then gw x + adw x else 0) A).
  { rewrite ksum_runs_sum, run_counts_runs_sum, ksum_runs_sum.
    rewrite <- (ksum_perm d _ _ (Permutation_map (fun x => (x, 1)) (np_sort_perm _))).
    rewrite map_map.
    assert (EG : gen_kvs (ipairs A B) = map (fun p => (key (fst p), gfun p)) (ipairs A B)).
    { unfold gen_kvs, gfun, same_kvs, inner_kvs. destruct (is_same (ipairs A B)); reflexivity. }
    rewrite EG. unfold ipairs, lpairs.
    rewrite (ksum_spairs d _ gfun).
    rewrite aps_spairs, (ksum_spairs d _ (fun _ => 1)), <- nsum_add.
    apply nsum_ext_in. intros x Hx. unfold gw, adw, partner_i.
    destruct (key x =? d); [|reflexivity]. reflexivity. }
  rewrite <- E. destruct (lookup d _); lia.
Qed.

Lemma matched_nsum d :
  N.of_nat (length (matched A B d)) = nsum (fun x => if key x =? d then pcw x + adw x else 0) A.
Proof.
  unfold matched. unfold dposns at 2. rewrite filter_flat_map, length_flat_map_nsum, nsum_filter.
  apply nsum_ext_in. intros x Hx. destruct (N.eqb_spec (key x) d) as [Hk|Hk]; [|reflexivity].
  rewrite (word_matches A B HA HB x d Hx Hk). reflexivity.
Qed.

Lemma partner_pair x y : In x A -> partner_i B x = Some y -> In (x, y) (ipairs A B).
Proof. intros Hx E. unfold ipairs, lpairs. apply In_spairs. split; [exact Hx|exact E]. Qed.

Lemma gw_le x : In x A -> gw x <= pcw x.
Proof.
  intro Hx. unfold gw, pcw, gfun. destruct (partner_i B x) as [y|] eqn:E; [|lia]. cbn [fst snd].
  destruct (is_same (ipairs A B)) eqn:S; [|lia].
  pose proof (is_same_true _ S _ (partner_pair x y Hx E)) as Exy. cbn [fst snd] in Exy. subst y.
  destruct (wf_in _ _ HA Hx) as [H64 _]. apply same_term_word. exact H64.
Qed.

Theorem any_counts_upper d : look0 d (any_counts A B) <= N.of_nat (length (matched A B d)).
Proof.
  destruct any_counts_look0 as [_ H]. rewrite H, matched_nsum. apply nsum_le. intros x Hx.
  destruct (key x =? d); [|lia]. pose proof (gw_le x Hx). lia.
Qed.

(* a family of starts of pairwise disjoint bigrams (p in A, p+1 in B) of document d *)
Definition family (d : N) (M : list N) : Prop :=
  StronglySorted gap2 M /\ forall s, In s M -> has A d s /\ has B d (s + 1).

Lemma word_family x d M : In x A -> key x = d -> family d M ->
  N.of_nat (length (filter (fun s => mem_n s (wposns x)) M)) <= gw x + adw x.
Proof.
  intros HxA Hk [Hg Hf]. destruct (wf_in _ _ HA HxA) as [Hx Hbx].
  rewrite (filter_split_length (fun s => negb (s mod 18 =? 17))), Nat2N.inj_add.
  apply N.add_le_mono.
  - (* in-word members *)
    set (M1 := filter (fun a => negb (a mod 18 =? 17) && mem_n a (wposns x)) M).
    assert (HM1 : forall s, In s M1 -> In s M /\ s mod 18 <> 17 /\ In s (wposns x)).
    { intros s Hs. apply filter_In in Hs. destruct Hs as [Hs Hc]. apply andb_true_iff in Hc.
      destruct Hc as [H1 H2]. apply negb_true_iff, N.eqb_neq in H1. apply mem_n_In in H2. tauto. }
    assert (Hpart : forall s, In s M1 -> exists y, partner_i B x = Some y /\ In (s + 1) (wposns y)).
    { intros s Hs. destruct (HM1 s Hs) as (HsM & H17 & Hsx). destruct (Hf s HsM) as [_ HB1].
      apply In_wposns in Hsx. destruct Hsx as [Hb _].
      pose proof (phi_inner A B HA HB x d s HxA Hk Hb H17) as Ephi.
      apply In_dposns, mem_n_In in HB1. rewrite HB1 in Ephi.
      destruct (partner_i B x) as [y|]; [|discriminate]. exists y. split; [reflexivity|].
      apply mem_n_In. symmetry. exact Ephi. }
    unfold gw. destruct (partner_i B x) as [y|] eqn:E.
    + assert (Hy : forall s, In s M1 -> In (s + 1) (wposns y)).
      { intros s Hs. destruct (Hpart s Hs) as (y' & E' & H'). inversion E'; subst y'. exact H'. }
      pose proof (partner_pair x y HxA E) as Hp.
      unfold gfun. cbn [fst snd]. destruct (is_same (ipairs A B)) eqn:S.
      * pose proof (is_same_true _ S _ Hp) as Exy. cbn [fst snd] in Exy. subst y.
        apply N.le_trans with (GL (wposns x)); [|apply same_term_word; exact Hx].
        apply GL_optimal; [apply wposns_sorted|apply ss_filter_gen; exact Hg|].
        intros s Hs. split; [apply (HM1 s Hs)|apply Hy; exact Hs].
      * assert (Hbk : bucket x = bucket y).
        { apply partner_i_some in E. destruct E as [HyB Hh]. destruct (wf_in _ _ HB HyB) as [Hy64 _].
          symmetry. apply (hdr_eq_iff y x Hy64 Hx). exact Hh. }
        rewrite (inner_popcount x y Hbk).
        match goal with |- N.of_nat ?a <= N.of_nat ?b => enough (a <= b)%nat by lia end.
        apply NoDup_incl_length.
        -- apply NoDup_filter, gap2_nodup. exact Hg.
        -- intros s Hs. destruct (HM1 s Hs) as (_ & H17 & Hsx). apply filter_In. split; [exact Hsx|].
           apply andb_true_iff. split; [apply negb_true_iff, N.eqb_neq; exact H17|].
           apply mem_n_In, Hy. exact Hs.
    + destruct M1 as [|s M1'] eqn:EM; [cbn [length]; lia|]. exfalso.
      destruct (Hpart s (or_introl eq_refl)) as (y & E' & _). discriminate.
  - (* the member at bit 17, if any *)
    set (M2 := filter (fun a => negb (negb (a mod 18 =? 17)) && mem_n a (wposns x)) M).
    assert (HM2 : forall s, In s M2 -> In s M /\ s = 18 * bucket x + 17).
    { intros s Hs. apply filter_In in Hs. destruct Hs as [Hs Hc]. apply andb_true_iff in Hc.
      destruct Hc as [H1 H2]. rewrite negb_involutive in H1. apply N.eqb_eq in H1. apply mem_n_In in H2.
      apply In_wposns in H2. destruct H2 as [Hb _]. split; [exact Hs|].
      pose proof (N.div_mod s 18 ltac:(lia)). lia. }
    assert (L1 : (length M2 <= 1)%nat).
    { apply (length_le1 (18 * bucket x + 17)); [apply NoDup_filter, gap2_nodup; exact Hg|].
      intros s Hs. apply (HM2 s Hs). }
    destruct M2 as [|s M2'] eqn:EM; [cbn [length]; lia|].
    destruct (HM2 s (or_introl eq_refl)) as [HsM Es]. destruct (Hf s HsM) as [HA1 HB1].
    assert (T17 : N.testbit x 17 = true).
    { assert (Hin : In s (wposns x)).
      { assert (Hs : In s (filter (fun a => negb (negb (a mod 18 =? 17)) && mem_n a (wposns x)) M))
          by (fold M2; rewrite EM; now left).
        apply filter_In in Hs. destruct Hs as [_ Hc]. apply andb_true_iff in Hc. apply mem_n_In. tauto. }
      apply In_wposns in Hin. destruct Hin as [_ Ht]. replace (s mod 18) with 17 in Ht by lia. exact Ht. }
    pose proof (phi_adj A B HA HB x d HxA Hk) as Ephi.
    apply In_dposns, mem_n_In in HB1. rewrite Es in HB1. rewrite HB1 in Ephi.
    unfold adw, sel_a. destruct (partner_a B x) as [y|]; [|discriminate].
    rewrite adjtest_bits. cbn [fst snd]. rewrite T17, <- Ephi. cbn [andb]. cbn [length] in *. lia.
Qed.

Theorem any_counts_lower d M : family d M -> N.of_nat (length M) <= look0 d (any_counts A B).
Proof.
  intro HF. destruct any_counts_look0 as [_ H]. rewrite H.
  apply N.le_trans with
    (nsum (fun x => N.of_nat (length (filter (fun s => (key x =? d) && mem_n s (wposns x)) M))) A).
  - apply cover_count. intros s Hs. destruct HF as [_ Hf]. destruct (Hf s Hs) as [(w & Hw & Hk & Hb & Ht) _].
    exists w. split; [exact Hw|]. apply andb_true_iff. split; [apply N.eqb_eq; exact Hk|].
    apply mem_n_In, In_wposns. split; [symmetry; exact Hb|exact Ht].
  - apply nsum_le. intros x Hx. destruct (N.eqb_spec (key x) d) as [Hk|Hk].
    + cbn [andb]. apply (word_family x d M); assumption.
    + cbn [andb]. rewrite filter_false. cbn [length]. lia.
Qed.

Lemma any_counts_keys k : In k (map fst (any_counts A B)) -> k < 268435456 /\ exists w, In w A /\ key w = k.
Proof.
  unfold any_counts, sort_merge_counts_spec. cbn zeta. rewrite !Phrase_Proofs2.combine_fst_snd. intro H.
  apply runs_sum_keys_in in H.
  apply (Permutation_in _ (Permutation_sym (Permutation_map fst (fold_insert_kv_perm _)))) in H.
  rewrite map_app, in_app_iff in H. destruct H as [H|H].
  - apply runs_sum_keys_in in H. rewrite gen_kvs_keys in H.
    apply in_map_iff in H. destruct H as (p & <- & Hp). apply (ipairs_wf A B HA HB) in Hp.
    split; [apply key_lt; tauto|exists (fst p); tauto].
  - rewrite run_counts_runs_sum in H. apply runs_sum_keys_in in H. rewrite map_map in H. cbn [fst] in H.
    rewrite map_id in H. apply (Permutation_in _ (Permutation_sym (np_sort_perm _))) in H.
    apply in_map_iff in H. destruct H as (p & <- & Hp). apply (aps_wf A B HA HB) in Hp.
    split; [apply key_lt; tauto|exists (fst p); tauto].
Qed.
End AnyCounts.

(* one bigram step on ANY two well-formed posting lists (same term or not): the call succeeds; the
   continuation is the ordinary one (END / START positions of all matched bigrams); the reported count of
   a document (0 when unlisted) lies between the size of any family of pairwise disjoint matches and the
   number of all matches *)
Theorem bigram_step_any : forall c A B, wf_post A -> wf_post B ->
  N.of_nat (length A) < 2 ^ 62 -> N.of_nat (length B) < 2 ^ 62 ->
  exists counts next, bigram_freqs c A B = AOk (counts, next) /\
    wf_post next /\
    (forall d, dposns next d = map (fun p => p + off c) (matched A B d)) /\
    StronglySorted N.lt (map fst counts) /\
    (forall d, look0 d counts <= N.of_nat (length (matched A B d))) /\
    (forall d M, family A B d M -> N.of_nat (length M) <= look0 d counts).
Proof.
  intros c A B HA HB HlA HlB. exists (any_counts A B), (step_next c A B).
  split; [apply bigram_freqs_any; assumption|].
  split; [apply step_next_wf; assumption|].
  split; [intro d; apply step_next_dposns; assumption|].
  split; [apply any_counts_look0; assumption|].
  split; [intro d; apply any_counts_upper; assumption|].
  intros d M. apply any_counts_lower; assumption.
Qed.

(* ------------------------------------------------------------------ *)
(* 6. the running minimum                                              *)
(* ------------------------------------------------------------------ *)
Definition acc_ok (cs : list (N * N)) : Prop :=
  StronglySorted N.lt (map fst cs) /\ Forall (fun kv => fst kv < 268435456) cs.

Lemma acc_ok_length cs : acc_ok cs -> N.of_nat (length cs) < 2 ^ 62.
Proof.
  intros (Hs & Hf). rewrite <- (map_length fst cs).
  destruct (sorted_length_bound (map fst cs) 0 268435456 Hs) as [H| ->].
  - apply Forall_map. eapply Forall_impl; [|exact Hf]. cbn. intros; lia.
  - rewrite pow62. lia.
  - rewrite pow62. cbn. lia.
Qed.

Lemma any_counts_acc_ok A B : wf_post A -> wf_post B -> acc_ok (any_counts A B).
Proof.
  intros HA HB. split; [apply any_counts_look0; assumption|].
  apply Forall_forall. intros kv Hkv. apply (any_counts_keys A B HA HB). apply in_map. exact Hkv.
Qed.

Lemma intersect_acc old new : acc_ok old -> acc_ok new ->
  exists acc', intersect_matches (Some old) new = AOk acc' /\ acc_ok acc' /\
    incl (map fst acc') (map fst old) /\
    forall d, look0 d acc' = N.min (look0 d old) (look0 d new).
Proof.
  intros Ho Hn. pose proof (acc_ok_length _ Ho) as Lo. pose proof (acc_ok_length _ Hn) as Ln.
  destruct Ho as (So & Fo). destruct Hn as (Sn & Fn).
  exists (map min_pair (kpairs old new)). split; [apply intersect_matches_spec; assumption|].
  split; [split|split].
  - rewrite map_map. cbn [min_pair fst]. apply (ss_spairs _ fst). exact So.
  - apply Forall_map, Forall_forall. intros [x y] Hp. apply In_spairs in Hp. destruct Hp as [Hx _].
    cbn [min_pair fst]. rewrite Forall_forall in Fo. apply (Fo x Hx).
  - intros k Hk. apply kpairs_keys in Hk. exact Hk.
  - intro d. unfold look0. rewrite lookup_kpairs by exact So.
    destruct (lookup d old) as [a|], (lookup d new) as [b|]; lia.
Qed.

(* ------------------------------------------------------------------ *)
(* 7. left to right                                                    *)
(* ------------------------------------------------------------------ *)
Lemma l2r_loop_any : forall rest lhs acc,
  wf_post lhs -> N.of_nat (length lhs) < 2 ^ 62 -> Forall canonical rest -> acc_ok acc ->
  (forall d, look0 d acc <= N.of_nat (length (dposns lhs d))) ->
  exists res, l2r_loop lhs rest (Some acc) = AOk res /\ acc_ok res /\
    incl (map fst res) (map fst acc) /\
    forall d, look0 d res <= N.of_nat (length (l2r_pos (dposns lhs d) rest d)) /\
      forall M, StronglySorted gap2 M ->
        (forall p, In p M -> In p (dposns lhs d) /\ match_at rest d (p + 1) = true) ->
        N.of_nat (length M) <= look0 d acc -> N.of_nat (length M) <= look0 d res.
Proof.
  induction rest as [|P more IH]; intros lhs acc Hwf Hlen Hcan Hok Hub.
  - exists acc. split; [reflexivity|]. split; [exact Hok|]. split; [apply incl_refl|].
    intro d. split; [apply Hub|]. intros M _ _ H. exact H.
  - inversion Hcan as [|? ? (HwP & HnzP & HlP) Hcan']; subst.
    cbn [l2r_loop]. rewrite (bigram_freqs_any CR lhs P Hwf HwP Hlen HlP). cbn [abind fst snd].
    destruct (intersect_acc acc (any_counts lhs P) Hok (any_counts_acc_ok lhs P Hwf HwP))
      as (acc' & E & Hok' & Hincl & Hmin).
    rewrite E. cbn [abind].
    destruct (IH (step_next CR lhs P) acc') as (res & Er & Hres & Hincl' & Hd); try assumption.
    + apply step_next_wf; assumption.
    + pose proof (step_next_length CR lhs P Hwf HwP) as Hl. cbn [side] in Hl. rewrite pow62 in *. lia.
    + intro d. rewrite Hmin. rewrite step_next_dposns, map_length by assumption.
      pose proof (any_counts_upper lhs P Hwf HwP d). lia.
    + exists res. split; [exact Er|]. split; [exact Hres|].
      split; [eapply incl_tran; eassumption|]. intro d. destruct (Hd d) as [Hu Hlow]. split.
      * cbn [l2r_pos]. rewrite step_CR_dposns in Hu by assumption. exact Hu.
      * intros M HM HMin Hacc.
        assert (HF : family lhs P d M).
        { split; [exact HM|]. intros s Hs. destruct (HMin s Hs) as [H1 H2]. cbn [match_at] in H2.
          apply andb_true_iff in H2. destruct H2 as [H2 _]. apply mem_n_In in H2.
          split; apply In_dposns; assumption. }
        pose proof (any_counts_lower lhs P Hwf HwP d M HF) as Hc.
        rewrite <- (map_length (fun p => p + 1) M). apply Hlow.
        -- apply (ss_map_gen gap2 gap2); [unfold gap2; intros; lia|exact HM].
        -- intros q Hq. apply in_map_iff in Hq. destruct Hq as (p & <- & Hp).
           destruct (HMin p Hp) as [H1 H2]. cbn [match_at] in H2. apply andb_true_iff in H2.
           destruct H2 as [H2 H3]. split; [|exact H3].
           rewrite step_CR_dposns by assumption. apply (in_map (fun p => p + 1)). apply filter_In. split; assumption.
        -- rewrite map_length, Hmin. lia.
Qed.

Definition answer_bounds (res : list (N * N)) (Ps : list (list N)) : Prop :=
  forall d, look0 d res <= N.of_nat (length (phrase_matches Ps d)) /\
    forall O, StronglySorted gap2 O -> (forall o, In o O -> match_at Ps d o = true) ->
      N.of_nat (length O) <= look0 d res.

Theorem phrase_l2r_any : forall P1 P2 more, Forall canonical (P1 :: P2 :: more) ->
  exists res, phrase_l2r (P1 :: P2 :: more) = AOk res /\ acc_ok res /\ keys_from res P1 /\
    answer_bounds res (P1 :: P2 :: more).
Proof.
  intros P1 P2 more Hcan.
  inversion Hcan as [|? ? (Hw1 & Hnz1 & Hl1) Hcan1]; subst.
  inversion Hcan1 as [|? ? (Hw2 & Hnz2 & Hl2) Hcan2]; subst.
  cbn [phrase_l2r l2r_loop]. rewrite (bigram_freqs_any CR P1 P2 Hw1 Hw2 Hl1 Hl2).
  cbn [abind fst snd intersect_matches].
  destruct (l2r_loop_any more (step_next CR P1 P2) (any_counts P1 P2)) as (res & Er & Hres & Hincl & Hd);
    try assumption.
  - apply step_next_wf; assumption.
  - pose proof (step_next_length CR P1 P2 Hw1 Hw2) as Hl. cbn [side] in Hl. rewrite pow62 in *. lia.
  - apply any_counts_acc_ok; assumption.
  - intro d. rewrite step_next_dposns, map_length by assumption. apply any_counts_upper; assumption.
  - exists res. split; [exact Er|]. split; [exact Hres|]. split.
    + intros k Hk. apply Hincl in Hk. apply (any_counts_keys P1 P2 Hw1 Hw2) in Hk. tauto.
    + intro d. destruct (Hd d) as [Hu Hlow]. split.
      * assert (E : length (l2r_pos (dposns (step_next CR P1 P2) d) more d) =
                    length (phrase_matches (P1 :: P2 :: more) d)).
        { rewrite step_CR_dposns by assumption.
          change (l2r_pos (map (fun q => q + 1) (filter (fun p => mem_n (p + 1) (dposns P2 d)) (dposns P1 d))) more d)
            with (l2r_pos (dposns P1 d) (P2 :: more) d).
          rewrite l2r_pos_spec, map_length, pm_head. reflexivity. }
        rewrite <- E. exact Hu.
      * intros O HO HOin.
        assert (HF : family P1 P2 d O).
        { split; [exact HO|]. intros s Hs. specialize (HOin s Hs). cbn [match_at] in HOin.
          apply andb_true_iff in HOin. destruct HOin as [H1 H2]. apply andb_true_iff in H2. destruct H2 as [H2 _].
          apply mem_n_In in H1. apply mem_n_In in H2. split; apply In_dposns; assumption. }
        pose proof (any_counts_lower P1 P2 Hw1 Hw2 d O HF) as Hc.
        rewrite <- (map_length (fun p => p + 1) O). apply Hlow.
        -- apply (ss_map_gen gap2 gap2); [unfold gap2; intros; lia|exact HO].
        -- intros q Hq. apply in_map_iff in Hq. destruct Hq as (p & <- & Hp).
           specialize (HOin p Hp). cbn [match_at] in HOin.
           apply andb_true_iff in HOin. destruct HOin as [H1 H2]. apply andb_true_iff in H2. destruct H2 as [H2 H3].
           split; [|exact H3]. rewrite step_CR_dposns by assumption. apply (in_map (fun p => p + 1)). apply filter_In.
           split; [apply mem_n_In; exact H1|exact H2].
        -- rewrite map_length. exact Hc.
Qed.

(* ------------------------------------------------------------------ *)
(* 8. right to left                                                    *)
(* ------------------------------------------------------------------ *)
Fixpoint match_back (rest : list (list N)) (d q : N) : bool :=
  match rest with
  | [] => true
  | P :: more => (0 <? q) && mem_n (q - 1) (dposns P d) && match_back more d (q - 1)
  end.

Lemma gap2_pred M : StronglySorted gap2 M -> Forall (fun q => 0 < q) M ->
  StronglySorted gap2 (map (fun q => q - 1) M).
Proof.
  induction 1 as [|a t Hs IH Hf]; intro Hp; cbn [map]; [constructor|].
  inversion Hp as [|? ? Ha Hp']; subst. constructor; [apply IH; exact Hp'|].
  apply Forall_map. rewrite Forall_forall in *. intros b Hb. specialize (Hf b Hb). specialize (Hp' b Hb).
  unfold gap2 in *. lia.
Qed.

Lemma r2l_loop_any : forall rest rhs acc,
  wf_post rhs -> N.of_nat (length rhs) < 2 ^ 62 -> Forall canonical rest -> acc_ok acc ->
  (forall d, look0 d acc <= N.of_nat (length (dposns rhs d))) ->
  exists res, r2l_loop rhs rest (Some acc) = AOk res /\ acc_ok res /\
    incl (map fst res) (map fst acc) /\
    forall d, look0 d res <= N.of_nat (length (r2l_pos (dposns rhs d) rest d)) /\
      forall M, StronglySorted gap2 M ->
        (forall q, In q M -> In q (dposns rhs d) /\ match_back rest d q = true) ->
        N.of_nat (length M) <= look0 d acc -> N.of_nat (length M) <= look0 d res.
Proof.
  induction rest as [|P more IH]; intros rhs acc Hwf Hlen Hcan Hok Hub.
  - exists acc. split; [reflexivity|]. split; [exact Hok|]. split; [apply incl_refl|].
    intro d. split; [apply Hub|]. intros M _ _ H. exact H.
  - inversion Hcan as [|? ? (HwP & HnzP & HlP) Hcan']; subst.
    cbn [r2l_loop]. rewrite (bigram_freqs_any CL P rhs HwP Hwf HlP Hlen). cbn [abind fst snd].
    destruct (intersect_acc acc (any_counts P rhs) Hok (any_counts_acc_ok P rhs HwP Hwf))
      as (acc' & E & Hok' & Hincl & Hmin).
    rewrite E. cbn [abind].
    destruct (IH (step_next CL P rhs) acc') as (res & Er & Hres & Hincl' & Hd); try assumption.
    + apply step_next_wf; assumption.
    + pose proof (step_next_length CL P rhs HwP Hwf) as Hl. cbn [side] in Hl. rewrite pow62 in *. lia.
    + intro d. rewrite Hmin. rewrite step_next_dposns, map_length by assumption.
      pose proof (any_counts_upper P rhs HwP Hwf d). lia.
    + exists res. split; [exact Er|]. split; [exact Hres|].
      split; [eapply incl_tran; eassumption|]. intro d. destruct (Hd d) as [Hu Hlow]. split.
      * cbn [r2l_pos]. rewrite step_CL_dposns in Hu by assumption. exact Hu.
      * intros M HM HMin Hacc.
        assert (Hpos : Forall (fun q => 0 < q) M).
        { apply Forall_forall. intros q Hq. destruct (HMin q Hq) as [_ H2]. cbn [match_back] in H2.
          apply andb_true_iff in H2. destruct H2 as [H2 _]. apply andb_true_iff in H2. destruct H2 as [H2 _].
          apply N.ltb_lt. exact H2. }
        set (M' := map (fun q => q - 1) M).
        assert (HM' : StronglySorted gap2 M') by (apply gap2_pred; assumption).
        assert (HF : family P rhs d M').
        { split; [exact HM'|]. intros s Hs. apply in_map_iff in Hs. destruct Hs as (q & <- & Hq).
          destruct (HMin q Hq) as [H1 H2]. cbn [match_back] in H2.
          apply andb_true_iff in H2. destruct H2 as [H2 _]. apply andb_true_iff in H2. destruct H2 as [H0 H2].
          apply N.ltb_lt in H0. apply mem_n_In in H2. replace (q - 1 + 1) with q by lia.
          split; apply In_dposns; assumption. }
        pose proof (any_counts_lower P rhs HwP Hwf d M' HF) as Hc.
        rewrite <- (map_length (fun q => q - 1) M). fold M'. apply Hlow.
        -- exact HM'.
        -- intros s Hs. apply in_map_iff in Hs. destruct Hs as (q & <- & Hq).
           destruct (HMin q Hq) as [H1 H2]. cbn [match_back] in H2.
           apply andb_true_iff in H2. destruct H2 as [H2 H3]. apply andb_true_iff in H2. destruct H2 as [H0 H2].
           apply N.ltb_lt in H0. split; [|exact H3].
           rewrite step_CL_dposns by assumption. apply filter_In. split; [apply mem_n_In; exact H2|].
           replace (q - 1 + 1) with q by lia. apply mem_n_In. exact H1.
        -- subst M'. rewrite map_length in Hc |- *. rewrite Hmin. lia.
Qed.

Lemma match_at_app d : forall l1 l2 o,
  match_at (l1 ++ l2) d o = match_at l1 d o && match_at l2 d (o + N.of_nat (length l1)).
Proof.
  induction l1 as [|P l1 IH]; intros l2 o.
  - cbn [app match_at length N.of_nat]. rewrite N.add_0_r. reflexivity.
  - cbn [app match_at]. rewrite IH, andb_assoc. f_equal. f_equal. cbn [length]. lia.
Qed.

Lemma match_back_rev d : forall rest q,
  match_back rest d q = (N.of_nat (length rest) <=? q) && match_at (rev rest) d (q - N.of_nat (length rest)).
Proof.
  induction rest as [|P more IH]; intro q.
  - cbn [match_back length rev match_at N.of_nat]. destruct (N.leb_spec 0 q); [reflexivity|lia].
  - cbn [match_back rev]. rewrite IH, match_at_app, rev_length. cbn [match_at length].
    rewrite andb_true_r.
    destruct (N.ltb_spec 0 q) as [H0|H0]; cbn [andb].
    + destruct (N.leb_spec (N.of_nat (length more)) (q - 1)) as [H1|H1];
        destruct (N.leb_spec (N.of_nat (S (length more))) q) as [H2|H2]; try lia; cbn [andb].
      replace (q - N.of_nat (S (length more)) + N.of_nat (length more)) with (q - 1) by lia.
      replace (q - 1 - N.of_nat (length more)) with (q - N.of_nat (S (length more))) by lia.
      destruct (mem_n (q - 1) (dposns P d)), (match_at (rev more) d (q - N.of_nat (S (length more)))); reflexivity.
    + destruct (N.leb_spec (N.of_nat (S (length more))) q) as [H2|H2]; [lia|reflexivity].
Qed.

(* right-to-left: stated on the reversed list as the model does *)
Theorem phrase_r2l_any : forall Pn Pm front, Forall canonical (Pn :: Pm :: front) ->
  exists res, phrase_r2l (rev (Pn :: Pm :: front)) = AOk res /\ acc_ok res /\ keys_from res Pm /\
    answer_bounds res (rev (Pn :: Pm :: front)).
Proof.
  intros Pn Pm front Hcan. unfold phrase_r2l. rewrite rev_involutive.
  inversion Hcan as [|? ? (Hwn & Hnzn & Hln) Hcan1]; subst.
  inversion Hcan1 as [|? ? (Hwm & Hnzm & Hlm) Hcan2]; subst.
  cbn [r2l_loop]. rewrite (bigram_freqs_any CL Pm Pn Hwm Hwn Hlm Hln).
  cbn [abind fst snd intersect_matches].
  destruct (r2l_loop_any front (step_next CL Pm Pn) (any_counts Pm Pn)) as (res & Er & Hres & Hincl & Hd);
    try assumption.
  - apply step_next_wf; assumption.
  - pose proof (step_next_length CL Pm Pn Hwm Hwn) as Hl. cbn [side] in Hl. rewrite pow62 in *. lia.
  - apply any_counts_acc_ok; assumption.
  - intro d. rewrite step_next_dposns, map_length by assumption. apply any_counts_upper; assumption.
  - exists res. split; [exact Er|]. split; [exact Hres|]. split.
    + intros k Hk. apply Hincl in Hk. apply (any_counts_keys Pm Pn Hwm Hwn) in Hk. tauto.
    + intro d. destruct (Hd d) as [Hu Hlow]. split.
      * assert (E : r2l_pos (dposns (step_next CL Pm Pn) d) front d = phrase_matches (rev (Pn :: Pm :: front)) d).
        { rewrite step_CL_dposns by assumption.
          change (r2l_pos (filter (fun p => mem_n (p + 1) (dposns Pn d)) (dposns Pm d)) front d)
            with (r2l_pos (dposns Pn d) (Pm :: front) d).
          rewrite <- pm_single. change (rev (Pn :: Pm :: front)) with (rev (Pm :: front) ++ [Pn]).
          set (F := rev (Pm :: front)).
          assert (EF : Pm :: front = rev F) by (unfold F; symmetry; apply rev_involutive).
          rewrite EF. apply r2l_pos_spec. discriminate. }
        rewrite <- E. exact Hu.
      * intros O HO HOin.
        (* the position of the Pm term of each occurrence *)
        set (n := N.of_nat (length front)).
        assert (HOx : forall o, In o O -> match_at (rev front) d o = true /\
                        mem_n (o + n) (dposns Pm d) = true /\ mem_n (o + n + 1) (dposns Pn d) = true).
        { intros o Ho. specialize (HOin o Ho). cbn [rev] in HOin. rewrite <- app_assoc in HOin. cbn [app] in HOin.
          rewrite match_at_app, rev_length in HOin. fold n in HOin. cbn [match_at] in HOin.
          apply andb_true_iff in HOin. destruct HOin as [H1 H2]. apply andb_true_iff in H2. destruct H2 as [H2 H3].
          apply andb_true_iff in H3. destruct H3 as [H3 _]. auto. }
        set (M := map (fun o => o + n) O).
        assert (HM : StronglySorted gap2 M)
          by (apply (ss_map_gen gap2 gap2); [unfold gap2; intros; lia|exact HO]).
        assert (HF : family Pm Pn d M).
        { split; [exact HM|]. intros s Hs. apply in_map_iff in Hs. destruct Hs as (o & <- & Ho).
          destruct (HOx o Ho) as (_ & H2 & H3). apply mem_n_In in H2. apply mem_n_In in H3.
          split; apply In_dposns; assumption. }
        pose proof (any_counts_lower Pm Pn Hwm Hwn d M HF) as Hc.
        rewrite <- (map_length (fun o => o + n) O). fold M. apply Hlow.
        -- exact HM.
        -- intros s Hs. apply in_map_iff in Hs. destruct Hs as (o & <- & Ho).
           destruct (HOx o Ho) as (H1 & H2 & H3). split.
           ++ rewrite step_CL_dposns by assumption. apply filter_In. split; [apply mem_n_In; exact H2|exact H3].
           ++ rewrite match_back_rev. fold n. replace (o + n - n) with o by lia. rewrite H1.
              destruct (N.leb_spec n (o + n)); [reflexivity|lia].
        -- exact Hc.
Qed.

(* ------------------------------------------------------------------ *)
(* 9. either strategy                                                  *)
(* ------------------------------------------------------------------ *)
Theorem compute_phrase_freqs_bounds : forall Ps, (2 <= length Ps)%nat -> Forall canonical Ps ->
  exists res, compute_phrase_freqs Ps = AOk res /\ acc_ok res /\
    (forall k, In k (map fst res) -> exists P w, In P Ps /\ In w P /\ key w = k) /\
    answer_bounds res Ps.
Proof.
  intros Ps Hlen Hcan. unfold compute_phrase_freqs. destruct (choose_strategy Ps).
  - destruct Ps as [|P1 [|P2 more]]; cbn [length] in Hlen; try lia.
    destruct (phrase_l2r_any P1 P2 more Hcan) as (res & E & Hok & Hk & Hb).
    exists res. split; [exact E|]. split; [exact Hok|]. split; [|exact Hb].
    intros k Hin. destruct (Hk k Hin) as (w & Hw & Ek). exists P1, w. split; [now left|]. tauto.
  - pose proof (rev_involutive Ps) as E. pose proof (rev_length Ps) as L.
    pose proof (Forall_rev Hcan) as Hcan'.
    destruct (rev Ps) as [|Pn [|Pm front]] eqn:ER; cbn [length] in L; try lia.
    rewrite <- E.
    destruct (phrase_r2l_any Pn Pm front Hcan') as (res & Er & Hok & Hk & Hb).
    exists res. split; [exact Er|]. split; [exact Hok|]. split; [|exact Hb].
    intros k Hin. destruct (Hk k Hin) as (w & Hw & Ek). exists Pm, w. split; [|tauto].
    apply -> in_rev. right. now left.
Qed.

(* ------------------------------------------------------------------ *)
(* 10. the spec side: greedy non-overlapping occurrences               *)
(* ------------------------------------------------------------------ *)
(* the number of non-overlapping occurrences found greedily from the left (Phrase_Spec.occ_nonoverlap) *)
Definition nonoverlapping (ph d : list N) : N := occ_nonoverlap ph d.

(* the offsets the greedy scan takes *)
Fixpoint nonover_offs (fuel : nat) (ph d : list N) (i : N) : list N :=
  match fuel with
  | O => []
  | S f => match d with
           | [] => []
           | _ :: t => if prefix_eqb ph d
                       then i :: nonover_offs f ph (skipn (length ph) d) (i + N.of_nat (length ph))
                       else nonover_offs f ph t (i + 1)
           end
  end.

Lemma nonover_offs_length ph : forall fuel d i,
  N.of_nat (length (nonover_offs fuel ph d i)) = occ_nonoverlap_aux fuel ph d.
Proof.
  induction fuel as [|f IH]; intros d i; [reflexivity|]. cbn [nonover_offs occ_nonoverlap_aux].
  destruct d as [|x t]; [reflexivity|]. destruct (prefix_eqb ph (x :: t)).
  - cbn [length]. rewrite Nat2N.inj_succ, IH. lia.
  - apply IH.
Qed.

Lemma skipn_add {X} : forall b a (l : list X), skipn a (skipn b l) = skipn (a + b) l.
Proof.
  induction b as [|b IH]; intros a l; [rewrite Nat.add_0_r; reflexivity|].
  rewrite Nat.add_succ_r. destruct l as [|x t]; [destruct a; reflexivity|]. cbn [skipn]. apply IH.
Qed.

Lemma nonover_offs_spec ph : (2 <= length ph)%nat -> forall fuel d i,
  StronglySorted gap2 (nonover_offs fuel ph d i) /\
  forall o, In o (nonover_offs fuel ph d i) -> i <= o /\ prefix_eqb ph (skipn (N.to_nat (o - i)) d) = true.
Proof.
  intro Hlen. induction fuel as [|f IH]; intros d i; [split; [constructor|intros o []]|].
  cbn [nonover_offs]. destruct d as [|x t]; [split; [constructor|intros o []]|].
  destruct (prefix_eqb ph (x :: t)) eqn:E.
  - destruct (IH (skipn (length ph) (x :: t)) (i + N.of_nat (length ph))) as [Hs Hin]. split.
    + constructor; [exact Hs|]. apply Forall_forall. intros o Ho. destruct (Hin o Ho) as [Hle _].
      unfold gap2. lia.
    + intros o [<-|Ho].
      * split; [lia|]. replace (i - i) with 0 by lia. exact E.
      * destruct (Hin o Ho) as [Hle Hp]. split; [lia|].
        rewrite skipn_add in Hp.
        replace (N.to_nat (o - i)) with (N.to_nat (o - (i + N.of_nat (length ph))) + length ph)%nat by lia.
        exact Hp.
  - destruct (IH t (i + 1)) as [Hs Hin]. split; [exact Hs|].
    intros o Ho. destruct (Hin o Ho) as [Hle Hp]. split; [lia|].
    replace (N.to_nat (o - i)) with (S (N.to_nat (o - (i + 1)))) by lia. exact Hp.
Qed.

Lemma occ_pos_nonoverlap_pos ph : forall d fuel, (length d < fuel)%nat -> occ ph d > 0 ->
  occ_nonoverlap_aux fuel ph d > 0.
Proof.
  induction d as [|x t IH]; intros fuel Hf H; [cbn [occ] in H; lia|].
  destruct fuel as [|f]; [lia|]. cbn [occ_nonoverlap_aux]. cbn [occ] in H.
  destruct (prefix_eqb ph (x :: t)); [lia|]. apply IH; [cbn [length] in Hf; lia|lia].
Qed.

Lemma occ_skipn ph : forall n d, occ ph (skipn n d) <= occ ph d.
Proof.
  induction n as [|n IH]; intro d; [cbn [skipn]; lia|]. destruct d as [|x t]; [cbn; lia|].
  cbn [skipn occ]. specialize (IH t). destruct (prefix_eqb ph (x :: t)); lia.
Qed.

Lemma nonoverlap_le_occ ph : ph <> [] -> forall fuel d, occ_nonoverlap_aux fuel ph d <= occ ph d.
Proof.
  intro Hne. induction fuel as [|f IH]; intro d; [cbn; lia|]. cbn [occ_nonoverlap_aux].
  destruct d as [|x t]; [cbn; lia|]. cbn [occ]. destruct (prefix_eqb ph (x :: t)).
  - destruct ph as [|a ph']; [congruence|]. cbn [length skipn].
    pose proof (IH (skipn (length ph') t)). pose proof (occ_skipn (a :: ph') (length ph') t). lia.
  - specialize (IH t). lia.
Qed.

(* ------------------------------------------------------------------ *)
(* 11. on the index of a corpus                                        *)
(* ------------------------------------------------------------------ *)
Definition in_bounds (ph doc : list N) (v : N) : Prop :=
  (v > 0 <-> occ ph doc > 0) /\ nonoverlapping ph doc <= v <= occ ph doc.

Lemma bounds_of_interval ph doc v : ph <> [] ->
  nonoverlapping ph doc <= v -> v <= occ ph doc -> in_bounds ph doc v.
Proof.
  intros Hne H1 H2. split; [|split; assumption]. split; [lia|]. intro Hp.
  pose proof (occ_pos_nonoverlap_pos ph doc (S (length doc)) ltac:(lia) Hp) as H.
  unfold nonoverlapping, occ_nonoverlap in H1. lia.
Qed.

Theorem phrase_repeats_on_index docs ix ph : wf_docs docs -> index_ok docs ix -> (2 <= length ph)%nat ->
  exists res, phrase_freqs ix ph = AOk res /\ length res = length docs /\
    forall d, (d < length docs)%nat -> in_bounds ph (nth d docs []) (nth d res 0).
Proof.
  intros Hwf Hok Hlen.
  assert (Hne : ph <> []) by (intro; subst; cbn [length] in Hlen; lia).
  destruct (forallb (known ix) ph) eqn:K.
  - pose proof Hok as (Hp & Ha & Ht & Hl).
    assert (HL : length (ix_lens ix) = length docs) by (rewrite Hl; apply map_length).
    assert (Hall : forall t, In t ph -> In t (concat docs)).
    { intros t Hin. rewrite forallb_forall in K. apply (known_iff docs ix t Ht). apply K. exact Hin. }
    unfold phrase_freqs. rewrite K, HL. cbn [negb].
    destruct (Nat.ltb_spec (length ph) 2) as [Hlt|_]; [lia|].
    rewrite (get_all_posts_ok docs ix Hok ph Hall). cbn [abind].
    set (pss := map (term_pairs docs) ph).
    assert (Hg : Forall good_term pss).
    { apply Forall_map. apply Forall_forall. intros t _. apply term_pairs_good. exact Hwf. }
    assert (Hlen' : (2 <= length (map encode_spec pss))%nat) by (unfold pss; rewrite !map_length; exact Hlen).
    assert (Hcan : Forall canonical (map encode_spec pss)).
    { apply Forall_map. eapply Forall_impl; [|exact Hg]. intros ps (S1 & B1 & M1 & L1).
      apply encode_spec_canonical; assumption. }
    destruct (compute_phrase_freqs_bounds (map encode_spec pss) Hlen' Hcan) as (res & E & [Hs Hf28] & Hkeys & Hb).
    rewrite E. cbn [abind].
    assert (Hkb : Forall (fun iv => fst iv < N.of_nat (length docs)) res).
    { apply Forall_forall. intros iv Hiv.
      destruct (Hkeys (fst iv) (in_map fst _ _ Hiv)) as (P & w & HP & Hw & Ek).
      apply in_map_iff in HP. destruct HP as (ps & <- & Hps). unfold pss in Hps.
      apply in_map_iff in Hps. destruct Hps as (t & <- & _).
      destruct (tp_wf docs Hwf t) as [S B]. rewrite term_pairs_tp in Hw.
      destruct (encode_word_pair _ w S B Hw) as (p & Hin).
      pose proof (tp_keys t docs 0) as TK. rewrite Forall_forall in TK. specialize (TK _ Hin).
      cbn [fst] in TK. rewrite <- Ek. lia. }
    destruct (store_zeros res (length docs) (ss_lt_nodup' _ Hs) Hkb) as (d' & Es & Ld & Hn).
    rewrite Es. cbn [lift]. exists d'. split; [reflexivity|]. split; [exact Ld|].
    intros k Hk. rewrite (Hn k Hk). fold (look0 (N.of_nat k) res).
    set (doc := nth k docs []). destruct (Hb (N.of_nat k)) as [Hup Hlow].
    assert (HF : Forall2 (fun t P => dposns P (N.of_nat k) = offsets t doc) ph (map encode_spec pss)).
    { pose proof (forall2_offsets docs k ph) as HF0. fold pss in HF0. fold doc in HF0.
      clear - HF0 Hg. induction HF0 as [|t ps ph' pss' Ht _ IH]; [constructor|].
      inversion Hg as [|? ? (S1 & B1 & _) Hg']; subst. cbn [map]. constructor; [|apply IH; exact Hg'].
      rewrite encode_spec_dposns by assumption. exact Ht. }
    apply bounds_of_interval; [exact Hne| |].
    + (* the greedy offsets are a family of pairwise disjoint occurrences *)
      destruct (nonover_offs_spec ph Hlen (S (length doc)) doc 0) as [Hs2 Hin].
      unfold nonoverlapping, occ_nonoverlap. rewrite <- (nonover_offs_length ph _ doc 0).
      apply Hlow; [exact Hs2|]. intros o Ho. destruct (Hin o Ho) as [_ Hpre]. rewrite N.sub_0_r in Hpre.
      rewrite (match_at_prefix (N.of_nat k) doc ph _ HF). exact Hpre.
    + rewrite <- (phrase_matches_occ ph _ (N.of_nat k) doc Hne HF). exact Hup.
  - destruct (forallb_false _ _ K) as (t & Hin & Hk).
    assert (Hnot : ~ In t (concat docs)).
    { intro Hc. destruct Hok as (_ & _ & Ht & _). rewrite (known_true docs ix t Ht Hc) in Hk. discriminate. }
    rewrite (phrase_freqs_absent docs ix ph t Hok Hin Hnot).
    exists (repeat 0 (length docs)). split; [reflexivity|]. split; [apply repeat_length|].
    intros d Hd. rewrite nth_repeat.
    assert (E0 : occ ph (nth d docs []) = 0).
    { apply (occ_absent t); [exact Hin|]. intro Hc. apply Hnot. apply in_concat.
      exists (nth d docs []). split; [apply nth_In; exact Hd|exact Hc]. }
    apply bounds_of_interval; [exact Hne| |lia].
    unfold nonoverlapping, occ_nonoverlap.
    pose proof (nonoverlap_le_occ ph Hne (S (length (nth d docs []))) (nth d docs [])). lia.
Qed.

(* C03, second sentence.  For every corpus within the limits, every batch size and EVERY phrase of two or more
   terms -- immediate repetitions such as 'a a b' included, terms present in the corpus or not -- indexing
   succeeds, and the phrase frequency of every document is positive exactly when the phrase occurs in it
   contiguously, and lies between the greedy number of non-overlapping occurrences and the number of all
   (overlapping) occurrences. *)
Theorem phrase_repeats_bounds : forall docs bs ph, wf_docs docs -> (2 <= length ph)%nat ->
  exists ix res, index false bs docs = AOk ix /\ phrase_freqs ix ph = AOk res /\ length res = length docs /\
    forall d, (d < length docs)%nat ->
      (nth d res 0 > 0 <-> occ ph (nth d docs []) > 0) /\
      nonoverlapping ph (nth d docs []) <= nth d res 0 <= occ ph (nth d docs []).
Proof.
  intros docs bs ph Hwf Hlen. destruct (index_any_ok docs bs Hwf) as (ix & E & Hok).
  destruct (phrase_repeats_on_index docs ix ph Hwf Hok Hlen) as (res & Er & Hl & Hb).
  exists ix, res. split; [exact E|]. split; [exact Er|]. split; [exact Hl|]. exact Hb.
Qed.

Corollary phrase_repeats_positive_iff_contains : forall docs bs ph, wf_docs docs -> (2 <= length ph)%nat ->
  exists ix res, index false bs docs = AOk ix /\ phrase_freqs ix ph = AOk res /\ length res = length docs /\
    forall d, (d < length docs)%nat ->
      (nth d res 0 > 0 <-> exists pre suf, nth d docs [] = pre ++ ph ++ suf).
Proof.
  intros docs bs ph Hwf Hlen. destruct (phrase_repeats_bounds docs bs ph Hwf Hlen) as (ix & res & E & Er & Hl & Hb).
  exists ix, res. split; [exact E|]. split; [exact Er|]. split; [exact Hl|].
  intros d Hd. destruct (Hb d Hd) as [Hp _]. rewrite Hp. apply occ_pos_iff.
  intro; subst ph. cbn [length] in Hlen. lia.
Qed.


(* ------------------------------------------------------------------ *)
(* 12. the hypotheses are satisfiable; the bounds are not equalities   *)
(* ------------------------------------------------------------------ *)
(* runs inside one word, two runs in one word, runs across the word boundary 17|18; the same vectors are
   returned by the real code (SearchArray.index / termfreqs) for these documents.  For [1;1] the answer is
   strictly between the two bounds on the second document (2 < 3 < 4). *)
Example phrase_repeats_instance :
  let docs := [[1;1;1;1;1]; [1;1;1;2;1;1;1]; [2;1;1]; [1;2;1];
               repeat 2 17 ++ [1;1;1;2]; repeat 2 16 ++ [1;1;1;1;2;1;1;2]; [1;1;2;1;1;2;2;1;1;1;2]] in
  let run ph := match index false 100 docs with AOk ix => phrase_freqs ix ph | _ => AExc ValueError end in
  wf_docs docs /\
  run [1;1] = AOk [2;3;1;0;2;4;3] /\
    map (nonoverlapping [1;1]) docs = [2;2;1;0;1;3;3] /\ map (occ [1;1]) docs = [4;4;1;0;2;4;4] /\
  run [1;1;1] = AOk [2;2;0;0;1;2;1] /\
    map (nonoverlapping [1;1;1]) docs = [1;2;0;0;1;1;1] /\ map (occ [1;1;1]) docs = [3;2;0;0;1;2;1] /\
  run [1;1;2] = AOk [0;1;0;0;1;2;3] /\ map (occ [1;1;2]) docs = [0;1;0;0;1;2;3] /\
  run [2;2;1;1] = AOk [0;0;0;0;1;1;1] /\ map (occ [2;2;1;1]) docs = [0;0;0;0;1;1;1].
Proof.
  cbv zeta. split; [split; [repeat constructor; cbn; lia|rewrite pow28; cbn; lia]|].
  repeat split; vm_compute; reflexivity.
Qed.

Print Assumptions same_term_word.
Print Assumptions bigram_step_any.
Print Assumptions compute_phrase_freqs_bounds.
Print Assumptions phrase_repeats_on_index.
Print Assumptions phrase_repeats_bounds.
Print Assumptions phrase_repeats_positive_iff_contains.
