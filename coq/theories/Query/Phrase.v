(* Line-level model of exact phrase matching:
   searcharray/phrase/bigram_freqs.py (43-307) and searcharray/phrase/middle_out.py (73-168, 410-446),
   postings.py:_phrase_freq (689-708) for a freshly built (non-subset) array.
   numpy glue is modelled by list combinators; compiled kernels by their models.  No proofs here. *)
From SA Require Import Base.Prelude Gen.SourceConsts Kernels.Intersect Kernels.Linear Codec.Codec Index.Index.
Open Scope N_scope.

Inductive cont := CL | CR.        (* Continuation.LHS / Continuation.RHS (BOTH is never used by callers) *)

Definition upper_bit : N := wshl 1 (lsb_bits - 1).
Definition hdr (w : N) : N := N.land w header_mask.          (* encoder.key_mask | encoder.payload_msb_mask *)
Definition lsb (w : N) : N := N.land w payload_lsb_mask.
Definition key (w : N) : N := N.shiftr w key_shift.          (* encoder.keys *)

(* ---- _inner_bigram_same_term (65-101) ---- *)
Definition same_term_adjusted (l r : N) : N :=
  let rhs_shift := wshl r 1 in
  let overlap := N.land l rhs_shift in
  let adjacents := popcount (lsb overlap) in
  let consecutive := popcount (lsb (N.land overlap (wshl overlap 1))) in
  adjacents - (consecutive + 1) / 2.                        (* adjacents -= ceil(consecutive / 2) *)
Definition same_term_rhs_cont (l r : N) : N :=
  N.lor (lsb (N.land (wshl r 1) r)) (N.land l (wnot payload_lsb_mask)).
(* lhs_lsbs = payload_lsb(lhs_int); lhs_cont = term_int_msbs | (lhs_lsbs & (lhs_lsbs >> 1))
   (after the fix of D2: the position bits are masked before shifting) *)
Definition same_term_lhs_cont (l : N) : N :=
  N.lor (N.land l (wnot payload_lsb_mask)) (N.land (lsb l) (N.shiftr (lsb l) 1)).

(* ---- _inner_bigram_freqs (104-155): returns ((doc ids, counts), continuation) ---- *)
Definition list_eqb (a b : list N) : bool :=
  andb (Nat.eqb (length a) (length b)) (forallb (fun p => fst p =? snd p) (combine a b)).

Definition inner_bigram (c : cont) (lhs_int rhs_int : list N) : api (list (N * N) * list N) :=
  if negb (Nat.eqb (length lhs_int) (length rhs_int)) then AExc ValueError
  else match lhs_int with
  | [] => AOk ([], [])
  | _ =>
    let doc_ids := map key lhs_int in
    if list_eqb lhs_int rhs_int then
      let adjusted := map2 same_term_adjusted lhs_int rhs_int in
      ado pf <- unpy (key_sum_over doc_ids adjusted);
      AOk (pf, match c with
               | CR => map2 same_term_rhs_cont lhs_int rhs_int
               | CL => map same_term_lhs_cont lhs_int
               end)
    else
      let overlap := map2 (fun l r => N.land (lsb l) (N.shiftr (lsb r) 1)) lhs_int rhs_int in
      ado pf <- unpy (popcount_reduce_at doc_ids overlap);
      AOk (pf, match c with
               | CR => map2 (fun o r => N.lor (N.land (wshl o 1) payload_lsb_mask) (hdr r)) overlap rhs_int
               | CL => map2 (fun o l => N.lor o (hdr l)) overlap lhs_int
               end)
  end.

(* ---- _adjacent_bigram_freqs (158-188) ---- *)
(* np.unique(x, return_counts=True) *)
Fixpoint run_counts (l : list N) : list (N * N) :=
  match l with
  | [] => []
  | x :: t => match run_counts t with
              | (y, n) :: rest => if x =? y then (x, n + 1) :: rest else (x, 1) :: (y, n) :: rest
              | [] => [(x, 1)]
              end
  end.
Definition adjacent_bigram (c : cont) (lhs_adj rhs_adj : list N) : list (N * N) * list N :=
  let pairs := filter (fun p => andb (negb (N.land (fst p) upper_bit =? 0)) (negb (N.land (snd p) 1 =? 0)))
                      (combine lhs_adj rhs_adj) in
  let counts := run_counts (np_sort (map (fun p => key (fst p)) pairs)) in
  (counts, match c with
           | CR => map (fun p => N.lor (header_of (snd p)) 1) pairs
           | CL => map (fun p => N.lor (header_of (fst p)) upper_bit) pairs
           end).

(* ---- _set_adjbit_at_header (191-210) ---- *)
Fixpoint remove_idx (i : N) (idx : list N) (l : list N) : list N :=
  match l with
  | [] => []
  | x :: t => if existsb (N.eqb i) idx then remove_idx (i + 1) idx t else x :: remove_idx (i + 1) idx t
  end.
Fixpoint or_at (i : N) (idx : list N) (bit : N) (l : list N) : list N :=
  match l with
  | [] => []
  | x :: t => (if existsb (N.eqb i) idx then N.lor x bit else x) :: or_at (i + 1) idx bit t
  end.
Definition set_adjbit_at_header (c : cont) (next_inner next_adj : list N) : api (list N) :=
  match next_inner, next_adj with
  | [], _ => AOk next_adj
  | _, [] => AOk next_inner
  | _, _ =>
      ado ix <- lift (intersect_drop next_inner next_adj header_mask);
      let '(same_inner, same_adj) := ix in
      let bit := match c with CR => 1 | CL => upper_bit end in
      let '(inner', adj') := match same_inner with
                             | [] => (next_inner, next_adj)
                             | _ => (or_at 0 same_inner bit next_inner, remove_idx 0 same_adj next_adj)
                             end in
      lift (merge inner' adj')
  end.

(* ---- bigram_freqs (213-307) ---- *)
Definition bigram_freqs (c : cont) (lhs rhs : list N) : api (list (N * N) * list N) :=
  ado ia <- lift (intersect_with_adjacents lhs rhs header_mask);
  let lhs_int := take_idx lhs (ia_lo ia) in
  let rhs_int := take_idx rhs (ia_ro ia) in
  let lhs_adj := take_idx lhs (ia_alo ia) in
  let rhs_adj := take_idx rhs (ia_aro ia) in
  ado inner <- inner_bigram c lhs_int rhs_int;
  let '(pf_inner, next_inner) := inner in
  let '(pf_adj, next_adj) := adjacent_bigram c lhs_adj rhs_adj in
  ado merged <- lift (sort_merge_counts (map fst pf_inner) (map snd pf_inner) (map fst pf_adj) (map snd pf_adj));
  ado next <- set_adjbit_at_header c next_inner next_adj;
  AOk (merged, next).

(* ---- _intersect_bigram_matches (73-93) ---- *)
Fixpoint is_sorted_le (l : list N) : bool :=
  match l with x :: ((y :: _) as t) => andb (x <=? y) (is_sorted_le t) | _ => true end.
Definition intersect_matches (acc : option (list (N * N))) (new : list (N * N)) : api (list (N * N)) :=
  match acc with
  | None => AOk new
  | Some old =>
      ado ix <- lift (intersect_drop (map fst old) (map fst new) wmask);
      let '(io, inw) := ix in
      AOk (map2 (fun a b => (fst (nth (N.to_nat a) old (0, 0)),
                             N.min (snd (nth (N.to_nat a) old (0, 0))) (snd (nth (N.to_nat b) new (0, 0)))))
                io inw)
  end.

(* ---- _compute_phrase_freqs_left_to_right (96-122) / right_to_left (125-151) ---- *)
Fixpoint l2r_loop (lhs : list N) (rest : list (list N)) (acc : option (list (N * N))) : api (list (N * N)) :=
  match rest with
  | [] => AOk (match acc with Some a => a | None => [] end)
  | rhs :: more =>
      ado bf <- bigram_freqs CR lhs rhs;
      ado acc' <- intersect_matches acc (fst bf);
      l2r_loop (snd bf) more (Some acc')
  end.
Definition phrase_l2r (enc : list (list N)) : api (list (N * N)) :=
  match enc with
  | lhs :: ((_ :: _) as rest) => l2r_loop lhs rest None
  | _ => AExc ValueError
  end.
Fixpoint r2l_loop (rhs : list N) (rest_rev : list (list N)) (acc : option (list (N * N))) : api (list (N * N)) :=
  match rest_rev with
  | [] => AOk (match acc with Some a => a | None => [] end)
  | lhs :: more =>
      ado bf <- bigram_freqs CL lhs rhs;
      ado acc' <- intersect_matches acc (fst bf);
      r2l_loop (snd bf) more (Some acc')
  end.
Definition phrase_r2l (enc : list (list N)) : api (list (N * N)) :=
  match rev enc with
  | rhs :: ((_ :: _) as rest) => r2l_loop rhs rest None
  | _ => AExc ValueError
  end.

(* ---- compute_phrase_freqs (154-168): strategy by the index of the (first) shortest posting list ---- *)
Fixpoint argmin_len (i best_i : nat) (best : nat) (l : list (list N)) : nat :=
  match l with
  | [] => best_i
  | x :: t => if Nat.ltb (length x) best then argmin_len (S i) i (length x) t else argmin_len (S i) best_i best t
  end.
Definition shortest_index (enc : list (list N)) : nat :=
  match enc with [] => O | x :: t => argmin_len 1 0 (length x) t end.

(* after the fix of D1: the chain starts from the end nearest the rarest term; no middle-out *)
Inductive strategy := L2R | R2L.
Definition choose_strategy (enc : list (list N)) : strategy :=
  if Nat.leb (shortest_index enc) ((length enc - 1) / 2) then L2R else R2L.

Definition compute_phrase_freqs (enc : list (list N)) : api (list (N * N)) :=
  match choose_strategy enc with
  | L2R => phrase_l2r enc
  | R2L => phrase_r2l enc
  end.

(* ---- PosnBitArray.phrase_freqs (418-446), slop = 0, no filters; SearchArray._phrase_freq (689-708) ---- *)
Fixpoint get_all_posts (ix : sindex) (ts : list N) : api (list (list N)) :=
  match ts with
  | [] => AOk []
  | t :: rest => ado w <- get_posts ix t; ado ws <- get_all_posts ix rest; AOk (w :: ws)
  end.
Definition phrase_freqs (ix : sindex) (ts : list N) : api (list N) :=
  if negb (forallb (known ix) ts) then AOk (repeat 0 (length (ix_lens ix)))     (* TermMissingError -> zeros *)
  else if Nat.ltb (length ts) 2 then AExc ValueError
  else
    ado enc <- get_all_posts ix ts;
    ado pf <- compute_phrase_freqs enc;
    (* phrase_freqs[ids] = counts on a zero buffer of max_doc_id + 1 entries *)
    lift (store_many (repeat 0 (length (ix_lens ix))) pf).
