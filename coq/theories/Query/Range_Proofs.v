(* C16: position-range restricted term frequency (and phrase frequency) counts exactly the occurrences
   inside an aligned range.
   - filtering the WORDS of  encode_spec ps  by a predicate on the bucket field is  encode_spec  of the
     pairs filtered by the same predicate on  position / 18   (filter_encode_spec_b, analogue of
     Codec_Proofs2.filter_encode_spec for the key field);
   - N.land w payload_msb_mask = bucket * 2^18, so  payload_slice  with the shifted bounds is such a filter;
   - for aligned bounds and positions below 2^18,  lo <= p <= hi  is a condition on  p / 18;
   - counts_correct / as_dense_correct on the filtered pair list, as in Index_Proofs2.termfreqs_ok. *)
From Coq Require Import Sorted.
From SA Require Import Base.Prelude Kernels.Spec Kernels.Linear Kernels.Linear_Proofs
  Codec.Codec Codec.Codec_Spec Codec.Codec_Proofs Codec.Codec_Proofs2
  Index.Index Index.Index_Spec Index.Index_Proofs Index.Index_Proofs2 Index.Index_Proofs3
  Query.Phrase Query.Phrase_Spec Query.Range Query.Range_Spec.
Open Scope N_scope.

(* ================= 1. filtering an encoding by its bucket field ================= *)
Section BucketSlice.
Variable Q : N -> bool.

Definition fb (kp : N * N) : bool := Q (snd kp / 18).
Definition fwb (w : N) : bool := Q (dec_msb w).

(* header (k, b) strictly below the header of kp *)
Definition hlt (k b : N) (kp : N * N) : Prop := k < fst kp \/ (k = fst kp /\ b < snd kp / 18).

Lemma encode_aux_fresh_b l k b s : Forall (hlt k b) l ->
  encode_aux (Some (k, b, s)) l = word_of k b s :: encode_aux None l.
Proof.
  intros H. destruct l as [|[k' p'] l']; [reflexivity|].
  inversion H as [|x y Hk _]; subst. unfold hlt in Hk. cbn [fst snd] in Hk. cbn [encode_aux].
  replace ((k' =? k) && (p' / 18 =? b)) with false; [reflexivity|].
  symmetry. apply andb_false_iff. destruct Hk as [Hk|[Hk Hb]]; [left|right]; apply N.eqb_neq; lia.
Qed.

Lemma sorted2_lb2 : forall t a, sorted2 (a :: t) ->
  Forall (fun kp => fst a < fst kp \/ (fst a = fst kp /\ snd a <= snd kp)) t.
Proof.
  induction t as [|b t IH]; intros a [Hhd Hs]; [constructor|].
  constructor.
  - unfold lt2 in Hhd. lia.
  - eapply Forall_impl; [|apply IH; exact Hs]. cbn beta. intros c Hc. unfold lt2 in Hhd. lia.
Qed.

Lemma filter_aux_b : forall rest k b s, sorted2 rest -> bounded rest -> cur_ok k b s rest ->
  sorted2 rest ->
  filter fwb (encode_aux (Some (k, b, s)) rest)
  = if Q b then encode_aux (Some (k, b, s)) (filter fb rest) else encode_aux None (filter fb rest).
Proof.
  apply (enc_ind (fun k b s rest => sorted2 rest ->
    filter fwb (encode_aux (Some (k, b, s)) rest)
    = if Q b then encode_aux (Some (k, b, s)) (filter fb rest) else encode_aux None (filter fb rest))).
  - intros k b s (_ & Hb & Hs & _) _. cbn [encode_aux filter]. unfold fwb at 1.
    rewrite dec_msb_word by assumption. destruct (Q b); reflexivity.
  - intros k b s p rest _ Eb _ _ _ IH [_ Hs']. rewrite encode_aux_same by assumption.
    rewrite IH by assumption. cbn [filter]. change (fb (k, p)) with (Q (p / 18)). rewrite Eb.
    destruct (Q b); [|reflexivity]. rewrite encode_aux_same by assumption. reflexivity.
  - intros k b s k' p' rest (_ & Hb & Hs & _) E Hlt _ _ _ IH Hsrt.
    pose proof Hsrt as [_ Hs']. rewrite encode_aux_diff by assumption.
    cbn [filter]. unfold fwb at 1. rewrite dec_msb_word by assumption.
    rewrite IH by assumption. change (fb (k', p')) with (Q (p' / 18)).
    destruct (Q b) eqn:Qb, (Q (p' / 18)) eqn:Qb'.
    + rewrite encode_aux_diff by assumption. reflexivity.
    + rewrite encode_aux_fresh_b; [reflexivity|].
      apply Forall_filter. eapply Forall_impl; [|apply (sorted2_lb2 _ _ Hsrt)].
      cbn [fst snd]. intros c Hc. unfold hlt. lia.
    + reflexivity.
    + reflexivity.
Qed.

Lemma filter_encode_spec_b ps : sorted2 ps -> bounded ps ->
  filter fwb (encode_spec ps) = encode_spec (filter fb ps).
Proof.
  intros Hs Hb. destruct ps as [|[k p] rest]; [reflexivity|].
  unfold encode_spec. cbn [encode_aux filter]. change (fb (k, p)) with (Q (p / 18)).
  pose proof (cur_ok_init k p rest Hs Hb) as Hok.
  inversion Hb as [|x l _ Hb' Ex]; subst. destruct Hs as [Hhd Hs'].
  rewrite filter_aux_b by assumption. destruct (Q (p / 18)); reflexivity.
Qed.
End BucketSlice.

(* ================= 2. payload_slice with the shifted bounds is a bucket filter ================= *)
Lemma land_pmm w : N.land w payload_msb_mask = dec_msb w * 2 ^ 18 /\ dec_msb w < 2 ^ 18.
Proof.
  unfold dec_msb. rewrite pmm_val, msb_bits_val.
  assert (E : N.land w 68719214592 = N.shiftl (N.land (N.shiftr w 18) (N.ones 18)) 18).
  { change 68719214592 with (N.shiftl (N.ones 18) 18).
    apply N.bits_inj; intro i. rewrite N.land_spec.
    destruct (N.ltb_spec i 18) as [Hi|Hi].
    - rewrite !N.shiftl_spec_low by assumption. apply andb_false_r.
    - rewrite !N.shiftl_spec_high' by assumption. rewrite N.land_spec, N.shiftr_spec'.
      replace (i - 18 + 18) with i by lia. reflexivity. }
  rewrite E. rewrite N.shiftr_shiftl_l by lia. change (18 - 18) with 0. rewrite N.shiftl_0_r.
  split; [apply N.shiftl_mul_pow2|]. rewrite N.land_ones. apply N.mod_lt. discriminate.
Qed.

Definition bq (a c : N) (b : N) : bool := (a <=? b) && (b <=? c).

Lemma payload_slice_bucket ws a c :
  payload_slice ws payload_msb_mask (N.shiftl a 18) (N.min (N.shiftl c 18) wmask) = filter (fwb (bq a c)) ws.
Proof.
  unfold payload_slice. apply filter_ext. intro w. unfold fwb, bq.
  destruct (land_pmm w) as [E Hb]. rewrite E. rewrite !N.shiftl_mul_pow2. unfold wmask. pows.
  f_equal.
  - destruct (N.leb_spec (a * 262144) (dec_msb w * 262144)), (N.leb_spec a (dec_msb w)); try reflexivity; lia.
  - destruct (N.leb_spec (dec_msb w * 262144) (N.min (c * 262144) 18446744073709551615)),
             (N.leb_spec (dec_msb w) c); try reflexivity; lia.
Qed.

Definition lo0 (lo : option N) : N := match lo with Some m => m | None => 0 end.
Definition hi0 (hi : option N) : N := match hi with Some m => m | None => wmask end.

Lemma slice_range_w_aligned ws lo hi : (lo, hi) <> (None, None) -> aligned lo hi = true ->
  slice_range_w ws lo hi = RangeOk (filter (fwb (bq (lo0 lo / 18) (hi0 hi / 18))) ws).
Proof.
  intros Hne Ha. rewrite <- payload_slice_bucket. unfold aligned in Ha. apply andb_true_iff in Ha as [A1 A2].
  unfold slice_range_w. rewrite lsb_bits_val, msb_bits_val. change (18 - 1) with 17.
  destruct lo as [l|], hi as [h|]; try congruence; cbn [lo0 hi0]; rewrite ?A1, ?A2; reflexivity.
Qed.

Lemma slice_range_w_unaligned ws lo hi : aligned lo hi = false -> slice_range_w ws lo hi = RangeValueError.
Proof.
  intros Ha. unfold aligned in Ha. unfold slice_range_w. rewrite lsb_bits_val. change (18 - 1) with 17.
  destruct lo as [l|], hi as [h|]; cbn [andb] in Ha; try discriminate.
  - destruct (l mod 18 =? 0); cbn [negb andb] in *; [|reflexivity]. rewrite Ha. reflexivity.
  - rewrite andb_true_r in Ha. rewrite Ha. reflexivity.
  - rewrite Ha. reflexivity.
Qed.

(* for aligned bounds and a position below 2^18 the range test is a test on the bucket *)
Lemma in_range_bucket lo hi p : aligned lo hi = true -> p < 2 ^ 18 ->
  bq (lo0 lo / 18) (hi0 hi / 18) (p / 18) = in_range lo hi p.
Proof.
  intros Ha Hp. unfold aligned in Ha. apply andb_true_iff in Ha as [A1 A2]. unfold bq, in_range. pows. f_equal.
  - destruct lo as [l|]; cbn [lo0].
    + apply N.eqb_eq in A1. destruct (N.leb_spec (l / 18) (p / 18)), (N.leb_spec l p); try reflexivity; lia.
    + apply N.leb_le. lia.
  - destruct hi as [h|]; cbn [hi0].
    + apply N.eqb_eq in A2. destruct (N.leb_spec (p / 18) (h / 18)), (N.leb_spec p h); try reflexivity; lia.
    + apply N.leb_le. unfold wmask. lia.
Qed.

(* ================= 3. per-document grouping for an arbitrary per-document position list ================= *)
Section GenF.
Variable f : list N -> list N.
Fixpoint tpF (i : N) (docs : list (list N)) : list (N * N) :=
  match docs with [] => [] | d :: r => map (fun p => (i, p)) (f d) ++ tpF (i + 1) r end.
Fixpoint gkF (i : N) (docs : list (list N)) : list (N * list N) :=
  match docs with
  | [] => []
  | d :: r => match f d with [] => gkF (i + 1) r | l => (i, l) :: gkF (i + 1) r end
  end.

Lemma gkF_keys : forall docs i,
  Forall (fun g : N * list N => i <= fst g /\ fst g < i + N.of_nat (length docs)) (gkF i docs).
Proof.
  induction docs as [|d r IH]; intros i; [constructor|]. cbn [gkF length].
  assert (F : Forall (fun g : N * list N => i <= fst g /\ fst g < i + N.of_nat (S (length r))) (gkF (i + 1) r)).
  { eapply Forall_impl; [|apply IH]. cbn beta. intros g Hg. lia. }
  destruct (f d); [exact F|]. constructor; [cbn [fst]; lia|exact F].
Qed.

Lemma gbk_tpF : forall docs i, group_by_key (tpF i docs) = gkF i docs.
Proof.
  induction docs as [|d r IH]; intros i; [reflexivity|]. cbn [tpF gkF].
  destruct (f d) as [|p l] eqn:E; [apply IH|].
  rewrite gbk_run; [now rewrite IH|discriminate|]. rewrite IH.
  pose proof (gkF_keys r (i + 1)) as F. destruct (gkF (i + 1) r) as [|[k' l'] rest]; [exact I|].
  inversion F as [|? ? Hk _]; subst. cbn [fst] in Hk. lia.
Qed.

Lemma gkF_keys_above r k : Forall (fun g : N * N => fst g <> N.of_nat k) (map kc_of_g (gkF (N.of_nat (S k)) r)).
Proof.
  rewrite Forall_map. eapply Forall_impl; [|apply gkF_keys]. cbn beta. intros g Hg. unfold kc_of_g. cbn [fst]. lia.
Qed.

Lemma dense_gkF : forall docs k,
  map (dval (map kc_of_g (gkF (N.of_nat k) docs))) (map N.of_nat (seq k (length docs)))
  = map (fun d => N.of_nat (length (f d))) docs.
Proof.
  induction docs as [|d r IH]; intros k; [reflexivity|]. cbn [gkF length seq map].
  replace (N.of_nat k + 1) with (N.of_nat (S k)) by lia.
  destruct (f d) as [|p l] eqn:E.
  - f_equal; [|apply IH]. cbn [length]. apply dval_absent, gkF_keys_above.
  - cbn [map]. f_equal.
    + unfold kc_of_g at 1. cbn [fst snd]. apply dval_cons_same, gkF_keys_above.
    + rewrite <- (IH (S k)). apply map_ext_in. intros i Hi. unfold kc_of_g at 1. cbn [fst snd]. apply dval_cons_other.
      apply in_map_iff in Hi. destruct Hi as (j & <- & Hj). apply in_seq in Hj. lia.
Qed.
End GenF.

Lemma filter_tp (P : N -> bool) t : forall docs i,
  filter (fun kp => P (snd kp)) (tp_from i docs t) = tpF (fun d => filter P (offsets_from 0 t d)) i docs.
Proof.
  induction docs as [|d r IH]; intros i; [reflexivity|]. cbn [tp_from tpF]. rewrite filter_app, IH. f_equal.
  generalize (offsets_from 0 t d). intro l. induction l as [|p l IHl]; [reflexivity|].
  cbn [map filter snd]. destruct (P p); cbn [map]; now rewrite IHl.
Qed.

Lemma sorted2_SSlt l : sorted2 l -> StronglySorted lt2 l.
Proof.
  intro H. apply Sorted_StronglySorted.
  - intros x y z. unfold lt2. lia.
  - induction l as [|a l IH]; [constructor|]. destruct H as [Hhd Hs]. constructor; [apply IH; exact Hs|].
    destruct l; constructor. exact Hhd.
Qed.
Lemma SSlt_sorted2 l : StronglySorted lt2 l -> sorted2 l.
Proof.
  induction 1 as [|a l S IH F]; [exact I|]. cbn [sorted2]. split; [|exact IH].
  destruct l; [exact I|]. inversion F; assumption.
Qed.
Lemma sorted2_filter (g : N * N -> bool) l : sorted2 l -> sorted2 (filter g l).
Proof. intro H. apply SSlt_sorted2, SS_filter, sorted2_SSlt, H. Qed.
Lemma bounded_filter (g : N * N -> bool) l : bounded l -> bounded (filter g l).
Proof. apply Forall_filter. Qed.

(* the postings of one term, sliced to an aligned range *)
Lemma sliced_postings docs t lo hi : wf_docs docs -> aligned lo hi = true ->
  filter (fwb (bq (lo0 lo / 18) (hi0 hi / 18))) (encode_spec (tp_from 0 docs t))
  = encode_spec (filter (fun kp => in_range lo hi (snd kp)) (tp_from 0 docs t)).
Proof.
  intros Hwf Ha. destruct (tp_wf docs Hwf t) as [Hs Hb].
  rewrite filter_encode_spec_b by assumption. f_equal. apply filter_ext_in.
  intros kp Hin. unfold fb. apply in_range_bucket; [exact Ha|].
  unfold bounded in Hb. rewrite Forall_forall in Hb. apply Hb. exact Hin.
Qed.

(* ================= 4. termfreqs with a position range ================= *)
Lemma termfreqs_range_body ix t lo hi : (lo, hi) <> (None, None) ->
  termfreqs_range ix t lo hi =
  if negb (known ix t) then AOk (repeat 0 (length (ix_lens ix)))
  else
    ado w <- get_posts ix t;
    ado s <- api_of_range (slice_range_w w lo hi);
    ado kc <- lift (num_values_per_key s);
    unpy (as_dense (map fst kc) (map snd kc) (n_docs ix)).
Proof. intros _. destruct lo, hi; reflexivity. Qed.

Lemma tf_range_absent t lo hi : forall docs, ~ In t (concat docs) ->
  tf_range_spec docs t lo hi = repeat 0 (length docs).
Proof.
  unfold tf_range_spec. induction docs as [|d r IH]; intros Hn; [reflexivity|]. cbn [concat] in Hn.
  rewrite in_app_iff in Hn. cbn [map length repeat]. rewrite IH by tauto. f_equal.
  replace (offsets_from 0 t d) with (@nil N); [reflexivity|]. symmetry. apply offsets_nil_iff. tauto.
Qed.

Theorem termfreqs_range_ok docs ix t lo hi : wf_docs docs -> index_ok docs ix ->
  aligned lo hi = true -> (lo, hi) <> (None, None) ->
  termfreqs_range ix t lo hi = AOk (tf_range_spec docs t lo hi).
Proof.
  intros Hwf Hok Ha Hne. rewrite termfreqs_range_body by exact Hne.
  pose proof Hok as (Hposts & _ & Hterms & Hlens).
  destruct (in_dec N.eq_dec t (concat docs)) as [Hi|Hn].
  - rewrite (known_true docs ix t Hterms Hi). cbn [negb]. unfold get_posts. rewrite (Hposts t Hi). cbn [abind].
    rewrite slice_range_w_aligned by assumption. cbn [api_of_range abind].
    rewrite term_pairs_tp, sliced_postings by assumption.
    destruct (tp_wf docs Hwf t) as [Hs Hb].
    rewrite counts_correct by (try apply sorted2_filter; try apply bounded_filter; assumption).
    cbn [lift abind]. unfold n_docs. rewrite (lens_length docs ix Hok).
    rewrite (filter_tp (in_range lo hi) t docs 0).
    set (f := fun d => filter (in_range lo hi) (offsets_from 0 t d)).
    assert (Ecs : counts_spec (tpF f 0 docs) = map kc_of_g (gkF f 0 docs)).
    { unfold counts_spec. rewrite gbk_tpF. reflexivity. }
    rewrite Ecs. rewrite as_dense_correct.
    + cbn [unpy lift]. f_equal. unfold as_dense_spec. rewrite combine_fst_snd, Nat2N.id.
      exact (dense_gkF f docs 0).
    + now rewrite !map_length.
    + rewrite map_map, Forall_map. eapply Forall_impl; [|apply gkF_keys]. cbn beta. intros g Hg.
      unfold kc_of_g. cbn [fst]. lia.
  - rewrite (known_false docs ix t Hterms Hn). cbn [negb]. rewrite (lens_length docs ix Hok). f_equal. symmetry.
    apply tf_range_absent. exact Hn.
Qed.

Theorem C16_term_range : forall docs bs t lo hi, wf_docs docs -> aligned lo hi = true -> (lo, hi) <> (None, None) ->
  exists ix, index false bs docs = AOk ix /\ termfreqs_range ix t lo hi = AOk (tf_range_spec docs t lo hi).
Proof.
  intros docs bs t lo hi Hwf Ha Hne. destruct (index_any_ok docs bs Hwf) as (ix & E & Hok).
  exists ix. split; [exact E|]. apply termfreqs_range_ok; assumption.
Qed.

Theorem C16_unaligned_rejected : forall docs bs ix t lo hi, wf_docs docs -> index false bs docs = AOk ix ->
  In t (concat docs) -> aligned lo hi = false -> termfreqs_range ix t lo hi = AExc ValueError.
Proof.
  intros docs bs ix t lo hi Hwf E Hi Ha.
  destruct (index_any_ok docs bs Hwf) as (ix' & E' & Hok). rewrite E in E'. inversion E'; subst ix'.
  destruct Hok as (Hposts & _ & Hterms & _).
  assert (Hne : (lo, hi) <> (None, None)) by (intro H; inversion H; subst; discriminate).
  rewrite termfreqs_range_body by exact Hne.
  rewrite (known_true docs ix t Hterms Hi). cbn [negb]. unfold get_posts. rewrite (Hposts t Hi). cbn [abind].
  rewrite slice_range_w_unaligned by exact Ha. reflexivity.
Qed.

(* an unaligned range on a term that is in no document is NOT rejected (the dictionary miss returns first) *)
Theorem C16_unaligned_unknown_term : forall docs bs ix t lo hi, wf_docs docs -> index false bs docs = AOk ix ->
  ~ In t (concat docs) -> (lo, hi) <> (None, None) -> termfreqs_range ix t lo hi = AOk (repeat 0 (length docs)).
Proof.
  intros docs bs ix t lo hi Hwf E Hn Hne.
  destruct (index_any_ok docs bs Hwf) as (ix' & E' & Hok). rewrite E in E'. inversion E'; subst ix'.
  rewrite termfreqs_range_body by exact Hne. pose proof Hok as (_ & _ & Hterms & _).
  rewrite (known_false docs ix t Hterms Hn). cbn [negb]. now rewrite (lens_length docs ix Hok).
Qed.

Corollary C16_empty_range_is_zeros : forall docs bs t lo hi, wf_docs docs -> aligned lo hi = true ->
  (lo, hi) <> (None, None) ->
  (forall d p, In d docs -> In p (offsets_from 0 t d) -> in_range lo hi p = false) ->
  exists ix, index false bs docs = AOk ix /\ termfreqs_range ix t lo hi = AOk (repeat 0 (length docs)).
Proof.
  intros docs bs t lo hi Hwf Ha Hne Hout. destruct (C16_term_range docs bs t lo hi Hwf Ha Hne) as (ix & E & T).
  exists ix. split; [exact E|]. rewrite T. f_equal. unfold tf_range_spec. clear - Hout.
  induction docs as [|d r IH]; [reflexivity|]. cbn [map length repeat]. f_equal.
  - rewrite filter_false; [reflexivity|]. apply Forall_forall. intros p Hp. apply (Hout d p); [now left|exact Hp].
  - apply IH. intros d' p Hd Hp. apply (Hout d' p); [now right|exact Hp].
Qed.

(* the statements on concrete inputs *)
Example C16_ex :
  let d := [0;1;1;1;1;1;1;1;1;1;1;1;1;1;1;1;1;1; 0;0;1;1;1;1;1;1;1;1;1;1;1;1;1;1;1;1; 0;1] in
  tf_range_spec [d; [0]] 0 (Some 18) (Some 35) = [2; 0] /\ tf_range_spec [d; [0]] 0 None (Some 17) = [1; 1] /\
  tf_range_spec [d; [0]] 0 (Some 36) None = [1; 0] /\ aligned (Some 18) (Some 35) = true /\ aligned (Some 19) None = false.
Proof. vm_compute. repeat split. Qed.

(* ================= 5. phrase frequency with a position range ================= *)
From SA Require Import Query.Phrase_Proofs Query.Phrase_Proofs2 Query.Phrase_Proofs3 Query.Phrase_Final.

(* 5.1 the chain on postings restricted by a convex predicate R on positions counts the occurrences whose
   first and last positions satisfy R *)
Fixpoint occG (G : N -> bool) (i : N) (ph d : list N) : N :=
  match d with
  | [] => 0
  | _ :: t => (if prefix_eqb ph d && G i then 1 else 0) + occG G (i + 1) ph t
  end.

Lemma prefix_step t ph' doc p :
  mem_n p (offsets t doc) && prefix_eqb ph' (skipn (S (N.to_nat p)) doc) =
  prefix_eqb (t :: ph') (skipn (N.to_nat p) doc).
Proof.
  destruct (nth_error doc (N.to_nat p)) as [x|] eqn:E.
  - rewrite (skipn_cons_nth doc _ x E). cbn [prefix_eqb]. f_equal.
    apply bool_eq_iff. rewrite mem_n_In. unfold offsets. rewrite In_offsets_from, N.sub_0_r, E, N.eqb_eq.
    split; [intros [_ H]; congruence|intros ->; split; [lia|reflexivity]].
  - rewrite (skipn_none doc _ E). cbn [prefix_eqb].
    replace (mem_n p (offsets t doc)) with false; [reflexivity|].
    symmetry. apply not_true_is_false. rewrite mem_n_In. unfold offsets. rewrite In_offsets_from, N.sub_0_r, E.
    intros [_ H]. discriminate.
Qed.

Lemma occ_offsets_G G t ph' : forall doc i,
  N.of_nat (length (filter (fun p => prefix_eqb (t :: ph') (skipn (N.to_nat (p - i)) doc) && G p)
                           (Phrase_Proofs3.offsets_from i t doc))) =
  occG G i (t :: ph') doc.
Proof.
  induction doc as [|x r IH]; intro i; [reflexivity|].
  cbn [Phrase_Proofs3.offsets_from occG]. rewrite filter_app, app_length, Nat2N.inj_add. f_equal.
  - cbn [prefix_eqb]. rewrite (N.eqb_sym t x). destruct (N.eqb_spec x t) as [->|Hne]; [|reflexivity].
    cbn [filter]. replace (i - i) with 0 by lia. cbn [N.to_nat skipn prefix_eqb].
    rewrite N.eqb_refl. cbn [andb]. destruct (prefix_eqb ph' r && G i); reflexivity.
  - rewrite <- (IH (i + 1)). f_equal. f_equal. apply filter_ext_in. intros p Hp.
    apply In_offsets_from in Hp. destruct Hp as [Hp _].
    replace (N.to_nat (p - i)) with (S (N.to_nat (p - (i + 1)))) by lia. reflexivity.
Qed.

Section PhraseR.
Variable R : N -> bool.
Hypothesis Rconvex : forall a b c, a <= b -> b <= c -> R a = true -> R c = true -> R b = true.

Fixpoint allR (p : N) (n : nat) : bool := match n with O => true | S m => R p && allR (p + 1) m end.

Lemma allR_ends : forall n p, allR p (S n) = R p && R (p + N.of_nat (S n) - 1).
Proof.
  induction n as [|n IH]; intro p.
  - cbn [allR]. replace (p + N.of_nat 1 - 1) with p by lia. destruct (R p); reflexivity.
  - change (allR p (S (S n))) with (R p && allR (p + 1) (S n)). rewrite IH.
    replace (p + 1 + N.of_nat (S n) - 1) with (p + N.of_nat (S (S n)) - 1) by lia.
    destruct (R p) eqn:E1; [|reflexivity]. cbn [andb].
    destruct (R (p + N.of_nat (S (S n)) - 1)) eqn:E2; [|apply andb_false_r].
    rewrite (Rconvex p (p + 1) (p + N.of_nat (S (S n)) - 1)); [reflexivity|lia|lia|exact E1|exact E2].
Qed.

Lemma match_at_prefix_R d doc : forall ph Ps,
  Forall2 (fun t P => dposns P d = filter R (offsets t doc)) ph Ps ->
  forall p, match_at Ps d p = prefix_eqb ph (skipn (N.to_nat p) doc) && allR p (length ph).
Proof.
  induction 1 as [|t P ph' more Ht _ IH]; intro p; [reflexivity|].
  cbn [match_at length allR]. rewrite IH, Ht, mem_n_filter.
  replace (N.to_nat (p + 1)) with (S (N.to_nat p)) by lia. rewrite <- prefix_step.
  destruct (mem_n p (offsets t doc)), (R p), (prefix_eqb ph' (skipn (S (N.to_nat p)) doc)),
           (allR (p + 1) (length ph')); reflexivity.
Qed.

Theorem phrase_matches_occ_R : forall ph Ps d doc, ph <> [] ->
  Forall2 (fun t P => dposns P d = filter R (offsets t doc)) ph Ps ->
  N.of_nat (length (phrase_matches Ps d)) = occG (fun p => R p && R (p + N.of_nat (length ph) - 1)) 0 ph doc.
Proof.
  intros ph Ps d doc Hne HF. pose proof (match_at_prefix_R d doc ph Ps HF) as Hm.
  destruct HF as [|t P ph' more Ht HF']; [congruence|].
  cbn [phrase_matches]. rewrite Ht, filter_filter. unfold offsets.
  rewrite <- (occ_offsets_G _ t ph' doc 0).
  f_equal. f_equal. apply filter_ext. intro p. rewrite Hm, N.sub_0_r. cbn [length]. rewrite allR_ends.
  destruct (R p), (prefix_eqb (t :: ph') (skipn (N.to_nat p) doc)), (R (p + N.of_nat (S (length ph')) - 1)); reflexivity.
Qed.
End PhraseR.

Lemma in_range_convex lo hi a b c : a <= b -> b <= c ->
  in_range lo hi a = true -> in_range lo hi c = true -> in_range lo hi b = true.
Proof.
  unfold in_range. intros H1 H2 Ha Hc. apply andb_true_iff in Ha as [A1 A2]. apply andb_true_iff in Hc as [C1 C2].
  apply andb_true_iff. split.
  - destruct lo as [l|]; [|reflexivity]. apply N.leb_le in A1. apply N.leb_le. lia.
  - destruct hi as [h|]; [|reflexivity]. apply N.leb_le in C2. apply N.leb_le. lia.
Qed.

Lemma occG_range lo hi ph : forall d i,
  occG (fun p => in_range lo hi p && in_range lo hi (p + N.of_nat (length ph) - 1)) i ph d = occ_range_from i ph d lo hi.
Proof. induction d as [|x d IH]; intro i; [reflexivity|]. cbn [occG occ_range_from]. now rewrite IH. Qed.

(* 5.2 the range-restricted postings of a corpus meet the chain's hypotheses *)
Definition rpairs (docs : list (list N)) (lo hi : option N) (t : N) : list (N * N) :=
  filter (fun kp => in_range lo hi (snd kp)) (term_pairs docs t).

Lemma good_term_filter (g : N * N -> bool) ps : good_term ps -> good_term (filter g ps).
Proof.
  intros (S & B & M & L). split; [apply sorted2_filter; exact S|]. split; [apply bounded_filter; exact B|].
  split; [apply Forall_filter; exact M|]. pose proof (filter_len_le g ps). rewrite pow62 in *. lia.
Qed.

Lemma adj_distinct_rpairs docs lo hi : forall ph, no_adjacent_repeat ph = true ->
  adj_distinct (map (rpairs docs lo hi) ph).
Proof.
  induction ph as [|x t IH]; intro H; [exact I|]. destruct t as [|y t']; [exact I|].
  cbn [no_adjacent_repeat] in H. apply andb_true_iff in H. destruct H as [Hxy H].
  specialize (IH H). cbn [map] in *. cbn [adj_distinct]. split; [|exact IH].
  intros kp H1 H2. unfold rpairs in H1, H2. apply filter_In in H1. apply filter_In in H2.
  destruct H1 as [H1 _]. destruct H2 as [H2 _]. rewrite term_pairs_tp in H1, H2.
  pose proof (tp_distinct _ _ _ _ _ H1 H2) as E. subst y.
  rewrite N.eqb_refl in Hxy. discriminate.
Qed.

Lemma msf_filter (R : N -> bool) d : forall ps : list (N * N),
  map snd (filter (fun kp => fst kp =? d) (filter (fun kp => R (snd kp)) ps)) =
  filter R (map snd (filter (fun kp => fst kp =? d) ps)).
Proof.
  induction ps as [|[k p] ps IH]; [reflexivity|]. cbn [filter fst snd].
  destruct (R p) eqn:E1, (k =? d) eqn:E2; cbn [filter map fst snd]; rewrite ?E1, ?E2; cbn [map]; now rewrite IH.
Qed.

Lemma forall2_offsets_R docs lo hi k : forall ph,
  Forall2 (fun t ps => map snd (filter (fun kp => fst kp =? N.of_nat k) ps) =
                       filter (in_range lo hi) (offsets t (nth k docs [])))
          ph (map (rpairs docs lo hi) ph).
Proof.
  induction ph as [|t r IH]; cbn [map]; constructor; [|exact IH].
  unfold rpairs. rewrite msf_filter. f_equal.
  pose proof (forall2_offsets docs k [t]) as F. cbn [map] in F. inversion F; subst. assumption.
Qed.

Lemma slice_all_ok docs ix lo hi : wf_docs docs -> index_ok docs ix -> aligned lo hi = true ->
  (lo, hi) <> (None, None) -> forall ph, (forall t, In t ph -> In t (concat docs)) ->
  slice_all ix ph lo hi = AOk (map encode_spec (map (rpairs docs lo hi) ph)).
Proof.
  intros Hwf Hok Ha Hne. pose proof Hok as (Hp & _). induction ph as [|t r IH]; intro H; [reflexivity|].
  cbn [slice_all map]. unfold get_posts at 1. rewrite Hp by (apply H; now left). cbn [abind].
  rewrite slice_range_w_aligned by assumption. cbn [api_of_range abind].
  rewrite IH by (intros; apply H; now right). cbn [abind]. unfold rpairs.
  rewrite term_pairs_tp, sliced_postings by assumption. reflexivity.
Qed.

Lemma occ_range_absent t ph lo hi : In t ph -> forall d i, ~ In t d -> occ_range_from i ph d lo hi = 0.
Proof.
  intro Ht. induction d as [|x d IH]; intros i Hn; [reflexivity|]. cbn [occ_range_from].
  rewrite IH by (intro; apply Hn; now right).
  destruct (prefix_eqb ph (x :: d)) eqn:E; [|reflexivity]. exfalso. apply Hn. apply (prefix_incl _ _ E). exact Ht.
Qed.

Lemma phrase_range_absent t ph lo hi : In t ph -> forall docs : list (list N), ~ In t (concat docs) ->
  phrase_range_spec docs ph lo hi = repeat 0 (length docs).
Proof.
  intro Ht. unfold phrase_range_spec. induction docs as [|d r IH]; intro H; [reflexivity|].
  cbn [concat] in H. rewrite in_app_iff in H.
  cbn [map length repeat]. f_equal; [apply (occ_range_absent t); tauto|apply IH; tauto].
Qed.

Lemma phrase_freqs_range_body ix ts lo hi : (lo, hi) <> (None, None) ->
  phrase_freqs_range ix ts lo hi =
  if negb (forallb (known ix) ts) then AOk (repeat 0 (length (ix_lens ix)))
  else if Nat.ltb (length ts) 2 then AExc ValueError
  else
    ado enc <- slice_all ix ts lo hi;
    ado pf <- compute_phrase_freqs enc;
    lift (store_many (repeat 0 (length (ix_lens ix))) pf).
Proof. intro H. destruct lo, hi; try reflexivity. congruence. Qed.

(* 5.3 C16 for phrases *)
Theorem phrase_freqs_range_ok docs ix ph lo hi : wf_docs docs -> index_ok docs ix ->
  aligned lo hi = true -> (lo, hi) <> (None, None) ->
  (2 <= length ph)%nat -> no_adjacent_repeat ph = true ->
  phrase_freqs_range ix ph lo hi = AOk (phrase_range_spec docs ph lo hi).
Proof.
  intros Hwf Hok Ha Hne Hlen Hrep. rewrite phrase_freqs_range_body by exact Hne.
  pose proof Hok as (Hp & Hab & Ht & Hl).
  assert (HL : length (ix_lens ix) = length docs) by (rewrite Hl; apply map_length).
  destruct (forallb (known ix) ph) eqn:K; cbn [negb].
  - assert (Hall : forall t, In t ph -> In t (concat docs)).
    { intros t Hin. rewrite forallb_forall in K. apply (known_iff docs ix t Ht). apply K. exact Hin. }
    rewrite HL. destruct (Nat.ltb_spec (length ph) 2) as [Hlt|_]; [lia|].
    rewrite (slice_all_ok docs ix lo hi Hwf Hok Ha Hne ph Hall). cbn [abind].
    set (pss := map (rpairs docs lo hi) ph).
    assert (Hg : Forall good_term pss).
    { apply Forall_map. apply Forall_forall. intros t _. apply good_term_filter, term_pairs_good. exact Hwf. }
    assert (Hlen' : (2 <= length pss)%nat) by (unfold pss; rewrite map_length; exact Hlen).
    pose proof (adj_distinct_rpairs docs lo hi ph Hrep) as Hadj. fold pss in Hadj.
    assert (Hcan : Forall canonical (map encode_spec pss)).
    { apply Forall_map. eapply Forall_impl; [|exact Hg]. intros ps (S1 & B1 & M1 & L1).
      apply encode_spec_canonical; assumption. }
    assert (Hdis : adj_disj (map encode_spec pss)) by (apply adj_distinct_disj; assumption).
    assert (Hlen'' : (2 <= length (map encode_spec pss))%nat) by (rewrite map_length; exact Hlen').
    destruct (compute_phrase_freqs_correct (map encode_spec pss) Hlen'' Hcan Hdis) as (res & E & Hs & Hocc).
    rewrite E. cbn [abind].
    assert (Hkeys : Forall (fun iv => fst iv < N.of_nat (length docs)) res).
    { apply Forall_forall. intros iv Hiv.
      destruct (compute_phrase_freqs_keys (map encode_spec pss) res Hlen'' Hcan Hdis E (fst iv))
        as (P & w & HP & Hw & Ek); [apply in_map; exact Hiv|].
      apply in_map_iff in HP. destruct HP as (ps & <- & Hps). unfold pss in Hps.
      apply in_map_iff in Hps. destruct Hps as (t & <- & _).
      destruct (tp_wf docs Hwf t) as [S B]. unfold rpairs in Hw. rewrite term_pairs_tp in Hw.
      destruct (encode_word_pair _ w (sorted2_filter _ _ S) (bounded_filter _ _ B) Hw) as (p & Hin).
      apply filter_In in Hin. destruct Hin as [Hin _].
      pose proof (tp_keys t docs 0) as TK. rewrite Forall_forall in TK. specialize (TK _ Hin).
      cbn [fst] in TK. rewrite <- Ek. lia. }
    destruct (store_zeros res (length docs) (ss_lt_nodup' _ Hs) Hkeys) as (d' & Es & Ld & Hn).
    rewrite Es. cbn [lift]. f_equal. unfold phrase_range_spec.
    apply (nth_ext _ _ 0 ((fun d => occ_range_from 0 ph d lo hi) [])); [rewrite map_length; exact Ld|].
    intros k Hk. rewrite Ld in Hk. rewrite (Hn k Hk), (map_nth (fun d => occ_range_from 0 ph d lo hi)).
    assert (HF : Forall2 (fun t P => dposns P (N.of_nat k) = filter (in_range lo hi) (offsets t (nth k docs [])))
                         ph (map encode_spec pss)).
    { pose proof (forall2_offsets_R docs lo hi k ph) as HF. fold pss in HF. clear - HF Hg.
      induction HF as [|t ps ph' pss' Ht _ IH]; [constructor|].
      inversion Hg as [|? ? (S1 & B1 & _) Hg']; subst. cbn [map]. constructor; [|apply IH; exact Hg'].
      rewrite encode_spec_dposns by assumption. exact Ht. }
    assert (Hph : ph <> []) by (intro; subst; cbn [length] in Hlen; lia).
    rewrite <- occG_range.
    rewrite <- (phrase_matches_occ_R (in_range lo hi) (in_range_convex lo hi) ph _ (N.of_nat k) _ Hph HF).
    specialize (Hocc (N.of_nat k)).
    destruct (lookup (N.of_nat k) res); [exact Hocc|]. rewrite Hocc. reflexivity.
  - destruct (forallb_false _ _ K) as (t & Hin & Hk).
    assert (Hnot : ~ In t (concat docs)).
    { intro Hc. rewrite (known_true docs ix t Ht Hc) in Hk. discriminate. }
    rewrite HL. f_equal. symmetry. apply (phrase_range_absent t); assumption.
Qed.

Theorem C16_phrase_range : forall docs bs ph lo hi, wf_docs docs -> aligned lo hi = true -> (lo, hi) <> (None, None) ->
  (2 <= length ph)%nat -> no_adjacent_repeat ph = true ->
  exists ix, index false bs docs = AOk ix /\ phrase_freqs_range ix ph lo hi = AOk (phrase_range_spec docs ph lo hi).
Proof.
  intros docs bs ph lo hi Hwf Ha Hne Hlen Hrep. destruct (index_any_ok docs bs Hwf) as (ix & E & Hok).
  exists ix. split; [exact E|]. apply phrase_freqs_range_ok; assumption.
Qed.

(* an unaligned range is rejected when every phrase term is in the dictionary *)
Theorem C16_phrase_unaligned_rejected : forall docs bs ix ph lo hi, wf_docs docs -> index false bs docs = AOk ix ->
  (2 <= length ph)%nat -> (forall t, In t ph -> In t (concat docs)) -> aligned lo hi = false ->
  phrase_freqs_range ix ph lo hi = AExc ValueError.
Proof.
  intros docs bs ix ph lo hi Hwf E Hlen Hall Ha.
  destruct (index_any_ok docs bs Hwf) as (ix' & E' & Hok). rewrite E in E'. inversion E'; subst ix'.
  destruct Hok as (Hp & _ & Ht & _).
  assert (Hne : (lo, hi) <> (None, None)) by (intro H; inversion H; subst; discriminate).
  rewrite phrase_freqs_range_body by exact Hne.
  replace (forallb (known ix) ph) with true.
  2:{ symmetry. apply forallb_forall. intros t Hin. apply (known_true docs ix t Ht). apply Hall. exact Hin. }
  cbn [negb]. destruct (Nat.ltb_spec (length ph) 2) as [Hlt|_]; [lia|].
  destruct ph as [|t r]; [cbn [length] in Hlen; lia|]. cbn [slice_all].
  unfold get_posts at 1. rewrite Hp by (apply Hall; now left). cbn [abind].
  rewrite slice_range_w_unaligned by exact Ha. reflexivity.
Qed.

Example C16_phrase_ex :
  let d := [7;8;9;7;8;9;7;8;9;7;8;9;7;8;9;7;8;9; 7;8;9;7;8] in
  (phrase_range_spec [d; [7;8]] [7;8] (Some 0) (Some 17) = [6; 1]) /\
  (* the occurrence of [8;9;7] at 16..18 crosses the upper bound *)
  (phrase_range_spec [d; [7;8]] [8;9;7] (Some 0) (Some 17) = [5; 0]) /\
  (phrase_range_spec [d; [7;8]] [7;8] (Some 18) None = [2; 0]) /\
  match index false 1 [d; [7;8]] with
  | AOk ix => (phrase_freqs_range ix [8;9;7] (Some 0) (Some 17) = AOk [5; 0]) /\
              (phrase_freqs_range ix [7;8] (Some 18) None = AOk [2; 0])
  | _ => False
  end.
Proof. vm_compute. repeat split. Qed.

Print Assumptions C16_term_range.
Print Assumptions C16_unaligned_rejected.
Print Assumptions C16_unaligned_unknown_term.
Print Assumptions C16_empty_range_is_zeros.
Print Assumptions C16_phrase_range.
Print Assumptions C16_phrase_unaligned_rejected.
