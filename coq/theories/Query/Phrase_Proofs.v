(* Exact phrase search, part 1 (Stage 1): the position abstraction of a posting list and the word-level
   (18-bit) facts behind one bigram step of searcharray/phrase/bigram_freqs.py.

   A posting list is a list of 64-bit words  key (28) | bucket (18) | 18 one-hot position bits.
     wposns w      ascending positions stored in word w
     dposns ws d   ascending positions of document d in the posting list ws
     has ws d p    membership form of the same ("position p of document d is set in ws")
     wf_post ws    strictly increasing headers, words below 2^64, buckets <= 14563 (positions <= 262142)

   Main results of this file (all closed):
     In_wposns, In_dposns, wposns_sorted, dposns_sorted, popcount_bit_list
     inner_popcount            popcount of the overlap = number of in-word bigram matches
     contCR_wposns / contCL_wposns   positions of the inner continuation words
     cross_match_iff, adjCR_wposns, adjCL_wposns       the cross-word (bit 17 / bit 0) case *)
From Coq Require Import Sorted Permutation.
From SA Require Import Base.Prelude Kernels.Spec Kernels.Intersect Kernels.Linear Kernels.Intersect_Correct
  Kernels.Adjacent_Correct Kernels.Linear_Proofs Codec.Codec Codec.Codec_Spec Codec.Codec_Proofs Index.Index
  Query.Phrase Query.Phrase_Spec.
Open Scope N_scope.

(* ------------------------------------------------------------------ *)
(* constants                                                           *)
(* ------------------------------------------------------------------ *)
Lemma header_mask_val : header_mask = 18446744073709289472. Proof. vm_compute. reflexivity. Qed.
Lemma upper_bit_val : upper_bit = 131072. Proof. vm_compute. reflexivity. Qed.
Lemma lowbit_header_mask : lowbit header_mask = 262144. Proof. vm_compute. reflexivity. Qed.
Lemma W64_val : W64 = 18446744073709551616. Proof. reflexivity. Qed.

Definition bucket (w : N) : N := (w / 262144) mod 262144.

Lemma header_of_hdr w : header_of w = hdr w.
Proof. unfold header_of, hdr. rewrite hmask_val, header_mask_val. reflexivity. Qed.

Lemma hdr_arith w : w < 18446744073709551616 -> hdr w = (w / 262144) * 262144.
Proof.
  intro H. rewrite <- header_of_hdr. rewrite header_as_arith by (rewrite pow64; exact H).
  rewrite pow18. reflexivity.
Qed.
Lemma lsb_arith w : lsb w = w mod 262144.
Proof. unfold lsb. rewrite plm_val. change 262143 with (N.ones 18). rewrite N.land_ones, pow18. reflexivity. Qed.
Lemma key_arith w : key w = w / 68719476736.
Proof. unfold key. rewrite key_shift_val, N.shiftr_div_pow2, pow36. reflexivity. Qed.

Lemma lsb_lt w : lsb w < 262144.
Proof. rewrite lsb_arith. apply N.mod_lt. lia. Qed.

Lemma hdr_key_bucket w : w < 18446744073709551616 -> hdr w = key w * 68719476736 + bucket w * 262144.
Proof. intro H. rewrite hdr_arith, key_arith by exact H. unfold bucket. lia. Qed.

Lemma hdr_le w : w < 18446744073709551616 -> hdr w <= w.
Proof. intro H. rewrite hdr_arith by exact H. lia. Qed.

Lemma hdr_mono a b : a < 18446744073709551616 -> b < 18446744073709551616 -> a <= b -> hdr a <= hdr b.
Proof. intros Ha Hb H. rewrite !hdr_arith by assumption. lia. Qed.

Lemma hdr_lt_word a b : a < 18446744073709551616 -> b < 18446744073709551616 -> hdr a < hdr b -> a < b.
Proof. intros Ha Hb. rewrite !hdr_arith by assumption. lia. Qed.

Lemma word_decomp w : w < 18446744073709551616 -> w = hdr w + lsb w.
Proof. intro H. rewrite hdr_arith, lsb_arith by exact H. lia. Qed.

Lemma key_lt w : w < 18446744073709551616 -> key w < 268435456.
Proof. intro H. rewrite key_arith. lia. Qed.
Lemma bucket_lt w : bucket w < 262144.
Proof. unfold bucket. apply N.mod_lt. lia. Qed.

(* same key and bucket <-> same header *)
Lemma hdr_eq_iff a b : a < 18446744073709551616 -> b < 18446744073709551616 ->
  (hdr a = hdr b <-> key a = key b /\ bucket a = bucket b).
Proof.
  intros Ha Hb. rewrite !hdr_key_bucket by assumption.
  pose proof (bucket_lt a). pose proof (bucket_lt b). lia.
Qed.

(* the next header: same key, next bucket (no carry because buckets stay below 2^18 - 1) *)
Lemma hdr_next_iff a b : a < 18446744073709551616 -> b < 18446744073709551616 -> bucket a <= 14563 ->
  (hdr b = hdr a + 262144 <-> key a = key b /\ bucket b = bucket a + 1).
Proof.
  intros Ha Hb Hk. rewrite !hdr_key_bucket by assumption.
  pose proof (bucket_lt a). pose proof (bucket_lt b). lia.
Qed.

(* low bits of a word are the bits of its payload *)
Lemma lsb_testbit w i : N.testbit (lsb w) i = (i <? 18) && N.testbit w i.
Proof.
  unfold lsb. rewrite plm_val. change 262143 with (N.ones 18). rewrite N.land_spec.
  destruct (N.ltb_spec i 18).
  - rewrite N.ones_spec_low by assumption. apply andb_true_r.
  - rewrite N.ones_spec_high by assumption. apply andb_false_r.
Qed.
Lemma lsb_testbit_low w i : i < 18 -> N.testbit (lsb w) i = N.testbit w i.
Proof. intro H. rewrite lsb_testbit. destruct (N.ltb_spec i 18); [reflexivity|lia]. Qed.

(* building a word from a header and an 18-bit payload *)
Lemma lor_hdr_r w s : w < 18446744073709551616 -> s < 262144 -> N.lor (hdr w) s = hdr w + s.
Proof.
  intros Hw Hs. rewrite hdr_arith by exact Hw.
  change 262144 with (2 ^ 18) at 1 2. rewrite <- N.shiftl_mul_pow2.
  rewrite lor_shiftl_add by (rewrite pow18; exact Hs). reflexivity.
Qed.
Lemma lor_hdr_l w s : w < 18446744073709551616 -> s < 262144 -> N.lor s (hdr w) = hdr w + s.
Proof. intros. rewrite N.lor_comm. apply lor_hdr_r; assumption. Qed.

Section MK.
Variables (w s : N).
Hypothesis Hw : w < 18446744073709551616.
Hypothesis Hs : s < 262144.
Lemma mk_lt : hdr w + s < 18446744073709551616.
Proof. rewrite hdr_arith by exact Hw. lia. Qed.
Lemma mk_hdr : hdr (hdr w + s) = hdr w.
Proof. rewrite (hdr_arith (hdr w + s)) by exact mk_lt. rewrite hdr_arith by exact Hw. lia. Qed.
Lemma mk_lsb : lsb (hdr w + s) = s.
Proof. rewrite lsb_arith. rewrite hdr_arith by exact Hw. lia. Qed.
Lemma mk_key : key (hdr w + s) = key w.
Proof. rewrite !key_arith. rewrite hdr_arith by exact Hw. lia. Qed.
Lemma mk_bucket : bucket (hdr w + s) = bucket w.
Proof. unfold bucket. rewrite hdr_arith by exact Hw. lia. Qed.
Lemma mk_testbit i : i < 18 -> N.testbit (hdr w + s) i = N.testbit s i.
Proof. intro H. rewrite <- lsb_testbit_low by exact H. rewrite mk_lsb. reflexivity. Qed.
End MK.

(* ------------------------------------------------------------------ *)
(* positions                                                           *)
(* ------------------------------------------------------------------ *)
Definition wposns (w : N) : list N := map (fun i => 18 * bucket w + i) (bit_list (lsb w)).
Definition dposns (ws : list N) (d : N) : list N := flat_map wposns (filter (fun w => key w =? d) ws).
Definition has (ws : list N) (d p : N) : Prop :=
  exists w, In w ws /\ key w = d /\ bucket w = p / 18 /\ N.testbit w (p mod 18) = true.
Definition wf_post (ws : list N) : Prop :=
  StronglySorted N.lt (map hdr ws) /\
  Forall (fun w => w < 18446744073709551616 /\ bucket w <= 14563) ws.

Lemma in_bits18 i : In i bits18 <-> i < 18.
Proof.
  split; [apply bits18_lt|]. intro H. unfold bits18. apply in_map_iff.
  exists (N.to_nat i). split; [lia|]. apply in_seq. lia.
Qed.

Lemma in_bit_list s i : In i (bit_list s) <-> i < 18 /\ N.testbit s i = true.
Proof. unfold bit_list. rewrite filter_In, in_bits18. tauto. Qed.

Lemma In_wposns w p : In p (wposns w) <-> p / 18 = bucket w /\ N.testbit w (p mod 18) = true.
Proof.
  unfold wposns. rewrite in_map_iff. split.
  - intros (i & <- & Hi). apply in_bit_list in Hi. destruct Hi as [Hi Ht].
    rewrite lsb_testbit_low in Ht by exact Hi.
    replace ((18 * bucket w + i) / 18) with (bucket w) by lia.
    replace ((18 * bucket w + i) mod 18) with i by lia. split; [reflexivity|exact Ht].
  - intros [Hb Ht]. exists (p mod 18). split; [lia|].
    apply in_bit_list. assert (p mod 18 < 18) by (apply N.mod_lt; lia).
    split; [assumption|]. rewrite lsb_testbit_low by assumption. exact Ht.
Qed.

Lemma In_dposns ws d p : In p (dposns ws d) <-> has ws d p.
Proof.
  unfold dposns, has. rewrite in_flat_map. split.
  - intros (w & Hw & Hp). apply filter_In in Hw. destruct Hw as [Hw Hk]. apply N.eqb_eq in Hk.
    apply In_wposns in Hp. destruct Hp as [Hb Ht]. exists w. repeat split; auto.
  - intros (w & Hw & Hk & Hb & Ht). exists w. split.
    + apply filter_In. split; [exact Hw|]. apply N.eqb_eq. exact Hk.
    + apply In_wposns. split; [symmetry; exact Hb|exact Ht].
Qed.

Lemma mem_dposns ws d p : existsb (N.eqb p) (dposns ws d) = true <-> has ws d p.
Proof.
  rewrite existsb_exists, <- In_dposns. split.
  - intros (x & Hx & E). apply N.eqb_eq in E. subst x. exact Hx.
  - intro H. exists p. split; [exact H|apply N.eqb_refl].
Qed.

(* ---- sortedness ---- *)
Lemma ss_map_mono (f : N -> N) l : (forall a b, a < b -> f a < f b) ->
  StronglySorted N.lt l -> StronglySorted N.lt (map f l).
Proof.
  intros Hf. induction 1 as [|a t Hs IH Hfa]; cbn [map]; constructor; [exact IH|].
  apply Forall_map. eapply Forall_impl; [|exact Hfa]. intros b Hb. apply Hf. exact Hb.
Qed.
Lemma Forall_filter' {A} (P : A -> Prop) f l : Forall P l -> Forall P (filter f l).
Proof. induction 1; cbn [filter]; [constructor|]. destruct (f x); [constructor|]; assumption. Qed.
Lemma ss_filter (P : N -> bool) l : StronglySorted N.lt l -> StronglySorted N.lt (filter P l).
Proof.
  induction 1 as [|a t Hs IH Hf]; cbn [filter]; [constructor|].
  destruct (P a); [|exact IH]. constructor; [exact IH|]. apply Forall_filter'. exact Hf.
Qed.
Lemma ss_app' l1 l2 : StronglySorted N.lt l1 -> StronglySorted N.lt l2 ->
  (forall x y, In x l1 -> In y l2 -> x < y) -> StronglySorted N.lt (l1 ++ l2).
Proof.
  induction 1 as [|a t Hs IH Hf]; intros H2 Hlt; cbn [app]; [exact H2|].
  constructor.
  - apply IH; [exact H2|]. intros x y Hx Hy. apply Hlt; [now right|exact Hy].
  - apply Forall_app. split; [exact Hf|]. apply Forall_forall. intros y Hy. apply Hlt; [now left|exact Hy].
Qed.
Lemma bits18_sorted : StronglySorted N.lt bits18.
Proof. repeat (constructor; [|repeat constructor; lia]). constructor. Qed.

Lemma wposns_sorted w : StronglySorted N.lt (wposns w).
Proof.
  unfold wposns. apply ss_map_mono; [intros; lia|]. unfold bit_list. apply ss_filter, bits18_sorted.
Qed.

Lemma wf_post_cons w ws : wf_post (w :: ws) -> wf_post ws.
Proof.
  intros [H1 H2]. split; [cbn [map] in H1; inversion H1; assumption|inversion H2; assumption].
Qed.

Lemma dposns_cons w ws d : dposns (w :: ws) d = (if key w =? d then wposns w else []) ++ dposns ws d.
Proof. unfold dposns. cbn [filter]. destruct (key w =? d); reflexivity. Qed.

Lemma dposns_sorted ws d : wf_post ws -> StronglySorted N.lt (dposns ws d).
Proof.
  induction ws as [|w ws IH]; intro Hwf; [constructor|].
  rewrite dposns_cons. pose proof (wf_post_cons _ _ Hwf) as Hwf'.
  destruct (N.eqb_spec (key w) d) as [Hk|Hk]; [|apply IH; exact Hwf'].
  apply ss_app'; [apply wposns_sorted|apply IH; exact Hwf'|].
  intros x y Hx Hy. apply In_wposns in Hx. apply In_dposns in Hy.
  destruct Hy as (w' & Hw' & Hk' & Hb' & _). destruct Hx as [Hbx _].
  destruct Hwf as [Hs Hf]. cbn [map] in Hs. inversion Hs as [|? ? _ Hlt]; subst.
  inversion Hf as [|? ? [Hw64 _] Hf']; subst.
  rewrite Forall_forall in Hf'. destruct (Hf' w' Hw') as [Hw'64 _].
  rewrite Forall_forall in Hlt. specialize (Hlt (hdr w') (in_map hdr _ _ Hw')).
  rewrite !hdr_key_bucket in Hlt by assumption.
  pose proof (bucket_lt w). pose proof (bucket_lt w').
  rewrite Hk' in Hlt. lia.
Qed.

(* ---- popcount of an 18-bit payload is the number of its positions ---- *)
Lemma popcount_filter_seq : forall n s, s < 2 ^ N.of_nat n ->
  popcount s = N.of_nat (length (filter (N.testbit s) (map N.of_nat (seq 0 n)))).
Proof.
  induction n as [|n IH]; intros s Hs.
  - change (2 ^ N.of_nat 0) with 1 in Hs. assert (s = 0) by lia. subst. reflexivity.
  - rewrite seq_S, map_app, filter_app, app_length. cbn [map filter plus].
    rewrite Nat2N.inj_succ, N.pow_succ_r' in Hs.
    assert (Hp : 0 < 2 ^ N.of_nat n) by (apply N.neq_0_lt_0, N.pow_nonzero; lia).
    assert (Hlow : s mod 2 ^ N.of_nat n < 2 ^ N.of_nat n) by (apply N.mod_lt; lia).
    assert (E : filter (N.testbit s) (map N.of_nat (seq 0 n)) =
                filter (N.testbit (s mod 2 ^ N.of_nat n)) (map N.of_nat (seq 0 n))).
    { apply filter_ext_in. intros i Hi. apply in_map_iff in Hi. destruct Hi as (k & <- & Hk).
      apply in_seq in Hk. symmetry. apply N.mod_pow2_bits_low. lia. }
    rewrite E, Nat2N.inj_add, <- IH by exact Hlow.
    pose proof (N.div_mod s (2 ^ N.of_nat n) ltac:(lia)) as Hd.
    assert (Hq : s / 2 ^ N.of_nat n < 2) by (apply N.div_lt_upper_bound; lia).
    assert (Tb0 : N.testbit s (N.of_nat n) = N.testbit (s / 2 ^ N.of_nat n) 0).
    { rewrite N.div_pow2_bits, N.add_0_l. reflexivity. }
    rewrite Tb0. clear Tb0 E IH.
    remember (s / 2 ^ N.of_nat n) as q eqn:Eq. remember (s mod 2 ^ N.of_nat n) as r eqn:Er.
    remember (2 ^ N.of_nat n) as m eqn:Em. clear Eq Er.
    assert (C : q = 0 \/ q = 1) by lia. destruct C as [C|C]; subst q; cbn [N.testbit length].
    + rewrite N.mul_0_r, N.add_0_l in Hd. subst s. symmetry. apply N.add_0_r.
    + rewrite N.mul_1_r in Hd. subst s. change (N.testbit 1 0) with true. cbn [length].
      rewrite N.add_comm, Em, popcount_add_pow2 by (rewrite <- Em; exact Hlow). reflexivity.
Qed.

Lemma popcount_bit_list s : s < 262144 -> popcount s = N.of_nat (length (bit_list s)).
Proof. intro H. unfold bit_list, bits18. apply (popcount_filter_seq 18). exact H. Qed.

Lemma length_wposns w : N.of_nat (length (wposns w)) = popcount (lsb w).
Proof. unfold wposns. rewrite map_length, popcount_bit_list by apply lsb_lt. reflexivity. Qed.

(* ------------------------------------------------------------------ *)
(* small list facts                                                    *)
(* ------------------------------------------------------------------ *)
Lemma mem_n_In v l : mem_n v l = true <-> In v l.
Proof.
  unfold mem_n. rewrite existsb_exists. split.
  - intros (x & Hx & E). apply N.eqb_eq in E. subst x. exact Hx.
  - intro H. exists v. split; [exact H|apply N.eqb_refl].
Qed.
Lemma bool_eq_iff (a b : bool) : (a = true <-> b = true) -> a = b.
Proof. destruct a, b; intuition congruence. Qed.
Lemma filter_map_comm {A B} (f : A -> B) (P : B -> bool) l :
  filter P (map f l) = map f (filter (fun x => P (f x)) l).
Proof. induction l as [|x l IH]; cbn [map filter]; [reflexivity|]. destruct (P (f x)); cbn [map]; rewrite IH; reflexivity. Qed.
Lemma filter_filter {A} (P Q : A -> bool) l : filter P (filter Q l) = filter (fun x => Q x && P x) l.
Proof.
  induction l as [|x l IH]; cbn [filter]; [reflexivity|].
  destruct (Q x); cbn [filter andb]; [destruct (P x)|]; rewrite IH; reflexivity.
Qed.

Lemma mem_wposns r q : mem_n q (wposns r) = (q / 18 =? bucket r) && N.testbit r (q mod 18).
Proof.
  apply bool_eq_iff. rewrite mem_n_In, In_wposns, andb_true_iff, N.eqb_eq. tauto.
Qed.

(* ------------------------------------------------------------------ *)
(* the in-word case: overlap and continuation words                    *)
(* ------------------------------------------------------------------ *)
Definition ov (l r : N) : N := N.land (lsb l) (N.shiftr (lsb r) 1).
Definition cwR (l r : N) : N := N.lor (N.land (wshl (ov l r) 1) payload_lsb_mask) (hdr r).
Definition cwL (l r : N) : N := N.lor (ov l r) (hdr l).

Lemma ov_testbit l r i : N.testbit (ov l r) i = (i <? 17) && N.testbit l i && N.testbit r (i + 1).
Proof.
  unfold ov. rewrite N.land_spec, N.shiftr_spec by lia. rewrite !lsb_testbit.
  destruct (N.ltb_spec i 17), (N.ltb_spec i 18), (N.ltb_spec (i + 1) 18); try lia; cbn [andb];
    rewrite ?andb_false_r; reflexivity.
Qed.
Lemma ov_lt l r : ov l r < 131072.
Proof.
  change 131072 with (2 ^ 17). apply bits_below_lt. intros i Hi. rewrite ov_testbit in Hi.
  destruct (N.ltb_spec i 17); [assumption|discriminate].
Qed.

Lemma cwR_eq l r : r < 18446744073709551616 -> cwR l r = hdr r + 2 * ov l r.
Proof.
  intro Hr. unfold cwR. pose proof (ov_lt l r) as Ho.
  assert (E : N.land (wshl (ov l r) 1) payload_lsb_mask = 2 * ov l r).
  { unfold wshl. rewrite N.shiftl_mul_pow2, plm_val. change (2 ^ 1) with 2. rewrite W64_val.
    change 262143 with (N.ones 18). rewrite N.land_ones, pow18.
    rewrite (N.mod_small (ov l r * 2)) by lia. rewrite N.mod_small by lia. lia. }
  rewrite E. apply lor_hdr_l; [exact Hr|lia].
Qed.
Lemma cwL_eq l r : l < 18446744073709551616 -> cwL l r = hdr l + ov l r.
Proof. intro Hl. unfold cwL. pose proof (ov_lt l r). apply lor_hdr_l; [exact Hl|lia]. Qed.

Lemma double_testbit a i : N.testbit (2 * a) i = negb (i =? 0) && N.testbit a (i - 1).
Proof.
  destruct (N.eqb_spec i 0) as [->|Hi]; cbn [negb andb].
  - apply N.testbit_even_0.
  - replace i with (N.succ (i - 1)) at 1 by lia. apply N.double_bits_succ.
Qed.

(* popcount of the overlap = number of positions p of l, not the last of the word, with p+1 in r *)
Theorem inner_popcount l r : bucket l = bucket r ->
  popcount (ov l r) =
  N.of_nat (length (filter (fun p => negb (p mod 18 =? 17) && mem_n (p + 1) (wposns r)) (wposns l))).
Proof.
  intro Hb. pose proof (ov_lt l r) as Ho.
  unfold wposns at 2. rewrite filter_map_comm, map_length.
  rewrite popcount_bit_list by lia. unfold bit_list. rewrite filter_filter.
  f_equal. f_equal. apply filter_ext_in. intros i Hi. apply in_bits18 in Hi.
  rewrite ov_testbit, lsb_testbit_low, mem_wposns by exact Hi. rewrite <- Hb.
  destruct (N.ltb_spec i 17) as [H17|H17].
  - replace ((18 * bucket l + i) mod 18 =? 17) with false by (symmetry; apply N.eqb_neq; lia).
    replace ((18 * bucket l + i + 1) / 18 =? bucket l) with true by (symmetry; apply N.eqb_eq; lia).
    replace ((18 * bucket l + i + 1) mod 18) with (i + 1) by lia.
    cbn [negb andb]. reflexivity.
  - replace ((18 * bucket l + i) mod 18 =? 17) with true by (symmetry; apply N.eqb_eq; lia).
    cbn [negb andb]. rewrite andb_false_r. reflexivity.
Qed.

Lemma inner_filter_sorted (P : N -> bool) (f : N -> N) w : (forall a b, a < b -> f a < f b) ->
  StronglySorted N.lt (map f (filter P (wposns w))).
Proof. intro Hf. apply ss_map_mono; [exact Hf|]. apply ss_filter, wposns_sorted. Qed.

(* CR continuation word: the END positions p+1 of the in-word matches *)
Theorem contCR_wposns l r : l < 18446744073709551616 -> r < 18446744073709551616 -> hdr l = hdr r ->
  wposns (cwR l r) =
  map N.succ (filter (fun p => negb (p mod 18 =? 17) && mem_n (p + 1) (wposns r)) (wposns l)).
Proof.
  intros Hl Hr Hh. pose proof (ov_lt l r) as Ho.
  apply (proj1 (hdr_eq_iff l r Hl Hr)) in Hh. destruct Hh as [_ Hb].
  apply sslt_In_eq; [apply wposns_sorted|apply inner_filter_sorted; intros; lia|].
  intro q. rewrite In_wposns, in_map_iff, cwR_eq by exact Hr.
  rewrite mk_bucket by (try exact Hr; lia).
  assert (Hq : q mod 18 < 18) by (apply N.mod_lt; lia).
  rewrite mk_testbit by (try exact Hr; try exact Hq; lia).
  rewrite double_testbit, ov_testbit. split.
  - intros [Hqb Ht]. apply andb_true_iff in Ht. destruct Ht as [H0 Ht].
    apply negb_true_iff, N.eqb_neq in H0.
    apply andb_true_iff in Ht. destruct Ht as [Ht Htr]. apply andb_true_iff in Ht. destruct Ht as [H17 Htl].
    apply N.ltb_lt in H17.
    exists (q - 1). split; [lia|]. apply filter_In. split.
    + apply In_wposns. replace ((q - 1) mod 18) with (q mod 18 - 1) by lia. split; [lia|exact Htl].
    + rewrite mem_wposns. replace (q - 1 + 1) with q by lia.
      replace (q mod 18 - 1 + 1) with (q mod 18) in Htr by lia. rewrite Htr.
      replace ((q - 1) mod 18 =? 17) with false by (symmetry; apply N.eqb_neq; lia).
      replace (q / 18 =? bucket r) with true by (symmetry; apply N.eqb_eq; lia). reflexivity.
  - intros (p & <- & Hp). apply filter_In in Hp. destruct Hp as [Hp Hc].
    apply In_wposns in Hp. destruct Hp as [Hpb Hpt].
    apply andb_true_iff in Hc. destruct Hc as [H17 Hm]. apply negb_true_iff, N.eqb_neq in H17.
    rewrite mem_wposns in Hm. apply andb_true_iff in Hm. destruct Hm as [_ Hm].
    assert (p mod 18 < 18) by (apply N.mod_lt; lia).
    replace (N.succ p mod 18) with (p mod 18 + 1) by lia.
    replace (p mod 18 + 1 - 1) with (p mod 18) by lia.
    replace ((p + 1) mod 18) with (p mod 18 + 1) in Hm by lia.
    split; [lia|]. rewrite Hpt, Hm.
    replace (p mod 18 + 1 =? 0) with false by (symmetry; apply N.eqb_neq; lia).
    replace (p mod 18 <? 17) with true by (symmetry; apply N.ltb_lt; lia). reflexivity.
Qed.

(* CL continuation word: the START positions p of the in-word matches *)
Theorem contCL_wposns l r : l < 18446744073709551616 -> r < 18446744073709551616 -> hdr l = hdr r ->
  wposns (cwL l r) =
  filter (fun p => negb (p mod 18 =? 17) && mem_n (p + 1) (wposns r)) (wposns l).
Proof.
  intros Hl Hr Hh. pose proof (ov_lt l r) as Ho.
  apply (proj1 (hdr_eq_iff l r Hl Hr)) in Hh. destruct Hh as [_ Hb].
  apply sslt_In_eq; [apply wposns_sorted|apply ss_filter, wposns_sorted|].
  intro p. rewrite In_wposns, filter_In, In_wposns, cwL_eq by exact Hl.
  rewrite mk_bucket by (try exact Hl; lia).
  assert (Hq : p mod 18 < 18) by (apply N.mod_lt; lia).
  rewrite mk_testbit by (try exact Hl; try exact Hq; lia).
  rewrite ov_testbit, mem_wposns. split.
  - intros [Hpb Ht].
    apply andb_true_iff in Ht. destruct Ht as [Ht Htr]. apply andb_true_iff in Ht. destruct Ht as [H17 Htl].
    apply N.ltb_lt in H17. split; [split; assumption|].
    replace ((p + 1) mod 18) with (p mod 18 + 1) by lia. rewrite Htr.
    replace (p mod 18 =? 17) with false by (symmetry; apply N.eqb_neq; lia).
    replace ((p + 1) / 18 =? bucket r) with true by (symmetry; apply N.eqb_eq; lia). reflexivity.
  - intros [[Hpb Hpt] Hc].
    apply andb_true_iff in Hc. destruct Hc as [H17 Hm]. apply negb_true_iff, N.eqb_neq in H17.
    apply andb_true_iff in Hm. destruct Hm as [_ Hm].
    replace ((p + 1) mod 18) with (p mod 18 + 1) in Hm by lia.
    split; [exact Hpb|]. rewrite Hpt, Hm.
    replace (p mod 18 <? 17) with true by (symmetry; apply N.ltb_lt; lia). reflexivity.
Qed.

(* ------------------------------------------------------------------ *)
(* the cross-word case: bit 17 of l, bit 0 of the word in the next bucket *)
(* ------------------------------------------------------------------ *)
Definition adjtest (p : N * N) : bool :=
  andb (negb (N.land (fst p) upper_bit =? 0)) (negb (N.land (snd p) 1 =? 0)).

Lemma adjtest_bits p : adjtest p = N.testbit (fst p) 17 && N.testbit (snd p) 0.
Proof.
  unfold adjtest. rewrite upper_bit_val.
  change 131072 with (N.shiftl 1 17). change 1 with (N.shiftl 1 0) at 2.
  rewrite !land_bit_test. reflexivity.
Qed.

Theorem cross_match_iff l r : l < 18446744073709551616 -> r < 18446744073709551616 -> bucket l <= 14563 ->
  hdr r = hdr l + 262144 ->
  (adjtest (l, r) = true <-> In (18 * bucket l + 17) (wposns l) /\ In (18 * bucket l + 18) (wposns r)).
Proof.
  intros Hl Hr Hb Hh. apply (proj1 (hdr_next_iff l r Hl Hr Hb)) in Hh. destruct Hh as [_ Hbr].
  rewrite adjtest_bits, andb_true_iff, !In_wposns. cbn [fst snd].
  replace ((18 * bucket l + 17) / 18) with (bucket l) by lia.
  replace ((18 * bucket l + 17) mod 18) with 17 by lia.
  replace ((18 * bucket l + 18) / 18) with (bucket l + 1) by lia.
  replace ((18 * bucket l + 18) mod 18) with 0 by lia. intuition lia.
Qed.

Theorem adjCR_wposns r : r < 18446744073709551616 -> wposns (N.lor (header_of r) 1) = [18 * bucket r].
Proof.
  intro Hr. rewrite header_of_hdr, lor_hdr_r by (try exact Hr; lia).
  unfold wposns. rewrite mk_lsb, mk_bucket by (try exact Hr; lia).
  change (bit_list 1) with [0]. cbn [map]. f_equal. lia.
Qed.
Theorem adjCL_wposns l : l < 18446744073709551616 ->
  wposns (N.lor (header_of l) upper_bit) = [18 * bucket l + 17].
Proof.
  intro Hl. rewrite upper_bit_val, header_of_hdr, lor_hdr_r by (try exact Hl; lia).
  unfold wposns. rewrite mk_lsb, mk_bucket by (try exact Hl; lia).
  change (bit_list 131072) with [17]. reflexivity.
Qed.

Print Assumptions inner_popcount.
Print Assumptions contCR_wposns.
Print Assumptions contCL_wposns.
Print Assumptions cross_match_iff.
Print Assumptions adjCR_wposns.
Print Assumptions adjCL_wposns.
Print Assumptions dposns_sorted.
Print Assumptions In_dposns.
