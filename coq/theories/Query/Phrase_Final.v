(* C03, final composition: on the index built from any corpus within the limits, by any batch size,
   phrase_freqs of a phrase of >= 2 terms without an immediately repeated term is, document by document,
   the number of offsets at which the phrase occurs contiguously (phrase_spec).

   Pieces composed here:
     Index_Proofs3.index_any_ok          the index stores  encode_spec (term_pairs docs t)  per corpus term
     Phrase_Proofs3.phrase_on_encoded    the bigram chain on such postings reports  occ ph doc  per listed document
     (new, section 1)                    every document id the chain lists is the key of a posting word of one
                                         of its inputs, hence a real row (< length docs) -- needed because the
                                         final scatter  phrase_freqs[ids] = counts  faults on an id out of range
     Linear_Proofs.store_many_ok         the scatter into the zero buffer *)
From Coq Require Import Sorted.
From SA Require Import Base.Prelude Kernels.Spec Kernels.Linear Kernels.Linear_Proofs Codec.Codec Codec.Codec_Spec
  Codec.Codec_Proofs Index.Index Index.Index_Spec Index.Index_Proofs Index.Index_Proofs2 Index.Index_Proofs3
  Query.Phrase Query.Phrase_Spec Query.Phrase_Proofs Query.Phrase_Proofs2 Query.Phrase_Proofs3.
From Coq Require Import Permutation.
Open Scope N_scope.

(* ------------------------------------------------------------------ *)
(* 1. the document ids listed by the chain are keys of input words     *)
(* ------------------------------------------------------------------ *)
Definition keys_from (res : list (N * N)) (P : list N) : Prop :=
  forall k, In k (map fst res) -> exists w, In w P /\ key w = k.

Lemma step_counts_keys_src A B : wf_post A -> wf_post B -> keys_from (step_counts A B) A.
Proof.
  intros HA HB k. unfold step_counts, sort_merge_counts_spec. cbn zeta.
  rewrite !Phrase_Proofs2.combine_fst_snd. intro H.
  apply runs_sum_keys_in in H.
  apply (Permutation_in _ (Permutation_sym (Permutation_map fst (fold_insert_kv_perm _)))) in H.
  rewrite map_app, in_app_iff in H. destruct H as [H|H].
  - apply runs_sum_keys_in in H. unfold inner_kvs in H. rewrite map_map in H. cbn [fst] in H.
    apply in_map_iff in H. destruct H as (p & <- & Hp). apply (ipairs_wf A B HA HB) in Hp.
    exists (fst p). tauto.
  - rewrite run_counts_runs_sum in H. apply runs_sum_keys_in in H. rewrite map_map in H. cbn [fst] in H.
    rewrite map_id in H. apply (Permutation_in _ (Permutation_sym (np_sort_perm _))) in H.
    apply in_map_iff in H. destruct H as (p & <- & Hp). apply (aps_wf A B HA HB) in Hp.
    exists (fst p). tauto.
Qed.

Lemma counts_ok_matches acc new f g : counts_ok acc f -> counts_ok new g ->
  intersect_matches (Some acc) new = AOk (map min_pair (kpairs acc new)).
Proof.
  intros Ho Hn. pose proof (counts_ok_length _ _ Ho) as Lo. pose proof (counts_ok_length _ _ Hn) as Ln.
  destruct Ho as (So & Fo & _). destruct Hn as (Sn & Fn & _). apply intersect_matches_spec; assumption.
Qed.

Lemma l2r_loop_keys : forall rest lhs P0 acc res,
  wf_post lhs -> N.of_nat (length lhs) < 2 ^ 62 -> (forall d p, has lhs d p -> has P0 d p) ->
  Forall canonical rest -> chain_disj P0 rest -> counts_ok acc (dposns lhs) ->
  l2r_loop lhs rest (Some acc) = AOk res -> incl (map fst res) (map fst acc).
Proof.
  induction rest as [|P more IH]; intros lhs P0 acc res Hwf Hlen Hsub Hcan Hdis Hok Hrun.
  - cbn [l2r_loop] in Hrun. inversion Hrun; subst. apply incl_refl.
  - inversion Hcan as [|? ? (HwP & HnzP & HlP) Hcan']; subst. destruct Hdis as [Hd0 Hdis'].
    assert (Hnc : nocommon lhs P).
    { apply nocommon_of_disjoint; try assumption; [right; exact HnzP|].
      intros d p H1 H2. apply (Hd0 d p); [apply Hsub; exact H1|exact H2]. }
    cbn [l2r_loop] in Hrun. rewrite (bigram_freqs_eq CR lhs P Hwf HwP Hlen HlP Hnc) in Hrun. cbn [abind fst snd] in Hrun.
    destruct (intersect_counts_ok acc (step_counts lhs P) (dposns lhs) (dposns (step_next CR lhs P)) Hok
                (step_counts_ok CR lhs P Hwf HwP)) as (acc' & E & Hok').
    { intro d. rewrite step_CR_dposns, map_length by assumption. apply filter_length_le'. }
    rewrite E in Hrun. cbn [abind] in Hrun.
    rewrite (counts_ok_matches _ _ _ _ Hok (step_counts_ok CR lhs P Hwf HwP)) in E. inversion E; subst acc'.
    apply (incl_tran (m := map fst (map min_pair (kpairs acc (step_counts lhs P))))).
    + apply (IH (step_next CR lhs P) P _ res); try assumption.
      * apply step_next_wf; assumption.
      * pose proof (step_next_length CR lhs P Hwf HwP) as Hl. cbn [side] in Hl. rewrite pow62 in *. lia.
      * intros d q Hq. apply (step_has CR lhs P Hwf HwP) in Hq. destruct Hq as (p & -> & _ & H2). exact H2.
    + intros k Hk. apply kpairs_keys in Hk. exact Hk.
Qed.

Lemma r2l_loop_keys : forall rest rhs P0 acc res,
  wf_post rhs -> N.of_nat (length rhs) < 2 ^ 62 -> (forall d p, has rhs d p -> has P0 d p) ->
  Forall canonical rest -> chain_disj P0 rest -> counts_ok acc (dposns rhs) ->
  r2l_loop rhs rest (Some acc) = AOk res -> incl (map fst res) (map fst acc).
Proof.
  induction rest as [|P more IH]; intros rhs P0 acc res Hwf Hlen Hsub Hcan Hdis Hok Hrun.
  - cbn [r2l_loop] in Hrun. inversion Hrun; subst. apply incl_refl.
  - inversion Hcan as [|? ? (HwP & HnzP & HlP) Hcan']; subst. destruct Hdis as [Hd0 Hdis'].
    assert (Hnc : nocommon P rhs).
    { apply nocommon_of_disjoint; try assumption; [left; exact HnzP|].
      intros d p H1 H2. apply (Hd0 d p); [apply Hsub; exact H2|exact H1]. }
    cbn [r2l_loop] in Hrun. rewrite (bigram_freqs_eq CL P rhs HwP Hwf HlP Hlen Hnc) in Hrun. cbn [abind fst snd] in Hrun.
    destruct (intersect_counts_ok acc (step_counts P rhs) (dposns rhs) (dposns (step_next CL P rhs)) Hok
                (step_counts_ok CL P rhs HwP Hwf)) as (acc' & E & Hok').
    { intro d. rewrite step_CL_dposns by assumption. apply r2l_shrinks.
      apply ss_lt_nodup', dposns_sorted. exact HwP. }
    rewrite E in Hrun. cbn [abind] in Hrun.
    rewrite (counts_ok_matches _ _ _ _ Hok (step_counts_ok CL P rhs HwP Hwf)) in E. inversion E; subst acc'.
    apply (incl_tran (m := map fst (map min_pair (kpairs acc (step_counts P rhs))))).
    + apply (IH (step_next CL P rhs) P _ res); try assumption.
      * apply step_next_wf; assumption.
      * pose proof (step_next_length CL P rhs HwP Hwf) as Hl. cbn [side] in Hl. rewrite pow62 in *. lia.
      * intros d q Hq. apply (step_has CL P rhs HwP Hwf) in Hq. destruct Hq as (p & -> & H1 & _).
        cbn [off]. rewrite N.add_0_r. exact H1.
    + intros k Hk. apply kpairs_keys in Hk. exact Hk.
Qed.

Lemma phrase_l2r_keys : forall P1 P2 more res,
  Forall canonical (P1 :: P2 :: more) -> chain_disj P1 (P2 :: more) ->
  phrase_l2r (P1 :: P2 :: more) = AOk res -> keys_from res P1.
Proof.
  intros P1 P2 more res Hcan Hdis Hrun.
  inversion Hcan as [|? ? (Hw1 & Hnz1 & Hl1) Hcan1]; subst.
  inversion Hcan1 as [|? ? (Hw2 & Hnz2 & Hl2) Hcan2]; subst.
  destruct Hdis as [Hd12 Hdis'].
  assert (Hnc : nocommon P1 P2) by (apply nocommon_of_disjoint; try assumption; right; exact Hnz2).
  cbn [phrase_l2r l2r_loop] in Hrun. rewrite (bigram_freqs_eq CR P1 P2 Hw1 Hw2 Hl1 Hl2 Hnc) in Hrun.
  cbn [abind fst snd intersect_matches] in Hrun.
  intros k Hk. apply (step_counts_keys_src P1 P2 Hw1 Hw2).
  revert k Hk. apply (l2r_loop_keys more (step_next CR P1 P2) P2 (step_counts P1 P2) res); try assumption.
  - apply step_next_wf; assumption.
  - pose proof (step_next_length CR P1 P2 Hw1 Hw2) as Hl. cbn [side] in Hl. rewrite pow62 in *. lia.
  - intros d q Hq. apply (step_has CR P1 P2 Hw1 Hw2) in Hq. destruct Hq as (p & -> & _ & H2). exact H2.
  - apply step_counts_ok; assumption.
Qed.

Lemma phrase_r2l_keys : forall Pn Pm front res,
  Forall canonical (Pn :: Pm :: front) -> chain_disj Pn (Pm :: front) ->
  phrase_r2l (rev (Pn :: Pm :: front)) = AOk res -> keys_from res Pm.
Proof.
  intros Pn Pm front res Hcan Hdis Hrun. unfold phrase_r2l in Hrun. rewrite rev_involutive in Hrun.
  inversion Hcan as [|? ? (Hwn & Hnzn & Hln) Hcan1]; subst.
  inversion Hcan1 as [|? ? (Hwm & Hnzm & Hlm) Hcan2]; subst.
  destruct Hdis as [Hdnm Hdis'].
  assert (Hnc : nocommon Pm Pn).
  { apply nocommon_of_disjoint; try assumption; [left; exact Hnzm|]. apply disj_sym. exact Hdnm. }
  cbn [r2l_loop] in Hrun. rewrite (bigram_freqs_eq CL Pm Pn Hwm Hwn Hlm Hln Hnc) in Hrun.
  cbn [abind fst snd intersect_matches] in Hrun.
  intros k Hk. apply (step_counts_keys_src Pm Pn Hwm Hwn).
  revert k Hk. apply (r2l_loop_keys front (step_next CL Pm Pn) Pm (step_counts Pm Pn) res); try assumption.
  - apply step_next_wf; assumption.
  - pose proof (step_next_length CL Pm Pn Hwm Hwn) as Hl. cbn [side] in Hl. rewrite pow62 in *. lia.
  - intros d q Hq. apply (step_has CL Pm Pn Hwm Hwn) in Hq. destruct Hq as (p & -> & H1 & _).
    cbn [off]. rewrite N.add_0_r. exact H1.
  - apply step_counts_ok; assumption.
Qed.

(* whichever strategy runs, every listed id is the key of a word of one of the posting lists *)
Theorem compute_phrase_freqs_keys : forall Ps res,
  (2 <= length Ps)%nat -> Forall canonical Ps -> adj_disj Ps ->
  compute_phrase_freqs Ps = AOk res ->
  forall k, In k (map fst res) -> exists P w, In P Ps /\ In w P /\ key w = k.
Proof.
  intros Ps res Hlen Hcan Hadj Hrun k Hk. unfold compute_phrase_freqs in Hrun. destruct (choose_strategy Ps).
  - destruct Ps as [|P1 [|P2 more]]; cbn [length] in Hlen; try lia.
    destruct (phrase_l2r_keys P1 P2 more res Hcan (chain_of_adj _ _ Hadj) Hrun k Hk) as (w & Hw & Ek).
    exists P1, w. split; [now left|]. split; assumption.
  - pose proof (rev_involutive Ps) as E. pose proof (rev_length Ps) as L.
    pose proof (adj_disj_rev Ps Hadj) as Hadj'. pose proof (Forall_rev Hcan) as Hcan'.
    destruct (rev Ps) as [|Pn [|Pm front]] eqn:ER; cbn [length] in L; try lia.
    rewrite <- E in Hrun.
    destruct (phrase_r2l_keys Pn Pm front res Hcan' (chain_of_adj _ _ Hadj') Hrun k Hk) as (w & Hw & Ek).
    exists Pm, w. split; [|split; assumption].
    apply in_rev. rewrite ER. right. now left.
Qed.

(* ------------------------------------------------------------------ *)
(* 2. the stored postings of a corpus meet the chain's hypotheses      *)
(* ------------------------------------------------------------------ *)
(* the two definitions of "offsets of t in a document" (Index_Spec / Phrase_Proofs3) agree *)
Lemma offsets_from_eq t : forall d i, Index_Spec.offsets_from i t d = Phrase_Proofs3.offsets_from i t d.
Proof.
  induction d as [|x d IH]; intro i; [reflexivity|].
  cbn [Index_Spec.offsets_from Phrase_Proofs3.offsets_from]. rewrite IH. destruct (x =? t); reflexivity.
Qed.

Lemma tp_posn_bound t : forall docs i, short_docs docs -> Forall (fun kp => snd kp <= 262142) (tp_from i docs t).
Proof.
  induction docs as [|d r IH]; intros i Hs; [constructor|]. inversion Hs as [|? ? Hd Hr]; subst.
  cbn [tp_from]. apply Forall_app. split.
  - rewrite Forall_map. eapply Forall_impl; [|apply (offsets_bounds t d 0)]. cbn beta. intros p Hp. cbn [snd]. lia.
  - apply IH. exact Hr.
Qed.

Lemma term_pairs_good docs t : wf_docs docs -> good_term (term_pairs docs t).
Proof.
  intro Hwf. rewrite term_pairs_tp. destruct (tp_wf docs Hwf t) as [S B].
  split; [exact S|]. split; [exact B|]. split.
  - apply tp_posn_bound. apply wf_short. exact Hwf.
  - pose proof (tp_length_le t docs 0) as H1. pose proof (concat_length_bound docs (wf_short _ Hwf)) as H2.
    destruct Hwf as [_ Hn]. rewrite pow28 in Hn. rewrite pow62. lia.
Qed.

(* two different terms never share a (document, offset) *)
Lemma offsets_distinct t t' d j p :
  In p (Index_Spec.offsets_from j t d) -> In p (Index_Spec.offsets_from j t' d) -> t = t'.
Proof.
  rewrite !offsets_from_eq, !In_offsets_from. intros [_ H1] [_ H2]. congruence.
Qed.

Lemma tp_distinct t t' : forall docs i kp, In kp (tp_from i docs t) -> In kp (tp_from i docs t') -> t = t'.
Proof.
  induction docs as [|d r IH]; intros i kp H1 H2; [destruct H1|]. cbn [tp_from] in H1, H2.
  apply in_app_iff in H1. apply in_app_iff in H2.
  pose proof (tp_keys t r (i + 1)) as K1. pose proof (tp_keys t' r (i + 1)) as K2. rewrite Forall_forall in K1, K2.
  destruct H1 as [H1|H1]; destruct H2 as [H2|H2].
  - apply in_map_iff in H1. apply in_map_iff in H2. destruct H1 as (p & <- & H1). destruct H2 as (p' & E & H2).
    inversion E; subst p'. exact (offsets_distinct t t' d 0 p H1 H2).
  - apply in_map_iff in H1. destruct H1 as (p & <- & _). specialize (K2 _ H2). cbn [fst] in K2. lia.
  - apply in_map_iff in H2. destruct H2 as (p & <- & _). specialize (K1 _ H1). cbn [fst] in K1. lia.
  - exact (IH (i + 1) kp H1 H2).
Qed.

Lemma adj_distinct_terms docs : forall ph, no_adjacent_repeat ph = true -> adj_distinct (map (term_pairs docs) ph).
Proof.
  induction ph as [|x t IH]; intro H; [exact I|]. destruct t as [|y t']; [exact I|].
  cbn [no_adjacent_repeat] in H. apply andb_true_iff in H. destruct H as [Hxy H].
  specialize (IH H). cbn [map] in *. cbn [adj_distinct]. split; [|exact IH].
  intros kp H1 H2. rewrite term_pairs_tp in H1, H2. pose proof (tp_distinct _ _ _ _ _ H1 H2) as E. subst y.
  rewrite N.eqb_refl in Hxy. discriminate.
Qed.

(* the rows of document d in the (doc, offset) list of t are the offsets of t in that document *)
Lemma tp_filter t d : forall docs i,
  map snd (filter (fun kp => fst kp =? d) (tp_from i docs t)) =
  if d <? i then [] else Index_Spec.offsets_from 0 t (nth (N.to_nat (d - i)) docs []).
Proof.
  induction docs as [|x r IH]; intro i.
  - cbn [tp_from filter map]. destruct (d <? i); [reflexivity|]. destruct (N.to_nat (d - i)); reflexivity.
  - cbn [tp_from]. rewrite filter_app, map_app, IH, filter_map_comm, map_map. cbn [fst snd].
    destruct (N.ltb_spec d i) as [Hlt|Hge].
    + destruct (N.ltb_spec d (i + 1)); [|lia]. destruct (N.eqb_spec i d); [lia|].
      rewrite Phrase_Proofs2.filter_false. reflexivity.
    + destruct (N.eqb_spec i d) as [->|Hne].
      * destruct (N.ltb_spec d (d + 1)); [|lia]. rewrite Phrase_Proofs2.filter_true, map_id, app_nil_r.
        replace (d - d) with 0 by lia. reflexivity.
      * destruct (N.ltb_spec d (i + 1)); [lia|]. rewrite Phrase_Proofs2.filter_false. cbn [map app].
        replace (N.to_nat (d - i)) with (S (N.to_nat (d - (i + 1)))) by lia. reflexivity.
Qed.

Lemma forall2_offsets docs k : forall ph,
  Forall2 (fun t ps => map snd (filter (fun kp => fst kp =? N.of_nat k) ps) = offsets t (nth k docs []))
          ph (map (term_pairs docs) ph).
Proof.
  induction ph as [|t r IH]; cbn [map]; constructor; [|exact IH].
  rewrite term_pairs_tp, tp_filter. destruct (N.ltb_spec (N.of_nat k) 0); [lia|].
  rewrite N.sub_0_r, Nat2N.id. unfold offsets. apply offsets_from_eq.
Qed.

(* every posting word of a term carries a real row number *)
Lemma encode_word_pair ps w : sorted2 ps -> bounded ps -> In w (encode_spec ps) -> exists p, In (key w, p) ps.
Proof.
  intros Hs Hb Hw. destruct (enc_lt64 ps Hs Hb w Hw) as [H64 Hnz].
  pose proof (N.bit_log2 (lsb w) Hnz) as Hbit. rewrite lsb_testbit in Hbit.
  apply andb_true_iff in Hbit. destruct Hbit as [Hi Ht]. apply N.ltb_lt in Hi.
  set (i := N.log2 (lsb w)) in *.
  exists (18 * bucket w + i). apply (encode_spec_has ps Hs Hb). exists w. split; [exact Hw|].
  split; [reflexivity|]. split; [lia|].
  replace ((18 * bucket w + i) mod 18) with i by lia. exact Ht.
Qed.

Lemma get_all_posts_ok docs ix : index_ok docs ix -> forall ph, (forall t, In t ph -> In t (concat docs)) ->
  get_all_posts ix ph = AOk (map encode_spec (map (term_pairs docs) ph)).
Proof.
  intros (Hp & _) ph. induction ph as [|t r IH]; intro H; [reflexivity|].
  cbn [get_all_posts map]. unfold get_posts at 1. rewrite Hp by (apply H; now left). cbn [abind].
  rewrite IH by (intros; apply H; now right). reflexivity.
Qed.

(* ------------------------------------------------------------------ *)
(* 3. list facts: the spec side and the scatter                         *)
(* ------------------------------------------------------------------ *)
Lemma prefix_incl : forall ph d, prefix_eqb ph d = true -> incl ph d.
Proof.
  induction ph as [|p pt IH]; intros d H; [intros x []|]. destruct d as [|x dt]; [discriminate|].
  cbn [prefix_eqb] in H. apply andb_true_iff in H. destruct H as [E H]. apply N.eqb_eq in E. subst x.
  intros y [<-|Hy]; [now left|right; exact (IH dt H y Hy)].
Qed.

Lemma occ_absent t ph : In t ph -> forall d, ~ In t d -> occ ph d = 0.
Proof.
  intro Ht. induction d as [|x d IH]; intro Hn; [reflexivity|]. cbn [occ].
  rewrite IH by (intro; apply Hn; now right).
  destruct (prefix_eqb ph (x :: d)) eqn:E; [|reflexivity]. exfalso. apply Hn. apply (prefix_incl _ _ E). exact Ht.
Qed.

Lemma occ_absent_all t ph : In t ph -> forall docs : list (list N), ~ In t (concat docs) ->
  map (occ ph) docs = repeat 0 (length docs).
Proof.
  intro Ht. induction docs as [|d r IH]; intro H; [reflexivity|]. cbn [concat] in H. rewrite in_app_iff in H.
  cbn [map length repeat]. f_equal; [apply (occ_absent t); tauto|apply IH; tauto].
Qed.

Lemma prefix_eqb_app : forall ph d, prefix_eqb ph d = true <-> exists suf, d = ph ++ suf.
Proof.
  induction ph as [|p pt IH]; intro d.
  - split; [intros _; exists d; reflexivity|reflexivity].
  - destruct d as [|x dt]; cbn [prefix_eqb].
    + split; [discriminate|]. intros (suf & E). discriminate.
    + rewrite andb_true_iff, N.eqb_eq, IH. split.
      * intros (-> & suf & ->). exists suf. reflexivity.
      * intros (suf & E). cbn [app] in E. inversion E; subst. split; [reflexivity|]. exists suf. reflexivity.
Qed.

(* occ is positive exactly when the phrase is a contiguous block of the document *)
Lemma occ_pos_iff ph : ph <> [] -> forall d, occ ph d > 0 <-> exists pre suf, d = pre ++ ph ++ suf.
Proof.
  intro Hne. induction d as [|x d IH].
  - cbn [occ]. split; [lia|]. intros (pre & suf & E). symmetry in E. apply app_eq_nil in E. destruct E as [_ E].
    apply app_eq_nil in E. destruct E as [E _]. contradiction.
  - cbn [occ]. split.
    + intro H. destruct (prefix_eqb ph (x :: d)) eqn:E.
      * apply prefix_eqb_app in E. destruct E as (suf & E). exists [], suf. exact E.
      * assert (H' : occ ph d > 0) by lia. apply IH in H'. destruct H' as (pre & suf & ->).
        exists (x :: pre), suf. reflexivity.
    + intros (pre & suf & E). destruct pre as [|y pre'].
      * cbn [app] in E. assert (P : prefix_eqb ph (x :: d) = true) by (apply prefix_eqb_app; exists suf; exact E).
        rewrite P. lia.
      * cbn [app] in E. inversion E; subst.
        assert (H' : occ ph (pre' ++ ph ++ suf) > 0) by (apply IH; exists pre', suf; reflexivity).
        destruct (prefix_eqb ph (y :: pre' ++ ph ++ suf)); lia.
Qed.

Lemma forallb_false {A} (f : A -> bool) : forall l, forallb f l = false -> exists x, In x l /\ f x = false.
Proof.
  induction l as [|a l IH]; intro H; [discriminate|]. cbn [forallb] in H. destruct (f a) eqn:E.
  - cbn [andb] in H. destruct (IH H) as (x & Hx & Fx). exists x. split; [now right|exact Fx].
  - exists a. split; [now left|exact E].
Qed.

Lemma find_rev_lookup : forall (l : list (N * N)) k, NoDup (map fst l) ->
  match find (fun iv => fst iv =? k) (rev l) with Some iv => snd iv | None => 0 end =
  match lookup k l with Some n => n | None => 0 end.
Proof.
  induction l as [|[a v] l IH]; intros k Hnd; [reflexivity|]. cbn [map fst] in Hnd. inversion Hnd as [|? ? Hni Hnd']; subst.
  cbn [rev lookup]. rewrite Linear_Proofs.find_app. cbn [find fst snd]. rewrite (N.eqb_sym a k).
  destruct (N.eqb_spec k a) as [->|Hne].
  - rewrite find_absent; [reflexivity|]. apply Forall_forall. intros g Hg E. apply Hni. rewrite <- E.
    apply in_map. apply in_rev. exact Hg.
  - rewrite <- (IH k Hnd'). destruct (find (fun iv => fst iv =? k) (rev l)); reflexivity.
Qed.

(* phrase_freqs[ids] = counts on a zero buffer: distinct in-range ids give the lookup-or-0 vector *)
Lemma store_zeros res n : NoDup (map fst res) -> Forall (fun iv => fst iv < N.of_nat n) res ->
  exists d', store_many (repeat 0 n) res = Done d' /\ length d' = n /\
    forall k, (k < n)%nat -> nth k d' 0 = match lookup (N.of_nat k) res with Some v => v | None => 0 end.
Proof.
  intros Hnd Hf. destruct (store_many_ok res (repeat 0 n)) as (d' & E & L & Hn).
  { rewrite repeat_length. exact Hf. }
  rewrite repeat_length in L, Hn. exists d'. split; [exact E|]. split; [exact L|].
  intros k Hk. rewrite (Hn k Hk), nth_repeat. apply find_rev_lookup. exact Hnd.
Qed.

(* ------------------------------------------------------------------ *)
(* 4. C03                                                              *)
(* ------------------------------------------------------------------ *)
Lemma phrase_freqs_absent docs ix ph t : index_ok docs ix -> In t ph -> ~ In t (concat docs) ->
  phrase_freqs ix ph = AOk (repeat 0 (length docs)).
Proof.
  intros (_ & _ & Ht & Hl) Hin Hnot. unfold phrase_freqs.
  assert (HL : length (ix_lens ix) = length docs) by (rewrite Hl; apply map_length).
  destruct (forallb (known ix) ph) eqn:K; cbn [negb].
  - rewrite forallb_forall in K. specialize (K t Hin). rewrite (known_false docs ix t Ht Hnot) in K. discriminate.
  - rewrite HL. reflexivity.
Qed.

Theorem phrase_freqs_on_index docs ix ph : wf_docs docs -> index_ok docs ix ->
  (2 <= length ph)%nat -> no_adjacent_repeat ph = true ->
  phrase_freqs ix ph = AOk (phrase_spec docs ph).
Proof.
  intros Hwf Hok Hlen Hrep.
  destruct (forallb (known ix) ph) eqn:K.
  - (* (b) every term occurs in the corpus *)
    pose proof Hok as (Hp & Ha & Ht & Hl).
    assert (HL : length (ix_lens ix) = length docs) by (rewrite Hl; apply map_length).
    assert (Hall : forall t, In t ph -> In t (concat docs)).
    { intros t Hin. rewrite forallb_forall in K. apply (known_iff docs ix t Ht). apply K. exact Hin. }
    unfold phrase_freqs. rewrite K, HL. cbn [negb].
    destruct (Nat.ltb_spec (length ph) 2) as [Hlt|_]; [lia|].
    rewrite (get_all_posts_ok docs ix Hok ph Hall). cbn [abind].
    set (pss := map (term_pairs docs) ph).
    assert (Hg : Forall good_term pss).
    { apply Forall_map. apply Forall_forall. intros t _. apply term_pairs_good. exact Hwf. }
    assert (Hlen' : (2 <= length pss)%nat) by (unfold pss; rewrite map_length; exact Hlen).
    pose proof (adj_distinct_terms docs ph Hrep) as Hadj. fold pss in Hadj.
    destruct (phrase_on_encoded pss Hlen' Hg Hadj) as (res & E & Hs & Hocc).
    rewrite E. cbn [abind].
    assert (Hkeys : Forall (fun iv => fst iv < N.of_nat (length docs)) res).
    { apply Forall_forall. intros iv Hiv.
      destruct (compute_phrase_freqs_keys (map encode_spec pss) res) with (k := fst iv) as (P & w & HP & Hw & Ek).
      - rewrite map_length. exact Hlen'.
      - apply Forall_map. eapply Forall_impl; [|exact Hg]. intros ps (S1 & B1 & M1 & L1).
        apply encode_spec_canonical; assumption.
      - apply adj_distinct_disj; assumption.
      - exact E.
      - apply in_map. exact Hiv.
      - apply in_map_iff in HP. destruct HP as (ps & <- & Hps). unfold pss in Hps.
        apply in_map_iff in Hps. destruct Hps as (t & <- & _).
        destruct (tp_wf docs Hwf t) as [S B]. rewrite term_pairs_tp in Hw.
        destruct (encode_word_pair _ w S B Hw) as (p & Hin).
        pose proof (tp_keys t docs 0) as TK. rewrite Forall_forall in TK. specialize (TK _ Hin).
        cbn [fst] in TK. rewrite <- Ek. lia. }
    destruct (store_zeros res (length docs) (ss_lt_nodup' _ Hs) Hkeys) as (d' & Es & Ld & Hn).
    rewrite Es. cbn [lift]. f_equal. unfold phrase_spec.
    apply (nth_ext _ _ 0 (occ ph [])); [rewrite map_length; exact Ld|].
    intros k Hk. rewrite Ld in Hk. rewrite (Hn k Hk), (map_nth (occ ph)).
    apply Hocc. apply forall2_offsets.
  - (* (a) some term occurs nowhere: zeros, and the phrase occurs nowhere *)
    destruct (forallb_false _ _ K) as (t & Hin & Hk).
    assert (Hnot : ~ In t (concat docs)).
    { intro Hc. destruct Hok as (_ & _ & Ht & _). rewrite (known_true docs ix t Ht Hc) in Hk. discriminate. }
    rewrite (phrase_freqs_absent docs ix ph t Hok Hin Hnot). f_equal. unfold phrase_spec. symmetry.
    apply (occ_absent_all t); assumption.
Qed.

(* C03: for every corpus within the limits (documents of at most 262143 tokens, fewer than 2^28 rows), every
   batch size, every phrase of at least two terms without an immediately repeated term -- its terms present in
   the corpus or not -- indexing succeeds and the phrase frequency of every document is the number of offsets
   at which the phrase occurs contiguously and in order. *)
Theorem C03_phrase_freqs : forall docs bs ph, wf_docs docs -> (2 <= length ph)%nat -> no_adjacent_repeat ph = true ->
  exists ix, index false bs docs = AOk ix /\ phrase_freqs ix ph = AOk (phrase_spec docs ph).
Proof.
  intros docs bs ph Hwf Hlen Hrep. destruct (index_any_ok docs bs Hwf) as (ix & E & Hok).
  exists ix. split; [exact E|]. apply phrase_freqs_on_index; assumption.
Qed.

(* a phrase containing a term that occurs nowhere scores 0 everywhere (TermMissingError -> zeros); this path
   runs before the length check, so it needs neither  2 <= length ph  nor the no-repeat condition *)
Corollary C03_absent_term_zero : forall docs bs ph t, wf_docs docs -> In t ph -> ~ In t (concat docs) ->
  exists ix, index false bs docs = AOk ix /\ phrase_freqs ix ph = AOk (repeat 0 (length docs)).
Proof.
  intros docs bs ph t Hwf Hin Hnot. destruct (index_any_ok docs bs Hwf) as (ix & E & Hok).
  exists ix. split; [exact E|]. exact (phrase_freqs_absent docs ix ph t Hok Hin Hnot).
Qed.

(* the reported frequency of row d is positive exactly when the phrase is a contiguous block of document d
   (rows beyond the corpus read as 0 / the empty document, so no range condition on d is needed) *)
Corollary C03_positive_iff_contains : forall docs bs ph, wf_docs docs -> (2 <= length ph)%nat ->
  no_adjacent_repeat ph = true ->
  exists ix res, index false bs docs = AOk ix /\ phrase_freqs ix ph = AOk res /\ length res = length docs /\
    forall d, nth d res 0 > 0 <-> exists pre suf, nth d docs [] = pre ++ ph ++ suf.
Proof.
  intros docs bs ph Hwf Hlen Hrep. destruct (C03_phrase_freqs docs bs ph Hwf Hlen Hrep) as (ix & E & Hpf).
  exists ix, (phrase_spec docs ph). split; [exact E|]. split; [exact Hpf|]. unfold phrase_spec.
  split; [apply map_length|]. intro d.
  change 0 with (occ ph []) at 1. rewrite (map_nth (occ ph)). apply occ_pos_iff.
  intro; subst ph. cbn [length] in Hlen. lia.
Qed.

(* the hypotheses are satisfiable and the statement is the expected one on a small corpus
   (overlapping occurrences, a term absent from a document, an empty document) *)
Example C03_instance :
  let docs := [[1;2;9;3;1;2];[1;2;1;2;1];[];[5;1;2;3;1;2;7];[2;1]] in
  wf_docs docs /\
  phrase_spec docs [1;2] = [2;2;0;2;0] /\ phrase_spec docs [1;2;1] = [0;2;0;0;0] /\
  phrase_spec docs [1;2;3;1;2] = [0;0;0;1;0] /\ phrase_spec docs [1;77] = [0;0;0;0;0].
Proof.
  cbv zeta. split; [|repeat split; reflexivity].
  split; [repeat constructor; cbn; lia|rewrite pow28; cbn; lia].
Qed.

Print Assumptions compute_phrase_freqs_keys.
Print Assumptions phrase_freqs_on_index.
Print Assumptions C03_absent_term_zero.
Print Assumptions C03_positive_iff_contains.
Print Assumptions C03_phrase_freqs.
