(* Position-range restricted term / phrase frequency (C16):
   roaringish.py:slice (267-282), roaringish_ops.pyx:_payload_slice, popcount.pyx:popcount64_reduce (233-240),
   middle_out.py:PosnBitArray.termfreqs (481-496) and phrase_freqs (427-437), postings.py:termfreqs.
   No proofs here. *)
From SA Require Import Base.Prelude Kernels.Linear Codec.Codec Index.Index Query.Phrase.
Open Scope N_scope.

(* encoder.slice(encoded, keys=None, min_payload, max_payload) — after the fix of D10 the bounds are
   shifted into the word-index (bucket) field before being compared with  word & payload_msb_mask *)
Definition slice_range_w (ws : list N) (min_p max_p : option N) : range_res :=
  match min_p, max_p with
  | None, None => RangeOk ws
  | _, _ =>
      if match min_p with Some m => negb (m mod lsb_bits =? 0) | None => false end then RangeValueError
      else if match max_p with Some m => negb (m mod lsb_bits =? lsb_bits - 1) | None => false end then RangeValueError
      else
        let lo := match min_p with Some m => m | None => 0 end in
        let hi := match max_p with Some m => m | None => wmask end in
        RangeOk (payload_slice ws payload_msb_mask
                   (N.shiftl (lo / lsb_bits) msb_bits)
                   (N.min (N.shiftl (hi / lsb_bits) msb_bits) wmask))
  end.

Definition api_of_range (r : range_res) : api (list N) :=
  match r with RangeOk ws => AOk ws | RangeValueError => AExc ValueError end.

(* SearchArray.termfreqs(str, min_posn, max_posn), non-subset branch *)
Definition termfreqs_range (ix : sindex) (t : N) (min_p max_p : option N) : api (list N) :=
  match min_p, max_p with
  | None, None => termfreqs ix t
  | _, _ =>
      if negb (known ix t) then AOk (repeat 0 (length (ix_lens ix)))
      else
        ado w <- get_posts ix t;
        ado s <- api_of_range (slice_range_w w min_p max_p);
        ado kc <- lift (num_values_per_key s);           (* typed empty arrays when nothing is left *)
        unpy (as_dense (map fst kc) (map snd kc) (n_docs ix))
  end.

Fixpoint slice_all (ix : sindex) (ts : list N) (min_p max_p : option N) : api (list (list N)) :=
  match ts with
  | [] => AOk []
  | t :: rest =>
      ado w <- get_posts ix t;
      ado s <- api_of_range (slice_range_w w min_p max_p);
      ado ss <- slice_all ix rest min_p max_p;
      AOk (s :: ss)
  end.

Definition phrase_freqs_range (ix : sindex) (ts : list N) (min_p max_p : option N) : api (list N) :=
  match min_p, max_p with
  | None, None => phrase_freqs ix ts
  | _, _ =>
      if negb (forallb (known ix) ts) then AOk (repeat 0 (length (ix_lens ix)))
      else if Nat.ltb (length ts) 2 then AExc ValueError
      else
        ado enc <- slice_all ix ts min_p max_p;
        ado pf <- compute_phrase_freqs enc;
        lift (store_many (repeat 0 (length (ix_lens ix))) pf)
  end.
