(* Spec for C03: contiguous in-order occurrences of a phrase in a token list. *)
From SA Require Import Base.Prelude.
Open Scope N_scope.

Fixpoint prefix_eqb (ph d : list N) : bool :=
  match ph, d with
  | [], _ => true
  | p :: pt, x :: dt => andb (p =? x) (prefix_eqb pt dt)
  | _ :: _, [] => false
  end.
(* number of offsets at which the phrase occurs (overlapping occurrences all count) *)
Fixpoint occ (ph d : list N) : N :=
  match d with
  | [] => 0
  | _ :: t => (if prefix_eqb ph d then 1 else 0) + occ ph t
  end.
(* greedy left-to-right count of non-overlapping occurrences *)
Fixpoint occ_nonoverlap_aux (fuel : nat) (ph d : list N) : N :=
  match fuel with
  | O => 0
  | S f => match d with
           | [] => 0
           | _ :: t => if prefix_eqb ph d then 1 + occ_nonoverlap_aux f ph (skipn (length ph) d)
                       else occ_nonoverlap_aux f ph t
           end
  end.
Definition occ_nonoverlap (ph d : list N) : N := occ_nonoverlap_aux (S (length d)) ph d.
Definition phrase_spec (docs : list (list N)) (ph : list N) : list N := map (occ ph) docs.
Definition phrase_nonoverlap_spec (docs : list (list N)) (ph : list N) : list N := map (occ_nonoverlap ph) docs.
Fixpoint no_adjacent_repeat (ph : list N) : bool :=
  match ph with x :: ((y :: _) as t) => andb (negb (x =? y)) (no_adjacent_repeat t) | _ => true end.
