(* Exact phrase search, part 3 (Stage 3): the bigram chain.

   Main results (all closed):
     intersect_matches_spec / intersect_counts_ok     the running minimum over documents
     phrase_l2r_correct, phrase_r2l_correct           both chain directions compute, per document, the number
                                                       of start offsets p with p + j - 1 in the positions of the
                                                       j-th term for every j  (phrase_matches)
     compute_phrase_freqs_correct                      hence so does the strategy chooser
     phrase_matches_occ                                that number is  occ ph doc  when the j-th posting list
                                                       holds the offsets of the j-th phrase term in doc *)
From Coq Require Import Sorted Permutation.
From SA Require Import Base.Prelude Kernels.Spec Kernels.Intersect Kernels.Linear Kernels.Intersect_Correct
  Kernels.Adjacent_Correct Kernels.Linear_Proofs Codec.Codec Codec.Codec_Spec Codec.Codec_Proofs Index.Index
  Query.Phrase Query.Phrase_Spec Query.Phrase_Proofs Query.Phrase_Proofs2.
Open Scope N_scope.

(* ------------------------------------------------------------------ *)
(* (document, count) lists                                             *)
(* ------------------------------------------------------------------ *)
Definition counts_ok (cs : list (N * N)) (f : N -> list N) : Prop :=
  StronglySorted N.lt (map fst cs) /\
  Forall (fun kv => fst kv < 268435456) cs /\
  forall d, match lookup d cs with Some n => n = N.of_nat (length (f d)) | None => f d = [] end.

Lemma lookup_notin {V} d (l : list (N * V)) : ~ In d (map fst l) -> lookup d l = None.
Proof.
  induction l as [|[k v] l IH]; intro H; [reflexivity|]. cbn [lookup]. cbn [map fst In] in H.
  destruct (N.eqb_spec d k); [subst; tauto|]. apply IH. tauto.
Qed.

Lemma sorted_length_bound : forall l lo m, StronglySorted N.lt l -> Forall (fun x => lo <= x < m) l ->
  N.of_nat (length l) + lo <= m \/ l = [].
Proof.
  induction l as [|a t IH]; intros lo m Hs Hf; [now right|]. left.
  inversion Hs as [|? ? Hs' Hlt]; subst. inversion Hf as [|? ? Ha Hf']; subst.
  destruct (IH (a + 1) m Hs') as [H| -> ].
  - apply Forall_forall. intros x Hx. rewrite Forall_forall in Hlt, Hf'. specialize (Hlt x Hx). specialize (Hf' x Hx). lia.
  - cbn [length]. lia.
  - cbn [length]. lia.
Qed.

Lemma counts_ok_length cs f : counts_ok cs f -> N.of_nat (length cs) < 2 ^ 62.
Proof.
  intros (Hs & Hf & _). rewrite <- (map_length fst cs).
  destruct (sorted_length_bound (map fst cs) 0 268435456 Hs) as [H| ->].
  - apply Forall_map. eapply Forall_impl; [|exact Hf]. cbn. intros; lia.
  - rewrite pow62. lia.
  - rewrite pow62. cbn. lia.
Qed.

Lemma land_wmask' x : x < 18446744073709551616 -> N.land x wmask = x.
Proof.
  intro H. change wmask with (N.ones 64). rewrite N.land_ones, pow64. apply N.mod_small. exact H.
Qed.
Lemma mvals_wmask' l : Forall (fun x => x < 18446744073709551616) l -> mvals l wmask = l.
Proof.
  intro H. unfold mvals. rewrite <- (map_id l) at 2. apply map_ext_in. intros x Hx.
  rewrite Forall_forall in H. apply land_wmask'. apply H. exact Hx.
Qed.

Definition min_pair (xy : (N * N) * (N * N)) : N * N :=
  (fst (fst xy), N.min (snd (fst xy)) (snd (snd xy))).
Definition kpairs (old new : list (N * N)) : list ((N * N) * (N * N)) :=
  lpairs fst fst (fun v => v) old new.

Theorem intersect_matches_spec old new :
  StronglySorted N.lt (map fst old) -> StronglySorted N.lt (map fst new) ->
  Forall (fun kv => fst kv < 268435456) old -> Forall (fun kv => fst kv < 268435456) new ->
  N.of_nat (length old) < 2 ^ 62 -> N.of_nat (length new) < 2 ^ 62 ->
  intersect_matches (Some old) new = AOk (map min_pair (kpairs old new)).
Proof.
  intros So Sn Fo Fn Lo Ln. unfold intersect_matches.
  assert (Ho : Forall (fun x => x < 18446744073709551616) (map fst old))
    by (apply Forall_map; eapply Forall_impl; [|exact Fo]; cbn; intros; lia).
  assert (Hn : Forall (fun x => x < 18446744073709551616) (map fst new))
    by (apply Forall_map; eapply Forall_impl; [|exact Fn]; cbn; intros; lia).
  rewrite intersect_drop_correct.
  - cbn [lift abind]. unfold intersect_drop_spec. cbn zeta. rewrite !mvals_wmask' by assumption.
    pose proof (genf_pairs fst fst (fun v => v) (0, 0) (0, 0) new old [] (ss_lt_nodup' _ So)) as G.
    cbn [app length N.of_nat] in G. change (enum_from 0 (map fst old)) with (enum (map fst old)) in G.
    fold (kpairs old new) in G. rewrite <- G.
    set (P := flat_map _ _). f_equal. rewrite map_map. clear G.
    induction P as [|[a b] P IH]; [reflexivity|]. cbn [map map2 fst snd]. rewrite IH. reflexivity.
  - apply sorted_msorted. rewrite mvals_wmask' by assumption. apply ss_lt_sorted_le'. exact So.
  - apply sorted_msorted. rewrite mvals_wmask' by assumption. apply ss_lt_sorted_le'. exact Sn.
  - rewrite map_length. exact Lo.
  - rewrite map_length. exact Ln.
Qed.

Lemma lookup_find d (l : list (N * N)) :
  lookup d l = option_map snd (find (fun y => fst y =? d) l).
Proof.
  induction l as [|[k v] l IH]; [reflexivity|]. cbn [lookup find fst]. rewrite (N.eqb_sym k d).
  destruct (d =? k); [reflexivity|exact IH].
Qed.

Lemma kpairs_keys old new k : In k (map fst (map min_pair (kpairs old new))) -> In k (map fst old).
Proof.
  rewrite map_map. intro H. apply in_map_iff in H. destruct H as ([x y] & <- & Hp).
  apply In_spairs in Hp. destruct Hp as [Hx _]. cbn [min_pair fst]. apply in_map. exact Hx.
Qed.

Lemma lookup_kpairs d : forall old new, StronglySorted N.lt (map fst old) ->
  lookup d (map min_pair (kpairs old new)) =
  match lookup d old, lookup d new with Some a, Some b => Some (N.min a b) | _, _ => None end.
Proof.
  induction old as [|[k v] t IH]; intros new Hs; [reflexivity|].
  cbn [map fst] in Hs. inversion Hs as [|? ? Hs' Hlt]; subst.
  unfold kpairs, lpairs. rewrite spairs_cons, map_app. fold (lpairs fst fst (fun v => v) t new). fold (kpairs t new).
  cbn [lookup]. unfold partner. cbn [fst].
  destruct (N.eqb_spec d k) as [->|Hne].
  - rewrite (lookup_find k new).
    destruct (find (fun y => fst y =? k) new) as [y|] eqn:E; cbn [option_map map app].
    + cbn [lookup min_pair fst snd]. rewrite N.eqb_refl. reflexivity.
    + apply lookup_notin. intro Hin. apply kpairs_keys in Hin.
      rewrite Forall_forall in Hlt. apply Hlt in Hin. lia.
  - rewrite <- (IH new Hs').
    destruct (find (fun y => fst y =? k) new) as [y|]; cbn [map app]; [|reflexivity].
    cbn [lookup min_pair fst snd]. destruct (N.eqb_spec d k); [contradiction|reflexivity].
Qed.

Theorem intersect_counts_ok old new f g : counts_ok old f -> counts_ok new g ->
  (forall d, (length (g d) <= length (f d))%nat) ->
  exists res, intersect_matches (Some old) new = AOk res /\ counts_ok res g.
Proof.
  intros Ho Hn Hle. pose proof (counts_ok_length _ _ Ho) as Lo. pose proof (counts_ok_length _ _ Hn) as Ln.
  destruct Ho as (So & Fo & Po). destruct Hn as (Sn & Fn & Pn).
  exists (map min_pair (kpairs old new)). split; [apply intersect_matches_spec; assumption|].
  split; [|split].
  - rewrite map_map. cbn [min_pair fst]. apply (ss_spairs _ fst). exact So.
  - apply Forall_map, Forall_forall. intros [x y] Hp. apply In_spairs in Hp. destruct Hp as [Hx _].
    cbn [min_pair fst]. rewrite Forall_forall in Fo. apply (Fo x Hx).
  - intro d. rewrite lookup_kpairs by exact So. specialize (Po d). specialize (Pn d). specialize (Hle d).
    destruct (lookup d old) as [a|].
    + destruct (lookup d new) as [b|]; [|exact Pn]. subst. lia.
    + rewrite Po in Hle. destruct (g d); [|cbn [length] in Hle; lia]. destruct (lookup d new); reflexivity.
Qed.

(* ------------------------------------------------------------------ *)
(* more facts about one step                                           *)
(* ------------------------------------------------------------------ *)
Lemma step_counts_keys A B k : wf_post A -> wf_post B -> In k (map fst (step_counts A B)) -> k < 268435456.
Proof.
  intros HA HB. unfold step_counts, sort_merge_counts_spec. cbn zeta. rewrite !combine_fst_snd. intro H.
  apply runs_sum_keys_in in H.
  apply (Permutation_in _ (Permutation_sym (Permutation_map fst (fold_insert_kv_perm _)))) in H.
  rewrite map_app, in_app_iff in H. destruct H as [H|H].
  - apply runs_sum_keys_in in H. unfold inner_kvs in H. rewrite map_map in H. cbn [fst] in H.
    apply in_map_iff in H. destruct H as (p & <- & Hp). apply (ipairs_wf A B HA HB) in Hp.
    apply key_lt. tauto.
  - rewrite run_counts_runs_sum in H. apply runs_sum_keys_in in H. rewrite map_map in H. cbn [fst] in H.
    rewrite map_id in H. apply (Permutation_in _ (Permutation_sym (np_sort_perm _))) in H.
    apply in_map_iff in H. destruct H as (p & <- & Hp). apply (aps_wf A B HA HB) in Hp.
    apply key_lt. tauto.
Qed.

Lemma step_counts_ok c A B : wf_post A -> wf_post B ->
  counts_ok (step_counts A B) (dposns (step_next c A B)).
Proof.
  intros HA HB. destruct (step_counts_spec A B HA HB) as [Hs Hl]. split; [exact Hs|]. split.
  - apply Forall_forall. intros kv Hkv. apply (step_counts_keys A B _ HA HB). apply in_map. exact Hkv.
  - intro d. specialize (Hl d). cbn zeta in Hl. rewrite step_next_dposns by assumption.
    rewrite map_length. fold (matched A B d) in Hl.
    destruct (lookup d (step_counts A B)); [exact Hl|].
    destruct (matched A B d); [reflexivity|cbn [length] in Hl; lia].
Qed.

(* the continuation's headers are headers of the side that carries the result positions *)
Definition side (c : cont) (A B : list N) : list N := match c with CR => B | CL => A end.

Lemma step_next_side c A B w : wf_post A -> wf_post B -> In w (step_next c A B) ->
  exists z, In z (side c A B) /\ hdr w = hdr z.
Proof.
  intros HA HB H. apply In_step_next in H. destruct H as [(wi & Hwi & ->)|[Hw _]].
  - destruct (NI_in c A B wi Hwi) as (x & y & Hp & ->). apply (ipairs_wf A B HA HB) in Hp. cbn [fst snd] in Hp.
    assert (Hh : hdr (contI c (x, y)) = hdr x) by (apply contI_hdr; tauto).
    assert (Hh' : hdr (if memh (contI c (x, y)) (NA c A B) then N.lor (contI c (x, y)) (cbit c) else contI c (x, y)) = hdr x).
    { destruct (memh (contI c (x, y)) (NA c A B)); [rewrite hdr_lor_cbit|]; exact Hh. }
    rewrite Hh'. destruct c; cbn [side]; [exists x; tauto|exists y; split; [tauto|symmetry; tauto]].
  - destruct (NA_in c A B w Hw) as (x & y & Hp & ->). pose proof (asel_lt c A B HA HB _ Hp) as Hs.
    rewrite contA_hdr by exact Hs. apply (aps_wf A B HA HB) in Hp. cbn [fst snd] in Hp.
    destruct c; cbn [asel side fst snd]; [exists x|exists y]; tauto.
Qed.

Lemma step_next_length c A B : wf_post A -> wf_post B ->
  (length (step_next c A B) <= length (side c A B))%nat.
Proof.
  intros HA HB. rewrite <- (map_length hdr (step_next c A B)), <- (map_length hdr (side c A B)).
  apply NoDup_incl_length.
  - apply ss_lt_nodup'. apply (step_next_wf c A B HA HB).
  - intros h Hh. apply in_map_iff in Hh. destruct Hh as (w & <- & Hw).
    destruct (step_next_side c A B w HA HB Hw) as (z & Hz & ->). apply in_map. exact Hz.
Qed.

Definition disj (P Q : list N) : Prop := forall d p, has P d p -> has Q d p -> False.
Definition canonical (P : list N) : Prop := wf_post P /\ Forall (fun w => lsb w <> 0) P /\ N.of_nat (length P) < 2 ^ 62.

Lemma matched_has A B d p : In p (matched A B d) <-> has A d p /\ has B d (p + 1).
Proof. unfold matched. rewrite filter_In, In_dposns, mem_n_In, In_dposns. tauto. Qed.

(* ------------------------------------------------------------------ *)
(* the chains, per document                                            *)
(* ------------------------------------------------------------------ *)
Fixpoint l2r_pos (M : list N) (rest : list (list N)) (d : N) : list N :=
  match rest with
  | [] => M
  | P :: more => l2r_pos (map (fun p => p + 1) (filter (fun p => mem_n (p + 1) (dposns P d)) M)) more d
  end.
Fixpoint r2l_pos (M : list N) (rest : list (list N)) (d : N) : list N :=
  match rest with
  | [] => M
  | P :: more => r2l_pos (filter (fun p => mem_n (p + 1) M) (dposns P d)) more d
  end.
Fixpoint chain_disj (P0 : list N) (rest : list (list N)) : Prop :=
  match rest with [] => True | P :: more => disj P0 P /\ chain_disj P more end.

Lemma counts_ok_ext cs f g : (forall d, f d = g d) -> counts_ok cs f -> counts_ok cs g.
Proof.
  intros E (H1 & H2 & H3). split; [exact H1|]. split; [exact H2|]. intro d. rewrite <- E. apply H3.
Qed.
Lemma filter_length_le' {X} (P : X -> bool) l : (length (filter P l) <= length l)%nat.
Proof. induction l as [|x l IH]; [cbn; lia|]. cbn [filter]. destruct (P x); cbn [length]; lia. Qed.
Lemma disj_sym P Q : disj P Q -> disj Q P.
Proof. intros H d p H1 H2. exact (H d p H2 H1). Qed.

Lemma step_CR_dposns A B d : wf_post A -> wf_post B ->
  dposns (step_next CR A B) d = map (fun p => p + 1) (filter (fun p => mem_n (p + 1) (dposns B d)) (dposns A d)).
Proof. intros HA HB. rewrite step_next_dposns by assumption. reflexivity. Qed.
Lemma step_CL_dposns A B d : wf_post A -> wf_post B ->
  dposns (step_next CL A B) d = filter (fun p => mem_n (p + 1) (dposns B d)) (dposns A d).
Proof.
  intros HA HB. rewrite step_next_dposns by assumption. cbn [off].
  transitivity (map (fun p => p) (matched A B d)); [|apply map_id]. apply map_ext. intro p. lia.
Qed.

Lemma l2r_loop_correct : forall rest lhs P0 acc,
  wf_post lhs -> N.of_nat (length lhs) < 2 ^ 62 -> (forall d p, has lhs d p -> has P0 d p) ->
  Forall canonical rest -> chain_disj P0 rest -> counts_ok acc (dposns lhs) ->
  exists res, l2r_loop lhs rest (Some acc) = AOk res /\
              counts_ok res (fun d => l2r_pos (dposns lhs d) rest d).
Proof.
  induction rest as [|P more IH]; intros lhs P0 acc Hwf Hlen Hsub Hcan Hdis Hok.
  - exists acc. split; [reflexivity|exact Hok].
  - inversion Hcan as [|? ? (HwP & HnzP & HlP) Hcan']; subst. destruct Hdis as [Hd0 Hdis'].
    assert (Hnc : nocommon lhs P).
    { apply nocommon_of_disjoint; try assumption; [right; exact HnzP|].
      intros d p H1 H2. apply (Hd0 d p); [apply Hsub; exact H1|exact H2]. }
    cbn [l2r_loop]. rewrite (bigram_freqs_eq CR lhs P Hwf HwP Hlen HlP Hnc). cbn [abind fst snd].
    destruct (intersect_counts_ok acc (step_counts lhs P) (dposns lhs) (dposns (step_next CR lhs P)) Hok
                (step_counts_ok CR lhs P Hwf HwP)) as (acc' & E & Hok').
    { intro d. rewrite step_CR_dposns, map_length by assumption. apply filter_length_le'. }
    rewrite E. cbn [abind].
    destruct (IH (step_next CR lhs P) P acc') as (res & Er & Hres); try assumption.
    + apply step_next_wf; assumption.
    + pose proof (step_next_length CR lhs P Hwf HwP) as Hl. cbn [side] in Hl. rewrite pow62 in *. lia.
    + intros d q Hq. apply (step_has CR lhs P Hwf HwP) in Hq. destruct Hq as (p & -> & _ & H2). exact H2.
    + exists res. split; [exact Er|]. eapply counts_ok_ext; [|exact Hres].
      intro d. cbn [l2r_pos]. rewrite step_CR_dposns by assumption. reflexivity.
Qed.

Lemma r2l_shrinks (M L : list N) : NoDup L ->
  (length (filter (fun p => mem_n (p + 1) M) L) <= length M)%nat.
Proof.
  intro Hnd. rewrite <- (map_length (fun p => p + 1)). apply NoDup_incl_length.
  - apply FinFun.Injective_map_NoDup; [intros a b; lia|]. apply NoDup_filter. exact Hnd.
  - intros q Hq. apply in_map_iff in Hq. destruct Hq as (p & <- & Hp). apply filter_In in Hp.
    apply mem_n_In. tauto.
Qed.

Lemma r2l_loop_correct : forall rest rhs P0 acc,
  wf_post rhs -> N.of_nat (length rhs) < 2 ^ 62 -> (forall d p, has rhs d p -> has P0 d p) ->
  Forall canonical rest -> chain_disj P0 rest -> counts_ok acc (dposns rhs) ->
  exists res, r2l_loop rhs rest (Some acc) = AOk res /\
              counts_ok res (fun d => r2l_pos (dposns rhs d) rest d).
Proof.
  induction rest as [|P more IH]; intros rhs P0 acc Hwf Hlen Hsub Hcan Hdis Hok.
  - exists acc. split; [reflexivity|exact Hok].
  - inversion Hcan as [|? ? (HwP & HnzP & HlP) Hcan']; subst. destruct Hdis as [Hd0 Hdis'].
    assert (Hnc : nocommon P rhs).
    { apply nocommon_of_disjoint; try assumption; [left; exact HnzP|].
      intros d p H1 H2. apply (Hd0 d p); [apply Hsub; exact H2|exact H1]. }
    cbn [r2l_loop]. rewrite (bigram_freqs_eq CL P rhs HwP Hwf HlP Hlen Hnc). cbn [abind fst snd].
    destruct (intersect_counts_ok acc (step_counts P rhs) (dposns rhs) (dposns (step_next CL P rhs)) Hok
                (step_counts_ok CL P rhs HwP Hwf)) as (acc' & E & Hok').
    { intro d. rewrite step_CL_dposns by assumption. apply r2l_shrinks.
      apply ss_lt_nodup', dposns_sorted. exact HwP. }
    rewrite E. cbn [abind].
    destruct (IH (step_next CL P rhs) P acc') as (res & Er & Hres); try assumption.
    + apply step_next_wf; assumption.
    + pose proof (step_next_length CL P rhs HwP Hwf) as Hl. cbn [side] in Hl. rewrite pow62 in *. lia.
    + intros d q Hq. apply (step_has CL P rhs HwP Hwf) in Hq. destruct Hq as (p & -> & H1 & _).
      cbn [off]. rewrite N.add_0_r. exact H1.
    + exists res. split; [exact Er|]. eapply counts_ok_ext; [|exact Hres].
      intro d. cbn [r2l_pos]. rewrite step_CL_dposns by assumption. reflexivity.
Qed.

(* ------------------------------------------------------------------ *)
(* the per-document answer: start offsets at which every term matches  *)
(* ------------------------------------------------------------------ *)
Fixpoint match_at (Ps : list (list N)) (d p : N) : bool :=
  match Ps with [] => true | P :: more => mem_n p (dposns P d) && match_at more d (p + 1) end.
Definition phrase_matches (Ps : list (list N)) (d : N) : list N :=
  match Ps with [] => [] | P :: _ => filter (match_at Ps d) (dposns P d) end.

Lemma mem_n_filter v (f : N -> bool) l : mem_n v (filter f l) = mem_n v l && f v.
Proof.
  apply bool_eq_iff. rewrite andb_true_iff, !mem_n_In, filter_In. tauto.
Qed.

Lemma pm_head P more d : phrase_matches (P :: more) d = filter (fun p => match_at more d (p + 1)) (dposns P d).
Proof.
  cbn [phrase_matches]. apply filter_ext_in. intros p Hp. cbn [match_at].
  apply mem_n_In in Hp. rewrite Hp. reflexivity.
Qed.

Lemma l2r_pos_spec : forall rest M d,
  l2r_pos M rest d = map (fun p => p + N.of_nat (length rest)) (filter (fun p => match_at rest d (p + 1)) M).
Proof.
  induction rest as [|P more IH]; intros M d.
  - cbn [l2r_pos match_at length]. rewrite filter_true. rewrite <- (map_id M) at 1. apply map_ext. intro; cbn; lia.
  - cbn [l2r_pos]. rewrite IH, filter_map_comm, filter_filter, map_map. cbn [match_at length].
    apply map_ext. intro p. lia.
Qed.

Lemma pm_cons P Q more d :
  phrase_matches (P :: Q :: more) d = filter (fun p => mem_n (p + 1) (phrase_matches (Q :: more) d)) (dposns P d).
Proof.
  rewrite pm_head. apply filter_ext. intro p. cbn [phrase_matches]. rewrite mem_n_filter. cbn [match_at].
  destruct (mem_n (p + 1) (dposns Q d)); reflexivity.
Qed.

Lemma pm_single P d : phrase_matches [P] d = dposns P d.
Proof. rewrite pm_head. cbn [match_at]. apply filter_true. Qed.

Lemma r2l_pos_app : forall l1 l2 M d, r2l_pos M (l1 ++ l2) d = r2l_pos (r2l_pos M l1 d) l2 d.
Proof. induction l1 as [|P l1 IH]; intros; [reflexivity|]. cbn [app r2l_pos]. apply IH. Qed.

Lemma r2l_pos_spec d : forall front back, back <> [] ->
  r2l_pos (phrase_matches back d) (rev front) d = phrase_matches (front ++ back) d.
Proof.
  induction front as [|x f IH]; intros back Hb; [reflexivity|].
  cbn [rev app]. rewrite r2l_pos_app, IH by exact Hb. cbn [r2l_pos].
  destruct (f ++ back) as [|Q more] eqn:E.
  - destruct f; [cbn in E; congruence|discriminate].
  - symmetry. apply pm_cons.
Qed.

(* ------------------------------------------------------------------ *)
(* Stage 3: both chain directions                                      *)
(* ------------------------------------------------------------------ *)
Definition answer_ok (res : list (N * N)) (Ps : list (list N)) : Prop :=
  StronglySorted N.lt (map fst res) /\
  forall d, match lookup d res with
            | Some n => n = N.of_nat (length (phrase_matches Ps d))
            | None => phrase_matches Ps d = []
            end.

Theorem phrase_l2r_correct : forall P1 P2 more,
  Forall canonical (P1 :: P2 :: more) -> chain_disj P1 (P2 :: more) ->
  exists res, phrase_l2r (P1 :: P2 :: more) = AOk res /\ answer_ok res (P1 :: P2 :: more).
Proof.
  intros P1 P2 more Hcan Hdis.
  inversion Hcan as [|? ? (Hw1 & Hnz1 & Hl1) Hcan1]; subst.
  inversion Hcan1 as [|? ? (Hw2 & Hnz2 & Hl2) Hcan2]; subst.
  destruct Hdis as [Hd12 Hdis'].
  assert (Hnc : nocommon P1 P2) by (apply nocommon_of_disjoint; try assumption; right; exact Hnz2).
  cbn [phrase_l2r l2r_loop]. rewrite (bigram_freqs_eq CR P1 P2 Hw1 Hw2 Hl1 Hl2 Hnc).
  cbn [abind fst snd intersect_matches].
  destruct (l2r_loop_correct more (step_next CR P1 P2) P2 (step_counts P1 P2)) as (res & Er & Hres); try assumption.
  - apply step_next_wf; assumption.
  - pose proof (step_next_length CR P1 P2 Hw1 Hw2) as Hl. cbn [side] in Hl. rewrite pow62 in *. lia.
  - intros d q Hq. apply (step_has CR P1 P2 Hw1 Hw2) in Hq. destruct Hq as (p & -> & _ & H2). exact H2.
  - apply step_counts_ok; assumption.
  - exists res. split; [exact Er|]. destruct Hres as (Hs & _ & Hl). split; [exact Hs|].
    intro d. specialize (Hl d). cbn beta in Hl.
    assert (E : length (l2r_pos (dposns (step_next CR P1 P2) d) more d) = length (phrase_matches (P1 :: P2 :: more) d)).
    { rewrite step_CR_dposns by assumption.
      change (l2r_pos (map (fun q => q + 1) (filter (fun p => mem_n (p + 1) (dposns P2 d)) (dposns P1 d))) more d)
        with (l2r_pos (dposns P1 d) (P2 :: more) d).
      rewrite l2r_pos_spec, map_length, pm_head. reflexivity. }
    destruct (lookup d res).
    + rewrite <- E. exact Hl.
    + rewrite Hl in E. cbn [length] in E. destruct (phrase_matches (P1 :: P2 :: more) d); [reflexivity|discriminate].
Qed.

(* right-to-left: the list is consumed from its end; stated on the reversed list as the model does *)
Theorem phrase_r2l_correct : forall Pn Pm front,
  Forall canonical (Pn :: Pm :: front) -> chain_disj Pn (Pm :: front) ->
  exists res, phrase_r2l (rev (Pn :: Pm :: front)) = AOk res /\ answer_ok res (rev (Pn :: Pm :: front)).
Proof.
  intros Pn Pm front Hcan Hdis. unfold phrase_r2l. rewrite rev_involutive.
  inversion Hcan as [|? ? (Hwn & Hnzn & Hln) Hcan1]; subst.
  inversion Hcan1 as [|? ? (Hwm & Hnzm & Hlm) Hcan2]; subst.
  destruct Hdis as [Hdnm Hdis'].
  assert (Hnc : nocommon Pm Pn).
  { apply nocommon_of_disjoint; try assumption; [left; exact Hnzm|]. apply disj_sym. exact Hdnm. }
  cbn [r2l_loop]. rewrite (bigram_freqs_eq CL Pm Pn Hwm Hwn Hlm Hln Hnc).
  cbn [abind fst snd intersect_matches].
  destruct (r2l_loop_correct front (step_next CL Pm Pn) Pm (step_counts Pm Pn)) as (res & Er & Hres); try assumption.
  - apply step_next_wf; assumption.
  - pose proof (step_next_length CL Pm Pn Hwm Hwn) as Hl. cbn [side] in Hl. rewrite pow62 in *. lia.
  - intros d q Hq. apply (step_has CL Pm Pn Hwm Hwn) in Hq. destruct Hq as (p & -> & H1 & _).
    cbn [off]. rewrite N.add_0_r. exact H1.
  - apply step_counts_ok; assumption.
  - exists res. split; [exact Er|]. destruct Hres as (Hs & _ & Hl). split; [exact Hs|].
    intro d. specialize (Hl d). cbn beta in Hl.
    assert (E : r2l_pos (dposns (step_next CL Pm Pn) d) front d = phrase_matches (rev (Pn :: Pm :: front)) d).
    { rewrite step_CL_dposns by assumption.
      change (r2l_pos (filter (fun p => mem_n (p + 1) (dposns Pn d)) (dposns Pm d)) front d)
        with (r2l_pos (dposns Pn d) (Pm :: front) d).
      rewrite <- pm_single. change (rev (Pn :: Pm :: front)) with (rev (Pm :: front) ++ [Pn]).
      set (F := rev (Pm :: front)).
      assert (EF : Pm :: front = rev F) by (unfold F; symmetry; apply rev_involutive).
      rewrite EF. apply r2l_pos_spec. discriminate. }
    rewrite E in Hl. exact Hl.
Qed.

(* ------------------------------------------------------------------ *)
(* compute_phrase_freqs: either strategy                               *)
(* ------------------------------------------------------------------ *)
Fixpoint adj_disj (Ps : list (list N)) : Prop :=
  match Ps with P :: ((Q :: _) as t) => disj P Q /\ adj_disj t | _ => True end.

Lemma chain_of_adj : forall rest P0, adj_disj (P0 :: rest) -> chain_disj P0 rest.
Proof.
  induction rest as [|P more IH]; intros P0 H; [exact I|]. cbn [adj_disj] in H. destruct H as [H1 H2].
  split; [exact H1|]. apply IH. exact H2.
Qed.

Lemma adj_disj_snoc : forall l a b, adj_disj (l ++ [a]) -> disj a b -> adj_disj (l ++ [a; b]).
Proof.
  induction l as [|c l IH]; intros a b H Hab; [cbn; auto|].
  destruct l as [|c' l'].
  - cbn [app adj_disj] in *. tauto.
  - cbn [app] in *. cbn [adj_disj] in H. destruct H as [H1 H2]. cbn [adj_disj]. split; [exact H1|].
    apply (IH a b); assumption.
Qed.

Lemma adj_disj_rev : forall Ps, adj_disj Ps -> adj_disj (rev Ps).
Proof.
  induction Ps as [|P t IH]; intro H; [exact I|]. destruct t as [|Q t']; [exact I|].
  cbn [adj_disj] in H. destruct H as [H1 H2]. specialize (IH H2).
  cbn [rev] in *. rewrite <- app_assoc. cbn [app]. apply adj_disj_snoc; [exact IH|apply disj_sym; exact H1].
Qed.

Theorem compute_phrase_freqs_correct : forall Ps,
  (2 <= length Ps)%nat -> Forall canonical Ps -> adj_disj Ps ->
  exists res, compute_phrase_freqs Ps = AOk res /\ answer_ok res Ps.
Proof.
  intros Ps Hlen Hcan Hadj. unfold compute_phrase_freqs. destruct (choose_strategy Ps).
  - destruct Ps as [|P1 [|P2 more]]; cbn [length] in Hlen; try lia.
    apply phrase_l2r_correct; [exact Hcan|]. apply chain_of_adj. exact Hadj.
  - pose proof (rev_involutive Ps) as E. pose proof (rev_length Ps) as L.
    pose proof (adj_disj_rev Ps Hadj) as Hadj'. apply Forall_rev in Hcan.
    destruct (rev Ps) as [|Pn [|Pm front]]; cbn [length] in L; try lia.
    rewrite <- E. apply phrase_r2l_correct; [exact Hcan|]. apply chain_of_adj. exact Hadj'.
Qed.

(* ------------------------------------------------------------------ *)
(* the answer is occ ph doc                                            *)
(* ------------------------------------------------------------------ *)
Fixpoint offsets_from (i t : N) (doc : list N) : list N :=
  match doc with
  | [] => []
  | x :: r => (if x =? t then [i] else []) ++ offsets_from (i + 1) t r
  end.
(* ascending offsets of token t in doc *)
Definition offsets (t : N) (doc : list N) : list N := offsets_from 0 t doc.

Lemma In_offsets_from : forall doc i t p,
  In p (offsets_from i t doc) <-> i <= p /\ nth_error doc (N.to_nat (p - i)) = Some t.
Proof.
  induction doc as [|x r IH]; intros i t p; cbn [offsets_from].
  - split; [intros []|]. intros [_ H]. destruct (N.to_nat (p - i)); discriminate.
  - rewrite in_app_iff, IH. split.
    + intros [H|[H1 H2]].
      * destruct (N.eqb_spec x t) as [->|]; [|destruct H]. destruct H as [<-|[]].
        split; [lia|]. replace (i - i) with 0 by lia. reflexivity.
      * split; [lia|]. replace (p - i) with (N.succ (p - (i + 1))) by lia. rewrite N2Nat.inj_succ. exact H2.
    + intros [H1 H2]. destruct (N.eq_dec p i) as [->|Hne].
      * left. replace (i - i) with 0 in H2 by lia. cbn in H2. inversion H2; subst. rewrite N.eqb_refl. now left.
      * right. split; [lia|]. replace (p - i) with (N.succ (p - (i + 1))) in H2 by lia.
        rewrite N2Nat.inj_succ in H2. exact H2.
Qed.

Lemma skipn_cons_nth {X} : forall (l : list X) n x, nth_error l n = Some x -> skipn n l = x :: skipn (S n) l.
Proof.
  induction l as [|y l IH]; intros [|n] x H; cbn in H; try discriminate.
  - inversion H; subst. reflexivity.
  - cbn [skipn]. rewrite (IH n x H). reflexivity.
Qed.
Lemma skipn_none {X} (l : list X) n : nth_error l n = None -> skipn n l = [].
Proof. intro H. apply skipn_all2. apply nth_error_None. exact H. Qed.

Lemma match_at_prefix d doc : forall ph Ps, Forall2 (fun t P => dposns P d = offsets t doc) ph Ps ->
  forall p, match_at Ps d p = prefix_eqb ph (skipn (N.to_nat p) doc).
Proof.
  induction 1 as [|t P ph' more Ht _ IH]; intro p; [reflexivity|].
  cbn [match_at]. rewrite IH, Ht.
  replace (N.to_nat (p + 1)) with (S (N.to_nat p)) by lia.
  destruct (nth_error doc (N.to_nat p)) as [x|] eqn:E.
  - rewrite (skipn_cons_nth doc _ x E). cbn [prefix_eqb]. f_equal.
    apply bool_eq_iff. rewrite mem_n_In. unfold offsets. rewrite In_offsets_from, N.sub_0_r, E, N.eqb_eq.
    split; [intros [_ H]; congruence|intros ->; split; [lia|reflexivity]].
  - rewrite (skipn_none doc _ E). cbn [prefix_eqb].
    replace (mem_n p (offsets t doc)) with false; [reflexivity|].
    symmetry. apply not_true_is_false. rewrite mem_n_In. unfold offsets. rewrite In_offsets_from, N.sub_0_r, E.
    intros [_ H]. discriminate.
Qed.

Lemma occ_offsets t ph' : forall doc i,
  N.of_nat (length (filter (fun p => prefix_eqb (t :: ph') (skipn (N.to_nat (p - i)) doc)) (offsets_from i t doc))) =
  occ (t :: ph') doc.
Proof.
  induction doc as [|x r IH]; intro i; [reflexivity|].
  cbn [offsets_from occ]. rewrite filter_app, app_length, Nat2N.inj_add. f_equal.
  - cbn [prefix_eqb]. rewrite (N.eqb_sym t x). destruct (N.eqb_spec x t) as [->|Hne]; [|reflexivity].
    cbn [filter]. replace (i - i) with 0 by lia. cbn [N.to_nat skipn prefix_eqb].
    rewrite N.eqb_refl. cbn [andb]. destruct (prefix_eqb ph' r); reflexivity.
  - rewrite <- (IH (i + 1)). f_equal. f_equal. apply filter_ext_in. intros p Hp.
    apply In_offsets_from in Hp. destruct Hp as [Hp _].
    replace (N.to_nat (p - i)) with (S (N.to_nat (p - (i + 1)))) by lia. reflexivity.
Qed.

Theorem phrase_matches_occ : forall ph Ps d doc, ph <> [] ->
  Forall2 (fun t P => dposns P d = offsets t doc) ph Ps ->
  N.of_nat (length (phrase_matches Ps d)) = occ ph doc.
Proof.
  intros ph Ps d doc Hne HF. pose proof (match_at_prefix d doc ph Ps HF) as Hm.
  destruct HF as [|t P ph' more Ht HF']; [congruence|].
  cbn [phrase_matches]. rewrite Ht. unfold offsets. rewrite <- (occ_offsets t ph' doc 0).
  f_equal. f_equal. apply filter_ext. intro p. rewrite Hm, N.sub_0_r. reflexivity.
Qed.

(* the end-to-end statement for one document: whichever strategy runs, the count reported for document d
   (0 when d is not listed) is  occ ph doc *)
Corollary compute_phrase_freqs_occ : forall ph Ps,
  (2 <= length Ps)%nat -> Forall canonical Ps -> adj_disj Ps ->
  exists res, compute_phrase_freqs Ps = AOk res /\
    StronglySorted N.lt (map fst res) /\
    forall d doc, Forall2 (fun t P => dposns P d = offsets t doc) ph Ps ->
      match lookup d res with Some n => n | None => 0 end = occ ph doc.
Proof.
  intros ph Ps Hlen Hcan Hadj.
  destruct (compute_phrase_freqs_correct Ps Hlen Hcan Hadj) as (res & E & Hs & Hl).
  exists res. split; [exact E|]. split; [exact Hs|]. intros d doc HF.
  assert (Hne : ph <> []).
  { intro; subst. inversion HF; subst. cbn [length] in Hlen. lia. }
  rewrite <- (phrase_matches_occ ph Ps d doc Hne HF). specialize (Hl d).
  destruct (lookup d res); [exact Hl|]. rewrite Hl. reflexivity.
Qed.

(* ------------------------------------------------------------------ *)
(* canonical term postings: the codec spec meets the hypotheses        *)
(* ------------------------------------------------------------------ *)
Lemma word_form w : w < 18446744073709551616 -> w = word_of (key w) (bucket w) (lsb w).
Proof.
  intro H. unfold word_of. rewrite pow36, pow18, key_arith, lsb_arith. unfold bucket. lia.
Qed.

Lemma word_rows_wposns w : w < 18446744073709551616 -> word_rows w = map (fun p => (key w, p)) (wposns w).
Proof.
  intro H. rewrite (word_form w H) at 1.
  rewrite word_rows_word by (rewrite ?pow28, ?pow18; first [apply key_lt; exact H|apply bucket_lt|apply lsb_lt]).
  unfold decode_triple, wposns. rewrite map_map. apply map_ext. intro i. f_equal. lia.
Qed.

Section Encoded.
Variable ps : list (N * N).
Hypothesis Hs : sorted2 ps.
Hypothesis Hb : bounded ps.

Lemma enc_lt64 w : In w (encode_spec ps) -> w < 18446744073709551616 /\ lsb w <> 0.
Proof.
  intro H. destruct (encode_canonical ps Hs Hb) as [_ Hf]. rewrite Forall_forall in Hf.
  destruct (Hf w H) as [H1 H2]. rewrite pow64 in H2. split; [exact H2|exact H1].
Qed.

Lemma enc_rows : flat_map (fun w => map (fun p => (key w, p)) (wposns w)) (encode_spec ps) = ps.
Proof.
  rewrite <- (rows_encode_spec ps Hs Hb) at 2.
  assert (H : forall l, (forall w, In w l -> w < 18446744073709551616) ->
              flat_map (fun w => map (fun p => (key w, p)) (wposns w)) l = flat_map word_rows l).
  { induction l as [|w l IH]; intro Hl; [reflexivity|]. cbn [flat_map].
    rewrite word_rows_wposns by (apply Hl; now left). rewrite IH by (intros; apply Hl; now right). reflexivity. }
  apply H. intros w Hw. apply enc_lt64. exact Hw.
Qed.

Theorem encode_spec_has d p : has (encode_spec ps) d p <-> In (d, p) ps.
Proof.
  rewrite <- enc_rows at 2. rewrite in_flat_map, <- In_dposns. unfold dposns. rewrite in_flat_map. split.
  - intros (w & Hw & Hp). apply filter_In in Hw. destruct Hw as [Hw Hk]. apply N.eqb_eq in Hk.
    exists w. split; [exact Hw|]. apply in_map_iff. exists p. split; [congruence|exact Hp].
  - intros (w & Hw & Hp). apply in_map_iff in Hp. destruct Hp as (p' & E & Hp'). inversion E; subst.
    exists w. split; [|exact Hp']. apply filter_In. split; [exact Hw|apply N.eqb_refl].
Qed.

Theorem encode_spec_dposns d : dposns (encode_spec ps) d = map snd (filter (fun kp => fst kp =? d) ps).
Proof.
  rewrite <- enc_rows at 2. unfold dposns.
  induction (encode_spec ps) as [|w l IH]; [reflexivity|].
  cbn [filter flat_map]. rewrite filter_app, map_app, <- IH. clear IH.
  assert (E : map snd (filter (fun kp => fst kp =? d) (map (fun p => (key w, p)) (wposns w))) =
              if key w =? d then wposns w else []).
  { rewrite filter_map_comm, map_map. cbn [fst snd].
    destruct (key w =? d); [rewrite filter_true; apply map_id|rewrite filter_false; reflexivity]. }
  rewrite E. destruct (key w =? d); reflexivity.
Qed.

Lemma encode_aux_length' : forall l cur,
  (length (encode_aux cur l) <= length l + match cur with Some _ => 1 | None => 0 end)%nat.
Proof.
  induction l as [|[k p] l IH]; intros [[[k0 b0] s0]|]; cbn [encode_aux length]; try lia.
  - destruct ((k =? k0) && (p / 18 =? b0)).
    + specialize (IH (Some (k0, b0, N.lor s0 (onehot p)))). cbv beta iota in IH. lia.
    + cbn [length]. specialize (IH (Some (k, p / 18, onehot p))). cbv beta iota in IH. lia.
  - specialize (IH (Some (k, p / 18, onehot p))). cbv beta iota in IH. lia.
Qed.

(* positions up to MAX_POSN - 1 = 262142, as the indexer guarantees *)
Theorem encode_spec_canonical : Forall (fun kp => snd kp <= 262142) ps -> N.of_nat (length ps) < 2 ^ 62 ->
  canonical (encode_spec ps).
Proof.
  intros Hmax Hlen. destruct (encode_canonical ps Hs Hb) as [Hsort _].
  split; [|split].
  - split.
    + rewrite (map_ext hdr header_of) by (intro; symmetry; apply header_of_hdr). exact Hsort.
    + apply Forall_forall. intros w Hw. destruct (enc_lt64 w Hw) as [H64 Hnz]. split; [exact H64|].
      pose proof (N.bit_log2 (lsb w) Hnz) as Hbit. rewrite lsb_testbit in Hbit.
      apply andb_true_iff in Hbit. destruct Hbit as [Hi Ht]. apply N.ltb_lt in Hi.
      set (i := N.log2 (lsb w)) in *.
      assert (Hin : In (key w, 18 * bucket w + i) ps).
      { apply encode_spec_has. exists w. split; [exact Hw|]. split; [reflexivity|]. split; [lia|].
        replace ((18 * bucket w + i) mod 18) with i by lia. exact Ht. }
      rewrite Forall_forall in Hmax. specialize (Hmax _ Hin). cbn [snd] in Hmax. lia.
  - apply Forall_forall. intros w Hw. apply enc_lt64. exact Hw.
  - pose proof (encode_aux_length' ps None) as H. unfold encode_spec. cbn in H. rewrite pow62 in *. lia.
Qed.
End Encoded.

Lemma encode_spec_disj ps qs : sorted2 ps -> bounded ps -> sorted2 qs -> bounded qs ->
  (forall kp, In kp ps -> In kp qs -> False) -> disj (encode_spec ps) (encode_spec qs).
Proof.
  intros Hs1 Hb1 Hs2 Hb2 H d p H1 H2. apply (H (d, p)).
  - apply (encode_spec_has ps Hs1 Hb1). exact H1.
  - apply (encode_spec_has qs Hs2 Hb2). exact H2.
Qed.

(* the input of a phrase query at the codec level: one strictly increasing (doc, position) list per phrase
   term; consecutive terms differ, so consecutive lists share no (doc, position) pair *)
Definition good_term (ps : list (N * N)) : Prop :=
  sorted2 ps /\ bounded ps /\ Forall (fun kp => snd kp <= 262142) ps /\ N.of_nat (length ps) < 2 ^ 62.
Fixpoint adj_distinct (pss : list (list (N * N))) : Prop :=
  match pss with
  | ps :: ((qs :: _) as t) => (forall kp, In kp ps -> In kp qs -> False) /\ adj_distinct t
  | _ => True
  end.

Lemma adj_distinct_disj : forall pss, Forall good_term pss -> adj_distinct pss -> adj_disj (map encode_spec pss).
Proof.
  induction pss as [|ps t IH]; intros Hg Ha; [exact I|]. destruct t as [|qs t']; [exact I|].
  inversion Hg as [|? ? (S1 & B1 & _) Hg']; subst. inversion Hg' as [|? ? (S2 & B2 & _) _]; subst.
  cbn [adj_distinct] in Ha. destruct Ha as [H1 H2]. cbn [map adj_disj]. split.
  - apply encode_spec_disj; assumption.
  - apply (IH Hg' H2).
Qed.

Theorem phrase_on_encoded : forall pss, (2 <= length pss)%nat -> Forall good_term pss -> adj_distinct pss ->
  exists res, compute_phrase_freqs (map encode_spec pss) = AOk res /\
    StronglySorted N.lt (map fst res) /\
    forall ph d doc,
      Forall2 (fun t ps => map snd (filter (fun kp => fst kp =? d) ps) = offsets t doc) ph pss ->
      match lookup d res with Some n => n | None => 0 end = occ ph doc.
Proof.
  intros pss Hlen Hg Ha.
  assert (Hcan : Forall canonical (map encode_spec pss)).
  { apply Forall_map. eapply Forall_impl; [|exact Hg]. intros ps (S1 & B1 & M1 & L1).
    apply encode_spec_canonical; assumption. }
  destruct (compute_phrase_freqs_correct (map encode_spec pss)) as (res & E & Hs & Hl).
  - rewrite map_length. exact Hlen.
  - exact Hcan.
  - apply adj_distinct_disj; assumption.
  - exists res. split; [exact E|]. split; [exact Hs|]. intros ph d doc HF.
    assert (HF' : Forall2 (fun t P => dposns P d = offsets t doc) ph (map encode_spec pss)).
    { clear - HF Hg. induction HF as [|t ps ph' pss' Ht _ IH]; [constructor|].
      inversion Hg as [|? ? (S1 & B1 & _) Hg']; subst. cbn [map]. constructor; [|apply IH; exact Hg'].
      rewrite encode_spec_dposns by assumption. exact Ht. }
    assert (Hne : ph <> []).
    { intro; subst. inversion HF; subst. cbn [length] in Hlen. lia. }
    rewrite <- (phrase_matches_occ ph _ d doc Hne HF'). specialize (Hl d).
    destruct (lookup d res); [exact Hl|]. rewrite Hl. reflexivity.
Qed.

(* the hypotheses are satisfiable and the conclusion is the expected one: documents
     0 = [7;8;7;8;9]  1 = [8;7]  2 = [7;8] at positions 17,18 (a word-boundary crossing), phrase [7;8] *)
Example phrase_on_encoded_instance :
  let p7 := [(0, 0); (0, 2); (1, 1); (2, 17)] in
  let p8 := [(0, 1); (0, 3); (1, 0); (2, 18)] in
  good_term p7 /\ good_term p8 /\ adj_distinct [p7; p8] /\
  compute_phrase_freqs (map encode_spec [p7; p8]) = AOk [(0, 2); (1, 0); (2, 1)] /\
  occ [7; 8] [7; 8; 7; 8; 9] = 2 /\ occ [7; 8] [8; 7] = 0.
Proof.
  cbv zeta.
  assert (G : forall l : list (N * N), sorted2 l ->
              forallb (fun kp => (fst kp <? 268435456) && (snd kp <=? 262142)) l = true ->
              (length l < 100)%nat -> good_term l).
  { intros l Hs Hf0 Hl. pose proof (proj1 (forallb_forall _ _) Hf0) as Hf. clear Hf0. split; [exact Hs|]. split; [|split].
    - apply Forall_forall. intros kp Hkp. specialize (Hf kp Hkp). rewrite pow28, pow18.
      apply andb_true_iff in Hf. destruct Hf as [H1 H2]. apply N.ltb_lt in H1. apply N.leb_le in H2. lia.
    - apply Forall_forall. intros kp Hkp. specialize (Hf kp Hkp).
      apply andb_true_iff in Hf. destruct Hf as [H1 H2]. apply N.leb_le in H2. exact H2.
    - rewrite pow62. lia. }
  split; [apply G; [cbn; unfold lt2; cbn; intuition lia|reflexivity|cbn; lia]|].
  split; [apply G; [cbn; unfold lt2; cbn; intuition lia|reflexivity|cbn; lia]|].
  split.
  { cbn [adj_distinct]. split; [|exact I]. intros kp H1 H2. cbn [In] in H1, H2.
    destruct H1 as [<-|[<-|[<-|[<-|[]]]]]; destruct H2 as [H2|[H2|[H2|[H2|[]]]]]; discriminate. }
  split; [vm_compute; reflexivity|]. split; reflexivity.
Qed.


Print Assumptions intersect_counts_ok.
Print Assumptions phrase_l2r_correct.
Print Assumptions phrase_r2l_correct.
Print Assumptions compute_phrase_freqs_correct.
Print Assumptions phrase_matches_occ.
Print Assumptions compute_phrase_freqs_occ.
Print Assumptions encode_spec_canonical.
Print Assumptions encode_spec_dposns.
Print Assumptions phrase_on_encoded.
