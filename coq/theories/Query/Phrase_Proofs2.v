(* Exact phrase search, part 2 (Stage 2): one bigram step  bigram_freqs c A B  on well-formed posting lists.

   Main results (all closed):
     kernel_pairs          the fused kernel's four index lists select the header-equal / header-adjacent pairs
     set_adjbit_spec       what _set_adjbit_at_header returns
     bigram_step           for c = CR / CL: the call succeeds, the continuation is well formed and holds exactly
                           the END (CR) / START (CL) positions of the matched bigrams, the counts are strictly
                           sorted by document and every listed count is the number of matches (zero entries
                           are possible), unlisted documents have no match
     bigram_step_CR, bigram_step_CL   the two instances in list form *)
From Coq Require Import Sorted Permutation.
From SA Require Import Base.Prelude Kernels.Spec Kernels.Intersect Kernels.Linear Kernels.Intersect_Correct
  Kernels.Adjacent_Correct Kernels.Linear_Proofs Codec.Codec Codec.Codec_Spec Codec.Codec_Proofs Index.Index
  Query.Phrase Query.Phrase_Spec Query.Phrase_Proofs.
Open Scope N_scope.

(* ------------------------------------------------------------------ *)
(* generic list facts                                                  *)
(* ------------------------------------------------------------------ *)
Lemma combine_fst_snd {A B} (ps : list (A * B)) : combine (map fst ps) (map snd ps) = ps.
Proof. induction ps as [|[a b] ps IH]; cbn [map combine fst snd]; [reflexivity|]. rewrite IH. reflexivity. Qed.
Lemma combine_map2 {A B C} (f : A -> B) (g : A -> C) l : combine (map f l) (map g l) = map (fun x => (f x, g x)) l.
Proof. induction l as [|x l IH]; cbn [map combine]; [reflexivity|]. rewrite IH. reflexivity. Qed.
Lemma map2_fst_snd {A B C} (f : A -> B -> C) ps : map2 f (map fst ps) (map snd ps) = map (fun p => f (fst p) (snd p)) ps.
Proof. induction ps as [|[a b] ps IH]; cbn [map map2 fst snd]; [reflexivity|]. rewrite IH. reflexivity. Qed.
Lemma map2_map_r {A B C D} (f : A -> B -> C) (g : D -> A) (l : list D) (r : list B) :
  map2 f (map g l) r = map2 (fun d b => f (g d) b) l r.
Proof. revert r. induction l as [|x l IH]; intros [|y r]; cbn [map map2]; try reflexivity. rewrite IH. reflexivity. Qed.
Lemma map2_map2_r {A B C D} (f : A -> B -> C) (g : C -> B -> D) : forall L R,
  map2 g (map2 f L R) R = map2 (fun l r => g (f l r) r) L R.
Proof. induction L as [|x L IH]; intros [|y R]; cbn [map2]; try reflexivity. rewrite IH. reflexivity. Qed.
Lemma map2_map2_l {A B C D} (f : A -> B -> C) (g : C -> A -> D) : forall L R,
  map2 g (map2 f L R) L = map2 (fun l r => g (f l r) l) L R.
Proof. induction L as [|x L IH]; intros [|y R]; cbn [map2]; try reflexivity. rewrite IH. reflexivity. Qed.
Lemma pow62 : 2 ^ 62 = 4611686018427387904. Proof. reflexivity. Qed.
Lemma filter_true {A} (l : list A) : filter (fun _ => true) l = l.
Proof. induction l as [|x l IH]; cbn [filter]; [reflexivity|]. rewrite IH. reflexivity. Qed.

Lemma map_pointwise {A B C} (g : A -> C) (h : B -> C) : forall la lb, length la = length lb ->
  (forall k a b, nth_error la k = Some a -> nth_error lb k = Some b -> g a = h b) -> map g la = map h lb.
Proof.
  induction la as [|a la IH]; intros [|b lb] Hlen H; cbn [length] in Hlen; try discriminate; [reflexivity|].
  cbn [map]. f_equal.
  - apply (H 0%nat); reflexivity.
  - apply IH; [lia|]. intros k a' b' Ha Hb. apply (H (S k)); assumption.
Qed.

Lemma ss_lt_sorted_le' l : StronglySorted N.lt l -> Sorted N.le l.
Proof.
  induction 1 as [|a t Hs IH Hf]; constructor; [exact IH|].
  destruct t as [|b t]; constructor. inversion Hf; subst. lia.
Qed.
Lemma ss_lt_nodup' l : StronglySorted N.lt l -> NoDup l.
Proof.
  induction 1 as [|a t Hs IH Hf]; constructor; [|exact IH].
  intro H. rewrite Forall_forall in Hf. apply Hf in H. lia.
Qed.

Lemma first_index_app' : forall pre v t, ~ In v pre ->
  first_index v (pre ++ v :: t) = Some (N.of_nat (length pre)).
Proof.
  induction pre as [|x pre IH]; intros v t Hn; cbn [app first_index length].
  - now rewrite N.eqb_refl.
  - replace (x =? v) with false by (symmetry; apply N.eqb_neq; intro; subst; apply Hn; now left).
    rewrite IH by (intro; apply Hn; now right). cbn [option_map]. f_equal. lia.
Qed.

Lemma first_index_nodup M a : NoDup M -> a < N.of_nat (length M) -> first_index (nth (N.to_nat a) M 0) M = Some a.
Proof.
  intros Hnd Ha. apply first_index_intro; [exact Ha|reflexivity|].
  intros a' Ha' E. apply (proj1 (NoDup_nth M 0)) in E; [lia|exact Hnd|lia|lia].
Qed.

(* ------------------------------------------------------------------ *)
(* pair lists: each left element with its selected partner             *)
(* ------------------------------------------------------------------ *)
Section Pairs.
Context {X Y : Type}.
Definition spairs (sel : X -> option Y) (l : list X) : list (X * Y) :=
  flat_map (fun x => match sel x with Some y => [(x, y)] | None => [] end) l.

Lemma spairs_cons sel x l : spairs sel (x :: l) = (match sel x with Some y => [(x, y)] | None => [] end) ++ spairs sel l.
Proof. reflexivity. Qed.

Lemma In_spairs sel l x y : In (x, y) (spairs sel l) <-> In x l /\ sel x = Some y.
Proof.
  unfold spairs. rewrite in_flat_map. split.
  - intros (x' & Hx & H). destruct (sel x') as [y'|] eqn:E; [|destruct H].
    destruct H as [H|[]]. inversion H; subst. auto.
  - intros [Hx E]. exists x. split; [exact Hx|]. rewrite E. now left.
Qed.

Lemma spairs_filter sel (Q : X * Y -> bool) l :
  filter Q (spairs sel l) =
  spairs (fun x => match sel x with Some y => if Q (x, y) then Some y else None | None => None end) l.
Proof.
  induction l as [|x l IH]; [reflexivity|]. rewrite !spairs_cons, filter_app, IH. f_equal.
  destruct (sel x) as [y|]; [|reflexivity]. cbn [filter]. destruct (Q (x, y)); reflexivity.
Qed.

Lemma spairs_length sel l : (length (spairs sel l) <= length l)%nat.
Proof.
  induction l as [|x l IH]; [cbn; lia|]. rewrite spairs_cons, app_length. cbn [length].
  destruct (sel x); cbn [length]; lia.
Qed.

Lemma ss_spairs sel (f : X -> N) l : StronglySorted N.lt (map f l) ->
  StronglySorted N.lt (map (fun p => f (fst p)) (spairs sel l)).
Proof.
  induction l as [|x l IH]; intro H; [constructor|]. cbn [map] in H. inversion H as [|? ? Hs Hf]; subst.
  rewrite spairs_cons. destruct (sel x) as [y|]; cbn [app map]; [|apply IH; exact Hs].
  constructor; [apply IH; exact Hs|]. apply Forall_forall. intros v Hv.
  apply in_map_iff in Hv. destruct Hv as ([x' y'] & <- & Hp). apply In_spairs in Hp. destruct Hp as [Hx' _].
  rewrite Forall_forall in Hf. apply Hf. apply in_map. exact Hx'.
Qed.
End Pairs.

Section Partner.
Context {X Y : Type} (fl : X -> N) (fr : Y -> N) (tf : N -> N) (dx : X) (dy : Y).
Definition partner (r : list Y) (x : X) : option Y := find (fun y => fr y =? tf (fl x)) r.
Definition lpairs (l : list X) (r : list Y) : list (X * Y) := spairs (partner r) l.

Lemma find_nodup : forall r y v, NoDup (map fr r) -> In y r -> fr y = v -> find (fun y => fr y =? v) r = Some y.
Proof.
  induction r as [|z r IH]; intros y v Hnd Hin Hv; [destruct Hin|].
  cbn [map] in Hnd. inversion Hnd as [|? ? Hn Hnd']; subst. cbn [find].
  destruct Hin as [->|Hin].
  - rewrite N.eqb_refl. reflexivity.
  - destruct (N.eqb_spec (fr z) (fr y)) as [E|E].
    + exfalso. apply Hn. rewrite E. apply in_map. exact Hin.
    + apply IH; auto.
Qed.

Lemma In_lpairs l r x y : NoDup (map fr r) ->
  (In (x, y) (lpairs l r) <-> In x l /\ In y r /\ fr y = tf (fl x)).
Proof.
  intro Hnd. unfold lpairs. rewrite In_spairs. unfold partner. split.
  - intros [Hx Hf]. apply find_some in Hf. destruct Hf as [Hy E]. apply N.eqb_eq in E. auto.
  - intros (Hx & Hy & E). split; [exact Hx|]. apply find_nodup; assumption.
Qed.

Lemma first_index_find : forall r v,
  match first_index v (map fr r) with
  | Some b => find (fun y => fr y =? v) r = Some (nth (N.to_nat b) r dy)
  | None => find (fun y => fr y =? v) r = None
  end.
Proof.
  induction r as [|z r IH]; intro v; cbn [map first_index find]; [reflexivity|].
  destruct (fr z =? v); [reflexivity|]. specialize (IH v).
  destruct (first_index v (map fr r)) as [b|]; cbn [option_map]; [|exact IH].
  rewrite N2Nat.inj_succ. cbn [nth]. exact IH.
Qed.

(* the index pairs of the kernel specs, read back as element pairs *)
Lemma genf_pairs r : forall t pre, NoDup (map fl (pre ++ t)) ->
  map (fun ab => (nth (N.to_nat (fst ab)) (pre ++ t) dx, nth (N.to_nat (snd ab)) r dy))
      (flat_map (genf tf (map fl (pre ++ t)) (map fr r)) (enum_from (N.of_nat (length pre)) (map fl t)))
  = lpairs t r.
Proof.
  induction t as [|x t IH]; intros pre Hnd; [reflexivity|].
  cbn [map enum_from flat_map]. rewrite map_app. unfold lpairs. rewrite spairs_cons. f_equal.
  - unfold genf, is_first, partner.
    assert (Hn : ~ In (fl x) (map fl pre)).
    { rewrite map_app in Hnd. cbn [map] in Hnd. apply NoDup_remove_2 in Hnd.
      intro H. apply Hnd. apply in_or_app. now left. }
    rewrite map_app. cbn [map].
    rewrite (first_index_app' (map fl pre) (fl x) (map fl t) Hn), map_length, N.eqb_refl.
    pose proof (first_index_find r (tf (fl x))) as F.
    destruct (first_index (tf (fl x)) (map fr r)) as [b|]; rewrite F; [|reflexivity].
    cbn [map fst snd]. rewrite Nat2N.id, nth_middle. reflexivity.
  - replace (N.succ (N.of_nat (length pre))) with (N.of_nat (length (pre ++ [x])))
      by (rewrite app_length; cbn [length]; lia).
    replace (pre ++ x :: t) with ((pre ++ [x]) ++ t) by (rewrite <- app_assoc; reflexivity).
    apply IH. rewrite <- app_assoc. exact Hnd.
Qed.
End Partner.


Lemma spairs_snd {X Y} (sel : X -> option Y) (d : Y) l :
  map snd (spairs sel l) = map (fun x => match sel x with Some y => y | None => d end) (map fst (spairs sel l)).
Proof.
  induction l as [|x l IH]; [reflexivity|]. rewrite spairs_cons, !map_app, IH. f_equal.
  destruct (sel x) eqn:E; cbn [map fst snd]; [rewrite E|]; reflexivity.
Qed.

(* ------------------------------------------------------------------ *)
(* well-formed posting lists meet the kernels' preconditions           *)
(* ------------------------------------------------------------------ *)
Lemma mvals_hdr ws : mvals ws header_mask = map hdr ws.
Proof. reflexivity. Qed.
Lemma wf_lt64 ws : wf_post ws -> Forall (fun w => w < 18446744073709551616) ws.
Proof. intros [_ H]. eapply Forall_impl; [|exact H]. cbn. intros a [Ha _]. exact Ha. Qed.
Lemma wf_in ws w : wf_post ws -> In w ws -> w < 18446744073709551616 /\ bucket w <= 14563.
Proof. intros [_ H] Hin. rewrite Forall_forall in H. apply H. exact Hin. Qed.
Lemma wf_nodup ws : wf_post ws -> NoDup (map hdr ws).
Proof. intros [H _]. apply ss_lt_nodup'. exact H. Qed.
Lemma hs_msorted ws : StronglySorted N.lt (map hdr ws) -> Intersect_Correct.msorted ws header_mask.
Proof. intro H. apply sorted_msorted. rewrite mvals_hdr. apply ss_lt_sorted_le'. exact H. Qed.
Lemma header_mask_nz : header_mask <> 0. Proof. rewrite header_mask_val. lia. Qed.
Lemma header_mask_lt : header_mask < W64. Proof. rewrite header_mask_val, W64_val. lia. Qed.
Lemma wf_nooverflow ws : wf_post ws -> forall a, In a ws -> N.land a header_mask + lowbit header_mask < W64.
Proof.
  intros Hwf a Ha. destruct (wf_in _ _ Hwf Ha) as [H64 Hb].
  change (N.land a header_mask) with (hdr a). rewrite lowbit_header_mask, W64_val.
  rewrite hdr_key_bucket by exact H64. pose proof (key_lt a H64). lia.
Qed.
Lemma hdr_inj_in ws a b : wf_post ws -> In a ws -> In b ws -> hdr a = hdr b -> a = b.
Proof.
  intros Hwf Ha Hb E. pose proof (wf_nodup _ Hwf) as Hnd.
  destruct (In_nth _ _ 0 Ha) as (i & Hi & Ei). destruct (In_nth _ _ 0 Hb) as (j & Hj & Ej).
  assert (i = j).
  { assert (H0 : nth i (map hdr ws) (hdr 0) = nth j (map hdr ws) (hdr 0))
      by (rewrite !map_nth, Ei, Ej; exact E).
    change (hdr 0) with 0 in H0.
    apply (proj1 (NoDup_nth (map hdr ws) 0) Hnd); rewrite ?map_length; assumption. }
  subst j. congruence.
Qed.

(* ------------------------------------------------------------------ *)
(* the fused kernel on well-formed posting lists                       *)
(* ------------------------------------------------------------------ *)
Definition ipairs (A B : list N) : list (N * N) := lpairs hdr hdr (fun v => v) A B.
Definition apairs (A B : list N) : list (N * N) := lpairs hdr hdr (fun v => v + 262144) A B.

Lemma spec_pairs_take tf A B : NoDup (map hdr A) ->
  let P := flat_map (genf tf (map hdr A) (map hdr B)) (enum (map hdr A)) in
  take_idx A (map fst P) = map fst (lpairs hdr hdr tf A B) /\
  take_idx B (map snd P) = map snd (lpairs hdr hdr tf A B).
Proof.
  intros Hnd P.
  pose proof (genf_pairs hdr hdr tf 0 0 B A [] Hnd) as G. cbn [app length N.of_nat] in G.
  change (enum_from 0 (map hdr A)) with (enum (map hdr A)) in G. fold P in G.
  rewrite <- G. unfold take_idx. rewrite !map_map. cbn [fst snd]. split; reflexivity.
Qed.

Theorem kernel_pairs A B : wf_post A -> wf_post B ->
  N.of_nat (length A) < 2 ^ 62 -> N.of_nat (length B) < 2 ^ 62 ->
  exists ia, intersect_with_adjacents A B header_mask = Done ia /\
    take_idx A (ia_lo ia) = map fst (ipairs A B) /\ take_idx B (ia_ro ia) = map snd (ipairs A B) /\
    take_idx A (ia_alo ia) = map fst (apairs A B) /\ take_idx B (ia_aro ia) = map snd (apairs A B).
Proof.
  intros HA HB HlA HlB.
  destruct (intersect_with_adjacents_correct A B header_mask (hs_msorted _ (proj1 HA)) (hs_msorted _ (proj1 HB))
              HlA HlB header_mask_nz header_mask_lt (wf_nooverflow _ HA))
    as (o & E & Hlo & Hlen & Hro & Hadj).
  exists o. split; [exact E|].
  pose proof (wf_nodup _ HA) as NA. pose proof (wf_nodup _ HB) as NB.
  assert (E1 : take_idx A (ia_lo o) = map fst (ipairs A B)).
  { rewrite Hlo. unfold intersect_drop_spec. cbn zeta. cbn [fst]. rewrite !mvals_hdr.
    apply (spec_pairs_take (fun v => v) A B NA). }
  split; [exact E1|]. split.
  - unfold ipairs, lpairs. rewrite (spairs_snd _ 0). fold (lpairs hdr hdr (fun v => v) A B). fold (ipairs A B).
    rewrite <- E1. unfold take_idx. rewrite map_map.
    apply map_pointwise; [exact Hlen|].
    intros k b a Hb Ha. destruct (Hro k a b Ha Hb) as [Hbl Hh].
    change (hdr (nth (N.to_nat b) B 0) = hdr (nth (N.to_nat a) A 0)) in Hh.
    unfold partner. rewrite (find_nodup hdr B (nth (N.to_nat b) B 0) _ NB); [reflexivity| |exact Hh].
    apply nth_In. lia.
  - rewrite lowbit_header_mask in Hadj. unfold adjacent_spec in Hadj. cbn zeta in Hadj.
    rewrite !mvals_hdr in Hadj. inversion Hadj as [[Ha Hr]]. rewrite Ha, Hr.
    exact (spec_pairs_take (fun v => v + 262144) A B NA).
Qed.

(* ------------------------------------------------------------------ *)
(* index lists of intersect_drop_spec on duplicate-free inputs         *)
(* ------------------------------------------------------------------ *)
Definition dpairs (ML MR : list N) : list (N * N) := flat_map (genf (fun v => v) ML MR) (enum ML).

Lemma drop_spec_dpairs l r mask :
  intersect_drop_spec l r mask = (map fst (dpairs (mvals l mask) (mvals r mask)), map snd (dpairs (mvals l mask) (mvals r mask))).
Proof. reflexivity. Qed.

Lemma dpairs_in ML MR a b :
  In (a, b) (dpairs ML MR) <-> exists v, first_index v ML = Some a /\ first_index v MR = Some b.
Proof.
  unfold dpairs. rewrite in_flat_map. split.
  - intros ([a0 v] & Hin & Hg). apply genf_in in Hg. destruct Hg as (-> & H1 & H2). eauto.
  - intros (v & H1 & H2). exists (a, v). split.
    + apply first_index_some in H1. apply in_enum. tauto.
    + apply genf_in. auto.
Qed.

Lemma dfst_mem ML MR a : NoDup ML -> a < N.of_nat (length ML) ->
  (In a (map fst (dpairs ML MR)) <-> In (nth (N.to_nat a) ML 0) MR).
Proof.
  intros Hnd Ha. rewrite in_map_iff. split.
  - intros ([a' b] & E & Hin). cbn [fst] in E. subst a'. apply dpairs_in in Hin.
    destruct Hin as (v & H1 & H2). apply first_index_some in H1. apply first_index_some in H2.
    destruct H1 as (_ & <- & _). destruct H2 as (Hb & <- & _). apply nth_In. lia.
  - intro Hin. destruct (first_index_ex _ _ Hin) as [b Hb]. exists (a, b). split; [reflexivity|].
    apply dpairs_in. exists (nth (N.to_nat a) ML 0). split; [apply first_index_nodup; assumption|exact Hb].
Qed.

Lemma dsnd_mem ML MR b : NoDup MR -> b < N.of_nat (length MR) ->
  (In b (map snd (dpairs ML MR)) <-> In (nth (N.to_nat b) MR 0) ML).
Proof.
  intros Hnd Hb. rewrite in_map_iff. split.
  - intros ([a b'] & E & Hin). cbn [snd] in E. subst b'. apply dpairs_in in Hin.
    destruct Hin as (v & H1 & H2). apply first_index_some in H1. apply first_index_some in H2.
    destruct H2 as (_ & <- & _). destruct H1 as (Ha & <- & _). apply nth_In. lia.
  - intro Hin. destruct (first_index_ex _ _ Hin) as [a Ha]. exists (a, b). split; [reflexivity|].
    apply dpairs_in. exists (nth (N.to_nat b) MR 0). split; [exact Ha|apply first_index_nodup; assumption].
Qed.

Lemma dpairs_nil_snd ML MR : map fst (dpairs ML MR) = [] -> map snd (dpairs ML MR) = [].
Proof. destruct (dpairs ML MR); [reflexivity|discriminate]. Qed.

(* ------------------------------------------------------------------ *)
(* _inner_bigram_freqs and _adjacent_bigram_freqs on pair lists        *)
(* ------------------------------------------------------------------ *)
Definition contI (c : cont) (p : N * N) : N :=
  match c with CR => cwR (fst p) (snd p) | CL => cwL (fst p) (snd p) end.
Definition contA (c : cont) (p : N * N) : N :=
  match c with CR => N.lor (header_of (snd p)) 1 | CL => N.lor (header_of (fst p)) upper_bit end.
Definition inner_kvs (ps : list (N * N)) : list (N * N) :=
  map (fun p => (key (fst p), popcount (ov (fst p) (snd p)))) ps.

Lemma inner_bigram_generic c ps : (forall p, In p ps -> fst p <> snd p) ->
  inner_bigram c (map fst ps) (map snd ps) = AOk (runs_sum (inner_kvs ps), map (contI c) ps).
Proof.
  intro Hne. unfold inner_bigram. rewrite !map_length, Nat.eqb_refl. cbn [negb].
  destruct ps as [|p ps]; [reflexivity|].
  set (L := map fst (p :: ps)). set (R := map snd (p :: ps)).
  assert (EL : L = fst p :: map fst ps) by reflexivity. rewrite EL at 1.
  assert (Heq : list_eqb L R = false).
  { unfold list_eqb, L, R. rewrite combine_fst_snd. cbn [forallb].
    replace (fst p =? snd p) with false by (symmetry; apply N.eqb_neq, Hne; now left).
    cbn [andb]. apply andb_false_r. }
  rewrite Heq.
  rewrite popcount_reduce_at_correct by (unfold L, R; rewrite map_length, map2_fst_snd, !map_length; reflexivity).
  cbn [unpy lift abind]. f_equal. f_equal.
  - unfold popcount_reduce_at_spec, L, R. rewrite map2_fst_snd, !map_map, combine_map2. reflexivity.
  - unfold L, R. destruct c.
    + rewrite map2_map2_l, map2_fst_snd. reflexivity.
    + rewrite map2_map2_r, map2_fst_snd. reflexivity.
Qed.

Lemma adjacent_bigram_generic c aps :
  adjacent_bigram c (map fst aps) (map snd aps) =
  (run_counts (np_sort (map (fun p => key (fst p)) (filter adjtest aps))), map (contA c) (filter adjtest aps)).
Proof. unfold adjacent_bigram. rewrite combine_fst_snd. destruct c; reflexivity. Qed.

(* ------------------------------------------------------------------ *)
(* per-document sums of (document, count) lists                        *)
(* ------------------------------------------------------------------ *)
Definition ksum (d : N) (kvs : list (N * N)) : N :=
  fold_right (fun kv acc => if fst kv =? d then snd kv + acc else acc) 0 kvs.

Lemma ksum_cons d kv t : ksum d (kv :: t) = if fst kv =? d then snd kv + ksum d t else ksum d t.
Proof. reflexivity. Qed.
Lemma ksum_app d l1 l2 : ksum d (l1 ++ l2) = ksum d l1 + ksum d l2.
Proof.
  induction l1 as [|kv l1 IH]; [reflexivity|]. cbn [app]. rewrite !ksum_cons, IH.
  destruct (fst kv =? d); lia.
Qed.
Lemma ksum_perm d l1 l2 : Permutation l1 l2 -> ksum d l1 = ksum d l2.
Proof.
  induction 1 as [|x l l' _ IH|x y l|l l' l'' _ IH1 _ IH2]; rewrite ?ksum_cons; try congruence.
  - rewrite IH. reflexivity.
  - destruct (fst x =? d), (fst y =? d); lia.
Qed.
Lemma ksum_notin d l : ~ In d (map fst l) -> ksum d l = 0.
Proof.
  induction l as [|kv l IH]; intro H; [reflexivity|]. rewrite ksum_cons. cbn [map In] in H.
  destruct (N.eqb_spec (fst kv) d); [tauto|]. apply IH. tauto.
Qed.

Lemma ksum_runs_sum d : forall kvs, ksum d (runs_sum kvs) = ksum d kvs.
Proof.
  induction kvs as [|[k v] t IH]; [reflexivity|]. rewrite Linear_Proofs.runs_sum_cons, (ksum_cons d (k, v) t), <- IH.
  destruct (runs_sum t) as [|[k' s] rest]; [reflexivity|].
  destruct (N.eqb_spec k k') as [<-|Hne]; rewrite !ksum_cons; cbn [fst snd].
  - destruct (k =? d); lia.
  - reflexivity.
Qed.

Lemma runs_sum_keys_in x : forall kvs, In x (map fst (runs_sum kvs)) -> In x (map fst kvs).
Proof.
  induction kvs as [|[k v] t IH]; [intros []|]. rewrite Linear_Proofs.runs_sum_cons. cbn [map fst In].
  destruct (runs_sum t) as [|[k' s] rest]; cbn [map fst In]; [tauto|].
  destruct (k =? k'); cbn [map fst In] in *; intuition.
Qed.

Lemma runs_sum_sorted_keys : forall kvs, StronglySorted N.le (map fst kvs) ->
  StronglySorted N.lt (map fst (runs_sum kvs)).
Proof.
  induction kvs as [|[k v] t IH]; intro H; [constructor|]. cbn [map fst] in H.
  inversion H as [|? ? Hs Hf]; subst. specialize (IH Hs). rewrite Linear_Proofs.runs_sum_cons.
  pose proof (runs_sum_keys_in) as Hin.
  destruct (runs_sum t) as [|[k' s] rest] eqn:E; cbn [map fst]; [repeat constructor|].
  assert (Hk : k <= k').
  { rewrite Forall_forall in Hf. apply Hf. apply (Hin k' t). rewrite E. now left. }
  cbn [map fst] in IH. inversion IH as [|? ? IHs IHf]; subst.
  destruct (N.eqb_spec k k') as [<-|Hne]; cbn [map fst].
  - constructor; assumption.
  - constructor; [exact IH|]. constructor; [lia|]. eapply Forall_impl; [|exact IHf]. cbn. intros; lia.
Qed.

(* a list with strictly increasing keys: lookup is the per-key sum *)
Lemma lookup_ksum d : forall L : list (N * N), StronglySorted N.lt (map fst L) ->
  match lookup d L with Some c => c = ksum d L | None => ksum d L = 0 end.
Proof.
  induction L as [|[k v] t IH]; intro H; [reflexivity|]. cbn [map fst] in H.
  inversion H as [|? ? Hs Hf]; subst. specialize (IH Hs). cbn [lookup]. rewrite ksum_cons. cbn [fst snd].
  rewrite (N.eqb_sym k d). destruct (N.eqb_spec d k) as [->|Hne]; [|exact IH].
  rewrite ksum_notin; [lia|]. intro Hin. rewrite Forall_forall in Hf. apply Hf in Hin. lia.
Qed.

Lemma run_counts_runs_sum : forall l, run_counts l = runs_sum (map (fun x => (x, 1)) l).
Proof.
  induction l as [|x t IH]; [reflexivity|]. cbn [map]. rewrite Linear_Proofs.runs_sum_cons, <- IH. cbn [run_counts].
  destruct (run_counts t) as [|[y n] rest]; [reflexivity|].
  destruct (x =? y); [|reflexivity]. rewrite N.add_comm. reflexivity.
Qed.

Lemma np_sort_perm l : Permutation l (np_sort l).
Proof. apply NSort.Permuted_sort. Qed.
Lemma np_sort_sorted l : StronglySorted N.le (np_sort l).
Proof.
  unfold np_sort.
  assert (H : StronglySorted (fun x y => is_true (NOrder.leb x y)) (NSort.sort l)).
  { apply NSort.StronglySorted_sort. intros x y z. unfold NOrder.leb, is_true. rewrite !N.leb_le. lia. }
  induction H as [|a t Hs IH Hf]; constructor; [exact IH|].
  eapply Forall_impl; [|exact Hf]. cbn. intros b Hb. unfold NOrder.leb, is_true in Hb. apply N.leb_le. exact Hb.
Qed.

Lemma insert_kv_perm kv l : Permutation (kv :: l) (insert_kv kv l).
Proof.
  induction l as [|y t IH]; [reflexivity|]. cbn [insert_kv]. destruct (fst kv <=? fst y); [reflexivity|].
  rewrite perm_swap. apply perm_skip. exact IH.
Qed.
Lemma fold_insert_kv_perm l : Permutation l (fold_right insert_kv [] l).
Proof.
  induction l as [|x l IH]; [reflexivity|]. cbn [fold_right]. rewrite <- insert_kv_perm. apply perm_skip. exact IH.
Qed.
Lemma insert_kv_sorted kv l : StronglySorted N.le (map fst l) -> StronglySorted N.le (map fst (insert_kv kv l)).
Proof.
  induction l as [|y t IH]; intro H; cbn [insert_kv map]; [repeat constructor|].
  cbn [map] in H. inversion H as [|? ? Hs Hf]; subst.
  destruct (N.leb_spec (fst kv) (fst y)); cbn [map].
  - constructor; [exact H|]. constructor; [lia|]. eapply Forall_impl; [|exact Hf]. cbn. intros; lia.
  - constructor; [apply IH; exact Hs|].
    eapply Permutation_Forall; [apply Permutation_map, insert_kv_perm|]. cbn [map].
    constructor; [lia|exact Hf].
Qed.
Lemma fold_insert_kv_sorted' l : StronglySorted N.le (map fst (fold_right insert_kv [] l)).
Proof. induction l as [|x l IH]; cbn [fold_right]; [constructor|]. apply insert_kv_sorted. exact IH. Qed.

(* merged counts: strictly increasing documents, and lookup = sum of the two sides *)
Lemma merged_counts pfi pfa :
  let m := sort_merge_counts_spec (map fst pfi) (map snd pfi) (map fst pfa) (map snd pfa) in
  StronglySorted N.lt (map fst m) /\
  forall d, match lookup d m with Some c => c = ksum d pfi + ksum d pfa | None => ksum d pfi + ksum d pfa = 0 end.
Proof.
  unfold sort_merge_counts_spec. rewrite !combine_fst_snd. cbn zeta.
  assert (Hs : StronglySorted N.lt (map fst (runs_sum (fold_right insert_kv [] (pfi ++ pfa)))))
    by apply runs_sum_sorted_keys, fold_insert_kv_sorted'.
  split; [exact Hs|]. intro d. pose proof (lookup_ksum d _ Hs) as H.
  rewrite ksum_runs_sum, <- (ksum_perm d _ _ (fold_insert_kv_perm (pfi ++ pfa))), ksum_app in H. exact H.
Qed.

(* ------------------------------------------------------------------ *)
(* _set_adjbit_at_header                                               *)
(* ------------------------------------------------------------------ *)
Definition memh (w : N) (L : list N) : bool := existsb (fun y => hdr y =? hdr w) L.
Definition cbit (c : cont) : N := match c with CR => 1 | CL => upper_bit end.

Lemma memh_true w L : memh w L = true <-> exists y, In y L /\ hdr y = hdr w.
Proof.
  unfold memh. rewrite existsb_exists. split; intros (y & Hy & E); exists y; (split; [exact Hy|]);
    [apply N.eqb_eq|apply N.eqb_eq]; exact E.
Qed.
Lemma memh_in_map w L : memh w L = true <-> In (hdr w) (map hdr L).
Proof.
  rewrite memh_true, in_map_iff. split; intros (y & H1 & H2); exists y; tauto.
Qed.

Lemma or_at_P (P : N -> bool) bit : forall l i idx,
  (forall j, (j < length l)%nat -> existsb (N.eqb (i + N.of_nat j)) idx = P (nth j l 0)) ->
  or_at i idx bit l = map (fun w => if P w then N.lor w bit else w) l.
Proof.
  induction l as [|x l IH]; intros i idx H; [reflexivity|]. cbn [or_at map].
  pose proof (H 0%nat ltac:(cbn [length]; lia)) as H0. cbn [nth N.of_nat] in H0. rewrite N.add_0_r in H0.
  rewrite H0. f_equal. apply IH. intros j Hj. specialize (H (S j) ltac:(cbn [length]; lia)).
  cbn [nth] in H. rewrite <- H. f_equal. f_equal. lia.
Qed.
Lemma remove_idx_P (P : N -> bool) : forall l i idx,
  (forall j, (j < length l)%nat -> existsb (N.eqb (i + N.of_nat j)) idx = P (nth j l 0)) ->
  remove_idx i idx l = filter (fun w => negb (P w)) l.
Proof.
  induction l as [|x l IH]; intros i idx H; [reflexivity|]. cbn [remove_idx filter].
  pose proof (H 0%nat ltac:(cbn [length]; lia)) as H0. cbn [nth N.of_nat] in H0. rewrite N.add_0_r in H0.
  rewrite H0.
  assert (E : remove_idx (i + 1) idx l = filter (fun w => negb (P w)) l).
  { apply IH. intros j Hj. specialize (H (S j) ltac:(cbn [length]; lia)).
    cbn [nth] in H. rewrite <- H. f_equal. f_equal. lia. }
  rewrite E. destruct (P x); reflexivity.
Qed.
Lemma or_at_nil bit : forall l i, or_at i [] bit l = l.
Proof. induction l as [|x l IH]; intro i; [reflexivity|]. cbn [or_at existsb]. rewrite IH. reflexivity. Qed.
Lemma remove_idx_nil : forall l i, remove_idx i [] l = l.
Proof. induction l as [|x l IH]; intro i; [reflexivity|]. cbn [remove_idx existsb]. rewrite IH. reflexivity. Qed.

Lemma nth_map_hdr j l : nth j (map hdr l) 0 = hdr (nth j l 0).
Proof. change 0 with (hdr 0) at 1. apply map_nth. Qed.

Lemma set_adjbit_unfold c I J : I <> [] -> J <> [] ->
  set_adjbit_at_header c I J =
  (ado ix <- lift (intersect_drop I J header_mask);
   let '(same_inner, same_adj) := ix in
   let '(inner', adj') := match same_inner with
                          | [] => (I, J)
                          | _ => (or_at 0 same_inner (cbit c) I, remove_idx 0 same_adj J)
                          end in
   lift (merge inner' adj')).
Proof. intros HI HJ. destruct I; [congruence|]. destruct J; [congruence|]. destruct c; reflexivity. Qed.

Theorem set_adjbit_spec c I J :
  StronglySorted N.lt (map hdr I) -> StronglySorted N.lt (map hdr J) ->
  N.of_nat (length I) < 2 ^ 62 -> N.of_nat (length J) < 2 ^ 62 ->
  set_adjbit_at_header c I J =
  AOk (mrg (map (fun w => if memh w J then N.lor w (cbit c) else w) I) (filter (fun w => negb (memh w I)) J)).
Proof.
  intros HsI HsJ HlI HlJ.
  destruct I as [|i0 I'].
  { cbn [set_adjbit_at_header map]. rewrite mrg_nil_l. f_equal. symmetry.
    rewrite <- (filter_true J) at 2. apply filter_ext. reflexivity. }
  destruct J as [|j0 J'].
  { cbn [set_adjbit_at_header filter]. rewrite mrg_nil_r. f_equal. symmetry.
    rewrite <- (map_id (i0 :: I')) at 2. apply map_ext. reflexivity. }
  remember (i0 :: I') as I eqn:EI. remember (j0 :: J') as J eqn:EJ.
  rewrite set_adjbit_unfold by (subst; discriminate).
  rewrite intersect_drop_correct by (try apply hs_msorted; assumption).
  rewrite drop_spec_dpairs, !mvals_hdr. cbn [lift abind].
  set (dp := dpairs (map hdr I) (map hdr J)).
  pose proof (ss_lt_nodup' _ HsI) as NI. pose proof (ss_lt_nodup' _ HsJ) as NJ.
  assert (E1 : or_at 0 (map fst dp) (cbit c) I = map (fun w => if memh w J then N.lor w (cbit c) else w) I).
  { apply (or_at_P (fun w => memh w J)). intros j Hj. rewrite N.add_0_l. apply bool_eq_iff.
    change (existsb (N.eqb (N.of_nat j)) (map fst dp)) with (mem_n (N.of_nat j) (map fst dp)).
    rewrite mem_n_In. unfold dp. rewrite dfst_mem by (rewrite ?map_length; try assumption; lia).
    rewrite Nat2N.id, nth_map_hdr, memh_in_map. reflexivity. }
  assert (E2 : remove_idx 0 (map snd dp) J = filter (fun w => negb (memh w I)) J).
  { apply (remove_idx_P (fun w => memh w I)). intros j Hj. rewrite N.add_0_l. apply bool_eq_iff.
    change (existsb (N.eqb (N.of_nat j)) (map snd dp)) with (mem_n (N.of_nat j) (map snd dp)).
    rewrite mem_n_In. unfold dp. rewrite dsnd_mem by (rewrite ?map_length; try assumption; lia).
    rewrite Nat2N.id, nth_map_hdr, memh_in_map. reflexivity. }
  destruct (map fst dp) as [|a0 si] eqn:Ef.
  - assert (Es : map snd dp = []) by (apply dpairs_nil_snd; exact Ef).
    rewrite Es in E2. rewrite or_at_nil in E1. rewrite remove_idx_nil in E2.
    rewrite <- E1, <- E2. rewrite merge_model. reflexivity.
  - rewrite E1, E2, merge_model. reflexivity.
Qed.

(* ------------------------------------------------------------------ *)
(* word-level facts about the continuation words, uniform in c         *)
(* ------------------------------------------------------------------ *)
Definition off (c : cont) : N := match c with CR => 1 | CL => 0 end.      (* END vs START position *)
Definition abit (c : cont) : N := match c with CR => 0 | CL => 17 end.    (* bit set by the cross-word case *)
Definition asel (c : cont) (p : N * N) : N := match c with CR => snd p | CL => fst p end.

Lemma cbit_val c : cbit c = 2 ^ abit c.
Proof. destruct c; [apply upper_bit_val|reflexivity]. Qed.
Lemma cbit_lt c : cbit c < 262144.
Proof. destruct c; cbn [cbit]; [rewrite upper_bit_val|]; lia. Qed.
Lemma abit_lt c : abit c < 18.
Proof. destruct c; cbn; lia. Qed.

Lemma lt64_high a i : a < 18446744073709551616 -> 64 <= i -> N.testbit a i = false.
Proof.
  intros Ha Hi. rewrite <- (N.mod_small a (2 ^ 64)) by (rewrite pow64; exact Ha).
  apply N.mod_pow2_bits_high. exact Hi.
Qed.
Lemma lor_lt64 a b : a < 18446744073709551616 -> b < 18446744073709551616 -> N.lor a b < 18446744073709551616.
Proof.
  intros Ha Hb. rewrite <- pow64. apply bits_below_lt. intros i Hi.
  destruct (N.lt_ge_cases i 64) as [H|H]; [exact H|].
  rewrite N.lor_spec, !lt64_high in Hi by assumption. discriminate.
Qed.
Lemma hdr_lor_cbit c w : hdr (N.lor w (cbit c)) = hdr w.
Proof.
  unfold hdr. rewrite N.land_lor_distr_l.
  replace (N.land (cbit c) header_mask) with 0 by (destruct c; vm_compute; reflexivity).
  apply N.lor_0_r.
Qed.
Lemma testbit_lor_cbit c w i : N.testbit (N.lor w (cbit c)) i = N.testbit w i || (i =? abit c).
Proof. rewrite N.lor_spec, cbit_val, N.pow2_bits_eqb, N.eqb_sym. reflexivity. Qed.

Section ContI.
Variables (c : cont) (x y : N).
Hypothesis Hx : x < 18446744073709551616.
Hypothesis Hy : y < 18446744073709551616.
Hypothesis Hh : hdr y = hdr x.
Lemma contI_eq : contI c (x, y) = hdr x + match c with CR => 2 * ov x y | CL => ov x y end.
Proof. destruct c; cbn [contI fst snd]; [apply cwL_eq; exact Hx|rewrite cwR_eq, Hh by exact Hy; reflexivity]. Qed.
Lemma contI_pay : match c with CR => 2 * ov x y | CL => ov x y end < 262144.
Proof. pose proof (ov_lt x y). destruct c; lia. Qed.
Lemma contI_lt : contI c (x, y) < 18446744073709551616.
Proof. rewrite contI_eq. apply mk_lt; [exact Hx|apply contI_pay]. Qed.
Lemma contI_hdr : hdr (contI c (x, y)) = hdr x.
Proof. rewrite contI_eq. apply mk_hdr; [exact Hx|apply contI_pay]. Qed.
Lemma contI_lsb_popcount : popcount (lsb (contI c (x, y))) = popcount (ov x y).
Proof.
  rewrite contI_eq, mk_lsb by (try exact Hx; apply contI_pay). destruct c; [reflexivity|apply popcount_double].
Qed.
Lemma contI_bit j : j < 17 -> N.testbit (contI c (x, y)) (j + off c) = N.testbit x j && N.testbit y (j + 1).
Proof.
  intro Hj. rewrite contI_eq, mk_testbit by (try exact Hx; try apply contI_pay; destruct c; cbn [off]; lia).
  destruct c; cbn [off].
  - rewrite N.add_0_r, ov_testbit. destruct (N.ltb_spec j 17); [reflexivity|lia].
  - rewrite double_testbit, ov_testbit. replace (j + 1 - 1) with j by lia.
    replace (j + 1 =? 0) with false by (symmetry; apply N.eqb_neq; lia).
    destruct (N.ltb_spec j 17); [reflexivity|lia].
Qed.
Lemma contI_abit : N.testbit (contI c (x, y)) (abit c) = false.
Proof.
  rewrite contI_eq, mk_testbit by (try exact Hx; try apply contI_pay; apply abit_lt).
  destruct c; cbn [abit].
  - rewrite ov_testbit. reflexivity.
  - apply N.testbit_even_0.
Qed.
End ContI.

Section ContA.
Variables (c : cont) (p : N * N).
Hypothesis Hs : asel c p < 18446744073709551616.
Lemma contA_eq : contA c p = hdr (asel c p) + cbit c.
Proof.
  destruct c; cbn [contA asel cbit] in *; rewrite header_of_hdr; apply lor_hdr_r; try assumption;
    [rewrite upper_bit_val|]; lia.
Qed.
Lemma contA_lt : contA c p < 18446744073709551616.
Proof. rewrite contA_eq. apply mk_lt; [exact Hs|apply cbit_lt]. Qed.
Lemma contA_hdr : hdr (contA c p) = hdr (asel c p).
Proof. rewrite contA_eq. apply mk_hdr; [exact Hs|apply cbit_lt]. Qed.
Lemma contA_bit i : i < 18 -> N.testbit (contA c p) i = (i =? abit c).
Proof.
  intro Hi. rewrite contA_eq, mk_testbit by (try exact Hs; try exact Hi; apply cbit_lt).
  rewrite cbit_val, N.pow2_bits_eqb, N.eqb_sym. reflexivity.
Qed.
End ContA.

(* ------------------------------------------------------------------ *)
(* the step, computed                                                  *)
(* ------------------------------------------------------------------ *)
Definition aps (A B : list N) : list (N * N) := filter adjtest (apairs A B).
Definition NI (c : cont) (A B : list N) : list N := map (contI c) (ipairs A B).
Definition NA (c : cont) (A B : list N) : list N := map (contA c) (aps A B).
Definition step_next (c : cont) (A B : list N) : list N :=
  mrg (map (fun w => if memh w (NA c A B) then N.lor w (cbit c) else w) (NI c A B))
      (filter (fun w => negb (memh w (NI c A B))) (NA c A B)).
Definition step_counts (A B : list N) : list (N * N) :=
  let pfi := runs_sum (inner_kvs (ipairs A B)) in
  let pfa := run_counts (np_sort (map (fun p => key (fst p)) (aps A B))) in
  sort_merge_counts_spec (map fst pfi) (map snd pfi) (map fst pfa) (map snd pfa).
(* no word occurs in both lists: rules out the same-term branch of _inner_bigram_freqs *)
Definition nocommon (A B : list N) : Prop := forall w, In w A -> In w B -> False.

Lemma In_ipairs A B x y : wf_post B -> (In (x, y) (ipairs A B) <-> In x A /\ In y B /\ hdr y = hdr x).
Proof. intro HB. exact (In_lpairs hdr hdr (fun v => v) A B x y (wf_nodup _ HB)). Qed.
Lemma In_apairs A B x y : wf_post B -> (In (x, y) (apairs A B) <-> In x A /\ In y B /\ hdr y = hdr x + 262144).
Proof. intro HB. exact (In_lpairs hdr hdr (fun v => v + 262144) A B x y (wf_nodup _ HB)). Qed.
Lemma In_aps A B x y : wf_post B ->
  (In (x, y) (aps A B) <-> In x A /\ In y B /\ hdr y = hdr x + 262144 /\ adjtest (x, y) = true).
Proof. intro HB. unfold aps. rewrite filter_In, In_apairs by exact HB. tauto. Qed.

Lemma ss_key_of_hdr l : StronglySorted N.lt (map hdr l) -> Forall (fun w => w < 18446744073709551616) l ->
  StronglySorted N.le (map key l).
Proof.
  induction l as [|a l IH]; intros Hs Hf; [constructor|]. cbn [map] in *.
  inversion Hs as [|? ? Hs' Hlt]; subst. inversion Hf as [|? ? Ha Hf']; subst.
  constructor; [apply IH; assumption|]. apply Forall_forall. intros k Hk.
  apply in_map_iff in Hk. destruct Hk as (b & <- & Hb).
  rewrite Forall_forall in Hlt, Hf'. specialize (Hlt (hdr b) (in_map hdr _ _ Hb)). specialize (Hf' b Hb).
  rewrite !hdr_arith in Hlt by assumption. rewrite !key_arith. lia.
Qed.

Section StepFacts.
Variables (c : cont) (A B : list N).
Hypothesis HA : wf_post A.
Hypothesis HB : wf_post B.

Lemma ipairs_wf p : In p (ipairs A B) ->
  fst p < 18446744073709551616 /\ snd p < 18446744073709551616 /\ hdr (snd p) = hdr (fst p) /\ In (fst p) A /\ In (snd p) B.
Proof.
  destruct p as [x y]. intro H. apply In_ipairs in H; [|exact HB]. destruct H as (Hx & Hy & E).
  cbn [fst snd]. pose proof (wf_in _ _ HA Hx). pose proof (wf_in _ _ HB Hy). tauto.
Qed.
Lemma aps_wf p : In p (aps A B) ->
  fst p < 18446744073709551616 /\ snd p < 18446744073709551616 /\ hdr (snd p) = hdr (fst p) + 262144 /\
  In (fst p) A /\ In (snd p) B /\ adjtest p = true /\ bucket (fst p) <= 14563.
Proof.
  destruct p as [x y]. intro H. apply In_aps in H; [|exact HB]. destruct H as (Hx & Hy & E & Ht).
  cbn [fst snd]. pose proof (wf_in _ _ HA Hx). pose proof (wf_in _ _ HB Hy). tauto.
Qed.
Lemma asel_lt p : In p (aps A B) -> asel c p < 18446744073709551616.
Proof. intro H. apply aps_wf in H. destruct c; cbn [asel]; tauto. Qed.

Lemma NI_hdrs : map hdr (NI c A B) = map (fun p => hdr (fst p)) (ipairs A B).
Proof.
  unfold NI. rewrite map_map. apply map_ext_in. intros [x y] Hp. apply ipairs_wf in Hp. cbn [fst snd] in *.
  apply contI_hdr; tauto.
Qed.
Lemma NA_hdrs : map hdr (NA c A B) = map (fun p => hdr (fst p) + match c with CR => 262144 | CL => 0 end) (aps A B).
Proof.
  unfold NA. rewrite map_map. apply map_ext_in. intros [x y] Hp. rewrite contA_hdr by (apply asel_lt; exact Hp).
  apply aps_wf in Hp. cbn [fst snd] in *. destruct c; cbn [asel fst snd]; [lia|tauto].
Qed.
Lemma ipairs_sorted : StronglySorted N.lt (map (fun p => hdr (fst p)) (ipairs A B)).
Proof. apply (ss_spairs _ hdr). apply HA. Qed.
Lemma aps_sorted : StronglySorted N.lt (map (fun p => hdr (fst p)) (aps A B)).
Proof. unfold aps, apairs, lpairs. rewrite spairs_filter. apply (ss_spairs _ hdr). apply HA. Qed.
Lemma NI_sorted : StronglySorted N.lt (map hdr (NI c A B)).
Proof. rewrite NI_hdrs. apply ipairs_sorted. Qed.
Lemma NA_sorted : StronglySorted N.lt (map hdr (NA c A B)).
Proof.
  rewrite NA_hdrs.
  rewrite <- (map_map (fun p => hdr (fst p)) (fun h => h + match c with CR => 262144 | CL => 0 end)).
  apply ss_map_mono; [intros; lia|apply aps_sorted].
Qed.
Lemma NI_lt64 : Forall (fun w => w < 18446744073709551616) (NI c A B).
Proof.
  unfold NI. apply Forall_map. apply Forall_forall. intros [x y] Hp. apply ipairs_wf in Hp. cbn [fst snd] in *.
  apply contI_lt; tauto.
Qed.
Lemma NA_lt64 : Forall (fun w => w < 18446744073709551616) (NA c A B).
Proof.
  unfold NA. apply Forall_map. apply Forall_forall. intros p Hp. apply contA_lt, asel_lt. exact Hp.
Qed.
Lemma NI_length : (length (NI c A B) <= length A)%nat.
Proof. unfold NI. rewrite map_length. apply spairs_length. Qed.
Lemma NA_length : (length (NA c A B) <= length A)%nat.
Proof. unfold NA, aps, apairs, lpairs. rewrite map_length, spairs_filter. apply spairs_length. Qed.

Lemma bigram_freqs_eq : N.of_nat (length A) < 2 ^ 62 -> N.of_nat (length B) < 2 ^ 62 -> nocommon A B ->
  bigram_freqs c A B = AOk (step_counts A B, step_next c A B).
Proof.
  intros HlA HlB Hnc. unfold bigram_freqs.
  destruct (kernel_pairs A B HA HB HlA HlB) as (ia & E & E1 & E2 & E3 & E4).
  rewrite E. cbn [lift abind]. rewrite E1, E2, E3, E4.
  rewrite inner_bigram_generic.
  2:{ intros [x y] Hp Heq. apply ipairs_wf in Hp. cbn [fst snd] in *. subst y. apply (Hnc x); tauto. }
  cbn [abind]. rewrite adjacent_bigram_generic. fold (aps A B).
  cbv beta iota zeta.
  rewrite sort_merge_counts_correct.
  - cbn [lift abind]. fold (NI c A B). fold (NA c A B).
    rewrite set_adjbit_spec.
    + reflexivity.
    + apply NI_sorted.
    + apply NA_sorted.
    + pose proof NI_length. rewrite pow62 in *. lia.
    + pose proof NA_length. rewrite pow62 in *. lia.
  - rewrite !map_length. reflexivity.
  - rewrite !map_length. reflexivity.
  - apply StronglySorted_Sorted, runs_sum_sorted_keys. unfold inner_kvs. rewrite map_map. cbn [fst].
    rewrite <- (map_map fst key). apply ss_key_of_hdr.
    + rewrite map_map. apply ipairs_sorted.
    + apply Forall_map, Forall_forall. intros p Hp. apply ipairs_wf in Hp. tauto.
  - apply StronglySorted_Sorted. rewrite run_counts_runs_sum. apply runs_sum_sorted_keys.
    rewrite map_map. cbn [fst]. rewrite map_id. apply np_sort_sorted.
Qed.
End StepFacts.

(* ------------------------------------------------------------------ *)
(* merging header-disjoint, header-sorted word lists                   *)
(* ------------------------------------------------------------------ *)
Lemma In_mrg z l r : In z (mrg l r) <-> In z l \/ In z r.
Proof.
  rewrite <- in_app_iff. split; apply Permutation_in; [apply Permutation_sym|]; apply mrg_perm.
Qed.

Lemma ss_map_filter (f : N -> N) (P : N -> bool) l :
  StronglySorted N.lt (map f l) -> StronglySorted N.lt (map f (filter P l)).
Proof.
  induction l as [|a l IH]; intro H; [constructor|]. cbn [map] in H. inversion H as [|? ? Hs Hf]; subst.
  cbn [filter]. destruct (P a); cbn [map]; [|apply IH; exact Hs].
  constructor; [apply IH; exact Hs|]. apply Forall_forall. intros v Hv.
  apply in_map_iff in Hv. destruct Hv as (b & <- & Hb). apply filter_In in Hb.
  rewrite Forall_forall in Hf. apply Hf. apply in_map. tauto.
Qed.

Lemma mrg_hdr_sorted : forall l r,
  Forall (fun w => w < 18446744073709551616) l -> Forall (fun w => w < 18446744073709551616) r ->
  StronglySorted N.lt (map hdr l) -> StronglySorted N.lt (map hdr r) ->
  (forall x y, In x l -> In y r -> hdr x <> hdr y) -> StronglySorted N.lt (map hdr (mrg l r)).
Proof.
  induction l as [|x l IHl]; intros r Fl Fr Hl Hr Hd; [rewrite mrg_nil_l; exact Hr|].
  induction r as [|y r IHr]; [rewrite mrg_nil_r; exact Hl|].
  rewrite mrg_cons. cbn [map] in Hl, Hr.
  inversion Hl as [|? ? Hl1 Hl2]; inversion Hr as [|? ? Hr1 Hr2]; subst.
  inversion Fl as [|? ? Fx Fl']; inversion Fr as [|? ? Fy Fr']; subst.
  assert (Hxy : hdr x <> hdr y) by (apply Hd; now left).
  rewrite Forall_forall in Hl2, Hr2.
  destruct (N.ltb_spec x y); [|destruct (N.ltb_spec y x)].
  - pose proof (hdr_mono x y Fx Fy ltac:(lia)). cbn [map]. constructor.
    + apply IHl; try assumption. intros a b Ha Hb. apply Hd; [now right|exact Hb].
    + apply Forall_forall. intros v Hv. apply in_map_iff in Hv. destruct Hv as (z & <- & Hz).
      apply In_mrg in Hz. destruct Hz as [Hz|[<-|Hz]].
      * apply Hl2. apply in_map. exact Hz.
      * lia.
      * specialize (Hr2 (hdr z) (in_map hdr _ _ Hz)). lia.
  - pose proof (hdr_mono y x Fy Fx ltac:(lia)). cbn [map]. constructor.
    + apply IHr; try assumption. intros a b Ha Hb. apply Hd; [exact Ha|now right].
    + apply Forall_forall. intros v Hv. apply in_map_iff in Hv. destruct Hv as (z & <- & Hz).
      apply In_mrg in Hz. destruct Hz as [[<-|Hz]|Hz].
      * lia.
      * specialize (Hl2 (hdr z) (in_map hdr _ _ Hz)). lia.
      * apply Hr2. apply in_map. exact Hz.
  - exfalso. apply Hxy. f_equal. lia.
Qed.

(* ------------------------------------------------------------------ *)
(* the continuation: well-formedness and positions                     *)
(* ------------------------------------------------------------------ *)
Section StepSem.
Variables (c : cont) (A B : list N).
Hypothesis HA : wf_post A.
Hypothesis HB : wf_post B.

Lemma In_step_next w : In w (step_next c A B) <->
  (exists wi, In wi (NI c A B) /\ w = if memh wi (NA c A B) then N.lor wi (cbit c) else wi) \/
  (In w (NA c A B) /\ memh w (NI c A B) = false).
Proof.
  unfold step_next. rewrite In_mrg, in_map_iff, filter_In, negb_true_iff.
  split; (intros [H|H]; [left|right; exact H]); destruct H as (wi & H1 & H2); exists wi; split; auto.
Qed.

Lemma NI_in wi : In wi (NI c A B) -> exists x y, In (x, y) (ipairs A B) /\ wi = contI c (x, y).
Proof. unfold NI. rewrite in_map_iff. intros ([x y] & <- & H). eauto. Qed.
Lemma NA_in wj : In wj (NA c A B) -> exists x y, In (x, y) (aps A B) /\ wj = contA c (x, y).
Proof. unfold NA. rewrite in_map_iff. intros ([x y] & <- & H). eauto. Qed.

(* every word of the continuation is below 2^64 and carries the header of a word of A or B *)
Lemma step_next_src w : In w (step_next c A B) ->
  w < 18446744073709551616 /\ exists z, (In z A \/ In z B) /\ hdr w = hdr z.
Proof.
  intro H. apply In_step_next in H. destruct H as [(wi & Hwi & ->)|[Hw _]].
  - pose proof (proj1 (Forall_forall _ _) (NI_lt64 c A B HA HB) wi Hwi) as Hlt.
    destruct (NI_in wi Hwi) as (x & y & Hp & ->). apply (ipairs_wf A B HA HB) in Hp. cbn [fst snd] in Hp.
    assert (Hh : hdr (contI c (x, y)) = hdr x) by (apply contI_hdr; tauto).
    destruct (memh (contI c (x, y)) (NA c A B)).
    + split.
      * apply lor_lt64; [exact Hlt|]. pose proof (cbit_lt c). lia.
      * exists x. rewrite hdr_lor_cbit. tauto.
    + split; [exact Hlt|]. exists x. tauto.
  - pose proof (proj1 (Forall_forall _ _) (NA_lt64 c A B HA HB) w Hw) as Hlt. split; [exact Hlt|].
    destruct (NA_in w Hw) as (x & y & Hp & ->). pose proof (asel_lt c A B HA HB _ Hp) as Hs.
    rewrite contA_hdr by exact Hs. apply (aps_wf A B HA HB) in Hp. cbn [fst snd] in Hp.
    destruct c; cbn [asel fst snd]; [exists x|exists y]; tauto.
Qed.

Theorem step_next_wf : wf_post (step_next c A B).
Proof.
  split.
  - unfold step_next. apply mrg_hdr_sorted.
    + apply Forall_map. eapply Forall_impl; [|apply (NI_lt64 c A B HA HB)]. cbn. intros w Hw.
      destruct (memh w (NA c A B)); [|exact Hw]. apply lor_lt64; [exact Hw|]. pose proof (cbit_lt c). lia.
    + apply Forall_filter'. apply (NA_lt64 c A B HA HB).
    + rewrite map_map.
      rewrite (map_ext (fun w => hdr (if memh w (NA c A B) then N.lor w (cbit c) else w)) hdr).
      * apply (NI_sorted c A B HA HB).
      * intro w. destruct (memh w (NA c A B)); [apply hdr_lor_cbit|reflexivity].
    + apply ss_map_filter. apply (NA_sorted c A B HA HB).
    + intros x y Hx Hy E. apply in_map_iff in Hx. destruct Hx as (wi & <- & Hwi).
      apply filter_In in Hy. destruct Hy as [Hy Hm]. apply negb_true_iff in Hm.
      assert (Hm' : memh y (NI c A B) = true).
      { apply memh_true. exists wi. split; [exact Hwi|]. rewrite <- E.
        destruct (memh wi (NA c A B)); [rewrite hdr_lor_cbit|]; reflexivity. }
      congruence.
  - apply Forall_forall. intros w Hw. apply step_next_src in Hw. destruct Hw as (Hlt & z & Hz & E).
    split; [exact Hlt|].
    assert (Hzw : z < 18446744073709551616 /\ bucket z <= 14563)
      by (destruct Hz as [Hz|Hz]; [apply (wf_in _ _ HA Hz)|apply (wf_in _ _ HB Hz)]).
    destruct Hzw as [Hz64 Hzb]. apply (proj1 (hdr_eq_iff w z Hlt Hz64)) in E. lia.
Qed.

Lemma has_of_hdr ws z w d q : In w ws -> w < 18446744073709551616 -> z < 18446744073709551616 ->
  hdr w = hdr z -> key z = d -> bucket z = q / 18 -> N.testbit w (q mod 18) = true -> has ws d q.
Proof.
  intros Hin Hw Hz E Hk Hb Ht. apply (proj1 (hdr_eq_iff w z Hw Hz)) in E. destruct E as [E1 E2].
  exists w. repeat split; congruence.
Qed.

(* the cross-word case, read backwards *)
Lemma adj_has x y w d q : In (x, y) (aps A B) -> w < 18446744073709551616 ->
  hdr w = hdr (asel c (x, y)) -> key w = d -> bucket w = q / 18 -> q mod 18 = abit c ->
  exists p, q = p + off c /\ has A d p /\ has B d (p + 1).
Proof.
  intros Hp Hw E Hk Hb Hq. apply (aps_wf A B HA HB) in Hp. cbn [fst snd] in Hp.
  destruct Hp as (Hx & Hy & Hh & HxA & HyB & Ht & Hbx).
  rewrite adjtest_bits in Ht. cbn [fst snd] in Ht. apply andb_true_iff in Ht. destruct Ht as [T17 T0].
  apply (proj1 (hdr_next_iff x y Hx Hy Hbx)) in Hh. destruct Hh as [Hkk Hbb].
  destruct c; cbn [asel fst snd abit off] in *.
  - apply (proj1 (hdr_eq_iff w x Hw Hx)) in E. destruct E as [E1 E2].
    exists q. split; [lia|]. split.
    + refine (ex_intro _ x (conj HxA (conj _ (conj _ _)))); [congruence|congruence|].
      rewrite Hq. exact T17.
    + refine (ex_intro _ y (conj HyB (conj _ (conj _ _)))); [congruence|lia|].
      replace ((q + 1) mod 18) with 0 by lia. exact T0.
  - apply (proj1 (hdr_eq_iff w y Hw Hy)) in E. destruct E as [E1 E2].
    exists (q - 1). split; [lia|]. split.
    + refine (ex_intro _ x (conj HxA (conj _ (conj _ _)))); [congruence|lia|].
      replace ((q - 1) mod 18) with 17 by lia. exact T17.
    + replace (q - 1 + 1) with q by lia.
      refine (ex_intro _ y (conj HyB (conj _ (conj _ _)))); [congruence|congruence|].
      rewrite Hq. exact T0.
Qed.

Theorem step_has d q :
  has (step_next c A B) d q <-> exists p, q = p + off c /\ has A d p /\ has B d (p + 1).
Proof.
  assert (Hq18 : q mod 18 < 18) by (apply N.mod_lt; lia).
  split.
  - intros (w & Hw & Hk & Hb & Ht).
    pose proof (step_next_src w Hw) as [Hw64 _].
    apply In_step_next in Hw. destruct Hw as [(wi & Hwi & Ew)|[Hw Hm]].
    + destruct (NI_in wi Hwi) as (x & y & Hp & Ewi).
      pose proof (ipairs_wf A B HA HB _ Hp) as Hpw. cbn [fst snd] in Hpw.
      destruct Hpw as (Hx & Hy & Hh & HxA & HyB).
      assert (Hhi : hdr wi = hdr x) by (rewrite Ewi; apply contI_hdr; assumption).
      assert (Hhw : hdr w = hdr x).
      { rewrite Ew. destruct (memh wi (NA c A B)); [rewrite hdr_lor_cbit|]; exact Hhi. }
      assert (Tw : N.testbit wi (q mod 18) = true \/ (memh wi (NA c A B) = true /\ q mod 18 = abit c)).
      { rewrite Ew in Ht. destruct (memh wi (NA c A B)); [|left; exact Ht].
        rewrite testbit_lor_cbit in Ht. apply orb_true_iff in Ht. destruct Ht as [Ht|Ht]; [left; exact Ht|].
        right. split; [reflexivity|]. apply N.eqb_eq. exact Ht. }
      destruct Tw as [Tw|[Hm Hqa]].
      * (* an in-word match *)
        assert (Hna : q mod 18 <> abit c).
        { intro E. rewrite E, Ewi, contI_abit in Tw by assumption. discriminate. }
        assert (Hj : exists j, j < 17 /\ q mod 18 = j + off c).
        { destruct c; cbn [abit off] in *; [exists (q mod 18)|exists (q mod 18 - 1)]; lia. }
        destruct Hj as (j & Hj & Ej). rewrite Ej, Ewi, contI_bit in Tw by assumption.
        apply andb_true_iff in Tw. destruct Tw as [Tx Ty].
        apply (proj1 (hdr_eq_iff w x Hw64 Hx)) in Hhw. destruct Hhw as [K1 K2].
        apply (proj1 (hdr_eq_iff y x Hy Hx)) in Hh. destruct Hh as [K3 K4].
        assert (Hoff : off c <= 1) by (destruct c; cbn; lia).
        exists (q - off c). split; [lia|]. split.
        -- refine (ex_intro _ x (conj HxA (conj _ (conj _ _)))); [congruence|lia|].
           replace ((q - off c) mod 18) with j by lia. exact Tx.
        -- refine (ex_intro _ y (conj HyB (conj _ (conj _ _)))); [congruence|lia|].
           replace ((q - off c + 1) mod 18) with (j + 1) by lia. exact Ty.
      * (* the bit set by _set_adjbit_at_header *)
        apply memh_true in Hm. destruct Hm as (wj & Hwj & Ej).
        destruct (NA_in wj Hwj) as (x' & y' & Hp' & ->).
        apply (adj_has x' y' w d q Hp' Hw64); try assumption.
        rewrite <- contA_hdr by (apply (asel_lt c A B HA HB); exact Hp'). congruence.
    + destruct (NA_in w Hw) as (x' & y' & Hp' & ->).
      pose proof (asel_lt c A B HA HB _ Hp') as Hs.
      rewrite contA_bit in Ht by assumption. apply N.eqb_eq in Ht.
      apply (adj_has x' y' _ d q Hp' Hw64); try assumption. apply contA_hdr. exact Hs.
  - intros (p & -> & (x & HxA & Kx & Bx & Tx) & (y & HyB & Ky & By & Ty)).
    destruct (wf_in _ _ HA HxA) as [Hx Hbx]. destruct (wf_in _ _ HB HyB) as [Hy Hby].
    assert (Hp18 : p mod 18 < 18) by (apply N.mod_lt; lia).
    assert (Hoff : off c <= 1) by (destruct c; cbn; lia).
    destruct (N.eq_dec (p mod 18) 17) as [E17|N17].
    + (* cross-word *)
      assert (Hh : hdr y = hdr x + 262144) by (apply (hdr_next_iff x y Hx Hy Hbx); split; [congruence|lia]).
      assert (Hp : In (x, y) (aps A B)).
      { apply In_aps; [exact HB|]. repeat split; try assumption.
        rewrite adjtest_bits. cbn [fst snd]. rewrite E17 in Tx. rewrite Tx.
        replace ((p + 1) mod 18) with 0 in Ty by lia. rewrite Ty. reflexivity. }
      pose proof (asel_lt c A B HA HB _ Hp) as Hs.
      set (wj := contA c (x, y)).
      assert (Hwj : In wj (NA c A B)) by (unfold NA; apply in_map; exact Hp).
      assert (Hhj : hdr wj = hdr (asel c (x, y))) by (apply contA_hdr; exact Hs).
      assert (Hz : key (asel c (x, y)) = d /\ bucket (asel c (x, y)) = (p + off c) / 18 /\ (p + off c) mod 18 = abit c).
      { destruct c; cbn [asel fst snd off abit]; repeat split; try assumption; lia. }
      destruct Hz as (Z1 & Z2 & Z3).
      destruct (memh wj (NI c A B)) eqn:Hm.
      * apply memh_true in Hm. destruct Hm as (wi & Hwi & Ei).
        assert (Hm2 : memh wi (NA c A B) = true) by (apply memh_true; exists wj; split; [exact Hwj|congruence]).
        pose proof (proj1 (Forall_forall _ _) (NI_lt64 c A B HA HB) wi Hwi) as Hwi64.
        apply (has_of_hdr _ (asel c (x, y)) (N.lor wi (cbit c))); try assumption.
        -- apply In_step_next. left. exists wi. split; [exact Hwi|]. rewrite Hm2. reflexivity.
        -- apply lor_lt64; [exact Hwi64|]. pose proof (cbit_lt c). lia.
        -- rewrite hdr_lor_cbit. congruence.
        -- rewrite testbit_lor_cbit, Z3, N.eqb_refl. apply orb_true_r.
      * apply (has_of_hdr _ (asel c (x, y)) wj); try assumption.
        -- apply In_step_next. right. split; assumption.
        -- apply contA_lt. exact Hs.
        -- unfold wj. rewrite contA_bit by (try exact Hs; rewrite Z3; apply abit_lt).
           apply N.eqb_eq. exact Z3.
    + (* in-word *)
      assert (Hh : hdr y = hdr x) by (apply (hdr_eq_iff y x Hy Hx); split; [congruence|lia]).
      assert (Hp : In (x, y) (ipairs A B)) by (apply In_ipairs; [exact HB|tauto]).
      set (wi := contI c (x, y)).
      assert (Hwi : In wi (NI c A B)) by (unfold NI; apply in_map; exact Hp).
      assert (Hhi : hdr wi = hdr x) by (apply contI_hdr; assumption).
      assert (Hwi64 : wi < 18446744073709551616) by (apply contI_lt; assumption).
      assert (Tb : N.testbit wi ((p + off c) mod 18) = true).
      { replace ((p + off c) mod 18) with (p mod 18 + off c) by lia.
        unfold wi. rewrite contI_bit by (try assumption; lia). rewrite Tx.
        replace ((p + 1) mod 18) with (p mod 18 + 1) in Ty by lia. rewrite Ty. reflexivity. }
      apply (has_of_hdr _ x (if memh wi (NA c A B) then N.lor wi (cbit c) else wi)); try assumption.
      * apply In_step_next. left. exists wi. split; [exact Hwi|reflexivity].
      * destruct (memh wi (NA c A B)); [|exact Hwi64]. apply lor_lt64; [exact Hwi64|]. pose proof (cbit_lt c). lia.
      * destruct (memh wi (NA c A B)); [rewrite hdr_lor_cbit|]; exact Hhi.
      * lia.
      * destruct (memh wi (NA c A B)); [|exact Tb]. rewrite testbit_lor_cbit, Tb. reflexivity.
Qed.
End StepSem.

(* ------------------------------------------------------------------ *)
(* the counts                                                          *)
(* ------------------------------------------------------------------ *)
Definition nsum (f : N -> N) (l : list N) : N := fold_right (fun x acc => f x + acc) 0 l.
Lemma nsum_ext_in f g l : (forall x, In x l -> f x = g x) -> nsum f l = nsum g l.
Proof.
  induction l as [|x l IH]; intro H; [reflexivity|]. cbn [nsum fold_right]. fold (nsum f l). fold (nsum g l).
  rewrite H by (now left). rewrite IH by (intros; apply H; now right). reflexivity.
Qed.
Lemma nsum_add f g l : nsum (fun x => f x + g x) l = nsum f l + nsum g l.
Proof.
  induction l as [|x l IH]; [reflexivity|]. cbn [nsum fold_right].
  fold (nsum (fun x => f x + g x) l). fold (nsum f l). fold (nsum g l). rewrite IH. lia.
Qed.
Lemma nsum_filter (P : N -> bool) f l : nsum f (filter P l) = nsum (fun x => if P x then f x else 0) l.
Proof.
  induction l as [|x l IH]; [reflexivity|]. cbn [filter nsum fold_right].
  fold (nsum (fun x => if P x then f x else 0) l). rewrite <- IH. destruct (P x); reflexivity.
Qed.
Lemma length_flat_map_nsum (g : N -> list N) l :
  N.of_nat (length (flat_map g l)) = nsum (fun x => N.of_nat (length (g x))) l.
Proof.
  induction l as [|x l IH]; [reflexivity|]. cbn [flat_map nsum fold_right].
  fold (nsum (fun x => N.of_nat (length (g x))) l). rewrite app_length, Nat2N.inj_add, IH. reflexivity.
Qed.
Lemma filter_flat_map {X Y} (P : Y -> bool) (g : X -> list Y) l :
  filter P (flat_map g l) = flat_map (fun x => filter P (g x)) l.
Proof. induction l as [|x l IH]; [reflexivity|]. cbn [flat_map]. rewrite filter_app, IH. reflexivity. Qed.
Lemma filter_split_length {X} (Q P : X -> bool) l :
  length (filter P l) = (length (filter (fun a => Q a && P a) l) + length (filter (fun a => negb (Q a) && P a) l))%nat.
Proof.
  induction l as [|x l IH]; [reflexivity|]. cbn [filter]. destruct (Q x), (P x); cbn [andb negb length]; lia.
Qed.
Lemma filter_false {X} (l : list X) : filter (fun _ => false) l = [].
Proof. induction l; [reflexivity|assumption]. Qed.

Lemma ksum_spairs d (sel : N -> option N) (g : N * N -> N) l :
  ksum d (map (fun p => (key (fst p), g p)) (spairs sel l)) =
  nsum (fun x => if key x =? d then match sel x with Some y => g (x, y) | None => 0 end else 0) l.
Proof.
  induction l as [|x l IH]; [reflexivity|]. rewrite spairs_cons, map_app, ksum_app, IH.
  cbn [nsum fold_right]. f_equal.
  destruct (sel x) as [y|]; cbn [map]; [|destruct (key x =? d); reflexivity].
  rewrite ksum_cons. cbn [fst snd ksum fold_right]. destruct (key x =? d); lia.
Qed.

Definition partner_i (B : list N) (x : N) : option N := partner hdr hdr (fun v => v) B x.
Definition partner_a (B : list N) (x : N) : option N := partner hdr hdr (fun v => v + 262144) B x.
Definition sel_a (B : list N) (x : N) : option N :=
  match partner_a B x with Some y => if adjtest (x, y) then Some y else None | None => None end.

Lemma aps_spairs A B : aps A B = spairs (sel_a B) A.
Proof. unfold aps, apairs, lpairs. rewrite spairs_filter. reflexivity. Qed.

Lemma filter_eq17 (K : bool) : filter (fun i => (i =? 17) && K) bits18 = if K then [17] else [].
Proof. destruct K; reflexivity. Qed.

Section Counts.
Variables (A B : list N).
Hypothesis HA : wf_post A.
Hypothesis HB : wf_post B.

Lemma partner_i_some x y : partner_i B x = Some y -> In y B /\ hdr y = hdr x.
Proof. intro H. apply find_some in H. destruct H as [H1 H2]. apply N.eqb_eq in H2. auto. Qed.
Lemma partner_i_none x y : partner_i B x = None -> In y B -> hdr y <> hdr x.
Proof. intros H Hy. apply (find_none _ _ H) in Hy. apply N.eqb_neq in Hy. exact Hy. Qed.
Lemma partner_a_some x y : partner_a B x = Some y -> In y B /\ hdr y = hdr x + 262144.
Proof. intro H. apply find_some in H. destruct H as [H1 H2]. apply N.eqb_eq in H2. auto. Qed.
Lemma partner_a_none x y : partner_a B x = None -> In y B -> hdr y <> hdr x + 262144.
Proof. intros H Hy. apply (find_none _ _ H) in Hy. apply N.eqb_neq in Hy. exact Hy. Qed.

Lemma phi_inner x d p : In x A -> key x = d -> p / 18 = bucket x -> p mod 18 <> 17 ->
  mem_n (p + 1) (dposns B d) =
  match partner_i B x with Some y => mem_n (p + 1) (wposns y) | None => false end.
Proof.
  intros HxA Hk Hb H17. destruct (wf_in _ _ HA HxA) as [Hx _].
  assert (Hp18 : p mod 18 < 18) by (apply N.mod_lt; lia).
  apply bool_eq_iff. rewrite mem_n_In, In_dposns.
  destruct (partner_i B x) as [y|] eqn:E.
  - apply partner_i_some in E. destruct E as [HyB Hh]. destruct (wf_in _ _ HB HyB) as [Hy _].
    rewrite mem_n_In, In_wposns. split.
    + intros (y' & Hy'B & K' & B' & T'). destruct (wf_in _ _ HB Hy'B) as [Hy' _].
      assert (y' = y).
      { apply (hdr_inj_in B); try assumption. rewrite Hh. apply (hdr_eq_iff y' x Hy' Hx). split; [congruence|lia]. }
      subst y'. split; [congruence|exact T'].
    + intros [B' T']. apply (proj1 (hdr_eq_iff y x Hy Hx)) in Hh. destruct Hh as [K1 K2].
      exists y. repeat split; try assumption; congruence.
  - split; [|discriminate]. intros (y' & Hy'B & K' & B' & T'). exfalso.
    destruct (wf_in _ _ HB Hy'B) as [Hy' _]. apply (partner_i_none x y' E Hy'B).
    apply (hdr_eq_iff y' x Hy' Hx). split; [congruence|lia].
Qed.

Lemma phi_adj x d : In x A -> key x = d ->
  mem_n (18 * bucket x + 17 + 1) (dposns B d) =
  match partner_a B x with Some y => N.testbit y 0 | None => false end.
Proof.
  intros HxA Hk. destruct (wf_in _ _ HA HxA) as [Hx Hbx].
  apply bool_eq_iff. rewrite mem_n_In, In_dposns.
  replace ((18 * bucket x + 17 + 1) / 18) with (bucket x + 1) by lia.
  destruct (partner_a B x) as [y|] eqn:E.
  - apply partner_a_some in E. destruct E as [HyB Hh]. destruct (wf_in _ _ HB HyB) as [Hy _].
    split.
    + intros (y' & Hy'B & K' & B' & T'). destruct (wf_in _ _ HB Hy'B) as [Hy' _].
      replace ((18 * bucket x + 17 + 1) / 18) with (bucket x + 1) in B' by lia.
      replace ((18 * bucket x + 17 + 1) mod 18) with 0 in T' by lia.
      assert (y' = y).
      { apply (hdr_inj_in B); try assumption. rewrite Hh. apply (hdr_next_iff x y' Hx Hy' Hbx). split; congruence. }
      subst y'. exact T'.
    + intro T'. apply (proj1 (hdr_next_iff x y Hx Hy Hbx)) in Hh. destruct Hh as [K1 K2].
      exists y. split; [exact HyB|]. split; [congruence|]. split; [lia|].
      replace ((18 * bucket x + 17 + 1) mod 18) with 0 by lia. exact T'.
  - split; [|discriminate]. intros (y' & Hy'B & K' & B' & T'). exfalso.
    destruct (wf_in _ _ HB Hy'B) as [Hy' _]. apply (partner_a_none x y' E Hy'B).
    replace ((18 * bucket x + 17 + 1) / 18) with (bucket x + 1) in B' by lia.
    apply (hdr_next_iff x y' Hx Hy' Hbx). split; congruence.
Qed.

(* matches starting in word x = in-word matches + the cross-word match *)
Lemma word_matches x d : In x A -> key x = d ->
  N.of_nat (length (filter (fun p => mem_n (p + 1) (dposns B d)) (wposns x))) =
  match partner_i B x with Some y => popcount (ov x y) | None => 0 end +
  match sel_a B x with Some _ => 1 | None => 0 end.
Proof.
  intros HxA Hk. destruct (wf_in _ _ HA HxA) as [Hx Hbx].
  rewrite (filter_split_length (fun p => negb (p mod 18 =? 17))), Nat2N.inj_add. f_equal.
  - destruct (partner_i B x) as [y|] eqn:E.
    + rewrite (filter_ext_in _ (fun p => negb (p mod 18 =? 17) && mem_n (p + 1) (wposns y))).
      * symmetry. apply inner_popcount. apply partner_i_some in E. destruct E as [HyB Hh].
        destruct (wf_in _ _ HB HyB) as [Hy _]. symmetry. apply (hdr_eq_iff y x Hy Hx). exact Hh.
      * intros p Hp. apply In_wposns in Hp. destruct Hp as [Hb _].
        destruct (N.eqb_spec (p mod 18) 17) as [E17|N17]; [reflexivity|].
        rewrite (phi_inner x d p HxA Hk Hb N17), E. reflexivity.
    + rewrite (filter_ext_in _ (fun _ => false)); [rewrite filter_false; reflexivity|].
      intros p Hp. apply In_wposns in Hp. destruct Hp as [Hb _].
      destruct (N.eqb_spec (p mod 18) 17) as [E17|N17]; [reflexivity|].
      rewrite (phi_inner x d p HxA Hk Hb N17), E. reflexivity.
  - unfold wposns. rewrite filter_map_comm, map_length. unfold bit_list. rewrite filter_filter.
    rewrite (filter_ext_in _ (fun i => (i =? 17) && (N.testbit x 17 && mem_n (18 * bucket x + 17 + 1) (dposns B d)))).
    + rewrite filter_eq17, (phi_adj x d HxA Hk). unfold sel_a.
      destruct (partner_a B x) as [y|]; [|rewrite andb_false_r; reflexivity].
      rewrite adjtest_bits. cbn [fst snd]. destruct (N.testbit x 17 && N.testbit y 0); reflexivity.
    + intros i Hi. apply in_bits18 in Hi. rewrite lsb_testbit_low by exact Hi.
      replace ((18 * bucket x + i) mod 18) with i by lia. rewrite negb_involutive.
      destruct (N.eqb_spec i 17) as [->|Hne]; cbn [andb]; [reflexivity|apply andb_false_r].
Qed.

Lemma step_counts_spec : StronglySorted N.lt (map fst (step_counts A B)) /\
  forall d, let n := N.of_nat (length (filter (fun p => mem_n (p + 1) (dposns B d)) (dposns A d))) in
            match lookup d (step_counts A B) with Some v => v = n | None => n = 0 end.
Proof.
  unfold step_counts. cbn zeta.
  destruct (merged_counts (runs_sum (inner_kvs (ipairs A B)))
              (run_counts (np_sort (map (fun p => key (fst p)) (aps A B))))) as [Hs Hl].
  split; [exact Hs|]. intro d.
  assert (E : N.of_nat (length (filter (fun p => mem_n (p + 1) (dposns B d)) (dposns A d))) =
              ksum d (runs_sum (inner_kvs (ipairs A B))) +
              ksum d (run_counts (np_sort (map (fun p => key (fst p)) (aps A B))))).
  { unfold dposns at 2. rewrite filter_flat_map, length_flat_map_nsum, nsum_filter.
    rewrite ksum_runs_sum, run_counts_runs_sum, ksum_runs_sum.
    rewrite <- (ksum_perm d _ _ (Permutation_map (fun x => (x, 1)) (np_sort_perm _))).
    rewrite map_map. unfold inner_kvs, ipairs, lpairs.
    rewrite (ksum_spairs d _ (fun p => popcount (ov (fst p) (snd p)))).
    rewrite aps_spairs, (ksum_spairs d _ (fun _ => 1)), <- nsum_add.
    apply nsum_ext_in. intros x Hx. destruct (N.eqb_spec (key x) d) as [Hk|Hk]; [|reflexivity].
    rewrite (word_matches x d Hx Hk). reflexivity. }
  rewrite E. apply Hl.
Qed.
End Counts.

(* ------------------------------------------------------------------ *)
(* Stage 2: the bigram step                                            *)
(* ------------------------------------------------------------------ *)
Definition matched (A B : list N) (d : N) : list N :=
  filter (fun p => mem_n (p + 1) (dposns B d)) (dposns A d).

Lemma step_next_dposns c A B d : wf_post A -> wf_post B ->
  dposns (step_next c A B) d = map (fun p => p + off c) (matched A B d).
Proof.
  intros HA HB. apply sslt_In_eq.
  - apply dposns_sorted, step_next_wf; assumption.
  - apply ss_map_mono; [intros; lia|]. apply ss_filter, dposns_sorted. exact HA.
  - intro q. rewrite In_dposns, (step_has c A B HA HB d q), in_map_iff. unfold matched. split.
    + intros (p & -> & H1 & H2). exists p. split; [reflexivity|]. apply filter_In.
      rewrite In_dposns, mem_n_In, In_dposns. tauto.
    + intros (p & <- & H). apply filter_In in H. rewrite In_dposns, mem_n_In, In_dposns in H. eauto.
Qed.

Theorem bigram_step : forall c A B, wf_post A -> wf_post B ->
  N.of_nat (length A) < 2 ^ 62 -> N.of_nat (length B) < 2 ^ 62 -> nocommon A B ->
  exists counts next, bigram_freqs c A B = AOk (counts, next) /\
    wf_post next /\
    (forall d, dposns next d = map (fun p => p + off c) (matched A B d)) /\
    StronglySorted N.lt (map fst counts) /\
    (forall d, match lookup d counts with
               | Some n => n = N.of_nat (length (dposns next d))
               | None => dposns next d = []
               end).
Proof.
  intros c A B HA HB HlA HlB Hnc.
  exists (step_counts A B), (step_next c A B).
  split; [apply bigram_freqs_eq; assumption|].
  split; [apply step_next_wf; assumption|].
  split; [intro d; apply step_next_dposns; assumption|].
  destruct (step_counts_spec A B HA HB) as [Hs Hl]. split; [exact Hs|].
  intro d. specialize (Hl d). cbn zeta in Hl. rewrite step_next_dposns by assumption.
  rewrite map_length. fold (matched A B d) in Hl.
  destruct (lookup d (step_counts A B)); [exact Hl|].
  destruct (matched A B d); [reflexivity|cbn [length] in Hl; lia].
Qed.

(* the two instances, in the list form of the task statement *)
Theorem bigram_step_CR : forall A B, wf_post A -> wf_post B ->
  N.of_nat (length A) < 2 ^ 62 -> N.of_nat (length B) < 2 ^ 62 -> nocommon A B ->
  exists counts next, bigram_freqs CR A B = AOk (counts, next) /\
    wf_post next /\
    (forall d, dposns next d =
               map N.succ (filter (fun p => existsb (N.eqb (p + 1)) (dposns B d)) (dposns A d))) /\
    StronglySorted N.lt (map fst counts) /\
    (forall d, match lookup d counts with
               | Some n => n = N.of_nat (length (dposns next d))
               | None => dposns next d = []
               end).
Proof.
  intros A B HA HB HlA HlB Hnc.
  destruct (bigram_step CR A B HA HB HlA HlB Hnc) as (counts & next & E & Hwf & Hd & Hs & Hl).
  exists counts, next. split; [exact E|]. split; [exact Hwf|]. split; [|split; [exact Hs|exact Hl]].
  intro d. rewrite Hd. apply map_ext. intro p. cbn [off]. lia.
Qed.

Theorem bigram_step_CL : forall A B, wf_post A -> wf_post B ->
  N.of_nat (length A) < 2 ^ 62 -> N.of_nat (length B) < 2 ^ 62 -> nocommon A B ->
  exists counts next, bigram_freqs CL A B = AOk (counts, next) /\
    wf_post next /\
    (forall d, dposns next d = filter (fun p => existsb (N.eqb (p + 1)) (dposns B d)) (dposns A d)) /\
    StronglySorted N.lt (map fst counts) /\
    (forall d, match lookup d counts with
               | Some n => n = N.of_nat (length (dposns next d))
               | None => dposns next d = []
               end).
Proof.
  intros A B HA HB HlA HlB Hnc.
  destruct (bigram_step CL A B HA HB HlA HlB Hnc) as (counts & next & E & Hwf & Hd & Hs & Hl).
  exists counts, next. split; [exact E|]. split; [exact Hwf|]. split; [|split; [exact Hs|exact Hl]].
  intro d. rewrite Hd. transitivity (map (fun p => p) (matched A B d)); [|apply map_id].
  apply map_ext. intro p. cbn [off]. lia.
Qed.

(* a sufficient condition for [nocommon]: the two lists never hold the same position of the same document
   and one of them has no zero-payload word (true of every canonical term posting list) *)
Lemma nocommon_of_disjoint A B : wf_post A -> wf_post B ->
  (Forall (fun w => lsb w <> 0) A \/ Forall (fun w => lsb w <> 0) B) ->
  (forall d p, has A d p -> has B d p -> False) -> nocommon A B.
Proof.
  intros HA HB Hnz Hdis w HwA HwB.
  assert (Hl : lsb w <> 0).
  { destruct Hnz as [H|H]; rewrite Forall_forall in H; auto. }
  pose proof (N.bit_log2 (lsb w) Hl) as Hbit. rewrite lsb_testbit in Hbit.
  apply andb_true_iff in Hbit. destruct Hbit as [Hi Ht]. apply N.ltb_lt in Hi.
  set (i := N.log2 (lsb w)) in *.
  assert (Hhas : forall ws, In w ws -> has ws (key w) (18 * bucket w + i)).
  { intros ws Hin. exists w. split; [exact Hin|]. split; [reflexivity|]. split; [lia|].
    replace ((18 * bucket w + i) mod 18) with i by lia. exact Ht. }
  apply (Hdis (key w) (18 * bucket w + i)); apply Hhas; assumption.
Qed.

(* the same-term branch really is different: on A = B (a term followed by itself) the generic statement
   fails, e.g. positions 3,4,5 of one document give 2 bigram matches but the model reports 1 *)
Example same_term_differs :
  let A := encode_spec [(0, 3); (0, 4); (0, 5)] in
  bigram_freqs CR A A = AOk ([(0, 1)], [48]) /\ matched A A 0 = [3; 4].
Proof. vm_compute. split; reflexivity. Qed.

Print Assumptions kernel_pairs.
Print Assumptions set_adjbit_spec.
Print Assumptions bigram_step.
Print Assumptions bigram_step_CR.
Print Assumptions bigram_step_CL.
Print Assumptions nocommon_of_disjoint.
