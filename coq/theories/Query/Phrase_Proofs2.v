(* Exact phrase search, part 2 (Stage 2): one bigram step  bigram_freqs c A B  on well-formed posting lists.

   Main results (all closed):
     kernel_pairs          the fused kernel's four index lists select the header-equal / header-adjacent pairs
     set_adjbit_spec       what _set_adjbit_at_header returns
     bigram_step           for c = CR / CL: the call succeeds, the continuation is well formed and holds exactly
                           the END (CR) / START (CL) positions of the matched bigrams, the counts are strictly
                           sorted by document and every listed count is the number of matches (zero entries
                           are possible), unlisted documents have no match
     bigram_step_CR, bigram_step_CL   the two instances in list form *)
From Coq Require Import Sorted Permutation.
From SA Require Import Base.Prelude Kernels.Spec Kernels.Intersect Kernels.Linear Kernels.Intersect_Correct
  Kernels.Adjacent_Correct Kernels.Linear_Proofs Codec.Codec Codec.Codec_Spec Codec.Codec_Proofs Index.Index
  Query.Phrase Query.Phrase_Spec Query.Phrase_Proofs.
Open Scope N_scope.

(* ------------------------------------------------------------------ *)
(* generic list facts                                                  *)
(* ------------------------------------------------------------------ *)
Lemma combine_fst_snd {A B} (ps : list (A * B)) : combine (map fst ps) (map snd ps) = ps.
Proof. induction ps as [|[a b] ps IH]; cbn [map combine fst snd]; [reflexivity|]. rewrite IH. reflexivity. Qed.
Lemma combine_map2 {A B C} (f : A -> B) (g : A -> C) l : combine (map f l) (map g l) = map (fun x => (f x, g x)) l.
Proof. induction l as [|x l IH]; cbn [map combine]; [reflexivity|]. rewrite IH. reflexivity. Qed.
Lemma map2_fst_snd {A B C} (f : A -> B -> C) ps : map2 f (map fst ps) (map snd ps) = map (fun p => f (fst p) (snd p)) ps.
Proof. induction ps as [|[a b] ps IH]; cbn [map map2 fst snd]; [reflexivity|]. rewrite IH. reflexivity. Qed.
Lemma map2_map_r {A B C D} (f : A -> B -> C) (g : D -> A) (l : list D) (r : list B) :
  map2 f (map g l) r = map2 (fun d b => f (g d) b) l r.
Proof. revert r. induction l as [|x l IH]; intros [|y r]; cbn [map map2]; try reflexivity. rewrite IH. reflexivity. Qed.
Lemma map2_map2_r {A B C D} (f : A -> B -> C) (g : C -> B -> D) : forall L R,
  map2 g (map2 f L R) R = map2 (fun l r => g (f l r) r) L R.
Proof. induction L as [|x L IH]; intros [|y R]; cbn [map2]; try reflexivity. rewrite IH. reflexivity. Qed.
Lemma map2_map2_l {A B C D} (f : A -> B -> C) (g : C -> A -> D) : forall L R,
  map2 g (map2 f L R) L = map2 (fun l r => g (f l r) l) L R.
Proof. induction L as [|x L IH]; intros [|y R]; cbn [map2]; try reflexivity. rewrite IH. reflexivity. Qed.
Lemma filter_true {A} (l : list A) : filter (fun _ => true) l = l.
Proof. induction l as [|x l IH]; cbn [filter]; [reflexivity|]. rewrite IH. reflexivity. Qed.

Lemma map_pointwise {A B C} (g : A -> C) (h : B -> C) : forall la lb, length la = length lb ->
  (forall k a b, nth_error la k = Some a -> nth_error lb k = Some b -> g a = h b) -> map g la = map h lb.
Proof.
  induction la as [|a la IH]; intros [|b lb] Hlen H; cbn [length] in Hlen; try discriminate; [reflexivity|].
  cbn [map]. f_equal.
  - apply (H 0%nat); reflexivity.
  - apply IH; [lia|]. intros k a' b' Ha Hb. apply (H (S k)); assumption.
Qed.

Lemma ss_lt_sorted_le' l : StronglySorted N.lt l -> Sorted N.le l.
Proof.
  induction 1 as [|a t Hs IH Hf]; constructor; [exact IH|].
  destruct t as [|b t]; constructor. inversion Hf; subst. lia.
Qed.
Lemma ss_lt_nodup' l : StronglySorted N.lt l -> NoDup l.
Proof.
  induction 1 as [|a t Hs IH Hf]; constructor; [|exact IH].
  intro H. rewrite Forall_forall in Hf. apply Hf in H. lia.
Qed.

Lemma first_index_app' : forall pre v t, ~ In v pre ->
  first_index v (pre ++ v :: t) = Some (N.of_nat (length pre)).
Proof.
  induction pre as [|x pre IH]; intros v t Hn; cbn [app first_index length].
  - now rewrite N.eqb_refl.
  - replace (x =? v) with false by (symmetry; apply N.eqb_neq; intro; subst; apply Hn; now left).
    rewrite IH by (intro; apply Hn; now right). cbn [option_map]. f_equal. lia.
Qed.

Lemma first_index_nodup M a : NoDup M -> a < N.of_nat (length M) -> first_index (nth (N.to_nat a) M 0) M = Some a.
Proof.
  intros Hnd Ha. apply first_index_intro; [exact Ha|reflexivity|].
  intros a' Ha' E. apply (proj1 (NoDup_nth M 0)) in E; [lia|exact Hnd|lia|lia].
Qed.

(* ------------------------------------------------------------------ *)
(* pair lists: each left element with its selected partner             *)
(* ------------------------------------------------------------------ *)
Section Pairs.
Context {X Y : Type}.
Definition spairs (sel : X -> option Y) (l : list X) : list (X * Y) :=
  flat_map (fun x => match sel x with Some y => [(x, y)] | None => [] end) l.

Lemma spairs_cons sel x l : spairs sel (x :: l) = (match sel x with Some y => [(x, y)] | None => [] end) ++ spairs sel l.
Proof. reflexivity. Qed.

Lemma In_spairs sel l x y : In (x, y) (spairs sel l) <-> In x l /\ sel x = Some y.
Proof.
  unfold spairs. rewrite in_flat_map. split.
  - intros (x' & Hx & H). destruct (sel x') as [y'|] eqn:E; [|destruct H].
    destruct H as [H|[]]. inversion H; subst. auto.
  - intros [Hx E]. exists x. split; [exact Hx|]. rewrite E. now left.
Qed.

Lemma spairs_filter sel (Q : X * Y -> bool) l :
  filter Q (spairs sel l) =
  spairs (fun x => match sel x with Some y => if Q (x, y) then Some y else None | None => None end) l.
Proof.
  induction l as [|x l IH]; [reflexivity|]. rewrite !spairs_cons, filter_app, IH. f_equal.
  destruct (sel x) as [y|]; [|reflexivity]. cbn [filter]. destruct (Q (x, y)); reflexivity.
Qed.

Lemma spairs_length sel l : (length (spairs sel l) <= length l)%nat.
Proof.
  induction l as [|x l IH]; [cbn; lia|]. rewrite spairs_cons, app_length. cbn [length].
  destruct (sel x); cbn [length]; lia.
Qed.

Lemma ss_spairs sel (f : X -> N) l : StronglySorted N.lt (map f l) ->
  StronglySorted N.lt (map (fun p => f (fst p)) (spairs sel l)).
Proof.
  induction l as [|x l IH]; intro H; [constructor|]. cbn [map] in H. inversion H as [|? ? Hs Hf]; subst.
  rewrite spairs_cons. destruct (sel x) as [y|]; cbn [app map]; [|apply IH; exact Hs].
  constructor; [apply IH; exact Hs|]. apply Forall_forall. intros v Hv.
  apply in_map_iff in Hv. destruct Hv as ([x' y'] & <- & Hp). apply In_spairs in Hp. destruct Hp as [Hx' _].
  rewrite Forall_forall in Hf. apply Hf. apply in_map. exact Hx'.
Qed.
End Pairs.

Section Partner.
Context {X Y : Type} (fl : X -> N) (fr : Y -> N) (tf : N -> N) (dx : X) (dy : Y).
Definition partner (r : list Y) (x : X) : option Y := find (fun y => fr y =? tf (fl x)) r.
Definition lpairs (l : list X) (r : list Y) : list (X * Y) := spairs (partner r) l.

Lemma find_nodup : forall r y v, NoDup (map fr r) -> In y r -> fr y = v -> find (fun y => fr y =? v) r = Some y.
Proof.
  induction r as [|z r IH]; intros y v Hnd Hin Hv; [destruct Hin|].
  cbn [map] in Hnd. inversion Hnd as [|? ? Hn Hnd']; subst. cbn [find].
  destruct Hin as [->|Hin].
  - rewrite N.eqb_refl. reflexivity.
  - destruct (N.eqb_spec (fr z) (fr y)) as [E|E].
    + exfalso. apply Hn. rewrite E. apply in_map. exact Hin.
    + apply IH; auto.
Qed.

Lemma In_lpairs l r x y : NoDup (map fr r) ->
  (In (x, y) (lpairs l r) <-> In x l /\ In y r /\ fr y = tf (fl x)).
Proof.
  intro Hnd. unfold lpairs. rewrite In_spairs. unfold partner. split.
  - intros [Hx Hf]. apply find_some in Hf. destruct Hf as [Hy E]. apply N.eqb_eq in E. auto.
  - intros (Hx & Hy & E). split; [exact Hx|]. apply find_nodup; assumption.
Qed.

Lemma first_index_find : forall r v,
  match first_index v (map fr r) with
  | Some b => find (fun y => fr y =? v) r = Some (nth (N.to_nat b) r dy)
  | None => find (fun y => fr y =? v) r = None
  end.
Proof.
  induction r as [|z r IH]; intro v; cbn [map first_index find]; [reflexivity|].
  destruct (fr z =? v); [reflexivity|]. specialize (IH v).
  destruct (first_index v (map fr r)) as [b|]; cbn [option_map]; [|exact IH].
  rewrite N2Nat.inj_succ. cbn [nth]. exact IH.
Qed.

(* the index pairs of the kernel specs, read back as element pairs *)
Lemma genf_pairs r : forall t pre, NoDup (map fl (pre ++ t)) ->
  map (fun ab => (nth (N.to_nat (fst ab)) (pre ++ t) dx, nth (N.to_nat (snd ab)) r dy))
      (flat_map (genf tf (map fl (pre ++ t)) (map fr r)) (enum_from (N.of_nat (length pre)) (map fl t)))
  = lpairs t r.
Proof.
  induction t as [|x t IH]; intros pre Hnd; [reflexivity|].
  cbn [map enum_from flat_map]. rewrite map_app. unfold lpairs. rewrite spairs_cons. f_equal.
  - unfold genf, is_first, partner.
    assert (Hn : ~ In (fl x) (map fl pre)).
    { rewrite map_app in Hnd. cbn [map] in Hnd. apply NoDup_remove_2 in Hnd.
      intro H. apply Hnd. apply in_or_app. now left. }
    rewrite map_app. cbn [map].
    rewrite (first_index_app' (map fl pre) (fl x) (map fl t) Hn), map_length, N.eqb_refl.
    pose proof (first_index_find r (tf (fl x))) as F.
    destruct (first_index (tf (fl x)) (map fr r)) as [b|]; rewrite F; [|reflexivity].
    cbn [map fst snd]. rewrite Nat2N.id, nth_middle. reflexivity.
  - replace (N.succ (N.of_nat (length pre))) with (N.of_nat (length (pre ++ [x])))
      by (rewrite app_length; cbn [length]; lia).
    replace (pre ++ x :: t) with ((pre ++ [x]) ++ t) by (rewrite <- app_assoc; reflexivity).
    apply IH. rewrite <- app_assoc. exact Hnd.
Qed.
End Partner.


Lemma spairs_snd {X Y} (sel : X -> option Y) (d : Y) l :
  map snd (spairs sel l) = map (fun x => match sel x with Some y => y | None => d end) (map fst (spairs sel l)).
Proof.
  induction l as [|x l IH]; [reflexivity|]. rewrite spairs_cons, !map_app, IH. f_equal.
  destruct (sel x) eqn:E; cbn [map fst snd]; [rewrite E|]; reflexivity.
Qed.

(* ------------------------------------------------------------------ *)
(* well-formed posting lists meet the kernels' preconditions           *)
(* ------------------------------------------------------------------ *)
Lemma mvals_hdr ws : mvals ws header_mask = map hdr ws.
Proof. reflexivity. Qed.
Lemma wf_lt64 ws : wf_post ws -> Forall (fun w => w < 18446744073709551616) ws.
Proof. intros [_ H]. eapply Forall_impl; [|exact H]. cbn. intros a [Ha _]. exact Ha. Qed.
Lemma wf_in ws w : wf_post ws -> In w ws -> w < 18446744073709551616 /\ bucket w <= 14563.
Proof. intros [_ H] Hin. rewrite Forall_forall in H. apply H. exact Hin. Qed.
Lemma wf_nodup ws : wf_post ws -> NoDup (map hdr ws).
Proof. intros [H _]. apply ss_lt_nodup'. exact H. Qed.
Lemma hs_msorted ws : StronglySorted N.lt (map hdr ws) -> Intersect_Correct.msorted ws header_mask.
Proof. intro H. apply sorted_msorted. rewrite mvals_hdr. apply ss_lt_sorted_le'. exact H. Qed.
Lemma header_mask_nz : header_mask <> 0. Proof. rewrite header_mask_val. lia. Qed.
Lemma header_mask_lt : header_mask < W64. Proof. rewrite header_mask_val, W64_val. lia. Qed.
Lemma wf_nooverflow ws : wf_post ws -> forall a, In a ws -> N.land a header_mask + lowbit header_mask < W64.
Proof.
  intros Hwf a Ha. destruct (wf_in _ _ Hwf Ha) as [H64 Hb].
  change (N.land a header_mask) with (hdr a). rewrite lowbit_header_mask, W64_val.
  rewrite hdr_key_bucket by exact H64. pose proof (key_lt a H64). lia.
Qed.
Lemma hdr_inj_in ws a b : wf_post ws -> In a ws -> In b ws -> hdr a = hdr b -> a = b.
Proof.
  intros Hwf Ha Hb E. pose proof (wf_nodup _ Hwf) as Hnd.
  destruct (In_nth _ _ 0 Ha) as (i & Hi & Ei). destruct (In_nth _ _ 0 Hb) as (j & Hj & Ej).
  assert (i = j).
  { assert (H0 : nth i (map hdr ws) (hdr 0) = nth j (map hdr ws) (hdr 0))
      by (rewrite !map_nth, Ei, Ej; exact E).
    change (hdr 0) with 0 in H0.
    apply (proj1 (NoDup_nth (map hdr ws) 0) Hnd); rewrite ?map_length; assumption. }
  subst j. congruence.
Qed.

(* ------------------------------------------------------------------ *)
(* the fused kernel on well-formed posting lists                       *)
(* ------------------------------------------------------------------ *)
Definition ipairs (A B : list N) : list (N * N) := lpairs hdr hdr (fun v => v) A B.
Definition apairs (A B : list N) : list (N * N) := lpairs hdr hdr (fun v => v + 262144) A B.

Lemma spec_pairs_take tf A B : NoDup (map hdr A) ->
  let P := flat_map (genf tf (map hdr A) (map hdr B)) (enum (map hdr A)) in
  take_idx A (map fst P) = map fst (lpairs hdr hdr tf A B) /\
  take_idx B (map snd P) = map snd (lpairs hdr hdr tf A B).
Proof.
  intros Hnd P.
  pose proof (genf_pairs hdr hdr tf 0 0 B A [] Hnd) as G. cbn [app length N.of_nat] in G.
  change (enum_from 0 (map hdr A)) with (enum (map hdr A)) in G. fold P in G.
  rewrite <- G. unfold take_idx. rewrite !map_map. cbn [fst snd]. split; reflexivity.
Qed.

Theorem kernel_pairs A B : wf_post A -> wf_post B ->
  N.of_nat (length A) < 2 ^ 62 -> N.of_nat (length B) < 2 ^ 62 ->
  exists ia, intersect_with_adjacents A B header_mask = Done ia /\
    take_idx A (ia_lo ia) = map fst (ipairs A B) /\ take_idx B (ia_ro ia) = map snd (ipairs A B) /\
    take_idx A (ia_alo ia) = map fst (apairs A B) /\ take_idx B (ia_aro ia) = map snd (apairs A B).
Proof.
  intros HA HB HlA HlB.
  destruct (intersect_with_adjacents_correct A B header_mask (hs_msorted _ (proj1 HA)) (hs_msorted _ (proj1 HB))
              HlA HlB header_mask_nz header_mask_lt (wf_nooverflow _ HA))
    as (o & E & Hlo & Hlen & Hro & Hadj).
  exists o. split; [exact E|].
  pose proof (wf_nodup _ HA) as NA. pose proof (wf_nodup _ HB) as NB.
  assert (E1 : take_idx A (ia_lo o) = map fst (ipairs A B)).
  { rewrite Hlo. unfold intersect_drop_spec. cbn zeta. cbn [fst]. rewrite !mvals_hdr.
    apply (spec_pairs_take (fun v => v) A B NA). }
  split; [exact E1|]. split.
  - unfold ipairs, lpairs. rewrite (spairs_snd _ 0). fold (lpairs hdr hdr (fun v => v) A B). fold (ipairs A B).
    rewrite <- E1. unfold take_idx. rewrite map_map.
    apply map_pointwise; [exact Hlen|].
    intros k b a Hb Ha. destruct (Hro k a b Ha Hb) as [Hbl Hh].
    change (hdr (nth (N.to_nat b) B 0) = hdr (nth (N.to_nat a) A 0)) in Hh.
    unfold partner. rewrite (find_nodup hdr B (nth (N.to_nat b) B 0) _ NB); [reflexivity| |exact Hh].
    apply nth_In. lia.
  - rewrite lowbit_header_mask in Hadj. unfold adjacent_spec in Hadj. cbn zeta in Hadj.
    rewrite !mvals_hdr in Hadj. inversion Hadj as [[Ha Hr]]. rewrite Ha, Hr.
    exact (spec_pairs_take (fun v => v + 262144) A B NA).
Qed.

(* ------------------------------------------------------------------ *)
(* index lists of intersect_drop_spec on duplicate-free inputs         *)
(* ------------------------------------------------------------------ *)
Definition dpairs (ML MR : list N) : list (N * N) := flat_map (genf (fun v => v) ML MR) (enum ML).

Lemma drop_spec_dpairs l r mask :
  intersect_drop_spec l r mask = (map fst (dpairs (mvals l mask) (mvals r mask)), map snd (dpairs (mvals l mask) (mvals r mask))).
Proof. reflexivity. Qed.

Lemma dpairs_in ML MR a b :
  In (a, b) (dpairs ML MR) <-> exists v, first_index v ML = Some a /\ first_index v MR = Some b.
Proof.
  unfold dpairs. rewrite in_flat_map. split.
  - intros ([a0 v] & Hin & Hg). apply genf_in in Hg. destruct Hg as (-> & H1 & H2). eauto.
  - intros (v & H1 & H2). exists (a, v). split.
    + apply first_index_some in H1. apply in_enum. tauto.
    + apply genf_in. auto.
Qed.

Lemma dfst_mem ML MR a : NoDup ML -> a < N.of_nat (length ML) ->
  (In a (map fst (dpairs ML MR)) <-> In (nth (N.to_nat a) ML 0) MR).
Proof.
  intros Hnd Ha. rewrite in_map_iff. split.
  - intros ([a' b] & E & Hin). cbn [fst] in E. subst a'. apply dpairs_in in Hin.
    destruct Hin as (v & H1 & H2). apply first_index_some in H1. apply first_index_some in H2.
    destruct H1 as (_ & <- & _). destruct H2 as (Hb & <- & _). apply nth_In. lia.
  - intro Hin. destruct (first_index_ex _ _ Hin) as [b Hb]. exists (a, b). split; [reflexivity|].
    apply dpairs_in. exists (nth (N.to_nat a) ML 0). split; [apply first_index_nodup; assumption|exact Hb].
Qed.

Lemma dsnd_mem ML MR b : NoDup MR -> b < N.of_nat (length MR) ->
  (In b (map snd (dpairs ML MR)) <-> In (nth (N.to_nat b) MR 0) ML).
Proof.
  intros Hnd Hb. rewrite in_map_iff. split.
  - intros ([a b'] & E & Hin). cbn [snd] in E. subst b'. apply dpairs_in in Hin.
    destruct Hin as (v & H1 & H2). apply first_index_some in H1. apply first_index_some in H2.
    destruct H2 as (_ & <- & _). destruct H1 as (Ha & <- & _). apply nth_In. lia.
  - intro Hin. destruct (first_index_ex _ _ Hin) as [a Ha]. exists (a, b). split; [reflexivity|].
    apply dpairs_in. exists (nth (N.to_nat b) MR 0). split; [exact Ha|apply first_index_nodup; assumption].
Qed.

Lemma dpairs_nil_snd ML MR : map fst (dpairs ML MR) = [] -> map snd (dpairs ML MR) = [].
Proof. destruct (dpairs ML MR); [reflexivity|discriminate]. Qed.

(* ------------------------------------------------------------------ *)
(* _inner_bigram_freqs and _adjacent_bigram_freqs on pair lists        *)
(* ------------------------------------------------------------------ *)
Definition contI (c : cont) (p : N * N) : N :=
  match c with CR => cwR (fst p) (snd p) | CL => cwL (fst p) (snd p) end.
Definition contA (c : cont) (p : N * N) : N :=
  match c with CR => N.lor (header_of (snd p)) 1 | CL => N.lor (header_of (fst p)) upper_bit end.
Definition inner_kvs (ps : list (N * N)) : list (N * N) :=
  map (fun p => (key (fst p), popcount (ov (fst p) (snd p)))) ps.

Lemma inner_bigram_generic c ps : (forall p, In p ps -> fst p <> snd p) ->
  inner_bigram c (map fst ps) (map snd ps) = AOk (runs_sum (inner_kvs ps), map (contI c) ps).
Proof.
  intro Hne. unfold inner_bigram. rewrite !map_length, Nat.eqb_refl. cbn [negb].
  destruct ps as [|p ps]; [reflexivity|].
  set (L := map fst (p :: ps)). set (R := map snd (p :: ps)).
  assert (EL : L = fst p :: map fst ps) by reflexivity. rewrite EL at 1.
  assert (Heq : list_eqb L R = false).
  { unfold list_eqb, L, R. rewrite combine_fst_snd. cbn [forallb].
    replace (fst p =? snd p) with false by (symmetry; apply N.eqb_neq, Hne; now left).
    cbn [andb]. apply andb_false_r. }
  rewrite Heq.
  rewrite popcount_reduce_at_correct by (unfold L, R; rewrite map_length, map2_fst_snd, !map_length; reflexivity).
  cbn [unpy lift abind]. f_equal. f_equal.
  - unfold popcount_reduce_at_spec, L, R. rewrite map2_fst_snd, !map_map, combine_map2. reflexivity.
  - unfold L, R. destruct c.
    + rewrite map2_map2_l, map2_fst_snd. reflexivity.
    + rewrite map2_map2_r, map2_fst_snd. reflexivity.
Qed.
