(* Spec ingredients for C15 (slop only relaxes): what the three clauses refer to, per document. *)
From SA Require Import Base.Prelude Query.Phrase_Spec.
Open Scope N_scope.

Definition contains_all (ph d : list N) : bool := forallb (fun t => existsb (N.eqb t) d) ph.

(* the terms occur in order at strictly increasing offsets p1 < ... < pn with pn - p1 + 1 <= w *)
Fixpoint in_order_from (ph : list N) (d : list N) (pos : N) (limit : N) : bool :=
  (* remaining terms ph must be found at offsets >= pos and <= limit, in order, in the suffix d (whose head is at offset pos) *)
  match ph with
  | [] => true
  | t :: rest =>
      (fix scan (d : list N) (pos : N) : bool :=
         match d with
         | [] => false
         | x :: d' =>
             if limit <? pos then false
             else orb (andb (x =? t) (in_order_from rest d' (pos + 1) limit)) (scan d' (pos + 1))
         end) d pos
  end.
Fixpoint window_match_from (ph d : list N) (pos w : N) : bool :=
  match d with
  | [] => false
  | x :: d' =>
      orb (match ph with
           | t :: rest => andb (x =? t) (in_order_from rest d' (pos + 1) (pos + w - 1))
           | [] => true end)
          (window_match_from ph d' (pos + 1) w)
  end.
Definition window_match (ph d : list N) (w : N) : bool := window_match_from ph d 0 w.

Definition slop_spec (docs : list (list N)) (ph : list N) (slop : N) : list (N * (bool * bool)) :=
  map (fun d => (occ ph d, (contains_all ph d, window_match ph d (N.of_nat (length ph) + slop)))) docs.
