(* C15, clause 1 ("for slop >= 1 a document that contains the phrase exactly still matches") on the REPAIRED model
   (Span.v after the repairs of D24 64-bit position mask, D25 header-0 wrap-around, D26 full = True on give-up).

   Part 1 — the clause is STILL FALSE in general (closed, by vm_compute; same inputs fail on the repaired build,
   /var/tmp/c15x/v2/repro2.py):
     witness D  one document of 71 tokens, a@0 b@4 c@6 | b@64 a@68 b@69 c@70, phrase [a;b;c], slop 1 (and, shifted, every
                slop up to 20): a position rejected for being out of a span's window stays OR-ed into the span's position
                mask ("stale bit"); with the 64-bit mask it shadows the position exactly 64 further on.  c@6 shadows c@70
                for the copy of the span of a@68, and the spans that do become complete have width = max width, which
                _collect_spans rejects (strict <).
     witness E  a 20-term phrase starting at position 17 straddles three 18-position buckets; _intersect_all keeps a
                bucket and its two neighbours only (outside the 2..6-term range of the clause, but it bounds the theorem).
   The three earlier witnesses (A, B: 32-bit mask; C: header-0 wrap-around) are fixed (regression examples below).

   Part 2 — what is true of the repaired model:
     span_table_keeps_exact   (T1) the pure span table keeps an exact occurrence when no event position is congruent
                                   modulo 64 to a later position of the occurrence
     span_search_target       (T2) span_search credits document d: either the table stays below 512 slots and is the pure
                                   fold (T1), or it fills, the loop gives up with full = true, and the fallback
                                   min_popcount is >= 1 (full_credit_positive) — no table-size hypothesis any more
     intersect_all_keeps      (T3) _intersect_all keeps the left bucket of every shared/adjacent alignment and its right
                                   neighbour — no header-0 hypothesis any more
     slop_keeps_exact_match_partial   the clause on index/slop_freqs under
          no_alias64   : the positions of phrase terms in document d are pairwise distinct modulo 64
          short_phrase : length ts <= 19
     slop_keeps_exact_match_64        corollary: documents of at most 64 tokens
   witness D violates only no_alias64, witness E only short_phrase. *)
From Coq Require Import ZArith List Lia ZifyN ZifyNat ZifyBool Bool Sorted Permutation.
From SA Require Import Base.Prelude Gen.SourceConsts Kernels.Intersect Kernels.Spec Kernels.Intersect_Correct Kernels.Adjacent_Correct
  Kernels.Linear Kernels.Linear_Proofs Codec.Codec Codec.Codec_Spec Codec.Codec_Proofs
  Index.Index Index.Index_Spec Index.Index_Proofs Index.Index_Proofs2 Index.Index_Proofs3
  Query.Phrase Query.Phrase_Spec Span.Span Span.Span_Spec.
Import ListNotations.
Open Scope N_scope.

(* ------------------------------------------------------------------------------------------------------------ *)
(* Part 1 — refutations on the repaired model                                                                    *)
(* ------------------------------------------------------------------------------------------------------------ *)
Definition witD : list N := [1; 9; 9; 9; 2; 9; 3] ++ repeat 9 57 ++ [2; 9; 9; 9; 1; 2; 3].

Example slop_loses_exact_match_refuted_repaired :
  exists docs bs ix ts slop v d,
    wf_docs docs /\ index false bs docs = AOk ix /\ 1 <= slop /\ (2 <= length ts)%nat /\
    slop_freqs ix ts slop = AOk v /\ (d < length docs)%nat /\ occ ts (nth d docs []) > 0 /\ nth d v 0 = 0.
Proof.
  assert (E : exists ix, index false 100 [witD] = AOk ix /\ slop_freqs ix [1; 2; 3] 1 = AOk [0]).
  { eexists. split; [vm_compute; reflexivity | vm_compute; reflexivity]. }
  destruct E as (ix & E1 & E2).
  exists [witD], 100%nat, ix, [1; 2; 3], 1, [0], 0%nat.
  split. { split; [repeat constructor; vm_compute; discriminate | vm_compute; reflexivity]. }
  split; [exact E1|]. split; [lia|]. split; [cbn; lia|]. split; [exact E2|].
  split; [cbn; lia|]. split; [vm_compute; reflexivity | reflexivity].
Qed.

Example witD_model :
  match index false 100 [witD] with
  | AOk ix => length witD = 71%nat /\ occ [1; 2; 3] witD = 1 /\ slop_freqs ix [1; 2; 3] 1 = AOk [0] /\ slop_freqs ix [1; 2; 3] 2 = AOk [2]
  | _ => False end.
Proof. vm_compute. repeat split; reflexivity. Qed.

Definition phE : list N := map N.of_nat (seq 100 20).
Definition witE : list N := repeat 9 17 ++ phE.
Example witE_model :
  match index false 100 [witE] with
  | AOk ix => length witE = 37%nat /\ occ phE witE = 1 /\ slop_freqs ix phE 1 = AOk [0] /\ slop_freqs ix phE 5 = AOk [0]
  | _ => False end.
Proof. vm_compute. repeat split; reflexivity. Qed.

(* the earlier witnesses are repaired *)
Definition witA : list N := 2 :: repeat 9 30 ++ [1; 2].
Definition witB : list N := [1; 9; 9; 9; 2; 9; 3] ++ repeat 9 25 ++ [2; 9; 9; 9; 1; 2; 3].
Definition witC0 : list N := [9;1;9;9;9;9;1;1;9;9;9;9;9;9;9;1;2;9;1].
Definition witC1 : list N := repeat 9 9 ++ [1;9;9;9;9;9;1;9;1;2].
Example earlier_witnesses_repaired :
  match index false 100 [witA], index false 100 [witB], index false 100 [witC0; witC1] with
  | AOk ia, AOk ib, AOk ic =>
      slop_freqs ia [1; 2] 1 = AOk [1] /\ slop_freqs ib [1; 2; 3] 1 = AOk [4] /\ slop_freqs ic [1; 2] 1 = AOk [6; 3]
  | _, _, _ => False end.
Proof. vm_compute. repeat split; reflexivity. Qed.

(* ------------------------------------------------------------------------------------------------------------ *)
(* Part 2 — what is true                                                                                        *)
(* ------------------------------------------------------------------------------------------------------------ *)

(* ---------- bit facts ---------- *)
Lemma pc_double n : popcount (2 * n) = popcount n.
Proof. destruct n; reflexivity. Qed.
Lemma pc_succ_double n : popcount (2 * n + 1) = popcount n + 1.
Proof. destruct n as [|p]; [reflexivity|]. cbn. lia. Qed.

Lemma lor_2b x b y c : N.lor (2 * x + N.b2n b) (2 * y + N.b2n c) = 2 * N.lor x y + N.b2n (orb b c).
Proof.
  apply N.bits_inj. intros i. rewrite N.lor_spec. destruct (N.eq_dec i 0) as [->|Hi].
  - rewrite !N.testbit_0_r. reflexivity.
  - replace i with (N.succ (N.pred i)) by lia. rewrite !N.testbit_succ_r, N.lor_spec. reflexivity.
Qed.
Lemma pc_2b x b : popcount (2 * x + N.b2n b) = popcount x + N.b2n b.
Proof. destruct b; cbn [N.b2n]; [apply pc_succ_double | rewrite !N.add_0_r; apply pc_double]. Qed.

Lemma pc_lor_bit : forall k a, popcount (N.lor a (2 ^ k)) = if N.testbit a k then popcount a else popcount a + 1.
Proof.
  induction k as [|k IH] using N.peano_ind; intros a;
    pose proof (N.div2_odd a) as Ha; remember (N.div2 a) as x; remember (N.odd a) as b; clear Heqx Heqb; subst a.
  - change (2 ^ 0) with (2 * 0 + N.b2n true). rewrite lor_2b, N.testbit_0_r, !pc_2b, N.lor_0_r.
    destruct b; cbn; lia.
  - rewrite N.pow_succ_r'. replace (2 * 2 ^ k) with (2 * 2 ^ k + N.b2n false) by (cbn; lia).
    rewrite lor_2b, N.testbit_succ_r, !pc_2b, IH, orb_false_r. destruct (N.testbit x k); lia.
Qed.

Lemma pc_ones : forall i, popcount (N.ones i) = i.
Proof.
  induction i as [|i IH] using N.peano_ind; [reflexivity|].
  replace (N.ones (N.succ i)) with (2 * N.ones i + 1).
  - rewrite pc_succ_double, IH. lia.
  - rewrite !N.ones_equiv, N.pow_succ_r'. assert (0 < 2 ^ i) by (apply N.neq_0_lt_0, N.pow_nonzero; lia). lia.
Qed.

Lemma ones_bit i k : N.testbit (N.ones i) k = (k <? i).
Proof.
  destruct (N.ltb_spec k i).
  - apply N.ones_spec_low; lia.
  - apply N.ones_spec_high; lia.
Qed.

Lemma lor_ones_succ i : N.lor (N.ones i) (2 ^ i) = N.ones (N.succ i).
Proof.
  apply N.bits_inj. intros k. rewrite N.lor_spec, !ones_bit, N.pow2_bits_eqb.
  destruct (N.ltb_spec k i), (N.eqb_spec i k), (N.ltb_spec k (N.succ i)); try reflexivity; lia.
Qed.

Lemma wnot_bit x k : x < W64 -> N.testbit (wnot x) k = andb (k <? 64) (negb (N.testbit x k)).
Proof.
  intros Hx. unfold wnot. rewrite N.mod_small by exact Hx. rewrite N.lxor_spec.
  change wmask with (N.ones 64). rewrite ones_bit.
  destruct (N.ltb_spec k 64); cbn [andb].
  - rewrite xorb_true_r. reflexivity.
  - rewrite xorb_false_r. apply N.bits_above_log2.
    destruct (N.eq_dec x 0) as [->|Hx0]; [cbn; lia|].
    apply N.log2_lt_pow2; [lia|]. unfold W64 in Hx.
    apply N.lt_le_trans with (2 ^ 64); [exact Hx|]. apply N.pow_le_mono_r; lia.
Qed.

(* ---------- one position against the table, as a pure map (valid while the table has room) ---------- *)
Section Step.
Variables (nt : N) (maxw : Z) (tmask pm : N) (cp : Z).

Definition is_stuck (s : span) : bool := andb (popcount (sp_terms s) <? nt) (popcount (sp_posns s) =? nt).
Definition is_old (s : span) : bool := popcount (N.lor (sp_terms s) tmask) <=? popcount (sp_terms s).
Definition is_new (s : span) : bool := negb (is_old s).
Definition rejects (s : span) : bool :=
  orb (popcount (sp_posns s) =? popcount (N.lor (sp_posns s) pm)) (maxw <? Z.abs (cp - sp_beg s))%Z.
Definition forks (s : span) : bool := andb (negb (is_stuck s)) (andb (is_new s) (negb (rejects s))).
Definition upd_s (s : span) : span :=
  if is_stuck s then s else if is_old s then s
  else if rejects s then {| sp_terms := N.land (N.lor (sp_terms s) tmask) (wnot tmask); sp_posns := N.lor (sp_posns s) pm;
                            sp_beg := sp_beg s; sp_end := sp_end s |}
  else {| sp_terms := N.lor (sp_terms s) tmask; sp_posns := N.lor (sp_posns s) pm; sp_beg := sp_beg s; sp_end := cp |}.
Definition upd_c (s : span) : span :=
  {| sp_terms := N.lor (sp_terms s) tmask; sp_posns := N.land (N.lor (sp_posns s) pm) (wnot pm);
     sp_beg := sp_beg s; sp_end := sp_end s |}.

Lemma forks_def s : forks s = andb (negb (is_stuck s)) (andb (is_new s) (negb (rejects s))).
Proof. reflexivity. Qed.

Lemma update_spans_pure : forall old room full,
  N.of_nat (length (filter forks old)) <= room ->
  update_spans old room tmask pm cp nt maxw full =
    (map upd_s old, map upd_c (filter forks old), if existsb forks old then false else full,
     room - N.of_nat (length (filter forks old))).
Proof.
  induction old as [|s rest IH]; intros room full Hr.
  - cbn. f_equal. lia.
  - cbn [update_spans filter existsb map] in *. cbn zeta.
    change (andb (popcount (sp_terms s) <? nt) (popcount (sp_posns s) =? nt)) with (is_stuck s).
    change (popcount (N.lor (sp_terms s) tmask) <=? popcount (sp_terms s)) with (is_old s).
    change (orb (popcount (sp_posns s) =? popcount (N.lor (sp_posns s) pm)) (maxw <? Z.abs (cp - sp_beg s))%Z) with (rejects s).
    unfold upd_s at 1. rewrite (forks_def s) in *.
    destruct (is_stuck s) eqn:E1; cbn [negb andb orb] in *.
    { rewrite IH by exact Hr. reflexivity. }
    unfold is_new in *. destruct (is_old s) eqn:E2; cbn [negb andb orb] in *.
    { rewrite IH by exact Hr. reflexivity. }
    destruct (rejects s) eqn:E3; cbn [negb andb orb] in *.
    { rewrite IH by exact Hr. reflexivity. }
    cbn [length] in Hr.
    assert (Hroom : (0 <? room) = true) by (apply N.ltb_lt; lia). rewrite Hroom.
    rewrite IH by lia. cbn [map length]. f_equal; [f_equal|lia].
    destruct (existsb forks rest); reflexivity.
Qed.

Definition fresh_span : span := {| sp_terms := tmask; sp_posns := pm; sp_beg := cp; sp_end := cp |}.
Definition step_spans (spans : list span) : list span := map upd_s spans ++ fresh_span :: map upd_c (filter forks spans).
End Step.

Lemma is_old_bit t s : is_old (2 ^ t) s = N.testbit (sp_terms s) t.
Proof. unfold is_old. rewrite pc_lor_bit. destruct (N.testbit (sp_terms s) t); [apply N.leb_refl | apply N.leb_gt; lia]. Qed.

Lemma collide_bit a c : (popcount a =? popcount (N.lor a (2 ^ c))) = N.testbit a c.
Proof. rewrite pc_lor_bit. destruct (N.testbit a c); [apply N.eqb_refl | apply N.eqb_neq; lia]. Qed.

Lemma pmask_mod c : pmask (Z.of_N c) = 2 ^ (c mod 64).
Proof.
  unfold pmask. change 64%Z with (Z.of_N 64). rewrite <- N2Z.inj_mod, N2Z.id. apply N.shiftl_1_l.
Qed.

(* ---------- the lineage of the exact occurrence ---------- *)
Section Lineage.
Variables (nt : N) (maxw : Z) (p : N).
Hypothesis Hnt64 : nt <= 64.
Hypothesis Hmaxw : (Z.of_N nt <= maxw)%Z.

(* a position that cannot be confused (modulo 64) with a later position of the occurrence *)
Definition okc (c : N) : Prop := forall j, 1 <= j -> j < nt -> c <> p + j -> c mod 64 <> (p + j) mod 64.
Hypothesis Hp_ok : okc p.

Definition lin (i : N) (G : span) : Prop :=
  sp_beg G = Z.of_N p /\ sp_end G = Z.of_N p /\ sp_terms G = N.ones i /\
  forall j, 1 <= j -> j < nt -> N.testbit (sp_posns G) ((p + j) mod 64) = false.

Definition good (t : N) (pending : bool) (G : span) : Prop :=
  exists i, lin i G /\ i <= nt /\
    (is_stuck nt G = true \/ i = nt \/ i = t + 1 \/ (i = t /\ pending = true /\ 1 <= t)).

Definition stepT (t c : N) (spans : list span) : list span :=
  step_spans nt maxw (2 ^ t) (pmask (Z.of_N c)) (Z.of_N c) spans.

Lemma upd_s_stuck tm pm cp s : is_stuck nt s = true -> upd_s nt maxw tm pm cp s = s.
Proof. intros H. unfold upd_s. rewrite H. reflexivity. Qed.
Lemma upd_s_old tm pm cp s : is_old tm s = true -> upd_s nt maxw tm pm cp s = s.
Proof. intros H. unfold upd_s. rewrite H. destruct (is_stuck nt s); reflexivity. Qed.

Lemma pow_mod_lt c : 2 ^ (c mod 64) < W64.
Proof. apply N.lt_le_trans with (2 ^ 64); [apply N.pow_lt_mono_r; [lia|apply N.mod_lt; discriminate] | reflexivity]. Qed.

Lemma good_step t c pending spans G : t < nt -> okc c -> In G spans -> good t pending G ->
  exists G', In G' (stepT t c spans) /\ good t (andb pending (negb (c =? p + t))) G'.
Proof.
  intros Ht Hc HIn (i & HL & Hi & Hcase). unfold stepT, step_spans. rewrite pmask_mod.
  set (cm := c mod 64).
  set (US := upd_s nt maxw (2 ^ t) (2 ^ cm) (Z.of_N c)).
  assert (Hkeep : US G = G -> exists G', In G' (map US spans ++ fresh_span (2 ^ t) (2 ^ cm) (Z.of_N c)
                       :: map (upd_c (2 ^ t) (2 ^ cm)) (filter (forks nt maxw (2 ^ t) (2 ^ cm) (Z.of_N c)) spans)) /\ G' = G).
  { intros E. exists G. split; [|reflexivity]. apply in_or_app. left. rewrite <- E. apply in_map. exact HIn. }
  destruct (is_stuck nt G) eqn:Est.
  { destruct (Hkeep (upd_s_stuck _ _ _ _ Est)) as (G' & HG' & ->). exists G. split; [exact HG'|].
    exists i. split; [exact HL|]. split; [exact Hi|]. left. exact Est. }
  destruct HL as (Hb & He & Htm & Hclr).
  assert (Hold : i = nt \/ i = t + 1 -> is_old (2 ^ t) G = true).
  { intros Hor. rewrite is_old_bit, Htm, ones_bit. apply N.ltb_lt. lia. }
  destruct Hcase as [Hs|[Hn|[Hn|(Hn & Hpend & Ht1)]]].
  - congruence.
  - destruct (Hkeep (upd_s_old _ _ _ _ (Hold (or_introl Hn)))) as (G' & HG' & ->). exists G. split; [exact HG'|].
    exists i. repeat split; try assumption. right. left. exact Hn.
  - destruct (Hkeep (upd_s_old _ _ _ _ (Hold (or_intror Hn)))) as (G' & HG' & ->). exists G. split; [exact HG'|].
    exists i. repeat split; try assumption. right. right. left. exact Hn.
  - subst i pending. cbn [andb].
    assert (Hnew : is_old (2 ^ t) G = false).
    { rewrite is_old_bit, Htm, ones_bit. apply N.ltb_ge. lia. }
    destruct (rejects maxw (2 ^ cm) (Z.of_N c) G) eqn:Erej.
    + assert (Hne : forall j, 1 <= j -> j < nt -> c <> p + j).
      { intros j Hj1 Hj2 ->. unfold rejects in Erej. unfold cm in Erej. rewrite collide_bit, Hclr in Erej by assumption.
        cbn [orb] in Erej. rewrite Hb in Erej. apply Z.ltb_lt in Erej. lia. }
      exists (US G). split; [apply in_or_app; left; apply in_map; exact HIn|].
      assert (E : US G = {| sp_terms := N.land (N.lor (sp_terms G) (2 ^ t)) (wnot (2 ^ t));
                            sp_posns := N.lor (sp_posns G) (2 ^ cm); sp_beg := sp_beg G; sp_end := sp_end G |}).
      { unfold US, upd_s. rewrite Est, Hnew, Erej. reflexivity. }
      rewrite E. exists t. split; [|split; [lia|]].
      * repeat split; cbn [sp_beg sp_end sp_terms sp_posns]; try assumption.
        -- rewrite Htm. apply N.bits_inj. intros k.
           rewrite N.land_spec, N.lor_spec, wnot_bit, !ones_bit, N.pow2_bits_eqb.
           2:{ apply N.lt_le_trans with (2 ^ 64); [apply N.pow_lt_mono_r; lia | reflexivity]. }
           destruct (N.ltb_spec k t), (N.eqb_spec t k), (N.ltb_spec k 64); cbn; try reflexivity; lia.
        -- intros j Hj1 Hj2. rewrite N.lor_spec, Hclr, N.pow2_bits_eqb by assumption.
           cbn [orb]. apply N.eqb_neq. unfold cm. apply Hc; try assumption. apply Hne; assumption.
      * right. right. right. destruct (N.eqb_spec c (p + t)) as [Ec|Ec].
        -- exfalso. apply (Hne t); [exact Ht1|exact Ht|exact Ec].
        -- cbn. repeat split; try reflexivity. exact Ht1.
    + exists (upd_c (2 ^ t) (2 ^ cm) G). split.
      * apply in_or_app. right. right. apply in_map. apply filter_In. split; [exact HIn|].
        unfold forks, is_new. rewrite Est, Hnew, Erej. reflexivity.
      * exists (t + 1). split; [|split; [lia|right; right; left; reflexivity]].
        repeat split; cbn [upd_c sp_beg sp_end sp_terms sp_posns]; try assumption.
        -- rewrite Htm, lor_ones_succ. f_equal. lia.
        -- intros j Hj1 Hj2. rewrite N.land_spec, N.lor_spec, Hclr by assumption. cbn [orb].
           rewrite wnot_bit by (unfold cm; apply pow_mod_lt).
           destruct (N.testbit (2 ^ cm) ((p + j) mod 64)); [rewrite andb_false_r|]; reflexivity.
Qed.

Definition run_term (t : N) (spans : list span) (cs : list N) : list span :=
  fold_left (fun sp c => stepT t c sp) cs spans.

Definition good_opt (t : N) (pending : bool) (spans : list span) : Prop :=
  (t = 0 /\ pending = true) \/ exists G, In G spans /\ good t pending G.

Lemma fresh_lin : lin 1 (fresh_span (2 ^ 0) (2 ^ (p mod 64)) (Z.of_N p)).
Proof.
  repeat split; cbn [fresh_span sp_beg sp_end sp_terms sp_posns].
  intros j Hj1 Hj2. rewrite N.pow2_bits_eqb. apply N.eqb_neq. apply Hp_ok; try assumption. lia.
Qed.

Lemma good_opt_step t c pending spans : t < nt -> okc c -> good_opt t pending spans ->
  good_opt t (andb pending (negb (c =? p + t))) (stepT t c spans).
Proof.
  intros Ht Hc [[-> ->]|(G & HIn & HG)].
  - rewrite N.add_0_r. cbn [andb]. destruct (N.eqb_spec c p) as [->|Hne]; cbn [negb].
    + right. exists (fresh_span (2 ^ 0) (2 ^ (p mod 64)) (Z.of_N p)). split.
      * unfold stepT, step_spans. rewrite pmask_mod. apply in_or_app. right. left. reflexivity.
      * exists 1. split; [exact fresh_lin|]. split; [lia|]. right. right. left. reflexivity.
    + left. split; reflexivity.
  - right. apply (good_step t c pending spans G); assumption.
Qed.

Lemma good_opt_run t : t < nt -> forall cs pending spans, Forall okc cs -> good_opt t pending spans ->
  good_opt t (andb pending (negb (existsb (fun c => c =? p + t) cs))) (run_term t spans cs).
Proof.
  intros Ht. induction cs as [|c cs IH]; intros pending spans HF HG; cbn [run_term fold_left existsb].
  - rewrite andb_true_r. exact HG.
  - inversion HF as [|? ? Hc HF']; subst.
    pose proof (IH _ _ HF' (good_opt_step t c pending spans Ht Hc HG)) as H. unfold run_term in H.
    rewrite negb_orb. rewrite andb_assoc. exact H.
Qed.

Lemma good_next t G : good t false G -> good (t + 1) true G.
Proof.
  intros (i & HL & Hi & Hcase). exists i. split; [exact HL|]. split; [exact Hi|].
  destruct Hcase as [H|[H|[H|(_ & H & _)]]]; [left; exact H | right; left; exact H | | discriminate].
  right. right. right. repeat split; [exact H | lia].
Qed.

Fixpoint run_terms (t : N) (evs : list (list N)) (spans : list span) : list span :=
  match evs with
  | [] => spans
  | cs :: rest => run_terms (t + 1) rest (run_term t spans cs)
  end.

Lemma good_opt_terms : forall evs t spans, t + N.of_nat (length evs) = nt -> evs <> [] ->
  Forall (Forall okc) evs ->
  (forall k, (k < length evs)%nat -> In (p + t + N.of_nat k) (nth k evs [])) ->
  good_opt t true spans ->
  exists G, In G (run_terms t evs spans) /\ good (nt - 1) false G.
Proof.
  induction evs as [|cs rest IH]; intros t spans Hlen Hne HF Hocc HG; [congruence|].
  cbn [run_terms]. cbn [length] in Hlen.
  inversion HF as [|? ? Hcs HF']; subst.
  assert (Ht : t < nt) by lia.
  pose proof (good_opt_run t Ht cs true spans Hcs HG) as H1.
  assert (Hex : existsb (fun c => c =? p + t) cs = true).
  { apply existsb_exists. exists (p + t). split; [|apply N.eqb_refl].
    specialize (Hocc 0%nat ltac:(cbn; lia)). cbn in Hocc. rewrite N.add_0_r in Hocc. exact Hocc. }
  rewrite Hex in H1. cbn [andb negb] in H1.
  destruct H1 as [[_ H]|(G & HIn & HGd)]; [discriminate|].
  destruct rest as [|cs2 rest2].
  - cbn [run_terms]. exists G. split; [exact HIn|]. cbn [length] in Hlen. replace (nt - 1) with t by lia. exact HGd.
  - apply (IH (t + 1)); [cbn [length] in *; lia | discriminate | exact HF' | |].
    + intros k Hk. specialize (Hocc (S k) ltac:(cbn [length] in *; lia)). cbn [nth] in Hocc.
      replace (p + (t + 1) + N.of_nat k) with (p + t + N.of_nat (S k)) by lia. exact Hocc.
    + right. exists G. split; [exact HIn|]. apply good_next. exact HGd.
Qed.

Lemma good_final G : 1 <= nt -> good (nt - 1) false G -> is_complete G nt = true /\ sp_width G = 0%Z.
Proof.
  intros Hnt1 (i & (Hb & He & Htm & _) & Hi & Hcase). split.
  - unfold is_complete. destruct Hcase as [H|[H|[H|(_ & H & _)]]]; [| | |discriminate].
    + unfold is_stuck in H. apply andb_true_iff in H. destruct H as [_ H]. rewrite H. apply orb_true_r.
    + rewrite Htm, pc_ones, H, N.eqb_refl. reflexivity.
    + rewrite Htm, pc_ones. replace i with nt by lia. rewrite N.eqb_refl. reflexivity.
  - unfold sp_width. rewrite Hb, He. lia.
Qed.
End Lineage.

(* ---------- _collect_spans: a complete span narrower than the limit makes the result non-empty ---------- *)
Lemma collect_one_len s : forall coll r b, collect_one s coll = (r, b) -> length r = length coll /\ (b = true -> coll <> []).
Proof.
  induction coll as [|c rest IH]; intros r b H; cbn [collect_one] in H.
  - injection H as <- <-. split; [reflexivity|discriminate].
  - destruct (andb (overlap s c) (sp_width s <? sp_width c)%Z).
    + injection H as <- <-. split; [reflexivity|discriminate].
    + destruct (collect_one s rest) as [r' b'] eqn:E. injection H as <- <-.
      destruct (IH _ _ eq_refl) as [H1 _]. split; [cbn; lia|discriminate].
Qed.

Lemma collect_nonempty nt maxw : forall spans G, In G spans -> is_complete G nt = true -> (sp_width G < maxw)%Z ->
  collect spans nt maxw <> [].
Proof.
  intros spans G HIn Hc Hw. unfold collect.
  set (f := fun (coll : list span) (s : span) => _).
  assert (Hmono : forall l coll, coll <> [] -> fold_left f l coll <> []).
  { induction l as [|s l IH]; intros coll Hne; cbn [fold_left]; [exact Hne|]. apply IH. unfold f.
    destruct (andb (is_complete s nt) (sp_width s <? maxw)%Z); [|exact Hne].
    destruct (collect_one s coll) as [c' b] eqn:E. destruct (collect_one_len _ _ _ _ E) as [Hl _].
    destruct b; [|destruct coll; [congruence|discriminate]].
    destruct c'; [destruct coll; [congruence|discriminate]|discriminate]. }
  enough (Hgen : forall coll, fold_left f spans coll <> []) by apply Hgen.
  induction spans as [|s l IH]; intros coll; [destruct HIn|]. destruct HIn as [->|HIn]; cbn [fold_left].
  - apply Hmono. unfold f. rewrite Hc. apply Z.ltb_lt in Hw. rewrite Hw. cbn [andb].
    destruct (collect_one G coll) as [c' b] eqn:E. destruct (collect_one_len _ _ _ _ E) as [Hl Hb].
    destruct b; [|destruct coll; discriminate].
    specialize (Hb eq_refl). destruct c'; [destruct coll; [congruence|discriminate]|discriminate].
  - apply IH. exact HIn.
Qed.


(* ---------- T1: the pure table keeps the exact occurrence ---------- *)
Theorem span_table_keeps_exact nt maxw p evs :
  1 <= nt -> nt <= 64 -> (Z.of_N nt <= maxw)%Z -> okc nt p p ->
  N.of_nat (length evs) = nt -> Forall (Forall (okc nt p)) evs ->
  (forall k, (k < length evs)%nat -> In (p + N.of_nat k) (nth k evs [])) ->
  collect (run_terms nt maxw 0 evs []) nt maxw <> [].
Proof.
  intros H1 H64 Hw Hp Hlen HF Hocc.
  destruct (good_opt_terms nt maxw p H64 Hw Hp evs 0 []) as (G & HIn & HG).
  - lia.
  - destruct evs; [cbn in Hlen; lia|discriminate].
  - exact HF.
  - intros k Hk. rewrite N.add_0_r. apply Hocc. exact Hk.
  - left. split; reflexivity.
  - assert (Hfin : is_complete G nt = true /\ sp_width G = 0%Z) by (eapply good_final; eassumption).
    destruct Hfin as [Hc Hwd].
    apply (collect_nonempty nt maxw _ G HIn Hc). rewrite Hwd. lia.
Qed.


(* ---------- L2: the model loops: either the pure fold (table below 512 slots) or the give-up path (full = true) ---------- *)
Lemma bind_inv' {A B} (r : result A) (f : A -> result B) b :
  bind r f = Done b -> exists a, r = Done a /\ f a = Done b.
Proof. destruct r; cbn; intro H; try discriminate. eauto. Qed.

Lemma pop_clear_pos' : forall p, popcount (N.land (Npos p) (Pos.pred_N p)) + 1 = pop_pos p.
Proof.
  induction p as [p IH|p IH|].
  - change (Pos.pred_N p~1) with (Npos p~0). change (N.land (Npos p~1) (Npos p~0)) with (Pos.Ndouble (N.land (Npos p) (Npos p))).
    rewrite N.land_diag. cbn [Pos.Ndouble popcount pop_pos]. lia.
  - change (Pos.pred_N p~0) with (Npos (Pos.pred_double p)).
    change (N.land (Npos p~0) (Npos (Pos.pred_double p))) with (Pos.land p~0 (Pos.pred_double p)).
    replace (Pos.land p~0 (Pos.pred_double p)) with (Pos.Ndouble (N.land (Npos p) (Pos.pred_N p))) by (destruct p; reflexivity).
    replace (popcount (Pos.Ndouble (N.land (N.pos p) (Pos.pred_N p)))) with (popcount (N.land (N.pos p) (Pos.pred_N p)))
      by (destruct (N.land (N.pos p) (Pos.pred_N p)); reflexivity).
    cbn [pop_pos]. exact IH.
  - reflexivity.
Qed.
Lemma pop_clear' n : n <> 0 -> popcount (N.land n (n - 1)) + 1 = popcount n.
Proof. destruct n as [|p]; [congruence|]. intros _. rewrite N.sub_1_r, <- N.pos_pred_spec. apply pop_clear_pos'. Qed.

(* the set bits in the order the loop consumes them *)
Fixpoint bits_of (fuel : nat) (term : N) : list N :=
  match fuel with
  | O => []
  | S f => if term =? 0 then [] else ctz term :: bits_of f (N.land term (term - 1))
  end.

Lemma bits_of_len : forall fuel term, (N.to_nat (popcount term) <= fuel)%nat ->
  length (bits_of fuel term) = N.to_nat (popcount term).
Proof.
  induction fuel as [|f IH]; intros term H; cbn [bits_of].
  - cbn [length]. lia.
  - destruct (N.eqb_spec term 0) as [->|Hne]; [reflexivity|].
    pose proof (pop_clear' term Hne). cbn [length]. rewrite IH by lia. lia.
Qed.


Lemma pc_pos n : n <> 0 -> 0 < popcount n.
Proof. intros H. pose proof (pop_clear' n H). lia. Qed.

(* spans as the loop leaves them: width within the limit, some term, term bits below 64 *)
Definition okw (maxw : Z) (s : span) : Prop :=
  (sp_width s <= maxw)%Z /\ sp_terms s <> 0 /\ (forall k, N.testbit (sp_terms s) k = true -> k < 64).

Lemma compact_id maxw spans : Forall (okw maxw) spans -> compact spans maxw = spans.
Proof.
  intros H. unfold compact. induction H as [|s l (H1 & H2 & _) _ IH]; cbn [filter]; [reflexivity|].
  assert (E1 : (sp_width s <=? maxw)%Z = true) by (apply Z.leb_le; exact H1).
  assert (E2 : (0 <? popcount (sp_terms s)) = true) by (apply N.ltb_lt, pc_pos; exact H2).
  rewrite E1, E2. cbn [andb]. f_equal. exact IH.
Qed.

Lemma restore_eq a t : t < 64 -> (forall k, N.testbit a k = true -> k < 64) -> N.testbit a t = false ->
  N.land (N.lor a (2 ^ t)) (wnot (2 ^ t)) = a.
Proof.
  intros Ht Ha Hb. apply N.bits_inj. intros k. rewrite N.land_spec, N.lor_spec, wnot_bit, N.pow2_bits_eqb.
  2:{ apply N.lt_le_trans with (2 ^ 64); [apply N.pow_lt_mono_r; lia | reflexivity]. }
  destruct (N.eqb_spec t k) as [<-|Hne]; cbn [orb negb].
  - rewrite Hb, andb_false_r, andb_false_r. reflexivity.
  - rewrite orb_false_r, andb_true_r. destruct (N.testbit a k) eqn:E; [|reflexivity].
    specialize (Ha k E). apply N.ltb_lt in Ha. rewrite Ha. reflexivity.
Qed.

Lemma firstn_in {A} (x : A) : forall k l, In x (firstn k l) -> In x l.
Proof. induction k as [|k IH]; intros l H; [destruct H|]. destruct l as [|y l]; [destruct H|]. cbn [firstn] in H. destruct H as [->|H]; [left; reflexivity|right; apply IH, H]. Qed.

Section UpdGen.
Variables (nt : N) (maxw : Z) (t : N) (pm : N) (cp : Z).
Hypothesis Ht : t < 64.
Hypothesis Hmw : (0 <= maxw)%Z.

Lemma upd_s_okw s : okw maxw s -> okw maxw (upd_s nt maxw (2 ^ t) pm cp s).
Proof.
  intros (H1 & H2 & H3). unfold upd_s. destruct (is_stuck nt s); [repeat split; assumption|].
  destruct (is_old (2 ^ t) s) eqn:Eo; [repeat split; assumption|]. rewrite is_old_bit in Eo.
  destruct (rejects maxw pm cp s) eqn:Er.
  - unfold okw. cbn [sp_width sp_terms sp_beg sp_end]. rewrite restore_eq by assumption. repeat split; assumption.
  - unfold okw, sp_width. cbn [sp_terms sp_beg sp_end]. unfold rejects in Er. apply orb_false_iff in Er. destruct Er as [_ Er].
    apply Z.ltb_ge in Er. split; [exact Er|]. split.
    + intros E. apply N.lor_eq_0_iff in E. tauto.
    + intros k Hk. rewrite N.lor_spec, N.pow2_bits_eqb in Hk. apply orb_true_iff in Hk. destruct Hk as [Hk|Hk]; [apply H3, Hk|].
      apply N.eqb_eq in Hk. lia.
Qed.

Lemma upd_c_okw s : okw maxw s -> okw maxw (upd_c (2 ^ t) pm s).
Proof.
  intros (H1 & H2 & H3). unfold okw, upd_c, sp_width in *. cbn [sp_terms sp_beg sp_end]. split; [exact H1|]. split.
  - intros E. apply N.lor_eq_0_iff in E. tauto.
  - intros k Hk. rewrite N.lor_spec, N.pow2_bits_eqb in Hk. apply orb_true_iff in Hk. destruct Hk as [Hk|Hk]; [apply H3, Hk|].
    apply N.eqb_eq in Hk. lia.
Qed.

Lemma fresh_okw : okw maxw (fresh_span (2 ^ t) pm cp).
Proof.
  unfold okw, fresh_span, sp_width. cbn [sp_terms sp_beg sp_end]. split; [lia|]. split.
  - apply N.pow_nonzero. discriminate.
  - intros k Hk. rewrite N.pow2_bits_eqb in Hk. apply N.eqb_eq in Hk. lia.
Qed.

(* whatever the room: the old part is the pointwise update, the appended part a prefix of the copies *)
Lemma update_spans_gen : forall old room full old' app f' rm,
  update_spans old room (2 ^ t) pm cp nt maxw full = (old', app, f', rm) ->
  old' = map (upd_s nt maxw (2 ^ t) pm cp) old /\
  (exists k, app = firstn k (map (upd_c (2 ^ t) pm) (filter (forks nt maxw (2 ^ t) pm cp) old))) /\
  N.of_nat (length app) = N.min room (N.of_nat (length (filter (forks nt maxw (2 ^ t) pm cp) old))).
Proof.
  induction old as [|s rest IH]; intros room full old' app f' rm H.
  - cbn in H. injection H as <- <- <- <-. split; [reflexivity|]. split; [exists 0%nat; reflexivity|]. cbn. lia.
  - cbn [update_spans filter map] in *. cbn zeta in H.
    change (andb (popcount (sp_terms s) <? nt) (popcount (sp_posns s) =? nt)) with (is_stuck nt s) in H.
    change (popcount (N.lor (sp_terms s) (2 ^ t)) <=? popcount (sp_terms s)) with (is_old (2 ^ t) s) in H.
    change (orb (popcount (sp_posns s) =? popcount (N.lor (sp_posns s) pm)) (maxw <? Z.abs (cp - sp_beg s))%Z) with (rejects maxw pm cp s) in H.
    unfold upd_s at 1. rewrite (forks_def nt maxw (2 ^ t) pm cp s). unfold is_new.
    destruct (is_stuck nt s) eqn:E1; cbn [negb andb].
    { destruct (update_spans rest room (2 ^ t) pm cp nt maxw full) as [[[r a] f] m] eqn:Er. injection H as <- <- <- <-.
      destruct (IH _ _ _ _ _ _ Er) as (I1 & I2 & I3). split; [f_equal; exact I1|]. split; assumption. }
    destruct (is_old (2 ^ t) s) eqn:E2; cbn [negb andb].
    { destruct (update_spans rest room (2 ^ t) pm cp nt maxw full) as [[[r a] f] m] eqn:Er. injection H as <- <- <- <-.
      destruct (IH _ _ _ _ _ _ Er) as (I1 & I2 & I3). split; [f_equal; exact I1|]. split; assumption. }
    destruct (rejects maxw pm cp s) eqn:E3; cbn [negb andb].
    { destruct (update_spans rest room (2 ^ t) pm cp nt maxw full) as [[[r a] f] m] eqn:Er. injection H as <- <- <- <-.
      destruct (IH _ _ _ _ _ _ Er) as (I1 & I2 & I3). split; [f_equal; exact I1|]. split; assumption. }
    destruct (N.ltb_spec 0 room) as [Hroom|Hroom].
    + destruct (update_spans rest (room - 1) (2 ^ t) pm cp nt maxw false) as [[[r a] f] m] eqn:Er. injection H as <- <- <- <-.
      destruct (IH _ _ _ _ _ _ Er) as (I1 & (k & I2) & I3). split; [f_equal; exact I1|]. split.
      * exists (S k). cbn [map firstn]. f_equal. exact I2.
      * cbn [length]. lia.
    + destruct (update_spans rest room (2 ^ t) pm cp nt maxw true) as [[[r a] f] m] eqn:Er. injection H as <- <- <- <-.
      destruct (IH _ _ _ _ _ _ Er) as (I1 & _ & I3). split; [f_equal; exact I1|].
      assert (Ea : a = []) by (destruct a; [reflexivity|cbn [length] in I3; lia]).
      split; [exists 0%nat; rewrite Ea; reflexivity|]. rewrite Ea. cbn [length]. lia.
Qed.

Lemma update_spans_okw old room full old' app f' rm : Forall (okw maxw) old ->
  update_spans old room (2 ^ t) pm cp nt maxw full = (old', app, f', rm) -> Forall (okw maxw) (old' ++ fresh_span (2 ^ t) pm cp :: app).
Proof.
  intros HF H. destruct (update_spans_gen _ _ _ _ _ _ _ H) as (-> & (k & ->) & _).
  apply Forall_app. split.
  - apply Forall_forall. intros x Hx. apply in_map_iff in Hx. destruct Hx as (s & <- & Hs). rewrite Forall_forall in HF. apply upd_s_okw, HF, Hs.
  - constructor; [apply fresh_okw|]. apply Forall_forall. intros x Hx. apply firstn_in in Hx. apply in_map_iff in Hx.
    destruct Hx as (s & <- & Hs). apply filter_In in Hs. rewrite Forall_forall in HF. apply upd_c_okw, HF. tauto.
Qed.
End UpdGen.

(* ---- bits_loop: below 512 slots it is the pure fold; otherwise the table is (at least) full ---- *)
Section BitsLoop.
Variables (nt : N) (maxw : Z) (t : N) (base : N).
Hypothesis Ht : t < 64.
Hypothesis Hmw : (0 <= maxw)%Z.

Lemma bits_loop_dich : forall fuel term spans full spans' full',
  (N.to_nat (popcount term) < fuel)%nat -> Forall (okw maxw) spans ->
  bits_loop fuel term (Z.of_N base) (2 ^ t) nt maxw spans full = Done (spans', full') ->
  Forall (okw maxw) spans' /\ (length spans <= length spans')%nat /\
  (512 <= N.of_nat (length spans) -> spans' = spans /\ (full = true -> full' = true)) /\
  (N.of_nat (length spans') < 512 -> full = false ->
     spans' = run_term nt maxw t spans (map (fun b => b + base) (bits_of fuel term)) /\ full' = false).
Proof.
  induction fuel as [|f IH]; intros term spans full spans' full' Hf Hok H; [lia|].
  cbn [bits_loop bits_of] in *. destruct (N.eqb_spec term 0) as [->|Hne].
  { injection H as <- <-. repeat split; try assumption; try lia; auto. }
  pose proof (pop_clear' term Hne) as Hpc.
  unfold SPAN_CAP, src_span_cap in H.
  destruct (N.leb_spec 512 (N.of_nat (length spans))) as [Hcap|Hcap].
  { injection H as <- <-. repeat split; try assumption; try lia; auto. }
  cbv zeta in H. rewrite wr_ok_lt in H by exact Hcap. cbn [bind] in H.
  rewrite <- N2Z.inj_add in H. set (c := ctz term + base) in *.
  destruct (update_spans spans (512 - (N.of_nat (length spans) + 1)) (2 ^ t) (pmask (Z.of_N c)) (Z.of_N c) nt maxw full)
    as [[[old' app] f'] rm] eqn:Eu.
  assert (Hok' : Forall (okw maxw) (old' ++ fresh_span (2 ^ t) (pmask (Z.of_N c)) (Z.of_N c) :: app)) by (eapply update_spans_okw; eassumption).
  pose proof Eu as Eu2. eapply update_spans_gen in Eu2; try eassumption. destruct Eu2 as (Eold & _ & Elen).
  change ({| sp_terms := 2 ^ t; sp_posns := pmask (Z.of_N c); sp_beg := Z.of_N c; sp_end := Z.of_N c |})
    with (fresh_span (2 ^ t) (pmask (Z.of_N c)) (Z.of_N c)) in H.
  set (sp2 := old' ++ fresh_span (2 ^ t) (pmask (Z.of_N c)) (Z.of_N c) :: app) in *.
  assert (Hlen2 : length sp2 = (length spans + 1 + length app)%nat).
  { unfold sp2. rewrite app_length. cbn [length]. rewrite Eold, map_length. lia. }
  (* below 512 slots this step was the pure one *)
  assert (Hpure : N.of_nat (length sp2) < 512 -> full = false -> sp2 = stepT nt maxw t c spans /\ f' = false).
  { intros Hlt Hfull. set (F := length (filter (forks nt maxw (2 ^ t) (pmask (Z.of_N c)) (Z.of_N c)) spans)) in *.
    assert (HF : N.of_nat F <= 512 - (N.of_nat (length spans) + 1)) by lia.
    rewrite (update_spans_pure nt maxw (2 ^ t) (pmask (Z.of_N c)) (Z.of_N c) spans _ full HF) in Eu.
    injection Eu as <- <- <- _. split; [reflexivity|]. subst full. destruct (existsb _ spans); reflexivity. }
  destruct (N.leb_spec 512 (N.of_nat (length sp2))) as [Hcap2|Hcap2].
  { injection H as <- <-. split; [exact Hok'|]. split; [lia|]. split; [intros; lia|]. intros; lia. }
  destruct (IH (N.land term (term - 1)) sp2 f' spans' full' ltac:(lia) Hok' H) as (I1 & I2 & _ & I4).
  split; [exact I1|]. split; [lia|]. split; [intros; lia|].
  intros Hlt Hfull. destruct (Hpure Hcap2 Hfull) as [E2 Ef]. destruct (I4 Hlt Ef) as [I5 I6].
  split; [|exact I6]. rewrite I5, E2. cbn [map run_term fold_left]. reflexivity.
Qed.
End BitsLoop.

Lemma pc_lt_pow2 : forall k x, x < 2 ^ k -> popcount x <= k.
Proof.
  induction k as [|k IH] using N.peano_ind; intros x Hx.
  - change (2 ^ 0) with 1 in Hx. assert (x = 0) by lia. subst. cbn. lia.
  - rewrite N.pow_succ_r' in Hx. rewrite (N.div2_odd x). rewrite pc_2b.
    assert (N.div2 x < 2 ^ k). { rewrite (N.div2_odd x) in Hx. destruct (N.odd x); cbn [N.b2n] in Hx; lia. }
    specialize (IH _ H). destruct (N.odd x); cbn [N.b2n]; lia.
Qed.

Definition wbase (w : N) : N := N.shiftr (N.land w payload_msb_mask) lsb_bits * lsb_bits.
Definition wpay (w : N) : N := N.land w (wnot header_mask).
Definition wcs (w : N) : list N := map (fun b => b + wbase w) (bits_of 70 (wpay w)).

Lemma wcs_eq w : map (fun b => b + wbase w) (bits_of 70 (wpay w)) = wcs w.
Proof. unfold wcs. reflexivity. Qed.
Lemma wpay_lt w : wpay w < 2 ^ 18.
Proof.
  unfold wpay. replace (wnot header_mask) with (N.ones 18) by (vm_compute; reflexivity).
  rewrite N.land_ones. apply N.mod_lt. discriminate.
Qed.
Lemma wpay_pc w : popcount (wpay w) <= 18.
Proof. apply pc_lt_pow2. apply wpay_lt. Qed.
Lemma wcs_len w : length (wcs w) = N.to_nat (popcount (wpay w)).
Proof. unfold wcs. rewrite map_length. apply bits_of_len. pose proof (wpay_pc w). lia. Qed.

Lemma run_term_app nt maxw t spans l1 l2 :
  run_term nt maxw t spans (l1 ++ l2) = run_term nt maxw t (run_term nt maxw t spans l1) l2.
Proof. unfold run_term. apply fold_left_app. Qed.

(* [bits_loop 70] sealed: conversion checks must never normalise it (2^70 blow-up otherwise) *)
Definition BL70 : {f : N -> Z -> N -> N -> Z -> list span -> bool -> result (list span * bool) | f = bits_loop 70}.
Proof. exists (bits_loop 70). reflexivity. Qed.
Definition bl70 := proj1_sig BL70.
Lemma bl70_eq : bl70 = bits_loop 70.
Proof. exact (proj2_sig BL70). Qed.



Lemma bind_inv {A B} (r : result A) (f : A -> result B) b : bind r f = Done b -> exists a, r = Done a /\ f a = Done b.
Proof. destruct r; cbn; intro H; try discriminate. eauto. Qed.

Section Nav.
Variables (P : mem) (g : N -> N) (n : N).
Hypothesis rdP : forall i, i < n -> rd 0 P i = Done (g i).
Variables (nt : N) (maxw : Z).

Lemma words_loop_S f hi tord spans full lk ck idx sum :
  words_loop P (S f) hi tord nt maxw
    {| ts_spans := spans; ts_full := full; ts_last_key := lk; ts_curr_key := ck; ts_idx := idx; ts_sum := sum |} =
  if idx <? hi then
    do w <- rd 0 P idx;
    do bl <- bl70 (wpay w) (Z.of_N (wbase w)) (N.shiftl 1 tord) nt maxw spans full;
    let '(spans1, full1) := bl in
    do ck1 <- (if idx + 1 <? hi then do w2 <- rd 0 P (idx + 1); Done (dkey w2) else Done ck);
    do cg <- (if SPAN_CAP <=? N.of_nat (length spans1) then
                let sp2 := compact spans1 maxw in
                if SPAN_CAP <=? N.of_nat (length sp2) then
                  do g0 <- give_up P (S (N.to_nat (hi - (idx + 1)))) (idx + 1) hi ck ck1;
                  do extra <- give_up_sum P (S (N.to_nat (hi - (idx + 1)))) (idx + 1) hi ck;
                  Done (sp2, match fst g0 with Some i => i | None => hi end, snd g0, true, extra)
                else Done (sp2, idx + 1, ck1, full1, 0)
              else Done (spans1, idx + 1, ck1, full1, 0));
    let '(spans2, idx2, ck2, full2, extra) := cg in
    let st' := {| ts_spans := spans2; ts_full := full2; ts_last_key := ck; ts_curr_key := ck2; ts_idx := idx2;
                  ts_sum := sum + popcount (wpay w) + extra |} in
    if negb (ck2 =? ck) then Done st' else words_loop P f hi tord nt maxw st'
  else Done {| ts_spans := spans; ts_full := full; ts_last_key := lk; ts_curr_key := ck; ts_idx := idx; ts_sum := sum |}.
Proof. rewrite bl70_eq. reflexivity. Qed.

(* ---- general facts (any document, any table state): the loops only move over words of the current key ---- *)
Lemma give_up_spec : forall fuel i hi lk ck r, hi <= n -> give_up P fuel i hi lk ck = Done r ->
  match fst r with
  | Some i' => i <= i' /\ i' < hi /\ dkey (g i') <> lk /\ snd r = dkey (g i') /\ (forall j, i <= j -> j < i' -> dkey (g j) = lk)
  | None => (forall j, i <= j -> j < hi -> dkey (g j) = lk) /\ (snd r = lk \/ (hi <= i /\ snd r = ck))
  end.
Proof.
  induction fuel as [|f IH]; intros i hi lk ck r Hhi H; cbn [give_up] in H; [discriminate|].
  destruct (N.ltb_spec i hi) as [Hlt|Hge].
  - rewrite rdP in H by lia. cbn [bind] in H.
    destruct (N.eqb_spec (dkey (g i)) lk) as [E|E]; cbn [negb] in H.
    + apply IH in H; [|exact Hhi]. destruct (fst r) as [i'|].
      * destruct H as (H1 & H2 & H3 & H4 & H5). repeat split; try assumption; [lia|].
        intros j Hj1 Hj2. destruct (N.eq_dec j i) as [->|Hne]; [exact E|apply H5; lia].
      * destruct H as [H1 H2]. split.
        -- intros j Hj1 Hj2. destruct (N.eq_dec j i) as [->|Hne]; [exact E|apply H1; lia].
        -- left. destruct H2 as [H2|[_ H2]]; [exact H2|]. rewrite H2. exact E.
    + injection H as <-. cbn [fst snd]. repeat split; try assumption; try lia.
  - injection H as <-. cbn [fst snd]. split; [intros j Hj1 Hj2; lia|]. right. split; [lia|reflexivity].
Qed.

Lemma words_loop_gen tord : forall fuel hi st st', hi <= n ->
  (ts_idx st < hi -> dkey (g (ts_idx st)) = ts_curr_key st) ->
  words_loop P fuel hi tord nt maxw st = Done st' ->
  ts_idx st <= ts_idx st' /\ (ts_idx st < hi -> ts_idx st < ts_idx st') /\ (ts_idx st' <= N.max hi (ts_idx st)) /\
  forall j, ts_idx st <= j -> j < ts_idx st' -> dkey (g j) = ts_curr_key st.
Proof.
  induction fuel as [|f IH]; intros hi st st' Hhi Hinv H; [discriminate|].
  destruct st as [spans full lk ck idx sum]. cbn [ts_idx ts_curr_key] in *. rewrite words_loop_S in H.
  destruct (N.ltb_spec idx hi) as [Hlt|Hge].
  2:{ injection H as <-. cbn [ts_idx]. repeat split; try lia. }
  specialize (Hinv Hlt).
  rewrite rdP in H by lia. cbn [bind] in H.
  destruct (bl70 (wpay (g idx)) (Z.of_N (wbase (g idx))) (N.shiftl 1 tord) nt maxw spans full) as [[spans1 full1]| |] eqn:Ebl;
    cbn [bind] in H; try discriminate.
  set (ck1 := if idx + 1 <? hi then dkey (g (idx + 1)) else ck).
  assert (Eck : (if idx + 1 <? hi then do w2 <- rd 0 P (idx + 1); Done (dkey w2) else Done ck) = Done ck1).
  { unfold ck1. destruct (N.ltb_spec (idx + 1) hi); [rewrite rdP by lia|]; reflexivity. }
  rewrite Eck in H. cbn [bind] in H.
  (* what the compaction / give-up step returns *)
  assert (Hcg : forall spans2 idx2 ck2 full2 extra rest,
     (idx2 = idx + 1 /\ ck2 = ck1) \/
     (ck2 <> ck /\ idx + 1 <= idx2 /\ idx2 < hi /\ ck2 = dkey (g idx2) /\ (forall j, idx + 1 <= j -> j < idx2 -> dkey (g j) = ck)) \/
     (idx2 = hi /\ ck2 = ck /\ (forall j, idx + 1 <= j -> j < hi -> dkey (g j) = ck)) ->
     (if negb (ck2 =? ck) then Done rest else words_loop P f hi tord nt maxw
         {| ts_spans := spans2; ts_full := full2; ts_last_key := ck; ts_curr_key := ck2; ts_idx := idx2;
            ts_sum := sum + popcount (wpay (g idx)) + extra |}) = Done st' ->
     rest = {| ts_spans := spans2; ts_full := full2; ts_last_key := ck; ts_curr_key := ck2; ts_idx := idx2;
               ts_sum := sum + popcount (wpay (g idx)) + extra |} ->
     idx <= ts_idx st' /\ (idx < hi -> idx < ts_idx st') /\ ts_idx st' <= N.max hi idx /\
     forall j, idx <= j -> j < ts_idx st' -> dkey (g j) = ck).
  { intros spans2 idx2 ck2 full2 extra rest Hcases Hrun ->.
    destruct (N.eqb_spec ck2 ck) as [E|E]; cbn [negb] in Hrun.
    - (* the loop goes on (next word of the same key, or the end of the segment after giving up) *)
      subst ck2. apply IH in Hrun; [|exact Hhi|]; cbn [ts_idx ts_curr_key] in *.
      + destruct Hrun as (R1 & R2 & R3 & R4).
        destruct Hcases as [[-> _]|[[Hne _]|[-> [_ Hall]]]]; [|congruence|].
        * repeat split; try lia. intros j Hj1 Hj2.
          destruct (N.eq_dec j idx) as [->|Hne]; [exact Hinv|apply R4; lia].
        * repeat split; try lia. intros j Hj1 Hj2.
          destruct (N.eq_dec j idx) as [->|Hne]; [exact Hinv|apply Hall; lia].
      + intros Hlt2. destruct Hcases as [[-> Hck]|[[Hne _]|[-> _]]]; [|congruence|lia].
        unfold ck1 in Hck. destruct (N.ltb_spec (idx + 1) hi); [congruence|lia].
    - injection Hrun as <-. cbn [ts_idx].
      destruct Hcases as [[-> Hck]|[(_ & H1 & H2 & H3 & H4)|[_ [Hck _]]]]; [| |congruence].
      + repeat split; try lia. intros j Hj1 Hj2. assert (j = idx) by lia. subst j. exact Hinv.
      + repeat split; try lia. intros j Hj1 Hj2. destruct (N.eq_dec j idx) as [->|Hne]; [exact Hinv|apply H4; lia]. }
  destruct (SPAN_CAP <=? N.of_nat (length spans1)).
  - cbv zeta in H. destruct (SPAN_CAP <=? N.of_nat (length (compact spans1 maxw))).
    + destruct (give_up P (S (N.to_nat (hi - (idx + 1)))) (idx + 1) hi ck ck1) as [g0| |] eqn:Eg; cbn [bind] in H; try discriminate.
      destruct (give_up_sum P (S (N.to_nat (hi - (idx + 1)))) (idx + 1) hi ck) as [extra| |]; cbn [bind] in H; try discriminate.
      apply give_up_spec in Eg; [|exact Hhi]. destruct g0 as [[i'|] k']; cbn [fst snd] in *.
      * destruct Eg as (G1 & G2 & G3 & G4 & G5). eapply Hcg; [|exact H|reflexivity].
        right. left. subst k'. repeat split; assumption.
      * destruct Eg as [G1 G2]. eapply Hcg; [|exact H|reflexivity].
        destruct G2 as [G2|[G2 G3]].
        -- right. right. repeat split; assumption.
        -- left. split; [lia|exact G3].
    + cbn [bind] in H. eapply Hcg; [|exact H|reflexivity]. left. split; reflexivity.
  - cbn [bind] in H. eapply Hcg; [|exact H|reflexivity]. left. split; reflexivity.
Qed.

Lemma skip_earlier_spec : forall fuel i hi dk i', hi <= n -> skip_earlier P fuel i hi dk = Done i' ->
  i <= i' /\ i' <= N.max hi i /\ (forall j, i <= j -> j < i' -> dkey (g j) < dk) /\ (i' < hi -> dk <= dkey (g i')).
Proof.
  induction fuel as [|f IH]; intros i hi dk i' Hhi H; cbn [skip_earlier] in H; [discriminate|].
  destruct (N.ltb_spec i hi) as [Hlt|Hge].
  - rewrite rdP in H by lia. cbn [bind] in H. destruct (N.ltb_spec (dkey (g i)) dk) as [Hk|Hk].
    + apply IH in H; [|exact Hhi]. destruct H as (H1 & H2 & H3 & H4).
      split; [lia|]. split; [lia|]. split; [|exact H4].
      intros j Hj1 Hj2. destruct (N.eq_dec j i) as [->|Hne]; [exact Hk|apply H3; lia].
    + injection H as <-. split; [lia|]. split; [lia|]. split; [intros j Hj1 Hj2; lia|]. intros _. exact Hk.
  - injection H as <-. split; [lia|]. split; [lia|]. split; intros; lia.
Qed.

End Nav.

(* ---- the target document: pure fold, or the give-up path with full = true ---- *)
Section WordsD.
Variables (P : mem) (g : N -> N) (n : N).
Hypothesis rdP : forall i, i < n -> rd 0 P i = Done (g i).
Variables (nt : N) (maxw : Z) (t : N) (d : N).
Hypothesis Ht : t < 64.
Hypothesis Hmw : (0 <= maxw)%Z.

Fixpoint wrun (a : N) (m : nat) : list N :=
  match m with O => [] | S m' => wcs (g a) ++ wrun (a + 1) m' end.
Lemma wrun_S a m : wrun a (S m) = wcs (g a) ++ wrun (a + 1) m.
Proof. reflexivity. Qed.
Lemma wrun_0 a : wrun a 0 = [].
Proof. reflexivity. Qed.

Definition run_ok (a : N) (M : nat) (hi : N) : Prop :=
  a + N.of_nat M <= hi /\ (forall k, (k < M)%nat -> dkey (g (a + N.of_nat k)) = d) /\
  (a + N.of_nat M = hi \/ dkey (g (a + N.of_nat M)) <> d).

Definition Qst (spans : list span) (full : bool) : Prop :=
  Forall (okw maxw) spans /\ ((full = false /\ N.of_nat (length spans) < 512) \/ (full = true /\ 512 <= N.of_nat (length spans))).

Lemma run_ok_next a M hi : run_ok a (S M) hi -> run_ok (a + 1) M hi.
Proof.
  intros (R1 & R2 & R3). split; [lia|]. split.
  - intros k Hk. specialize (R2 (S k) ltac:(lia)). replace (a + 1 + N.of_nat k) with (a + N.of_nat (S k)) by lia. exact R2.
  - replace (a + 1 + N.of_nat M) with (a + N.of_nat (S M)) by lia. exact R3.
Qed.

Lemma words_loop_dich hi : hi <= n -> forall fuel M st st',
  run_ok (ts_idx st) M hi -> (ts_idx st < hi -> (1 <= M)%nat) -> ts_curr_key st = d -> Qst (ts_spans st) (ts_full st) ->
  words_loop P fuel hi t nt maxw st = Done st' ->
  Qst (ts_spans st') (ts_full st') /\ ts_sum st <= ts_sum st' /\
  (ts_idx st < hi -> ts_sum st + popcount (wpay (g (ts_idx st))) <= ts_sum st') /\
  (ts_full st' = false -> ts_full st = false /\ ts_spans st' = run_term nt maxw t (ts_spans st) (wrun (ts_idx st) M)).
Proof.
  intros Hhi. induction fuel as [|f IH]; intros M st st' Hrun HM Hkey HQ H; [discriminate|].
  destruct st as [spans full lk ck idx sum]. cbn [ts_idx ts_curr_key ts_spans ts_full ts_sum] in *. subst ck.
  rewrite (words_loop_S P nt maxw) in H.
  destruct (N.ltb_spec idx hi) as [Hlt|Hge].
  2:{ injection H as <-. cbn [ts_idx ts_curr_key ts_spans ts_full ts_sum]. split; [exact HQ|]. split; [lia|]. split; [lia|].
      intros Hf. split; [exact Hf|]. destruct Hrun as (R1 & _). assert (M = 0)%nat by lia. subst M. reflexivity. }
  specialize (HM Hlt). destruct M as [|M]; [lia|].
  rewrite rdP in H by lia. cbn [bind] in H. rewrite N.shiftl_1_l, bl70_eq in H.
  destruct (bits_loop 70 (wpay (g idx)) (Z.of_N (wbase (g idx))) (2 ^ t) nt maxw spans full) as [[spans1 full1]| |] eqn:Ebl;
    cbn [bind] in H; try discriminate.
  destruct HQ as [Hok HQ]. pose proof (wpay_pc (g idx)) as Hpc.
  apply (bits_loop_dich nt maxw t (wbase (g idx)) Ht Hmw) in Ebl; [|lia|exact Hok].
  destruct Ebl as (B1 & B2 & B3 & B4). rewrite wcs_eq in B4.
  set (ck1 := if idx + 1 <? hi then dkey (g (idx + 1)) else d).
  assert (Eck : (if idx + 1 <? hi then do w2 <- rd 0 P (idx + 1); Done (dkey w2) else Done d) = Done ck1).
  { unfold ck1. destruct (N.ltb_spec (idx + 1) hi); [rewrite rdP by lia|]; reflexivity. }
  rewrite Eck in H. cbn [bind] in H. unfold SPAN_CAP, src_span_cap in H.
  pose proof (run_ok_next idx M hi Hrun) as Hrun1.
  destruct (N.leb_spec 512 (N.of_nat (length spans1))) as [Hcap|Hcap].
  - (* the table is full: compaction removes nothing, the loop gives up, full = true *)
    cbv zeta in H. rewrite (compact_id maxw spans1 B1) in H.
    assert (Ecap : (512 <=? N.of_nat (length spans1)) = true) by (apply N.leb_le; exact Hcap). rewrite Ecap in H.
    destruct (give_up P (S (N.to_nat (hi - (idx + 1)))) (idx + 1) hi d ck1) as [g0| |] eqn:Eg; cbn [bind] in H; try discriminate.
    destruct (give_up_sum P (S (N.to_nat (hi - (idx + 1)))) (idx + 1) hi d) as [extra| |]; cbn [bind] in H; try discriminate.
    apply (give_up_spec P g n rdP) in Eg; [|exact Hhi].
    assert (HQ1 : Qst spans1 true) by (split; [exact B1|right; split; [reflexivity|exact Hcap]]).
    destruct (N.eqb_spec (snd g0) d) as [E|E]; cbn [negb] in H.
    + destruct g0 as [[i'|] k']; cbn [fst snd] in *.
      * destruct Eg as (_ & _ & G3 & G4 & _). congruence.
      * (* no later document: the cursor is at the end of the segment, the loop stops at once *)
        subst k'.
        apply (IH 0%nat) in H; cbn [ts_idx ts_curr_key ts_spans ts_full ts_sum] in *; [| |intros Hlt1; lia|reflexivity|exact HQ1].
        -- destruct H as (H1 & H2 & _ & H4). split; [exact H1|]. split; [lia|]. split; [lia|]. intros Hf. destruct (H4 Hf) as [Hc _]. discriminate.
        -- split; [lia|]. split; [intros k Hk; lia|left; lia].
    + injection H as <-. cbn [ts_idx ts_curr_key ts_spans ts_full ts_sum]. split; [exact HQ1|]. split; [lia|]. split; [lia|]. discriminate.
  - (* still room: this word was folded purely *)
    assert (Ecap : (512 <=? N.of_nat (length spans1)) = false) by (apply N.leb_gt; exact Hcap). try rewrite Ecap in H. cbn [bind] in H.
    assert (Hfull : full = false) by (destruct HQ as [[Hf _]|[_ Hl]]; [exact Hf|lia]).
    destruct (B4 Hcap Hfull) as [E1 Ef1]. subst full1 full.
    assert (HQ1 : Qst spans1 false) by (split; [exact B1|left; split; [reflexivity|exact Hcap]]).
    destruct (N.eqb_spec ck1 d) as [E|E]; cbn [negb] in H.
    + apply (IH M) in H; cbn [ts_idx ts_curr_key ts_spans ts_full ts_sum] in *; [|exact Hrun1| |exact E|exact HQ1].
      * destruct H as (H1 & H2 & _ & H4). split; [exact H1|]. split; [lia|]. split; [lia|]. intros Hf. destruct (H4 Hf) as [_ Hs].
        split; [reflexivity|]. rewrite Hs, E1, wrun_S, run_term_app. reflexivity.
      * intros Hlt1. destruct M as [|M]; [|lia]. destruct Hrun as (_ & _ & [R3|R3]); [lia|].
        exfalso. apply R3. replace (idx + N.of_nat 1) with (idx + 1) by lia. unfold ck1 in E.
        destruct (N.ltb_spec (idx + 1) hi); [exact E|lia].
    + injection H as <-. cbn [ts_idx ts_curr_key ts_spans ts_full ts_sum]. split; [exact HQ1|]. split; [lia|]. split; [lia|].
      intros _. split; [reflexivity|].
      assert (M = 0)%nat.
      { destruct M as [|M]; [reflexivity|]. exfalso. apply E. unfold ck1. destruct Hrun as (R1 & R2 & _).
        destruct (N.ltb_spec (idx + 1) hi); [|reflexivity]. specialize (R2 1%nat ltac:(lia)). replace (idx + N.of_nat 1) with (idx + 1) in R2 by lia. exact R2. }
      subst M. rewrite wrun_S, wrun_0, app_nil_r. exact E1.
Qed.
End WordsD.


(* ---------- the give-up path: when the table is full the credited count is still positive ---------- *)
Lemma full_credit_positive : forall sums, sums <> [] -> Forall (fun s => 1 <= s) sums -> 1 <= min_popcount sums.
Proof.
  unfold min_popcount.
  assert (G : forall sums m, Forall (fun s => 1 <= s) sums -> (sums <> [] \/ 1 <= m) -> (m = 0 \/ 1 <= m) ->
              1 <= fold_left (fun m s => if orb (m =? 0) (s <? m) then s else m) sums m).
  { induction sums as [|s sums IH]; intros m HF Hne Hm; cbn [fold_left].
    - destruct Hne as [Hne|Hne]; [congruence|exact Hne].
    - inversion HF as [|? ? Hs HF']; subst. apply IH; [exact HF'| |].
      + right. destruct ((m =? 0) || (s <? m)) eqn:E; [exact Hs|]. apply orb_false_iff in E. destruct E as [E _]. apply N.eqb_neq in E. lia.
      + right. destruct ((m =? 0) || (s <? m)) eqn:E; [exact Hs|]. apply orb_false_iff in E. destruct E as [E _]. apply N.eqb_neq in E. lia. }
  intros sums Hne HF. apply G; [exact HF|left; exact Hne|left; reflexivity].
Qed.


Section Terms.
Variables (P : mem) (g : N -> N) (n : N).
Hypothesis rdP : forall i, i < n -> rd 0 P i = Done (g i).
Variables (nt : N) (maxw : Z).
(* ---- the per-term cursors with respect to the target document d ---- *)
Variable d : N.
(* cursor idx of a term whose words of document d are g a .. g (a+m-1), inside its segment ending at hi *)
Definition term_ok (idx hi : N) (am : N * nat) : Prop :=
  let '(a, m) := am in
  idx <= a /\ (forall j, idx <= j -> j < a -> dkey (g j) < d) /\ a + N.of_nat m <= hi /\ hi <= n /\ (1 <= m)%nat /\
  (forall k, (k < m)%nat -> dkey (g (a + N.of_nat k)) = d) /\ (a + N.of_nat m = hi \/ dkey (g (a + N.of_nat m)) <> d).

Inductive TL : list N -> list N -> list (N * nat) -> Prop :=
| TL_nil : TL [] [] []
| TL_cons idx hi am idxs his ams : term_ok idx hi am -> TL idxs his ams -> TL (idx :: idxs) (hi :: his) (am :: ams).

Lemma terms_loop_S hi lrest i0 irest tord dk spans full lk sums ap :
  terms_loop P (hi :: lrest) tord (i0 :: irest) nt maxw dk spans full lk sums ap =
  do i <- skip_earlier P (S (N.to_nat (hi - i0))) i0 hi dk;
  do st <- (if hi <=? i then
              Done ({| ts_spans := spans; ts_full := full; ts_last_key := lk; ts_curr_key := 0; ts_idx := i; ts_sum := 0 |}, false)
            else
              do w0 <- rd 0 P i;
              if negb (dkey w0 =? dk) then
                Done ({| ts_spans := spans; ts_full := full; ts_last_key := lk; ts_curr_key := dkey w0; ts_idx := i; ts_sum := 0 |}, false)
              else
                do s <- words_loop P (S (N.to_nat (hi - i))) hi tord nt maxw
                          {| ts_spans := spans; ts_full := full; ts_last_key := lk; ts_curr_key := dkey w0; ts_idx := i; ts_sum := 0 |};
                Done (s, true));
  let '(stt, present) := st in
  do r <- terms_loop P lrest (tord + 1) irest nt maxw dk (ts_spans stt) (ts_full stt) (ts_last_key stt)
            (sums ++ [ts_sum stt]) (andb ap present);
  let '(idxs', sp', f', lk', sums', ap') := r in
  Done (ts_idx stt :: idxs', sp', f', lk', sums', ap').
Proof. reflexivity. Qed.

(* an earlier document: every cursor stays at or before the first word of document d *)
Lemma terms_loop_gen : forall his idxs ams tord dk spans full lk sums ap idxs' sp' f' lk' sums' ap',
  dk < d -> TL idxs his ams ->
  terms_loop P his tord idxs nt maxw dk spans full lk sums ap = Done (idxs', sp', f', lk', sums', ap') ->
  TL idxs' his ams /\
  match idxs, idxs' with i0 :: _, i0' :: _ => dkey (g i0) = dk -> i0 < i0' | _, _ => True end.
Proof.
  induction his as [|hi lrest IH]; intros idxs ams tord dk spans full lk sums ap idxs' sp' f' lk' sums' ap' Hdk HTL H.
  - inversion HTL; subst. cbn [terms_loop] in H. injection H as <- <- <- <- <- <-. split; [constructor|exact I].
  - inversion HTL as [|idx hi' am idxs0 his0 ams0 Hok HTL']; subst. rewrite terms_loop_S in H.
    destruct am as [a m]. destruct Hok as (O1 & O2 & O3 & O4 & O5 & O6 & O7).
    destruct (skip_earlier P (S (N.to_nat (hi - idx))) idx hi dk) as [i| |] eqn:Esk; cbn [bind] in H; try discriminate.
    apply (skip_earlier_spec P g n rdP) in Esk; [|exact O4]. destruct Esk as (S1 & S2 & S3 & S4).
    assert (Ha_d : dkey (g a) = d). { specialize (O6 0%nat ltac:(lia)). rewrite N.add_0_r in O6. exact O6. }
    assert (Hia : i <= a).
    { destruct (N.le_gt_cases i a) as [Hle|Hgt]; [exact Hle|]. specialize (S3 a O1 Hgt). lia. }
    assert (Hlt : (hi <=? i) = false) by (apply N.leb_gt; lia). rewrite Hlt in H.
    rewrite rdP in H by lia. cbn [bind] in H.
    assert (Hpre : forall j, i <= j -> j < a -> dkey (g j) < d) by (intros j Hj1 Hj2; apply O2; lia).
    (* the state after this term *)
    assert (Hstt : forall stt present rest,
       (let '(stt, present) := (stt, present) in
        do r <- terms_loop P lrest (tord + 1) idxs0 nt maxw dk (ts_spans stt) (ts_full stt) (ts_last_key stt)
                  (sums ++ [ts_sum stt]) (andb ap present);
        let '(idxs', sp', f', lk', sums', ap') := r in Done (ts_idx stt :: idxs', sp', f', lk', sums', ap'))
         = Done (idxs', sp', f', lk', sums', ap') ->
       i <= ts_idx stt -> ts_idx stt <= a -> (dkey (g idx) = dk -> idx < ts_idx stt) -> rest = tt ->
       TL idxs' (hi :: lrest) ((a, m) :: ams0) /\
       match idxs' with i0' :: _ => dkey (g idx) = dk -> idx < i0' | _ => True end).
    { intros stt present rest Hr Hi1 Hi2 Hprog _.
      destruct (terms_loop P lrest (tord + 1) idxs0 nt maxw dk (ts_spans stt) (ts_full stt) (ts_last_key stt)
                  (sums ++ [ts_sum stt]) (andb ap present)) as [[[[[[idxs1 sp1] f1] lk1] sums1] ap1]| |] eqn:Er;
        cbn [bind] in Hr; try discriminate.
      injection Hr as <- <- <- <- <- <-.
      eapply IH in Er; [|exact Hdk|exact HTL']. destruct Er as [HTL1 _].
      split; [|exact Hprog]. constructor; [|exact HTL1].
      repeat split; try assumption; try lia. intros j Hj1 Hj2. apply O2; lia. }
    destruct (N.eqb_spec (dkey (g i)) dk) as [Ek|Ek]; cbn [negb] in H.
    + destruct (words_loop P (S (N.to_nat (hi - i))) hi tord nt maxw
                 {| ts_spans := spans; ts_full := full; ts_last_key := lk; ts_curr_key := dkey (g i); ts_idx := i; ts_sum := 0 |})
        as [s1| |] eqn:Ew; cbn [bind] in H; try discriminate.
      apply (words_loop_gen P g n rdP) in Ew; [|exact O4|cbn [ts_idx ts_curr_key]; reflexivity].
      cbn [ts_idx ts_curr_key] in Ew. destruct Ew as (W1 & W2 & W3 & W4).
      apply (Hstt s1 true tt); [exact H|exact W1| |intros _; specialize (W2 ltac:(lia)); lia|reflexivity].
      destruct (N.le_gt_cases (ts_idx s1) a) as [Hle|Hgt]; [exact Hle|].
      specialize (W4 a Hia Hgt). lia.
    + apply (Hstt {| ts_spans := spans; ts_full := full; ts_last_key := lk; ts_curr_key := dkey (g i); ts_idx := i; ts_sum := 0 |} false tt);
        [exact H|cbn [ts_idx]; lia|cbn [ts_idx]; exact Hia| |reflexivity].
      cbn [ts_idx]. intros Hk. destruct (N.eq_dec i idx) as [->|Hne]; [congruence|lia].
Qed.


(* the target document: every term present; either the pure fold with full = false, or full = true *)
Lemma terms_loop_dich : forall his idxs ams tord spans full lk sums ap idxs' sp' f' lk' sums' ap',
  tord + N.of_nat (length his) <= 64 -> (0 <= maxw)%Z -> TL idxs his ams ->
  (forall am, In am ams -> wpay (g (fst am)) <> 0) -> Qst maxw spans full ->
  terms_loop P his tord idxs nt maxw d spans full lk sums ap = Done (idxs', sp', f', lk', sums', ap') ->
  ap' = ap /\ Qst maxw sp' f' /\
  (exists new, sums' = sums ++ new /\ length new = length his /\ Forall (fun s => 1 <= s) new) /\
  (f' = false -> full = false /\ sp' = run_terms nt maxw tord (map (fun am => wrun g (fst am) (snd am)) ams) spans).
Proof.
  induction his as [|hi lrest IH]; intros idxs ams tord spans full lk sums ap idxs' sp' f' lk' sums' ap' H64 Hmw HTL Hnz HQ H.
  - inversion HTL; subst. cbn [terms_loop] in H. injection H as <- <- <- <- <- <-. split; [reflexivity|]. split; [exact HQ|].
    split; [exists []; rewrite app_nil_r; repeat split; constructor|]. intros Hf. split; [exact Hf|reflexivity].
  - inversion HTL as [|idx hi' am idxs0 his0 ams0 Hok HTL']; subst. rewrite terms_loop_S in H.
    destruct am as [a m]. pose proof Hok as (O1 & O2 & O3 & O4 & O5 & O6 & O7).
    destruct (skip_earlier P (S (N.to_nat (hi - idx))) idx hi d) as [i| |] eqn:Esk; cbn [bind] in H; try discriminate.
    apply (skip_earlier_spec P g n rdP) in Esk; [|exact O4]. destruct Esk as (S1 & S2 & S3 & S4).
    assert (Ha_d : dkey (g a) = d). { specialize (O6 0%nat ltac:(lia)). rewrite N.add_0_r in O6. exact O6. }
    assert (Hia : i = a).
    { destruct (N.lt_trichotomy i a) as [Hlt|[E|Hgt]]; [|exact E|].
      - specialize (O2 i S1 Hlt). specialize (S4 ltac:(lia)). lia.
      - specialize (S3 a O1 Hgt). lia. }
    subst i.
    assert (Hlt : (hi <=? a) = false) by (apply N.leb_gt; lia). rewrite Hlt in H.
    rewrite rdP in H by lia. cbn [bind] in H. rewrite Ha_d, N.eqb_refl in H. cbn [negb] in H.
    destruct (words_loop P (S (N.to_nat (hi - a))) hi tord nt maxw
               {| ts_spans := spans; ts_full := full; ts_last_key := lk; ts_curr_key := d; ts_idx := a; ts_sum := 0 |})
      as [s1| |] eqn:Ew; cbn [bind] in H; try discriminate.
    assert (Ht : tord < 64) by (cbn [length] in H64; lia).
    apply (words_loop_dich P g n rdP nt maxw tord d Ht Hmw hi O4 _ m) in Ew; cbn [ts_idx ts_curr_key ts_spans ts_full ts_sum] in *;
      [|split; [exact O3|split; [exact O6|exact O7]]|intros _; exact O5|reflexivity|exact HQ].
    destruct Ew as (W1 & _ & W3 & W4). specialize (W3 ltac:(lia)).
    destruct (terms_loop P lrest (tord + 1) idxs0 nt maxw d (ts_spans s1) (ts_full s1) (ts_last_key s1)
                (sums ++ [ts_sum s1]) (andb ap true)) as [[[[[[idxs1 sp1] f1] lk1] sums1] ap1]| |] eqn:Er;
      cbn [bind] in H; try discriminate.
    injection H as <- <- <- <- <- <-.
    eapply IH in Er; [|cbn [length] in H64; lia|exact Hmw|exact HTL'|intros am Ham; apply Hnz; right; exact Ham|exact W1].
    destruct Er as (E1 & E2 & (new & E3 & E4 & E5) & E6).
    split; [rewrite E1; apply andb_true_r|]. split; [exact E2|]. split.
    + exists (ts_sum s1 :: new). rewrite E3, <- app_assoc. cbn [app length]. split; [reflexivity|]. split; [lia|].
      constructor; [|exact E5]. specialize (Hnz (a, m) (or_introl eq_refl)). cbn [fst] in Hnz. pose proof (pc_pos _ Hnz). lia.
    + intros Hf. destruct (E6 Hf) as [E7 E8]. destruct (W4 E7) as [E9 E10]. split; [exact E9|].
      cbn [map fst snd run_terms]. rewrite E8, E10. reflexivity.
Qed.

(* ---- the Counter ---- *)
Lemma add_count_has k c : forall acc, exists c', In (k, c') (add_count k c acc) /\ c <= c'.
Proof.
  induction acc as [|[k0 c0] rest IH]; cbn [add_count].
  - exists c. split; [left; reflexivity|lia].
  - destruct (N.eqb_spec k k0) as [->|Hne].
    + exists (c0 + c). split; [left; reflexivity|lia].
    + destruct IH as (c' & Hin & Hle). exists c'. split; [right; exact Hin|exact Hle].
Qed.
Lemma add_count_old k c : forall acc k1 c1, In (k1, c1) acc -> exists c', In (k1, c') (add_count k c acc) /\ c1 <= c'.
Proof.
  induction acc as [|[k0 c0] rest IH]; intros k1 c1 Hin; [destruct Hin|]. cbn [add_count].
  destruct (N.eqb_spec k k0) as [->|Hne].
  - destruct Hin as [E|Hin]; [injection E as <- <-; exists (c0 + c); split; [left; reflexivity|lia]|].
    exists c1. split; [right; exact Hin|lia].
  - destruct Hin as [E|Hin]; [injection E as <- <-; exists c0; split; [left; reflexivity|lia]|].
    destruct (IH _ _ Hin) as (c' & Hin' & Hle). exists c'. split; [right; exact Hin'|exact Hle].
Qed.
Lemma add_count_keys k c : forall acc k1, In k1 (map fst (add_count k c acc)) -> k1 = k \/ In k1 (map fst acc).
Proof.
  induction acc as [|[k0 c0] rest IH]; intros k1 Hin; cbn [add_count] in Hin.
  - destruct Hin as [<-|[]]. left. reflexivity.
  - destruct (N.eqb_spec k k0) as [->|Hne]; cbn [map fst In] in *.
    + destruct Hin as [<-|Hin]; [left; reflexivity|right; right; exact Hin].
    + destruct Hin as [<-|Hin]; [right; left; reflexivity|]. apply IH in Hin. destruct Hin as [->|Hin]; [left; reflexivity|right; right; exact Hin].
Qed.
Lemma add_count_nodup k c : forall acc, NoDup (map fst acc) -> NoDup (map fst (add_count k c acc)).
Proof.
  induction acc as [|[k0 c0] rest IH]; intros Hnd; cbn [add_count].
  - cbn. constructor; [intros []|constructor].
  - cbn [map fst] in Hnd. inversion Hnd as [|? ? Hnin Hnd']; subst.
    destruct (N.eqb_spec k k0) as [->|Hne]; cbn [map fst].
    + constructor; assumption.
    + constructor; [|apply IH; exact Hnd']. intros Hin. apply add_count_keys in Hin. destruct Hin as [E|Hin]; [congruence|contradiction].
Qed.

Lemma docs_loop_S f his hi0 i0 irest acc :
  docs_loop P (S f) his hi0 (i0 :: irest) nt maxw acc =
  if i0 <? hi0 then
    do w <- rd 0 P i0;
    do r <- terms_loop P his 0 (i0 :: irest) nt maxw (dkey w) [] false 0 [] true;
    let '(idxs', spans, full, _, sums, all_present) := r in
    docs_loop P f his hi0 idxs' nt maxw
      (if negb all_present then acc
       else if full then add_count (dkey w) (min_popcount sums) acc
       else add_count (dkey w) (N.of_nat (length (collect spans nt maxw))) acc)
  else Done acc.
Proof. reflexivity. Qed.

Lemma docs_loop_mono : forall fuel his hi0 idxs acc res, docs_loop P fuel his hi0 idxs nt maxw acc = Done res ->
  (forall k c, In (k, c) acc -> exists c', In (k, c') res /\ c <= c') /\ (NoDup (map fst acc) -> NoDup (map fst res)).
Proof.
  induction fuel as [|f IH]; intros his hi0 idxs acc res H; [discriminate|].
  destruct idxs as [|i0 irest]; [cbn [docs_loop] in H; injection H as <-; split; [intros k c Hin; exists c; split; [exact Hin|lia]|auto]|].
  rewrite docs_loop_S in H. destruct (i0 <? hi0).
  2:{ injection H as <-. split; [intros k c Hin; exists c; split; [exact Hin|lia]|auto]. }
  destruct (rd 0 P i0) as [w| |]; cbn [bind] in H; try discriminate.
  destruct (terms_loop P his 0 (i0 :: irest) nt maxw (dkey w) [] false 0 [] true) as [[[[[[idxs1 sp1] f1] lk1] sums1] ap1]| |];
    cbn [bind] in H; try discriminate.
  apply IH in H. destruct H as [H1 H2].
  destruct ap1; cbn [negb] in *; [|split; assumption].
  destruct f1.
  - split.
    + intros k c Hin. destruct (add_count_old (dkey w) (min_popcount sums1) acc k c Hin) as (c1 & Hin1 & Hle1).
      destruct (H1 _ _ Hin1) as (c2 & Hin2 & Hle2). exists c2. split; [exact Hin2|lia].
    + intros Hnd. apply H2. apply add_count_nodup. exact Hnd.
  - split.
    + intros k c Hin. destruct (add_count_old (dkey w) (N.of_nat (length (collect sp1 nt maxw))) acc k c Hin) as (c1 & Hin1 & Hle1).
      destruct (H1 _ _ Hin1) as (c2 & Hin2 & Hle2). exists c2. split; [exact Hin2|lia].
    + intros Hnd. apply H2. apply add_count_nodup. exact Hnd.
Qed.

(* the outer loop reaches document d; there either the pure fold is collected or the fallback credits >= 1 *)
Lemma docs_loop_target his ams : N.of_nat (length his) <= 64 -> (0 <= maxw)%Z -> his <> [] ->
  (forall am, In am ams -> wpay (g (fst am)) <> 0) ->
  collect (run_terms nt maxw 0 (map (fun am => wrun g (fst am) (snd am)) ams) []) nt maxw <> [] ->
  forall fuel idxs acc res, TL idxs his ams ->
  match idxs, ams with i0 :: _, (a0, _) :: _ => (N.to_nat (a0 - i0) < fuel)%nat | _, _ => False end ->
  docs_loop P fuel his (hd 0 his) idxs nt maxw acc = Done res ->
  exists c, In (d, c) res /\ 1 <= c.
Proof.
  intros H64 Hmw Hne Hnz Hcoll. induction fuel as [|f IH]; intros idxs acc res HTL Hfuel H; [discriminate|].
  inversion HTL as [|i0 hi0 am irest hrest ams0 Hok HTL']; subst; [destruct Hfuel|].
  destruct am as [a0 m0]. cbn [hd] in H. rewrite docs_loop_S in H.
  pose proof Hok as (O1 & O2 & O3 & O4 & O5 & O6 & O7).
  assert (Ha_d : dkey (g a0) = d). { specialize (O6 0%nat ltac:(lia)). rewrite N.add_0_r in O6. exact O6. }
  assert (Hlt : (i0 <? hi0) = true) by (apply N.ltb_lt; lia). rewrite Hlt in H.
  rewrite rdP in H by lia. cbn [bind] in H.
  destruct (terms_loop P (hi0 :: hrest) 0 (i0 :: irest) nt maxw (dkey (g i0)) [] false 0 [] true)
    as [[[[[[idxs1 sp1] f1] lk1] sums1] ap1]| |] eqn:Er; cbn [bind] in H; try discriminate.
  destruct (N.eq_dec i0 a0) as [->|Hne0].
  - rewrite Ha_d in *.
    apply terms_loop_dich with (ams := (a0, m0) :: ams0) in Er; [|lia|exact Hmw|exact HTL|exact Hnz|].
    2:{ split; [constructor|left; split; [reflexivity|cbn; lia]]. }
    destruct Er as (-> & _ & (new & Es & Elen & Epos) & Epure). cbn [negb] in H. cbn [app] in Es. subst sums1.
    apply docs_loop_mono in H. destruct H as [H1 _].
    assert (Hcredit : exists c1, In (d, c1) (if f1 then add_count d (min_popcount new) acc
                                           else add_count d (N.of_nat (length (collect sp1 nt maxw))) acc) /\ 1 <= c1).
    { destruct f1.
      - destruct (add_count_has d (min_popcount new) acc) as (c1 & Hin1 & Hle1). exists c1. split; [exact Hin1|].
        assert (1 <= min_popcount new) by (apply full_credit_positive; [destruct new; [cbn [length] in Elen; lia|discriminate]|exact Epos]). lia.
      - destruct (Epure eq_refl) as [_ ->].
        destruct (add_count_has d (N.of_nat (length (collect (run_terms nt maxw 0 (map (fun am => wrun g (fst am) (snd am)) ((a0, m0) :: ams0)) []) nt maxw))) acc)
          as (c1 & Hin1 & Hle1). exists c1. split; [exact Hin1|].
        destruct (collect (run_terms nt maxw 0 (map (fun am => wrun g (fst am) (snd am)) ((a0, m0) :: ams0)) []) nt maxw); [congruence|].
        cbn [length] in Hle1. lia. }
    destruct Hcredit as (c1 & Hin1 & Hc1). destruct (H1 _ _ Hin1) as (c2 & Hin2 & Hle2). exists c2. split; [exact Hin2|lia].
  - assert (Hk : dkey (g i0) < d) by (apply O2; lia).
    apply terms_loop_gen with (ams := (a0, m0) :: ams0) in Er; [|exact Hk|exact HTL].
    destruct Er as [HTL1 Hprog].
    inversion HTL1 as [|i1 hi1 am1 irest1 hrest1 ams1 Hok1 HTL1']; subst.
    specialize (Hprog eq_refl).
    apply (IH _ _ _ HTL1) in H; [exact H|].
    destruct Hok1 as (Q1 & _). lia.
Qed.
End Terms.


(* cumulative lengths starting at a *)
Fixpoint cum (a : N) (sl : list (list N)) : list N :=
  match sl with [] => [a] | s :: r => a :: cum (a + N.of_nat (length s)) r end.

Lemma fold_cum : forall sl pre a,
  fold_left (fun acc s => acc ++ [last acc 0 + N.of_nat (length s)]) sl (pre ++ [a]) = pre ++ cum a sl.
Proof.
  induction sl as [|s r IH]; intros pre a; cbn [fold_left cum]; [reflexivity|].
  rewrite last_last. rewrite (IH (pre ++ [a]) (a + N.of_nat (length s))). rewrite <- app_assoc. reflexivity.
Qed.

Lemma cum_hd a sl : cum a sl = a :: tl (cum a sl).
Proof. destruct sl; reflexivity. Qed.

Lemma cum_length : forall sl a, length (cum a sl) = S (length sl).
Proof. induction sl as [|s r IH]; intro a; cbn [cum length]; [reflexivity|]. now rewrite IH. Qed.

Lemma removelast_cum a b r : removelast (a :: cum b r) = a :: removelast (cum b r).
Proof. rewrite (cum_hd b r). reflexivity. Qed.

Lemma removelast_cum_length : forall sl a, length (removelast (cum a sl)) = length sl.
Proof.
  induction sl as [|s r IH]; intro a; [reflexivity|].
  cbn [cum]. rewrite removelast_cum. cbn [length]. now rewrite IH.
Qed.

Lemma tl_cum_length sl a : length (tl (cum a sl)) = length sl.
Proof. destruct sl as [|s r]; [reflexivity|]. cbn [cum tl]. rewrite cum_length. reflexivity. Qed.

Lemma lift_inv {A} (r : result A) a : lift r = AOk a -> r = Done a.
Proof. destruct r; cbn [lift]; intro H; [inversion H; reflexivity|discriminate|discriminate]. Qed.

Lemma store_many_inv : forall ivs dense v, store_many dense ivs = Done v ->
  length v = length dense /\
  forall d, nth d v 0 <> nth d dense 0 -> exists c, In (N.of_nat d, c) ivs.
Proof.
  induction ivs as [|[i c] t IH]; intros dense v H; cbn [store_many] in H.
  - inversion H; subst. split; [reflexivity|]. intros d Hd. congruence.
  - apply bind_inv in H as (d1 & H1 & H2). unfold store in H1.
    destruct (i <? N.of_nat (length dense)) eqn:E; [|discriminate].
    apply N.ltb_lt in E. inversion H1; subst d1. apply IH in H2 as [L Hn].
    rewrite list_set_length in L. split; [exact L|]. intros d Hd.
    destruct (N.eq_dec i (N.of_nat d)) as [->|Hne].
    + exists c. left. reflexivity.
    + destruct (Hn d) as [c' Hc'].
      { rewrite list_set_nth by lia. destruct (Nat.eqb_spec d (N.to_nat i)); [lia|exact Hd]. }
      exists c'. right. exact Hc'.
Qed.


(* ---------- from segment lists to the cursors ---------- *)
Definition seg3 : Type := (list N * list N * list N)%type.
Definition seg_of (tr : seg3) : list N := let '(pre, run, post) := tr in pre ++ run ++ post.
Definition seg_run (tr : seg3) : list N := let '(_, run, _) := tr in run.
Definition seg_d (d : N) (tr : seg3) : Prop :=
  let '(pre, run, post) := tr in
  (forall w, In w pre -> dkey w < d) /\ run <> [] /\ (forall w, In w run -> dkey w = d /\ wpay w <> 0) /\
  match post with [] => True | w :: _ => dkey w <> d end.
Fixpoint ams_from (off : N) (trs : list seg3) : list (N * nat) :=
  match trs with
  | [] => []
  | (pre, run, post) :: rest =>
      (off + N.of_nat (length pre), length run) :: ams_from (off + N.of_nat (length (pre ++ run ++ post))) rest
  end.

Lemma nth_mid {A} (l1 l2 l3 : list A) k dflt : (k < length l2)%nat -> nth (length l1 + k) (l1 ++ l2 ++ l3) dflt = nth k l2 dflt.
Proof. intros H. rewrite app_nth2 by lia. replace (length l1 + k - length l1)%nat with k by lia. apply app_nth1. exact H. Qed.

Lemma wrun_list g : forall run a, (forall k, (k < length run)%nat -> g (a + N.of_nat k) = nth k run 0) ->
  wrun g a (length run) = concat (map wcs run).
Proof.
  induction run as [|w r IH]; intros a H; [reflexivity|].
  cbn [length]. rewrite wrun_S. cbn [map concat]. f_equal.
  - specialize (H 0%nat ltac:(cbn; lia)). rewrite N.add_0_r in H. cbn [nth] in H. rewrite H. reflexivity.
  - apply IH. intros k Hk. specialize (H (S k) ltac:(cbn; lia)). cbn [nth] in H. rewrite <- H. f_equal. lia.
Qed.

Lemma layout_TL d : forall trs pm rest l off, Forall (seg_d d) trs ->
  l = pm ++ concat (map seg_of trs) ++ rest -> off = N.of_nat (length pm) ->
  TL (fun i => nth (N.to_nat i) l 0) (N.of_nat (length l)) d
     (removelast (cum off (map seg_of trs))) (tl (cum off (map seg_of trs))) (ams_from off trs).
Proof.
  induction trs as [|[[pre run] post] trs IH]; intros pm rest l off HF El Eoff.
  - cbn. constructor.
  - inversion HF as [|? ? Hd HF']; subst off. cbn [map cum ams_from concat] in *. rewrite removelast_cum. cbn [tl].
    rewrite (cum_hd _ (map seg_of trs)) at 2.
    destruct Hd as (D1 & D2 & D3 & D4).
    assert (El' : l = pm ++ pre ++ run ++ (post ++ concat (map seg_of trs) ++ rest)).
    { rewrite El. unfold seg_of at 1. rewrite <- !app_assoc. reflexivity. }
    constructor.
    + unfold term_ok. change (seg_of (pre, run, post)) with (pre ++ run ++ post). rewrite !app_length.
      split; [lia|]. split.
      { intros j Hj1 Hj2. apply D1. rewrite El'.
        replace (N.to_nat j) with (length pm + (N.to_nat j - length pm))%nat by lia.
        rewrite app_nth2_plus. rewrite app_nth1 by lia. apply nth_In. lia. }
      split; [lia|]. split; [rewrite El'; rewrite !app_length; lia|].
      split; [destruct run; [congruence|cbn; lia]|]. split.
      { intros k Hk. apply (fun w H => proj1 (D3 w H)). rewrite El'.
        replace (N.to_nat (N.of_nat (length pm) + N.of_nat (length pre) + N.of_nat k)) with (length pm + (length pre + k))%nat by lia.
        rewrite app_nth2_plus. rewrite nth_mid by exact Hk. apply nth_In. exact Hk. }
      { destruct post as [|w0 post'].
        - left. cbn [length]. lia.
        - right. rewrite El'.
          replace (N.to_nat (N.of_nat (length pm) + N.of_nat (length pre) + N.of_nat (length run))) with (length pm + (length pre + (length run + 0)))%nat by lia.
          rewrite app_nth2_plus, app_nth2_plus, app_nth2_plus. cbn [app nth]. exact D4. }
    + apply (IH (pm ++ seg_of (pre, run, post)) rest); [exact HF'| |].
      * rewrite El. rewrite <- !app_assoc. reflexivity.
      * change (seg_of (pre, run, post)) with (pre ++ run ++ post). rewrite !app_length. lia.
Qed.

Definition seg_evs (trs : list seg3) : list (list N) := map (fun tr => concat (map wcs (seg_run tr))) trs.

Lemma layout_evs : forall trs pm rest l off,
  l = pm ++ concat (map seg_of trs) ++ rest -> off = N.of_nat (length pm) ->
  map (fun am => wrun (fun i => nth (N.to_nat i) l 0) (fst am) (snd am)) (ams_from off trs) = seg_evs trs.
Proof.
  induction trs as [|[[pre run] post] trs IH]; intros pm rest l off El Eoff; [reflexivity|].
  cbn [ams_from map seg_evs fst snd seg_run]. f_equal.
  - apply wrun_list. intros k Hk. subst off.
    replace (N.to_nat (N.of_nat (length pm) + N.of_nat (length pre) + N.of_nat k)) with (length pm + (length pre + k))%nat by lia.
    rewrite El. cbn [map concat]. change (seg_of (pre, run, post)) with (pre ++ run ++ post). rewrite <- !app_assoc.
    rewrite app_nth2_plus. apply nth_mid. exact Hk.
  - apply (IH (pm ++ pre ++ run ++ post) rest).
    + rewrite El. cbn [map concat]. change (seg_of (pre, run, post)) with (pre ++ run ++ post). rewrite <- !app_assoc. reflexivity.
    + subst off. rewrite !app_length. lia.
Qed.

Lemma store_many_nodup : forall ivs dense v dd c, store_many dense ivs = Done v -> NoDup (map fst ivs) ->
  In (N.of_nat dd, c) ivs -> nth dd v 0 = c.
Proof.
  induction ivs as [|[i c0] rest IH]; intros dense v dd c H Hnd Hin; [destruct Hin|].
  cbn [store_many] in H. apply bind_inv in H as (d1 & H1 & H2). unfold store in H1.
  destruct (i <? N.of_nat (length dense)) eqn:E; [|discriminate]. apply N.ltb_lt in E. injection H1 as <-.
  cbn [map fst] in Hnd. inversion Hnd as [|? ? Hnin Hnd']; subst.
  destruct Hin as [Heq|Hin].
  - injection Heq as -> ->.
    (* later stores do not touch index dd *)
    pose proof (store_many_inv _ _ _ H2) as [Hlen Hdiff].
    destruct (N.eq_dec (nth dd v 0) (nth dd (list_set dense (N.to_nat (N.of_nat dd)) c) 0)) as [Heq|Hne].
    + rewrite Heq. rewrite list_set_nth by lia. rewrite Nat2N.id, Nat.eqb_refl. reflexivity.
    + apply Hdiff in Hne. destruct Hne as [c' Hc']. exfalso. apply Hnin. change (N.of_nat dd) with (fst (N.of_nat dd, c')). apply in_map. exact Hc'.
  - eapply IH; [exact H2|exact Hnd'|exact Hin].
Qed.


Lemma layout_nz d : forall trs pm rest l off, Forall (seg_d d) trs ->
  l = pm ++ concat (map seg_of trs) ++ rest -> off = N.of_nat (length pm) ->
  forall am, In am (ams_from off trs) -> wpay (nth (N.to_nat (fst am)) l 0) <> 0.
Proof.
  induction trs as [|[[pre run] post] trs IH]; intros pm rest l off HF El Eoff am Ham; [destruct Ham|].
  inversion HF as [|? ? Hd HF']; subst off. cbn [ams_from] in Ham. destruct Ham as [<-|Ham].
  - cbn [fst]. destruct Hd as (_ & D2 & D3 & _). destruct run as [|w run']; [congruence|].
    rewrite El. cbn [map concat]. change (seg_of (pre, w :: run', post)) with (pre ++ (w :: run') ++ post). rewrite <- !app_assoc.
    replace (N.to_nat (N.of_nat (length pm) + N.of_nat (length pre))) with (length pm + (length pre + 0))%nat by lia.
    rewrite app_nth2_plus, app_nth2_plus. cbn [app nth]. apply (D3 w). left. reflexivity.
  - apply (IH (pm ++ pre ++ run ++ post) rest l (N.of_nat (length pm) + N.of_nat (length (pre ++ run ++ post))) HF'); [| |exact Ham].
    + rewrite El. cbn [map concat]. change (seg_of (pre, run, post)) with (pre ++ run ++ post). rewrite <- !app_assoc. reflexivity.
    + rewrite !app_length. lia.
Qed.

(* ---------- T2: span_search credits document d ---------- *)
Theorem span_search_target encs slop pf trs d p :
  intersect_all encs = AOk (concat (map seg_of trs), cum 0 (map seg_of trs)) ->
  Forall (seg_d d) trs ->
  (1 <= length trs)%nat -> (length trs <= 64)%nat ->
  okc (N.of_nat (length trs)) p p -> Forall (Forall (okc (N.of_nat (length trs)) p)) (seg_evs trs) ->
  (forall k, (k < length trs)%nat -> In (p + N.of_nat k) (nth k (seg_evs trs) [])) ->
  span_search encs slop = AOk pf ->
  exists c, In (d, c) pf /\ 1 <= c /\ NoDup (map fst pf).
Proof.
  intros Hia Hsegs H1 H64 Hp Hokc Hocc H.
  unfold span_search in H. rewrite Hia in H. cbn [abind] in H.
  apply lift_inv in H.
  set (sl := map seg_of trs) in *. set (l := concat sl) in *.
  rewrite cum_length in H. replace (S (length sl) - 1)%nat with (length trs) in H by (unfold sl; rewrite map_length; lia).
  set (nt := N.of_nat (length trs)) in *. set (maxw := Z.of_N (nt + slop)) in *.
  set (g := fun i : N => nth (N.to_nat i) l 0).
  assert (rdP : forall i, i < N.of_nat (length l) -> rd 0 (mem_of_list l) i = Done (g i)).
  { intros i Hi. rewrite rd_mem_of_list. apply lrd_ok. exact Hi. }
  assert (El : l = [] ++ concat (map seg_of trs) ++ []) by (cbn [app]; rewrite app_nil_r; reflexivity).
  pose proof (layout_TL d trs [] [] l 0 Hsegs El eq_refl) as HTL.
  pose proof (layout_evs trs [] [] l 0 El eq_refl) as Hevs.
  pose proof (layout_nz d trs [] [] l 0 Hsegs El eq_refl) as Hnz.
  fold g in HTL, Hevs. fold sl in HTL.
  assert (Hlen_evs : length (seg_evs trs) = length trs) by (unfold seg_evs; apply map_length).
  assert (Hmw : (0 <= maxw)%Z) by (unfold maxw; lia).
  assert (Hcoll : collect (run_terms nt maxw 0 (seg_evs trs) []) nt maxw <> []).
  { apply (span_table_keeps_exact nt maxw p).
    - unfold nt. lia.
    - unfold nt. lia.
    - unfold maxw, nt. lia.
    - exact Hp.
    - rewrite Hlen_evs. reflexivity.
    - exact Hokc.
    - rewrite Hlen_evs. exact Hocc. }
  rewrite <- Hevs in Hcoll.
  assert (Hhis : N.of_nat (length (tl (cum 0 sl))) <= 64).
  { rewrite tl_cum_length. unfold sl. rewrite map_length. lia. }
  assert (Hhis_ne : tl (cum 0 sl) <> []).
  { intros E. apply (f_equal (@length N)) in E. rewrite tl_cum_length in E. unfold sl in E. rewrite map_length in E. cbn in E. lia. }
  assert (Hnd : NoDup (map fst pf)).
  { apply (docs_loop_mono (mem_of_list l) g (N.of_nat (length l)) rdP nt maxw) in H. destruct H as [_ H]. apply H. constructor. }
  destruct (docs_loop_target (mem_of_list l) g (N.of_nat (length l)) rdP nt maxw d (tl (cum 0 sl)) (ams_from 0 trs) Hhis Hmw Hhis_ne Hnz Hcoll
              (S (length l)) (removelast (cum 0 sl)) [] pf HTL) as (c & Hin & Hc).
  - inversion HTL as [|i0 hi0 am irest hrest ams0 Hok HTL' E1 E2 E3].
    + destruct trs as [|[[pre run] post] trs']; [cbn [length] in H1; lia|]. cbn [ams_from] in *. discriminate.
    + destruct am as [a0 m0]. destruct Hok as (O1 & O2 & O3 & O4 & O5 & _). lia.
  - exact H.
  - exists c. repeat split; assumption.
Qed.


(* ---------- L3: _intersect_all keeps the words of an exact occurrence (header 0 is filtered before the subtraction) ---------- *)

(* every word of an encoded posting list is word_of k b s with a small bucket *)
Definition wform (w : N) : Prop := exists k b s, w = word_of k b s /\ k < 2^28 /\ b * 18 < 2^18 /\ s < 2^18 /\ s <> 0.

Lemma enc_wform_aux : forall rest k b s, sorted2 rest -> bounded rest -> cur_ok k b s rest -> b * 18 < 2^18 ->
  Forall wform (encode_aux (Some (k, b, s)) rest).
Proof.
  intros rest k b s Hs Hb Hok. revert rest k b s Hs Hb Hok.
  apply (enc_ind (fun k b s rest => b * 18 < 2^18 -> Forall wform (encode_aux (Some (k, b, s)) rest))).
  - intros k b s (Hk & Hb & Hs & Hnz & _) Hb18. cbn [encode_aux]. constructor; [|constructor].
    exists k, b, s. repeat split; assumption.
  - intros k b s p rest _ Eb _ _ _ IH Hb18. rewrite encode_aux_same by assumption. apply IH. exact Hb18.
  - intros k b s k' p' rest (Hk & Hb & Hs & Hnz & _) E _ Hk' Hp' _ IH Hb18.
    rewrite encode_aux_diff by assumption. constructor.
    + exists k, b, s. repeat split; assumption.
    + apply IH. pose proof (N.mul_div_le p' 18 ltac:(lia)). lia.
Qed.

Lemma enc_wform ps : sorted2 ps -> bounded ps -> Forall wform (encode_spec ps).
Proof.
  intros Hs Hb. destruct ps as [|[k p] rest]; [constructor|]. unfold encode_spec. cbn [encode_aux].
  pose proof (cur_ok_init k p rest Hs Hb) as Hok.
  inversion Hb as [|x l [Hk Hp] Hb' Ex]; subst. destruct Hs as [_ Hs']. cbn [fst snd] in *.
  apply enc_wform_aux; try assumption. pose proof (N.mul_div_le p 18 ltac:(lia)). lia.
Qed.

Definition Hd (x : N) : N := N.land x header_mask.
Lemma header_mask_val : header_mask = 18446744073709289472. Proof. vm_compute. reflexivity. Qed.
Lemma header_of_Hd x : header_of x = Hd x.
Proof. unfold header_of, Hd. rewrite hmask_val, header_mask_val. reflexivity. Qed.
Lemma Hd_arith x : x < 2^64 -> Hd x = (x / 2^18) * 2^18.
Proof. intros H. rewrite <- header_of_Hd. apply header_as_arith. exact H. Qed.
Lemma Hd_mono x y : x <= y -> y < 2^64 -> Hd x <= Hd y.
Proof.
  intros Hxy Hy. rewrite !Hd_arith by lia. apply N.mul_le_mono_r. apply N.div_le_mono; [discriminate|exact Hxy].
Qed.
Lemma Hd_le x : x < 2^64 -> Hd x <= x.
Proof. intros H. rewrite Hd_arith by exact H. rewrite N.mul_comm. apply N.mul_div_le. discriminate. Qed.
Lemma Hd_idem x : x < 2^64 -> Hd (Hd x) = Hd x.
Proof.
  intros H. rewrite (Hd_arith (Hd x)); [|pose proof (Hd_le x H); lia].
  rewrite (Hd_arith x H). rewrite N.div_mul by discriminate. reflexivity.
Qed.
Lemma Hd_word k b s : k < 2^28 -> b < 2^18 -> s < 2^18 -> Hd (word_of k b s) = word_of k b 0.
Proof. intros. rewrite <- header_of_Hd. apply header_of_word; assumption. Qed.
Lemma Hd_add_unit x : x + 2^18 < 2^64 -> Hd (x + 2^18) = Hd x + 2^18.
Proof.
  intros H. rewrite !Hd_arith by lia. replace (x + 2^18) with (x + 1 * 2^18) by lia.
  rewrite N.div_add by discriminate. lia.
Qed.
Lemma hdr_unit_val : hdr_unit = 2^18. Proof. reflexivity. Qed.
Lemma lowbit_hm : lowbit header_mask = 2^18. Proof. vm_compute. reflexivity. Qed.

(* sortedness bookkeeping *)
Definition SSle := StronglySorted N.le.
Definition lt64 (l : list N) : Prop := Forall (fun x => x < 2^64) l.

Lemma ss_nth_le : forall l a b, SSle l -> (a <= b)%nat -> (b < length l)%nat -> nth a l 0 <= nth b l 0.
Proof.
  induction l as [|x l IH]; intros a b Hs Hab Hb; cbn [length] in Hb; [lia|].
  inversion Hs as [|? ? Hs' Hf]; subst. destruct b as [|b].
  - assert (a = 0)%nat by lia. subst. lia.
  - destruct a as [|a]; cbn [nth]; [|apply IH; [exact Hs'|lia|lia]].
    rewrite Forall_forall in Hf. apply Hf. apply nth_In. lia.
Qed.

Lemma take_idx_in l idxs x : In x (take_idx l idxs) <-> exists a, In a idxs /\ x = nth (N.to_nat a) l 0.
Proof.
  unfold take_idx. rewrite in_map_iff. split.
  - intros (a & H1 & H2). exists a. split; [exact H2|symmetry; exact H1].
  - intros (a & H1 & H2). exists a. split; [symmetry; exact H2|exact H1].
Qed.

Lemma take_idx_ss l : SSle l -> forall idxs, StronglySorted N.le idxs -> Forall (fun a => a < N.of_nat (length l)) idxs ->
  SSle (take_idx l idxs).
Proof.
  intros Hl. induction idxs as [|a idxs IH]; intros Hs Hr; cbn [take_idx map]; [constructor|].
  inversion Hs as [|? ? Hs' Hf]; subst. inversion Hr as [|? ? Ha Hr']; subst.
  constructor; [apply IH; assumption|]. apply Forall_forall. intros x Hx. apply take_idx_in in Hx. destruct Hx as (b & Hb & ->).
  rewrite Forall_forall in Hf, Hr'. specialize (Hf b Hb). specialize (Hr' b Hb).
  apply ss_nth_le; [exact Hl|lia|lia].
Qed.

Lemma take_idx_forall (Q : N -> Prop) l idxs : Forall Q l -> Forall (fun a => a < N.of_nat (length l)) idxs -> Forall Q (take_idx l idxs).
Proof.
  intros Hl Hr. apply Forall_forall. intros x Hx. apply take_idx_in in Hx. destruct Hx as (a & Ha & ->).
  rewrite Forall_forall in Hl, Hr. apply Hl. apply nth_In. specialize (Hr a Ha). lia.
Qed.

Lemma sslt_ssle l : StronglySorted N.lt l -> StronglySorted N.le l.
Proof.
  induction 1 as [|x l Hs IH Hf]; constructor; [exact IH|]. eapply Forall_impl; [|exact Hf]. cbn. intros; lia.
Qed.

Lemma ss_map_mono (f : N -> N) l : (forall x y, In x l -> In y l -> x <= y -> f x <= f y) -> SSle l -> SSle (map f l).
Proof.
  intros Hf Hs. induction Hs as [|x l Hs IH Hfa]; cbn [map]; [constructor|].
  constructor.
  - apply IH. intros a b Ha Hb. apply Hf; right; assumption.
  - apply Forall_forall. intros y Hy. apply in_map_iff in Hy. destruct Hy as (z & <- & Hz).
    rewrite Forall_forall in Hfa. apply Hf; [left; reflexivity|right; exact Hz|apply Hfa; exact Hz].
Qed.

Lemma ss_msorted_hm l : SSle l -> lt64 l -> Intersect_Correct.msorted l header_mask.
Proof.
  intros Hs H64. apply Intersect_Correct.sorted_msorted. apply StronglySorted_Sorted. unfold mvals.
  apply (ss_map_mono (fun x => N.land x header_mask)); [|exact Hs].
  intros x y Hx Hy Hxy. apply (Hd_mono x y Hxy). unfold lt64 in H64. rewrite Forall_forall in H64. apply H64. exact Hy.
Qed.

Lemma land_wmask x : x < 2^64 -> N.land x wmask = x.
Proof. intros H. change wmask with (N.ones 64). rewrite N.land_ones. apply N.mod_small. exact H. Qed.

Lemma ss_msorted_w l : SSle l -> lt64 l -> Intersect_Correct.msorted l wmask.
Proof.
  intros Hs H64. apply Intersect_Correct.sorted_msorted. apply StronglySorted_Sorted. unfold mvals.
  replace (map (fun x => N.land x wmask) l) with l; [exact Hs|].
  symmetry. rewrite <- (map_id l) at 2. apply map_ext_in. intros x Hx. apply land_wmask. unfold lt64 in H64. rewrite Forall_forall in H64. apply H64. exact Hx.
Qed.

Lemma mrg_in z l r : In z (mrg l r) <-> In z l \/ In z r.
Proof.
  pose proof (mrg_perm l r) as Hp. split.
  - intros H. apply (Permutation_in _ (Permutation_sym Hp)) in H. apply in_app_iff in H. exact H.
  - intros H. apply (Permutation_in _ Hp). apply in_app_iff. exact H.
Qed.
Lemma mrg_length l r : length (mrg l r) = (length l + length r)%nat.
Proof. rewrite <- (Permutation_length (mrg_perm l r)). apply app_length. Qed.
Lemma mrg_lt64 l r : lt64 l -> lt64 r -> lt64 (mrg l r).
Proof.
  unfold lt64. rewrite !Forall_forall. intros Hl Hr z Hz. apply mrg_in in Hz. destruct Hz; auto.
Qed.

(* ---- the pair lists of the kernel specs ---- *)
Section Pairs.
Variables (tf : N -> N) (ML MR : list N).
Let pairs := flat_map (genf tf ML MR) (enum ML).

Lemma pairs_in a b : In (a, b) pairs <->
  a < N.of_nat (length ML) /\ first_index (nth (N.to_nat a) ML 0) ML = Some a /\ first_index (tf (nth (N.to_nat a) ML 0)) MR = Some b.
Proof.
  unfold pairs. rewrite in_flat_map. split.
  - intros ([a0 v] & Hin & Hp). apply in_enum in Hin. destruct Hin as [H1 H2]. apply genf_in in Hp. destruct Hp as (-> & H3 & H4).
    subst v. repeat split; assumption.
  - intros (H1 & H2 & H3). exists (a, nth (N.to_nat a) ML 0). split; [apply in_enum; split; [exact H1|reflexivity]|].
    apply genf_in. repeat split; assumption.
Qed.

Lemma pairs_fst_sorted : StronglySorted N.lt (map fst pairs).
Proof. apply ssorted_map_fst. apply gen_sorted. Qed.

Lemma pairs_fst_range : Forall (fun a => a < N.of_nat (length ML)) (map fst pairs).
Proof.
  apply Forall_forall. intros a Ha. apply in_map_iff in Ha. destruct Ha as ([a' b] & <- & Hin). apply pairs_in in Hin. tauto.
Qed.

Lemma pairs_snd_range : Forall (fun b => b < N.of_nat (length MR)) (map snd pairs).
Proof.
  apply Forall_forall. intros b Hb. apply in_map_iff in Hb. destruct Hb as ([a b'] & <- & Hin). apply pairs_in in Hin.
  destruct Hin as (_ & _ & H). apply first_index_some in H. tauto.
Qed.

Lemma pairs_hit v : In v ML -> In (tf v) MR -> exists a b, In (a, b) pairs /\ nth (N.to_nat a) ML 0 = v.
Proof.
  intros H1 H2. destruct (first_index_ex ML v H1) as [a Ha]. destruct (first_index_ex MR (tf v) H2) as [b Hb].
  pose proof (first_index_some _ _ _ Ha) as (A1 & A2 & _).
  exists a, b. split; [|exact A2]. apply pairs_in. rewrite A2. repeat split; assumption.
Qed.

Lemma pairs_snd_val a b : In (a, b) pairs -> nth (N.to_nat b) MR 0 = tf (nth (N.to_nat a) ML 0).
Proof. intros H. apply pairs_in in H. destruct H as (_ & _ & H). apply first_index_some in H. tauto. Qed.

End Pairs.

Lemma sslt_length : forall l lo n, StronglySorted N.lt l -> Forall (fun a => lo <= a /\ a < n) l -> (length l <= N.to_nat (n - lo))%nat.
Proof.
  induction l as [|x l IH]; intros lo n Hs Hr; cbn [length]; [lia|].
  inversion Hs as [|? ? Hs' Hf]; subst. inversion Hr as [|? ? [Hx1 Hx2] Hr']; subst.
  assert (Hl : (length l <= N.to_nat (n - (x + 1)))%nat).
  { apply IH; [exact Hs'|]. apply Forall_forall. intros a Ha. rewrite Forall_forall in Hf, Hr'. specialize (Hf a Ha). specialize (Hr' a Ha). lia. }
  lia.
Qed.

Lemma sslt_len_le l n : StronglySorted N.lt l -> Forall (fun a => a < N.of_nat n) l -> (length l <= n)%nat.
Proof.
  intros Hs Hr. pose proof (sslt_length l 0 (N.of_nat n) Hs) as H. rewrite N.sub_0_r, Nat2N.id in H. apply H.
  eapply Forall_impl; [|exact Hr]. cbn. intros; lia.
Qed.

(* second components are non-decreasing when the right list is strictly increasing *)
Lemma pairs_snd_sorted tf ML MR :
  (forall a a', a <= a' -> a' < N.of_nat (length ML) -> nth (N.to_nat a) ML 0 <= nth (N.to_nat a') ML 0) ->
  (forall x y, x <= y -> tf x <= tf y) ->
  (forall b b', b < b' -> b' < N.of_nat (length MR) -> nth (N.to_nat b) MR 0 < nth (N.to_nat b') MR 0) ->
  StronglySorted N.le (map snd (flat_map (genf tf ML MR) (enum ML))).
Proof.
  intros HML Htf HMR.
  assert (Hgen : forall q, StronglySorted Intersect_Correct.asc q -> (forall a b, In (a, b) q -> In (a, b) (flat_map (genf tf ML MR) (enum ML))) ->
                 StronglySorted N.le (map snd q)).
  { induction q as [|[a b] q IH]; intros Hs Hsub; cbn [map]; [constructor|].
    inversion Hs as [|? ? Hs' Hf]; subst. constructor.
    - apply IH; [exact Hs'|]. intros a' b' H. apply Hsub. right. exact H.
    - apply Forall_forall. intros b' Hb'. apply in_map_iff in Hb'. destruct Hb' as ([a2 b2] & <- & Hin2). cbn [snd].
      rewrite Forall_forall in Hf. specialize (Hf _ Hin2). unfold Intersect_Correct.asc in Hf. cbn [fst] in Hf.
      pose proof (Hsub a b (or_introl eq_refl)) as P1. pose proof (Hsub a2 b2 (or_intror Hin2)) as P2.
      pose proof (pairs_snd_val tf ML MR _ _ P1) as V1. pose proof (pairs_snd_val tf ML MR _ _ P2) as V2.
      apply (pairs_in tf ML MR) in P1, P2. destruct P1 as (A1 & _ & F1). destruct P2 as (A2 & _ & F2).
      apply first_index_some in F1, F2. destruct F1 as (B1 & _ & _). destruct F2 as (B2 & _ & _).
      destruct (N.le_gt_cases b b2) as [Hle|Hgt]; [exact Hle|].
      specialize (HMR b2 b Hgt B1). rewrite V1, V2 in HMR.
      specialize (HML a a2 ltac:(lia) A2). specialize (Htf _ _ HML). lia. }
  apply Hgen; [apply gen_sorted|]. intros a b H. exact H.
Qed.

(* ---- posting-like lists ---- *)
Definition sm (x : N) : Prop := x + 2^18 < 2^64.
Definition PL (l : list N) : Prop := Forall wform l /\ StronglySorted N.lt (map Hd l) /\ N.of_nat (length l) < 2^50.

Lemma wform_sm w : wform w -> sm w.
Proof. intros (k & b & s & -> & Hk & Hb & Hs & _). unfold sm, word_of. pows. lia. Qed.
Lemma sm_lt64 x : sm x -> x < 2^64.
Proof. unfold sm. lia. Qed.
Lemma sm_Hd x : sm x -> sm (Hd x).
Proof. intros H. pose proof (Hd_le x (sm_lt64 x H)). unfold sm in *. lia. Qed.
Lemma Forall_sm_lt64 l : Forall sm l -> lt64 l.
Proof. intros H. eapply Forall_impl; [|exact H]. apply sm_lt64. Qed.

Lemma Hd_lt_lt x y : x < 2^64 -> y < 2^64 -> Hd x < Hd y -> x < y.
Proof.
  intros Hx Hy H. rewrite !Hd_arith in H by assumption.
  assert (x / 2^18 < y / 2^18) by nia.
  pose proof (N.div_mod x (2^18) ltac:(discriminate)). pose proof (N.mod_lt x (2^18) ltac:(discriminate)).
  pose proof (N.div_mod y (2^18) ltac:(discriminate)). nia.
Qed.

Lemma PL_sm l : PL l -> Forall sm l.
Proof. intros (H & _ & _). eapply Forall_impl; [|exact H]. apply wform_sm. Qed.

Lemma PL_ssle l : PL l -> SSle l.
Proof.
  intros HPL. pose proof (Forall_sm_lt64 l (PL_sm l HPL)) as H64. destruct HPL as (_ & Hs & _).
  induction l as [|x l IH]; [constructor|]. cbn [map] in Hs. inversion Hs as [|? ? Hs' Hf]; subst.
  inversion H64 as [|? ? Hx H64']; subst. constructor; [apply IH; assumption|].
  apply Forall_forall. intros y Hy. rewrite Forall_forall in Hf, H64'.
  assert (Hd x < Hd y) by (apply Hf; apply in_map; exact Hy). apply N.lt_le_incl. apply Hd_lt_lt; auto.
Qed.

Lemma sslt_nth_lt : forall l a b, StronglySorted N.lt l -> (a < b)%nat -> (b < length l)%nat -> nth a l 0 < nth b l 0.
Proof.
  induction l as [|x l IH]; intros a b Hs Hab Hb; cbn [length] in Hb; [lia|].
  inversion Hs as [|? ? Hs' Hf]; subst. destruct b as [|b]; [lia|]. destruct a as [|a]; cbn [nth].
  - rewrite Forall_forall in Hf. apply Hf. apply nth_In. lia.
  - apply IH; [exact Hs'|lia|lia].
Qed.

Lemma hm_ne0 : header_mask <> 0. Proof. rewrite header_mask_val. discriminate. Qed.
Lemma hm_ltW : header_mask < W64. Proof. rewrite header_mask_val. reflexivity. Qed.

Lemma mvals_Hd l : mvals l header_mask = map Hd l.
Proof. reflexivity. Qed.

Section Pair.
Variables curr nxt : list N.
Hypothesis HPc : PL curr.
Hypothesis HPn : PL nxt.

Let c64 := Forall_sm_lt64 curr (PL_sm curr HPc).
Let n64 := Forall_sm_lt64 nxt (PL_sm nxt HPn).

Lemma PL_msorted l : PL l -> Intersect_Correct.msorted l header_mask.
Proof. intros H. apply ss_msorted_hm; [apply PL_ssle; exact H|apply Forall_sm_lt64, PL_sm; exact H]. Qed.

Lemma PL_len62 l : PL l -> N.of_nat (length l) < 2^62.
Proof. intros (_ & _ & H). eapply N.lt_trans; [exact H|reflexivity]. Qed.

(* the three candidate index lists of one direction *)
Lemma idx_lists (l r : list N) (tf : N -> N) : PL l -> PL r -> (forall x y, x <= y -> tf x <= tf y) ->
  let pairs := flat_map (genf tf (map Hd l) (map Hd r)) (enum (map Hd l)) in
  SSle (take_idx l (map fst pairs)) /\ SSle (take_idx r (map snd pairs)) /\
  Forall sm (take_idx l (map fst pairs)) /\ Forall sm (take_idx r (map snd pairs)) /\
  (length (map fst pairs) <= length l)%nat /\ (length (map snd pairs) <= length l)%nat.
Proof.
  intros Hl Hr Htf pairs.
  pose proof (pairs_fst_sorted tf (map Hd l) (map Hd r)) as F1.
  pose proof (pairs_fst_range tf (map Hd l) (map Hd r)) as F2. rewrite map_length in F2.
  pose proof (pairs_snd_range tf (map Hd l) (map Hd r)) as F3. rewrite map_length in F3.
  assert (F4 : StronglySorted N.le (map snd pairs)).
  { apply pairs_snd_sorted; [| exact Htf |].
    - intros a a' Ha Ha'. rewrite map_length in Ha'. change 0 with (Hd 0) at 1 2. rewrite !map_nth.
      apply Hd_mono; [apply ss_nth_le; [apply PL_ssle; exact Hl|lia|lia]|].
      pose proof (Forall_sm_lt64 l (PL_sm l Hl)) as H64. unfold lt64 in H64. rewrite Forall_forall in H64. apply H64, nth_In. lia.
    - intros b b' Hb Hb'. rewrite map_length in Hb'. destruct Hr as (_ & Hs & _).
      apply sslt_nth_lt; [exact Hs|lia|rewrite map_length; lia]. }
  fold pairs in F1, F2, F3, F4.
  split; [apply take_idx_ss; [apply PL_ssle; exact Hl|apply sslt_ssle; exact F1|exact F2]|].
  split; [apply take_idx_ss; [apply PL_ssle; exact Hr|exact F4|exact F3]|].
  split; [apply take_idx_forall; [apply PL_sm; exact Hl|exact F2]|].
  split; [apply take_idx_forall; [apply PL_sm; exact Hr|exact F3]|].
  assert (L1 : (length (map fst pairs) <= length l)%nat) by (apply sslt_len_le; assumption).
  split; [exact L1|]. rewrite map_length in *. exact L1.
Qed.
End Pair.

Definition P_id (l r : list N) := flat_map (genf (fun v => v) (map Hd l) (map Hd r)) (enum (map Hd l)).
Definition P_adj (l r : list N) := flat_map (genf (fun v => v + 2^18) (map Hd l) (map Hd r)) (enum (map Hd l)).

Lemma drop_spec_eq l r : intersect_drop_spec l r header_mask = (map fst (P_id l r), map snd (P_id l r)).
Proof. reflexivity. Qed.
Lemma adj_spec_eq l r : adjacent_spec l r header_mask (2^18) = (map fst (P_adj l r), map snd (P_adj l r)).
Proof. reflexivity. Qed.

Lemma in_map_Hd_nth l a : (N.to_nat a < length l)%nat -> nth (N.to_nat a) (map Hd l) 0 = Hd (nth (N.to_nat a) l 0).
Proof. intros _. change 0 with (Hd 0) at 1. apply map_nth. Qed.

Lemma ia_pair_ok curr nxt : PL curr -> PL nxt ->
  exists lhs rhs, ia_pair curr nxt = AOk (lhs, rhs) /\
    SSle lhs /\ SSle rhs /\ Forall sm lhs /\ Forall sm rhs /\
    (length lhs <= 3 * (length curr + length nxt))%nat /\ (length rhs <= 3 * (length curr + length nxt))%nat /\
    (forall h, In h (map Hd curr) -> In h (map Hd nxt) \/ In (h + 2^18) (map Hd nxt) -> In h (map Hd rhs)) /\
    (forall x, In x lhs -> 2^18 <= x \/ In (Hd x) (map Hd curr)).
Proof.
  intros Hc Hn. unfold ia_pair.
  rewrite (intersect_drop_correct curr nxt header_mask (PL_msorted curr Hc) (PL_msorted nxt Hn) (PL_len62 curr Hc) (PL_len62 nxt Hn)).
  cbn [lift abind]. rewrite drop_spec_eq. cbn [fst snd].
  rewrite (adjacent_correct curr nxt header_mask (PL_msorted curr Hc) (PL_msorted nxt Hn) (PL_len62 curr Hc) (PL_len62 nxt Hn) hm_ne0 hm_ltW).
  cbn [lift abind]. rewrite lowbit_hm, adj_spec_eq. cbn [fst snd].
  rewrite !merge_model. cbn [lift abind].
  rewrite (adjacent_correct nxt curr header_mask (PL_msorted nxt Hn) (PL_msorted curr Hc) (PL_len62 nxt Hn) (PL_len62 curr Hc) hm_ne0 hm_ltW).
  cbn [lift abind]. rewrite lowbit_hm, adj_spec_eq. cbn [fst snd].
  rewrite !merge_model. cbn [lift abind].
  set (IH := map header_of (take_idx curr (map fst (P_id curr nxt)))).
  set (A1l := take_idx curr (map fst (P_adj curr nxt))). set (A1r := take_idx nxt (map snd (P_adj curr nxt))).
  set (A2l := take_idx nxt (map fst (P_adj nxt curr))). set (A2r := take_idx curr (map snd (P_adj nxt curr))).
  eexists _, _. split; [reflexivity|].
  assert (Mid : forall x y : N, x <= y -> (fun v : N => v) x <= (fun v : N => v) y) by (intros; assumption).
  assert (Madd : forall x y : N, x <= y -> (fun v : N => v + 2^18) x <= (fun v : N => v + 2^18) y) by (intros; cbn; lia).
  destruct (idx_lists curr nxt (fun v => v) Hc Hn Mid) as (I1 & _ & I3 & _ & I5 & _). fold (P_id curr nxt) in I1, I3, I5.
  destruct (idx_lists curr nxt (fun v => v + 2^18) Hc Hn Madd) as (B1 & B2 & B3 & B4 & B5 & B6). fold (P_adj curr nxt) in B1, B2, B3, B4, B5, B6.
  destruct (idx_lists nxt curr (fun v => v + 2^18) Hn Hc Madd) as (C1 & C2 & C3 & C4 & C5 & C6). fold (P_adj nxt curr) in C1, C2, C3, C4, C5, C6.
  fold A1l in B1, B3. fold A1r in B2, B4. fold A2l in C1, C3. fold A2r in C2, C4.
  assert (IHs : SSle IH).
  { unfold IH. apply ss_map_mono; [|exact I1]. intros x y Hx Hy Hxy. rewrite !header_of_Hd. apply Hd_mono; [exact Hxy|].
    rewrite Forall_forall in I3. apply sm_lt64, I3, Hy. }
  assert (IHm : Forall sm IH).
  { unfold IH. apply Forall_forall. intros z Hz. apply in_map_iff in Hz. destruct Hz as (w & <- & Hw).
    rewrite header_of_Hd. apply sm_Hd. rewrite Forall_forall in I3. apply I3, Hw. }
  assert (IHl : (length IH <= length curr)%nat) by (unfold IH; rewrite map_length; unfold take_idx; rewrite map_length; exact I5).
  assert (L1l : (length A1l <= length curr)%nat) by (unfold A1l, take_idx; rewrite map_length; exact B5).
  assert (L1r : (length A1r <= length curr)%nat) by (unfold A1r, take_idx; rewrite map_length; exact B6).
  assert (L2l : (length A2l <= length nxt)%nat) by (unfold A2l, take_idx; rewrite map_length; exact C5).
  assert (L2r : (length A2r <= length nxt)%nat) by (unfold A2r, take_idx; rewrite map_length; exact C6).
  split; [apply mrg_ssorted; [apply mrg_ssorted; assumption|assumption]|].
  split; [apply mrg_ssorted; [apply mrg_ssorted; assumption|assumption]|].
  assert (Fm : forall l r, Forall sm l -> Forall sm r -> Forall sm (mrg l r)).
  { intros l r Hl Hr. apply Forall_forall. intros z Hz. apply mrg_in in Hz. rewrite Forall_forall in Hl, Hr. destruct Hz; auto. }
  split; [apply Fm; [apply Fm|]; assumption|]. split; [apply Fm; [apply Fm|]; assumption|].
  split; [rewrite !mrg_length; lia|]. split; [rewrite !mrg_length; lia|].
  split.
  - (* the left header of a shared or adjacent pair is kept on the rhs side *)
    intros h Hh [Hsame|Hadj].
    + destruct (pairs_hit (fun v => v) (map Hd curr) (map Hd nxt) h Hh Hsame) as (a & b & Hin & Ha).
      fold (P_id curr nxt) in Hin.
      assert (Har : (N.to_nat a < length curr)%nat).
      { apply (pairs_in (fun v => v)) in Hin. destruct Hin as (Hlt & _). rewrite map_length in Hlt. lia. }
      rewrite in_map_Hd_nth in Ha by exact Har.
      apply in_map_iff. exists h. split.
      * rewrite <- Ha. apply Hd_idem. pose proof (Forall_sm_lt64 curr (PL_sm curr Hc)) as H64. unfold lt64 in H64.
        rewrite Forall_forall in H64. apply H64, nth_In, Har.
      * apply mrg_in. left. apply mrg_in. left. unfold IH. apply in_map_iff. exists (nth (N.to_nat a) curr 0).
        split; [rewrite header_of_Hd; exact Ha|]. apply take_idx_in. exists a. split; [|reflexivity].
        apply in_map_iff. exists (a, b). split; [reflexivity|exact Hin].
    + destruct (pairs_hit (fun v => v + 2^18) (map Hd curr) (map Hd nxt) h Hh Hadj) as (a & b & Hin & Ha).
      fold (P_adj curr nxt) in Hin.
      assert (Har : (N.to_nat a < length curr)%nat).
      { apply (pairs_in (fun v => v + 2^18)) in Hin. destruct Hin as (Hlt & _). rewrite map_length in Hlt. lia. }
      rewrite in_map_Hd_nth in Ha by exact Har.
      apply in_map_iff. exists (nth (N.to_nat a) curr 0). split; [exact Ha|].
      apply mrg_in. left. apply mrg_in. right. unfold A1l. apply take_idx_in. exists a. split; [|reflexivity].
      apply in_map_iff. exists (a, b). split; [reflexivity|exact Hin].
  - (* elements of the lhs side: above one unit unless they are shared headers of curr *)
    intros x Hx. apply mrg_in in Hx. destruct Hx as [Hx|Hx]; [apply mrg_in in Hx; destruct Hx as [Hx|Hx]|].
    + right. unfold IH in Hx. apply in_map_iff in Hx. destruct Hx as (w & <- & Hw). apply take_idx_in in Hw.
      destruct Hw as (a & Ha & ->). apply in_map_iff in Ha. destruct Ha as ([a' b] & <- & Hin). cbn [fst].
      apply (pairs_in (fun v => v)) in Hin. destruct Hin as (Hlt & _). rewrite map_length in Hlt.
      pose proof (Forall_sm_lt64 curr (PL_sm curr Hc)) as H64. unfold lt64 in H64. rewrite Forall_forall in H64.
      rewrite (header_of_Hd (nth (N.to_nat a') curr 0)). rewrite (Hd_idem (nth (N.to_nat a') curr 0)) by (apply H64, nth_In; lia). apply in_map. apply nth_In. lia.
    + left. unfold A1r in Hx. apply take_idx_in in Hx. destruct Hx as (b & Hb & ->). apply in_map_iff in Hb.
      destruct Hb as ([a b'] & <- & Hin). cbn [snd]. pose proof (pairs_snd_val _ _ _ _ _ Hin) as Hv.
      apply (pairs_in (fun v => v + 2^18)) in Hin. destruct Hin as (_ & _ & Hf). apply first_index_some in Hf. destruct Hf as (Hlt & _). rewrite map_length in Hlt.
      rewrite in_map_Hd_nth in Hv by lia.
      pose proof (Forall_sm_lt64 nxt (PL_sm nxt Hn)) as H64. unfold lt64 in H64. rewrite Forall_forall in H64.
      pose proof (Hd_le (nth (N.to_nat b') nxt 0) ltac:(apply H64, nth_In; lia)). lia.
    + left. unfold A2r in Hx. apply take_idx_in in Hx. destruct Hx as (b & Hb & ->). apply in_map_iff in Hb.
      destruct Hb as ([a b'] & <- & Hin). cbn [snd]. pose proof (pairs_snd_val _ _ _ _ _ Hin) as Hv.
      apply (pairs_in (fun v => v + 2^18)) in Hin. destruct Hin as (_ & _ & Hf). apply first_index_some in Hf. destruct Hf as (Hlt & _). rewrite map_length in Hlt.
      rewrite in_map_Hd_nth in Hv by lia.
      pose proof (Forall_sm_lt64 curr (PL_sm curr Hc)) as H64. unfold lt64 in H64. rewrite Forall_forall in H64.
      pose proof (Hd_le (nth (N.to_nat b') curr 0) ltac:(apply H64, nth_In; lia)). lia.
Qed.

(* ---- ia_fold ---- *)
Definition Good (curr ll lr : list N) : Prop :=
  SSle ll /\ SSle lr /\ Forall sm ll /\ Forall sm lr /\ N.of_nat (length ll) < 2^53 /\ N.of_nat (length lr) < 2^53 /\
  (forall x, In x ll -> 2^18 <= x \/ In (Hd x) (map Hd curr)).

Lemma drop_take l r : SSle l -> Forall sm l -> SSle r -> Forall sm r -> N.of_nat (length l) < 2^53 -> N.of_nat (length r) < 2^53 ->
  exists il, intersect_drop l r header_mask = Done il /\
    SSle (take_idx l (fst il)) /\ Forall sm (take_idx l (fst il)) /\ (length (take_idx l (fst il)) <= length l)%nat /\
    incl (take_idx l (fst il)) l /\
    (forall h, In h (map Hd l) -> In h (map Hd r) -> In h (map Hd (take_idx l (fst il)))).
Proof.
  intros Sl Ml Sr Mr Ll Lr.
  assert (L62 : forall n, n < 2^53 -> n < 2^62) by (intros n Hn; eapply N.lt_trans; [exact Hn|reflexivity]).
  eexists. split.
  { apply intersect_drop_correct; [apply ss_msorted_hm; [exact Sl|apply Forall_sm_lt64; exact Ml]
                                  |apply ss_msorted_hm; [exact Sr|apply Forall_sm_lt64; exact Mr]|apply L62; exact Ll|apply L62; exact Lr]. }
  rewrite drop_spec_eq. cbn [fst].
  pose proof (pairs_fst_sorted (fun v => v) (map Hd l) (map Hd r)) as F1. fold (P_id l r) in F1.
  pose proof (pairs_fst_range (fun v => v) (map Hd l) (map Hd r)) as F2. fold (P_id l r) in F2. rewrite map_length in F2.
  split; [apply take_idx_ss; [exact Sl|apply sslt_ssle; exact F1|exact F2]|].
  split; [apply take_idx_forall; [exact Ml|exact F2]|].
  split; [unfold take_idx; rewrite map_length; apply sslt_len_le; assumption|].
  split.
  - intros x Hx. apply take_idx_in in Hx. destruct Hx as (a & Ha & ->). rewrite Forall_forall in F2. specialize (F2 a Ha). apply nth_In. lia.
  - intros h H1 H2. destruct (pairs_hit (fun v => v) (map Hd l) (map Hd r) h H1 H2) as (a & b & Hin & Ha). fold (P_id l r) in Hin.
    assert (Har : (N.to_nat a < length l)%nat).
    { apply (pairs_in (fun v => v)) in Hin. destruct Hin as (Hlt & _). rewrite map_length in Hlt. lia. }
    rewrite in_map_Hd_nth in Ha by exact Har. apply in_map_iff. exists (nth (N.to_nat a) l 0). split; [exact Ha|].
    apply take_idx_in. exists a. split; [|reflexivity]. apply in_map_iff. exists (a, b). split; [reflexivity|exact Hin].
Qed.

Lemma ia_fold_ok curr : PL curr -> forall rest ll lr, Forall PL rest -> Good curr ll lr ->
  exists ll' lr', ia_fold curr rest (Some (ll, lr)) = AOk (Some (ll', lr')) /\ Good curr ll' lr' /\
    (forall h, In h (map Hd lr) -> In h (map Hd curr) ->
       (forall e, In e rest -> In h (map Hd e) \/ In (h + 2^18) (map Hd e)) -> In h (map Hd lr')).
Proof.
  intros Hc. induction rest as [|nxt more IH]; intros ll lr HF HG.
  - exists ll, lr. cbn [ia_fold]. split; [reflexivity|]. split; [exact HG|]. intros h H _ _. exact H.
  - inversion HF as [|? ? Hn HF']; subst. cbn [ia_fold].
    destruct (ia_pair_ok curr nxt Hc Hn) as (lhs & rhs & Ep & S1 & S2 & M1 & M2 & L1 & L2 & Hkeep & _).
    rewrite Ep. cbn [abind fst snd].
    destruct HG as (G1 & G2 & G3 & G4 & G5 & G6 & G7).
    assert (Lc : N.of_nat (length curr) < 2^50) by (destruct Hc as (_ & _ & H); exact H).
    assert (Ln : N.of_nat (length nxt) < 2^50) by (destruct Hn as (_ & _ & H); exact H).
    assert (Ll : N.of_nat (length lhs) < 2^53) by (change (2^53) with 9007199254740992; change (2^50) with 1125899906842624 in *; lia).
    assert (Lr : N.of_nat (length rhs) < 2^53) by (change (2^53) with 9007199254740992; change (2^50) with 1125899906842624 in *; lia).
    destruct (drop_take ll lhs G1 G3 S1 M1 G5 Ll) as (il & Eil & A1 & A2 & A3 & A4 & _).
    destruct (drop_take lr rhs G2 G4 S2 M2 G6 Lr) as (ir & Eir & B1 & B2 & B3 & _ & B5).
    rewrite Eil, Eir. cbn [lift abind].
    destruct (IH (take_idx ll (fst il)) (take_idx lr (fst ir)) HF') as (ll' & lr' & E & HG' & Hk').
    { repeat split; try assumption; try lia. intros x Hx. apply G7. apply A4. exact Hx. }
    exists ll', lr'. split; [exact E|]. split; [exact HG'|].
    intros h H1 H2 H3. apply Hk'; [|exact H2|intros e He; apply H3; right; exact He].
    apply B5; [exact H1|]. apply Hkeep; [exact H2|]. apply H3. left. reflexivity.
Qed.

Lemma ia_fold_top curr nxt more : PL curr -> Forall PL (nxt :: more) ->
  exists ll lr, ia_fold curr (nxt :: more) None = AOk (Some (ll, lr)) /\ Good curr ll lr /\
    (forall h, In h (map Hd curr) -> (forall e, In e (nxt :: more) -> In h (map Hd e) \/ In (h + 2^18) (map Hd e)) -> In h (map Hd lr)).
Proof.
  intros Hc HF. inversion HF as [|? ? Hn HF']; subst. cbn [ia_fold].
  destruct (ia_pair_ok curr nxt Hc Hn) as (lhs & rhs & Ep & S1 & S2 & M1 & M2 & L1 & L2 & Hkeep & Hlow).
  rewrite Ep. cbn [abind].
  assert (Lc : N.of_nat (length curr) < 2^50) by (destruct Hc as (_ & _ & H); exact H).
  assert (Ln : N.of_nat (length nxt) < 2^50) by (destruct Hn as (_ & _ & H); exact H).
  destruct (ia_fold_ok curr Hc more lhs rhs HF') as (ll & lr & E & HG & Hk).
  { repeat split; try assumption; change (2^53) with 9007199254740992; change (2^50) with 1125899906842624 in *; lia. }
  exists ll, lr. split; [exact E|]. split; [exact HG|].
  intros h H1 H2. apply Hk; [|exact H1|intros e He; apply H2; right; exact He].
  apply Hkeep; [exact H1|]. apply H2. left. reflexivity.
Qed.

(* ---- the candidate headers and the slices ---- *)
Lemma mrgd_ssle : forall l r, SSle l -> SSle r -> SSle (mrgd l r).
Proof.
  unfold SSle. induction l as [|x l IHl]; intros r Hl Hr; [rewrite mrgd_nil_l; exact Hr|].
  induction r as [|y r IHr]; [rewrite mrgd_nil_r; exact Hl|].
  rewrite mrgd_cons. inversion Hl as [|? ? Hl1 Hl2]; inversion Hr as [|? ? Hr1 Hr2]; subst.
  rewrite Forall_forall in Hl2, Hr2.
  destruct (N.ltb_spec x y); [|destruct (N.ltb_spec y x)].
  - constructor; [apply IHl; assumption|].
    apply Forall_forall. intros z Hz. rewrite mrgd_In in Hz. destruct Hz as [Hz|[Hz|Hz]].
    + apply Hl2; assumption. + subst; lia. + apply Hr2 in Hz. lia.
  - constructor; [apply IHr; assumption|].
    apply Forall_forall. intros z Hz. rewrite mrgd_In in Hz. destruct Hz as [[Hz|Hz]|Hz].
    + subst; lia. + apply Hl2 in Hz. lia. + apply Hr2; assumption.
  - assert (x = y) by lia. subst y.
    constructor; [apply IHl; assumption|].
    apply Forall_forall. intros z Hz. rewrite mrgd_In in Hz. destruct Hz as [Hz|Hz]; auto.
Qed.

Lemma mrgd_length : forall l r, (length (mrgd l r) <= length l + length r)%nat.
Proof.
  induction l as [|x l IHl]; intros r; [rewrite mrgd_nil_l; cbn; lia|].
  induction r as [|y r IHr]; [rewrite mrgd_nil_r; cbn; lia|].
  rewrite mrgd_cons. destruct (x <? y); [|destruct (y <? x)]; cbn [length].
  - specialize (IHl (y :: r)). cbn [length] in IHl. lia.
  - cbn [length] in IHr. lia.
  - specialize (IHl r). lia.
Qed.

Lemma wadd_unit x : sm x -> wadd x hdr_unit = x + 2^18.
Proof. intros H. unfold wadd. rewrite hdr_unit_val. apply N.mod_small. exact H. Qed.
Lemma wsub_unit x : 2^18 <= x -> x < 2^64 -> wsub x hdr_unit = x - 2^18.
Proof.
  intros H1 H2. unfold wsub. rewrite hdr_unit_val. change W64 with (2^64). rewrite (N.mod_small (2^18)) by reflexivity.
  replace (x + 2^64 - 2^18) with ((x - 2^18) + 1 * 2^64) by lia. rewrite N.mod_add by discriminate. apply N.mod_small. lia.
Qed.

Lemma filter_len_le {A} (f : A -> bool) l : (length (filter f l) <= length l)%nat.
Proof. induction l as [|x l IH]; cbn [filter length]; [lia|]. destruct (f x); cbn [length]; lia. Qed.
Lemma ssle_filter (f : N -> bool) l : SSle l -> SSle (filter f l).
Proof.
  unfold SSle. induction 1 as [|x l Hs IH Hf]; cbn [filter]; [constructor|]. destruct (f x); [|exact IH].
  constructor; [exact IH|]. apply Forall_forall. intros y Hy. apply filter_In in Hy. rewrite Forall_forall in Hf. apply Hf. tauto.
Qed.

Lemma headers_ok curr ll lr : Good curr ll lr ->
  let m3 := mrgd lr (mrgd ll (mrgd (map (fun h => wadd h hdr_unit) lr)
                                    (map (fun h => wsub h hdr_unit) (filter (fun h => hdr_unit <=? h) ll)))) in
  let hs := map (fun h => N.land h header_mask) m3 in
  SSle hs /\ lt64 hs /\ N.of_nat (length hs) < 2^56 /\
  (forall h, In h (map Hd lr) -> In h hs /\ In (h + 2^18) hs).
Proof.
  intros (G1 & G2 & G3 & G4 & G5 & G6 & _) m3 hs.
  set (llf := filter (fun h => hdr_unit <=? h) ll) in *.
  assert (Hlow : forall x, In x llf -> 2^18 <= x).
  { intros x Hx. apply filter_In in Hx. destruct Hx as [_ Hx]. apply N.leb_le in Hx. rewrite hdr_unit_val in Hx. exact Hx. }
  assert (G1f : SSle llf) by (apply ssle_filter; exact G1).
  assert (G3f : Forall sm llf).
  { apply Forall_forall. intros x Hx. apply filter_In in Hx. rewrite Forall_forall in G3. apply G3. tauto. }
  set (to_rhs := map (fun h => wadd h hdr_unit) lr) in *. set (to_lhs := map (fun h => wsub h hdr_unit) llf) in *.
  assert (Er : to_rhs = map (fun h => h + 2^18) lr).
  { unfold to_rhs. apply map_ext_in. intros x Hx. apply wadd_unit. rewrite Forall_forall in G4. apply G4, Hx. }
  assert (El : to_lhs = map (fun h => h - 2^18) llf).
  { unfold to_lhs. apply map_ext_in. intros x Hx. apply wsub_unit; [apply Hlow, Hx|]. rewrite Forall_forall in G3f. apply sm_lt64, G3f, Hx. }
  assert (Sr : SSle to_rhs) by (rewrite Er; apply ss_map_mono; [intros; lia|exact G2]).
  assert (Sl : SSle to_lhs).
  { rewrite El. apply ss_map_mono; [|exact G1f]. intros x y Hx Hy Hxy. pose proof (Hlow x Hx). pose proof (Hlow y Hy). lia. }
  assert (R64 : lt64 to_rhs).
  { rewrite Er. apply Forall_forall. intros z Hz. apply in_map_iff in Hz. destruct Hz as (x & Ez & Hx). rewrite Forall_forall in G4.
    specialize (G4 x Hx). unfold sm in G4. subst z. exact G4. }
  assert (L64 : lt64 to_lhs).
  { rewrite El. apply Forall_forall. intros z Hz. apply in_map_iff in Hz. destruct Hz as (x & Ez & Hx). rewrite Forall_forall in G3f.
    pose proof (sm_lt64 x (G3f x Hx)). subst z. lia. }
  assert (M64 : forall l r, lt64 l -> lt64 r -> lt64 (mrgd l r)).
  { intros l r Hl Hr. apply Forall_forall. intros z Hz. apply mrgd_In in Hz. unfold lt64 in *. rewrite Forall_forall in Hl, Hr. destruct Hz; auto. }
  assert (S3 : SSle m3) by (unfold m3; repeat apply mrgd_ssle; assumption).
  assert (T64 : lt64 m3) by (unfold m3; repeat apply M64; try assumption; apply Forall_sm_lt64; assumption).
  assert (Len : (length m3 <= 2 * length lr + 2 * length ll)%nat).
  { unfold m3. pose proof (mrgd_length lr (mrgd ll (mrgd to_rhs to_lhs))). pose proof (mrgd_length ll (mrgd to_rhs to_lhs)).
    pose proof (mrgd_length to_rhs to_lhs). pose proof (filter_len_le (fun h => hdr_unit <=? h) ll). unfold to_rhs, to_lhs, llf in *. rewrite !map_length in *. lia. }
  split.
  { unfold hs. apply (ss_map_mono (fun h => N.land h header_mask)); [|exact S3]. intros x y Hx Hy Hxy. apply (Hd_mono x y Hxy).
    unfold lt64 in T64. rewrite Forall_forall in T64. apply T64, Hy. }
  split.
  { unfold hs. apply Forall_forall. intros z Hz. apply in_map_iff in Hz. destruct Hz as (x & <- & Hx).
    unfold lt64 in T64. rewrite Forall_forall in T64. pose proof (Hd_le x (T64 x Hx)). specialize (T64 x Hx). unfold Hd in *. lia. }
  split.
  { unfold hs. rewrite map_length. change (2^56) with 72057594037927936. change (2^53) with 9007199254740992 in *. lia. }
  intros h Hh. apply in_map_iff in Hh. destruct Hh as (x & <- & Hx). split.
  - unfold hs. apply (in_map (fun h => N.land h header_mask)). unfold m3. apply mrgd_In. left. exact Hx.
  - rewrite Forall_forall in G4. rewrite <- (Hd_add_unit x (G4 x Hx)).
    unfold hs. apply (in_map (fun h => N.land h header_mask)). unfold m3. apply mrgd_In. right. apply mrgd_In. right. apply mrgd_In. left.
    rewrite Er. apply (in_map (fun h => h + 2^18)). exact Hx.
Qed.

Lemma mvals_wmask_id l : lt64 l -> mvals l wmask = l.
Proof.
  intros H. unfold mvals. rewrite <- (map_id l) at 2. apply map_ext_in. intros x Hx. apply land_wmask.
  unfold lt64 in H. rewrite Forall_forall in H. apply H, Hx.
Qed.

Lemma PL_hdr_ss e : PL e -> SSle (map header_of e) /\ lt64 (map header_of e).
Proof.
  intros HP. pose proof (Forall_sm_lt64 e (PL_sm e HP)) as H64. split.
  - replace (map header_of e) with (map Hd e) by (apply map_ext; intros; symmetry; apply header_of_Hd).
    apply sslt_ssle. destruct HP as (_ & H & _). exact H.
  - apply Forall_forall. intros z Hz. apply in_map_iff in Hz. destruct Hz as (w & <- & Hw). unfold lt64 in H64. rewrite Forall_forall in H64.
    rewrite (header_of_Hd w). pose proof (Hd_le w (H64 w Hw)). specialize (H64 w Hw). lia.
Qed.

Lemma slice_ok e hs : PL e -> SSle hs -> lt64 hs -> N.of_nat (length hs) < 2^62 ->
  exists idxs, slice_header e hs = Done (take_idx e idxs) /\ StronglySorted N.lt idxs /\
    Forall (fun a => a < N.of_nat (length e)) idxs /\
    (forall a, a < N.of_nat (length e) -> In (Hd (nth (N.to_nat a) e 0)) hs -> In a idxs).
Proof.
  intros HP Hs H64 Hlen. destruct (PL_hdr_ss e HP) as [Se S64].
  unfold slice_header.
  rewrite (intersect_keep_correct hs (map header_of e) wmask).
  2:{ apply ss_msorted_w; assumption. } 2:{ apply ss_msorted_w; assumption. } 2:{ exact Hlen. }
  2:{ rewrite map_length. apply PL_len62. exact HP. }
  cbn [bind]. unfold intersect_keep_spec. cbn [snd].
  rewrite (mvals_wmask_id hs H64), (mvals_wmask_id (map header_of e) S64).
  eexists. split; [reflexivity|]. split; [apply filt_sorted|].
  split.
  - apply Forall_forall. intros a Ha. apply (filt_in (fun v => mem_n v hs)) in Ha. destruct Ha as [Ha _]. rewrite map_length in Ha. exact Ha.
  - intros a Ha Hin. apply (filt_in (fun v => mem_n v hs)). rewrite map_length. split; [exact Ha|].
    unfold mem_n. apply existsb_exists. exists (Hd (nth (N.to_nat a) e 0)). split; [exact Hin|].
    apply N.eqb_eq. change 0 with (header_of 0) at 1. rewrite map_nth. apply header_of_Hd.
Qed.

Definition kept_spec (curr : list N) (rest : list (list N)) (e s : list N) : Prop :=
  exists idxs, s = take_idx e idxs /\ StronglySorted N.lt idxs /\ Forall (fun a => a < N.of_nat (length e)) idxs /\
    (forall a h, a < N.of_nat (length e) ->
       (Hd (nth (N.to_nat a) e 0) = h \/ Hd (nth (N.to_nat a) e 0) = h + 2^18) ->
       In h (map Hd curr) -> (forall e', In e' rest -> In h (map Hd e') \/ In (h + 2^18) (map Hd e')) -> In a idxs).

Lemma slice_all_ok hs : SSle hs -> lt64 hs -> N.of_nat (length hs) < 2^62 -> forall encs, Forall PL encs ->
  exists sl, slice_all_headers encs hs = AOk sl /\
    Forall2 (fun e s => exists idxs, s = take_idx e idxs /\ StronglySorted N.lt idxs /\ Forall (fun a => a < N.of_nat (length e)) idxs /\
                         (forall a, a < N.of_nat (length e) -> In (Hd (nth (N.to_nat a) e 0)) hs -> In a idxs)) encs sl.
Proof.
  intros Hs H64 Hl. induction encs as [|e rest IH]; intros HF.
  - exists []. split; [reflexivity|constructor].
  - inversion HF as [|? ? He HF']; subst. destruct (slice_ok e hs He Hs H64 Hl) as (idxs & E & I1 & I2 & I3).
    destruct (IH HF') as (sl & Esl & F2). exists (take_idx e idxs :: sl). cbn [slice_all_headers]. rewrite E. cbn [lift abind]. rewrite Esl. cbn [abind].
    split; [reflexivity|]. constructor; [|exact F2]. exists idxs. repeat split; assumption.
Qed.

Lemma F2_impl {A B} (P Q : A -> B -> Prop) l1 l2 : (forall a b, P a b -> Q a b) -> Forall2 P l1 l2 -> Forall2 Q l1 l2.
Proof. intros H F. induction F; constructor; auto. Qed.

(* ---------- T3: _intersect_all keeps the left bucket of every shared/adjacent alignment, and its right neighbour ---------- *)
Theorem intersect_all_keeps curr nxt more : Forall PL (curr :: nxt :: more) ->
  exists sl, intersect_all (curr :: nxt :: more) = AOk (concat sl, cum 0 sl) /\
    Forall2 (kept_spec curr (nxt :: more)) (curr :: nxt :: more) sl.
Proof.
  intros HF. inversion HF as [|? ? Hc HF']; subst.
  destruct (ia_fold_top curr nxt more Hc HF') as (ll & lr & Efold & HG & Hkeep).
  unfold intersect_all. rewrite Efold. cbn [abind]. cbv zeta.
  rewrite merge_drop_model. cbn [lift abind]. rewrite merge_drop_model. cbn [lift abind]. rewrite merge_drop_model. cbn [lift abind].
  destruct (headers_ok curr ll lr HG) as (Hs & H64 & Hlen & Hin). cbv zeta in Hs, H64, Hlen, Hin. cbv zeta.
  set (hs := map (fun h => N.land h header_mask) _) in *.
  assert (Hlen62 : N.of_nat (length hs) < 2^62) by (eapply N.lt_trans; [exact Hlen|reflexivity]).
  destruct (slice_all_ok hs Hs H64 Hlen62 (curr :: nxt :: more) HF) as (sl & Esl & F2).
  rewrite Esl. cbn [abind]. exists sl. split.
  - f_equal. f_equal. apply (fold_cum sl [] 0).
  - eapply F2_impl; [|exact F2]. intros e s (idxs & E1 & E2 & E3 & E4). exists idxs. repeat split; try assumption.
    intros a h Ha Hh Hc' Hall. apply E4; [exact Ha|].
    pose proof (Hin h (Hkeep h Hc' Hall)) as [K1 K2]. destruct Hh as [-> | ->]; assumption.
Qed.



(* ---------- L4: what the words of a correct index say about the documents ---------- *)
Lemma ctz_pos_spec : forall p,
  N.testbit (Npos p) (ctz_pos p) = true /\ (forall k, k < ctz_pos p -> N.testbit (Npos p) k = false) /\
  (forall k, N.testbit (N.land (Npos p) (Pos.pred_N p)) k = andb (N.testbit (Npos p) k) (negb (k =? ctz_pos p))).
Proof.
  induction p as [p IH|p IH|].
  - cbn [ctz_pos]. split; [reflexivity|]. split; [intros k Hk; lia|].
    intros k. change (Pos.pred_N p~1) with (Npos p~0).
    replace (N.land (Npos p~1) (Npos p~0)) with (Npos p~0).
    2:{ change (N.land (Npos p~1) (Npos p~0)) with (Pos.Ndouble (N.land (Npos p) (Npos p))). rewrite N.land_diag. reflexivity. }
    destruct (N.eqb_spec k 0) as [->|Hk]; cbn [negb]; [reflexivity|].
    rewrite andb_true_r. replace k with (N.succ (N.pred k)) by lia.
    change (Npos p~0) with (2 * Npos p). change (Npos p~1) with (2 * Npos p + 1).
    rewrite N.testbit_even_succ, N.testbit_odd_succ by lia. reflexivity.
  - destruct IH as (I1 & I2 & I3). cbn [ctz_pos]. change (Npos p~0) with (2 * Npos p).
    split; [rewrite N.testbit_even_succ by lia; exact I1|]. split.
    + intros k Hk. destruct (N.eq_dec k 0) as [->|Hk0]; [apply N.testbit_even_0|].
      replace k with (N.succ (N.pred k)) by lia. rewrite N.testbit_even_succ by lia. apply I2. lia.
    + intros k.
      replace (N.land (2 * Npos p) (Pos.pred_N p~0)) with (2 * N.land (Npos p) (Pos.pred_N p)).
      2:{ change (Pos.pred_N p~0) with (Npos (Pos.pred_double p)).
          change (N.land (2 * Npos p) (Npos (Pos.pred_double p))) with (Pos.land p~0 (Pos.pred_double p)).
          replace (Pos.land p~0 (Pos.pred_double p)) with (Pos.Ndouble (N.land (Npos p) (Pos.pred_N p))) by (destruct p; reflexivity).
          destruct (N.land (N.pos p) (Pos.pred_N p)); reflexivity. }
      destruct (N.eq_dec k 0) as [->|Hk0].
      * rewrite !N.testbit_even_0. reflexivity.
      * replace k with (N.succ (N.pred k)) by lia. rewrite !N.testbit_even_succ by lia. rewrite I3.
        f_equal. f_equal. destruct (N.eqb_spec (N.pred k) (ctz_pos p)), (N.eqb_spec (N.succ (N.pred k)) (N.succ (ctz_pos p))); try reflexivity; lia.
  - cbn [ctz_pos]. split; [reflexivity|]. split; [intros k Hk; lia|].
    intros k. cbn [Pos.pred_N]. rewrite N.land_0_r, N.bits_0.
    destruct (N.eqb_spec k 0) as [->|Hk]; cbn [negb]; [reflexivity|].
    rewrite andb_true_r. symmetry. apply (N.bits_above_log2 1 k). cbn. lia.
Qed.

Lemma bits_of_spec : forall fuel x, (N.to_nat (popcount x) <= fuel)%nat ->
  (forall b, In b (bits_of fuel x) <-> N.testbit x b = true) /\ StronglySorted N.lt (bits_of fuel x).
Proof.
  induction fuel as [|f IH]; intros x Hf.
  - assert (x = 0). { destruct x as [|p]; [reflexivity|]. pose proof (pop_clear' (Npos p) ltac:(discriminate)). lia. }
    subst x. cbn [bits_of]. split; [|constructor]. intros b. rewrite N.bits_0. split; [intros []|discriminate].
  - cbn [bits_of]. destruct (N.eqb_spec x 0) as [->|Hne].
    + split; [|constructor]. intros b. rewrite N.bits_0. split; [intros []|discriminate].
    + pose proof (pop_clear' x Hne) as Hpc. destruct x as [|p]; [congruence|].
      destruct (ctz_pos_spec p) as (C1 & C2 & C3).
      assert (Eland : N.land (Npos p) (Npos p - 1) = N.land (Npos p) (Pos.pred_N p)) by (rewrite N.sub_1_r, <- N.pos_pred_spec; reflexivity).
      destruct (IH (N.land (Npos p) (Npos p - 1)) ltac:(lia)) as [I1 I2].
      cbn [ctz]. split.
      * intros b. cbn [In]. rewrite I1, Eland, C3. split.
        -- intros [<-|H]; [exact C1|]. apply andb_true_iff in H. tauto.
        -- intros H. destruct (N.eqb_spec b (ctz_pos p)) as [->|Hb]; [left; reflexivity|right]. rewrite H. reflexivity.
      * constructor; [exact I2|]. apply Forall_forall. intros b Hb. apply I1 in Hb. rewrite Eland, C3 in Hb.
        apply andb_true_iff in Hb. destruct Hb as [Hb1 Hb2]. apply negb_true_iff, N.eqb_neq in Hb2.
        destruct (N.lt_trichotomy b (ctz_pos p)) as [Hlt|[E|Hgt]]; [|congruence|exact Hgt].
        rewrite (C2 b Hlt) in Hb1. discriminate.
Qed.

Lemma bits18_in b : In b bits18 <-> b < 18.
Proof.
  split; [apply bits18_lt|]. intros H. unfold bits18. apply in_map_iff. exists (N.to_nat b). split; [lia|]. apply in_seq. lia.
Qed.

Lemma wpay_bit w b : N.testbit (wpay w) b = andb (N.testbit w b) (b <? 18).
Proof.
  unfold wpay. replace (wnot header_mask) with (N.ones 18) by (vm_compute; reflexivity).
  rewrite N.land_spec, ones_bit. reflexivity.
Qed.

Lemma wbase_msb w : wbase w = dec_msb w * lsb_bits.
Proof. reflexivity. Qed.

Lemma wcs_in w c : In c (wcs w) <-> exists b, b < 18 /\ N.testbit w b = true /\ c = b + wbase w.
Proof.
  unfold wcs. rewrite in_map_iff. pose proof (wpay_pc w) as Hpc.
  destruct (bits_of_spec 70 (wpay w) ltac:(lia)) as [Hin _]. split.
  - intros (b & <- & Hb). apply Hin in Hb. rewrite wpay_bit in Hb. apply andb_true_iff in Hb. destruct Hb as [Hb1 Hb2].
    apply N.ltb_lt in Hb2. exists b. repeat split; assumption.
  - intros (b & Hb & Ht & ->). exists b. split; [reflexivity|]. apply Hin. rewrite wpay_bit, Ht. apply N.ltb_lt in Hb. rewrite Hb. reflexivity.
Qed.

Lemma wcs_rows w c : In c (wcs w) <-> In (dkey w, c) (word_rows w).
Proof.
  rewrite wcs_in. unfold word_rows. rewrite in_map_iff. split.
  - intros (b & Hb & Ht & ->). exists b. split; [rewrite wbase_msb; reflexivity|].
    apply filter_In. split; [apply bits18_in; exact Hb|]. rewrite land_bit_test. exact Ht.
  - intros (b & E & Hb). apply filter_In in Hb. destruct Hb as [Hb1 Hb2]. rewrite land_bit_test in Hb2.
    apply bits18_in in Hb1. injection E as E. exists b. repeat split; try assumption. rewrite wbase_msb. symmetry. exact E.
Qed.

(* positions of a term in a document *)
Lemma offsets_spec t : forall d j q, In q (offsets_from j t d) <-> j <= q /\ nth_error d (N.to_nat (q - j)) = Some t.
Proof.
  induction d as [|x d IH]; intros j q; cbn [offsets_from].
  - split; [intros []|]. intros [_ H]. destruct (N.to_nat (q - j)); discriminate.
  - destruct (N.eqb_spec x t) as [->|Hne].
    + cbn [In]. rewrite IH. split.
      * intros [<-|[H1 H2]].
        -- split; [lia|]. replace (N.to_nat (j - j)) with O by lia. reflexivity.
        -- split; [lia|]. replace (N.to_nat (q - j)) with (S (N.to_nat (q - (j + 1)))) by lia. exact H2.
      * intros [H1 H2]. destruct (N.eq_dec q j) as [->|Hq]; [left; reflexivity|right].
        split; [lia|]. replace (N.to_nat (q - j)) with (S (N.to_nat (q - (j + 1)))) in H2 by lia. exact H2.
    + rewrite IH. split.
      * intros [H1 H2]. split; [lia|]. replace (N.to_nat (q - j)) with (S (N.to_nat (q - (j + 1)))) by lia. exact H2.
      * intros [H1 H2]. destruct (N.eq_dec q j) as [->|Hq].
        -- replace (N.to_nat (j - j)) with O in H2 by lia. cbn in H2. congruence.
        -- split; [lia|]. replace (N.to_nat (q - j)) with (S (N.to_nat (q - (j + 1)))) in H2 by lia. exact H2.
Qed.

Lemma tp_from_spec t : forall docs i k q, In (k, q) (tp_from i docs t) <->
  i <= k /\ nth_error (nth (N.to_nat (k - i)) docs []) (N.to_nat q) = Some t /\ (N.to_nat (k - i) < length docs)%nat.
Proof.
  induction docs as [|d r IH]; intros i k q; cbn [tp_from].
  - split; [intros []|]. intros (_ & _ & H). cbn in H. lia.
  - rewrite in_app_iff, in_map_iff, IH. split.
    + intros [(p & E & Hp)|(H1 & H2 & H3)].
      * injection E as <- <-. apply offsets_spec in Hp. destruct Hp as [_ Hp]. rewrite N.sub_0_r in Hp.
        split; [lia|]. replace (N.to_nat (i - i)) with O by lia. cbn [nth length]. split; [exact Hp|lia].
      * split; [lia|]. replace (N.to_nat (k - i)) with (S (N.to_nat (k - (i + 1)))) by lia. cbn [nth length]. split; [exact H2|lia].
    + intros (H1 & H2 & H3). destruct (N.eq_dec k i) as [->|Hk].
      * left. exists q. split; [reflexivity|]. apply offsets_spec. split; [lia|]. rewrite N.sub_0_r.
        replace (N.to_nat (i - i)) with O in H2 by lia. exact H2.
      * right. replace (N.to_nat (k - i)) with (S (N.to_nat (k - (i + 1)))) in H2, H3 by lia. cbn [nth length] in H2, H3.
        split; [lia|]. split; [exact H2|lia].
Qed.

(* an exact occurrence: a start offset *)
Lemma prefix_eqb_spec : forall ph d, prefix_eqb ph d = true -> forall k, (k < length ph)%nat -> nth_error d k = Some (nth k ph 0).
Proof.
  induction ph as [|x ph IH]; intros d H k Hk; [cbn in Hk; lia|].
  destruct d as [|y d]; cbn [prefix_eqb] in H; [discriminate|]. apply andb_true_iff in H. destruct H as [H1 H2].
  apply N.eqb_eq in H1. subst y. destruct k as [|k]; [reflexivity|]. cbn [nth_error nth]. apply IH; [exact H2|cbn [length] in Hk; lia].
Qed.

Lemma occ_pos : forall ph d, occ ph d > 0 -> exists p, forall k, (k < length ph)%nat -> nth_error d (p + k) = Some (nth k ph 0).
Proof.
  induction d as [|x d IH]; intros H; cbn [occ] in H; [lia|].
  destruct (prefix_eqb ph (x :: d)) eqn:E.
  - exists O. intros k Hk. cbn [Nat.add]. apply prefix_eqb_spec; assumption.
  - destruct IH as (p & Hp); [lia|]. exists (S p). intros k Hk. cbn [Nat.add nth_error]. apply Hp. exact Hk.
Qed.

(* ---- words of the form word_of k b s ---- *)
Lemma dkey_word k b s : k < 2^28 -> b < 2^18 -> s < 2^18 -> dkey (word_of k b s) = k.
Proof. intros. apply (dec_key_word k b s); assumption. Qed.
Lemma wbase_word k b s : b < 2^18 -> s < 2^18 -> wbase (word_of k b s) = b * 18.
Proof. intros Hb Hs. rewrite wbase_msb, dec_msb_word by assumption. reflexivity. Qed.

Lemma wform_b w k b s : w = word_of k b s -> b * 18 < 2^18 -> b < 2^18.
Proof. intros _ H. lia. Qed.

Lemma wcs_word k b s c : k < 2^28 -> b * 18 < 2^18 -> s < 2^18 ->
  (In c (wcs (word_of k b s)) <-> exists bit, bit < 18 /\ N.testbit s bit = true /\ c = bit + b * 18).
Proof.
  intros Hk Hb Hs. assert (Hb' : b < 2^18) by lia. rewrite wcs_in, wbase_word by assumption. split.
  - intros (bit & H1 & H2 & H3). exists bit. repeat split; try assumption.
    rewrite <- (lsb_of_word k b s Hs). rewrite N.land_spec, H2. change 262143 with (N.ones 18). rewrite ones_bit.
    apply N.ltb_lt in H1. rewrite H1. reflexivity.
  - intros (bit & H1 & H2 & H3). exists bit. repeat split; try assumption.
    rewrite <- (lsb_of_word k b s Hs) in H2. rewrite N.land_spec in H2. apply andb_true_iff in H2. tauto.
Qed.

Lemma wcs_sorted w : StronglySorted N.lt (wcs w).
Proof.
  unfold wcs. pose proof (wpay_pc w) as Hpc. destruct (bits_of_spec 70 (wpay w) ltac:(lia)) as [_ Hs].
  induction Hs as [|x l Hs IH Hf]; cbn [map]; [constructor|]. constructor; [exact IH|].
  apply Forall_forall. intros y Hy. apply in_map_iff in Hy. destruct Hy as (z & <- & Hz). rewrite Forall_forall in Hf. specialize (Hf z Hz). lia.
Qed.

(* ---- lengths ---- *)
Lemma enc_aux_len : forall ps cur, (length (encode_aux cur ps) <= length ps + match cur with Some _ => 1 | None => 0 end)%nat.
Proof.
  induction ps as [|[k p] rest IH]; intros cur; cbn [encode_aux length].
  - destruct cur as [[[k0 b0] s0]|]; cbn; lia.
  - destruct cur as [[[k0 b0] s0]|].
    + destruct ((k =? k0) && (p / 18 =? b0)).
      * pose proof (IH (Some (k0, b0, N.lor s0 (onehot p)))) as H. cbv beta iota in H. lia.
      * cbn [length]. pose proof (IH (Some (k, p / 18, onehot p))) as H. cbv beta iota in H. lia.
    + pose proof (IH (Some (k, p / 18, onehot p))) as H. cbv beta iota in H. lia.
Qed.
Lemma enc_len ps : (length (encode_spec ps) <= length ps)%nat.
Proof. unfold encode_spec. pose proof (enc_aux_len ps None) as H. cbv beta iota in H. lia. Qed.

Lemma concat_len_bound c : forall docs : list (list N), Forall (fun d => N.of_nat (length d) <= c) docs ->
  N.of_nat (length (concat docs)) <= c * N.of_nat (length docs).
Proof.
  induction docs as [|d r IH]; intros HF; cbn [concat length]; [lia|]. inversion HF; subst. rewrite app_length. specialize (IH H2). lia.
Qed.

Lemma posting_PL docs t : wf_docs docs -> PL (encode_spec (tp_from 0 docs t)).
Proof.
  intros Hwf. destruct (tp_wf docs Hwf t) as [Hs Hb]. split; [apply enc_wform; assumption|]. split.
  - destruct (encode_canonical _ Hs Hb) as [H _].
    replace (map Hd (encode_spec (tp_from 0 docs t))) with (map header_of (encode_spec (tp_from 0 docs t))); [exact H|].
    apply map_ext. intros. apply header_of_Hd.
  - pose proof (enc_len (tp_from 0 docs t)). pose proof (tp_length_le t docs 0). destruct Hwf as [W1 W2].
    pose proof (concat_len_bound 262143 docs W1). change (2^50) with 1125899906842624. change (2^28) with 268435456 in W2. nia.
Qed.

(* ---- what a posting word says about the documents, and back ---- *)
Lemma posting_pos docs t w c : wf_docs docs -> In w (encode_spec (tp_from 0 docs t)) -> In c (wcs w) ->
  nth_error (nth (N.to_nat (dkey w)) docs []) (N.to_nat c) = Some t /\ (N.to_nat (dkey w) < length docs)%nat.
Proof.
  intros Hwf Hw Hc. destruct (tp_wf docs Hwf t) as [Hs Hb].
  apply wcs_rows in Hc.
  assert (Hin : In (dkey w, c) (tp_from 0 docs t)).
  { rewrite <- (rows_encode_spec _ Hs Hb). apply in_flat_map. exists w. split; assumption. }
  apply tp_from_spec in Hin. destruct Hin as (_ & H1 & H2). rewrite N.sub_0_r in H1, H2. split; assumption.
Qed.

Lemma posting_has docs t dd q : wf_docs docs -> (dd < length docs)%nat -> nth_error (nth dd docs []) q = Some t ->
  exists w, In w (encode_spec (tp_from 0 docs t)) /\ dkey w = N.of_nat dd /\ In (N.of_nat q) (wcs w).
Proof.
  intros Hwf Hd Hq. destruct (tp_wf docs Hwf t) as [Hs Hb].
  assert (Hin : In (N.of_nat dd, N.of_nat q) (tp_from 0 docs t)).
  { apply tp_from_spec. rewrite N.sub_0_r, !Nat2N.id. split; [lia|]. split; assumption. }
  rewrite <- (rows_encode_spec _ Hs Hb) in Hin. apply in_flat_map in Hin. destruct Hin as (w & Hw & Hrow).
  exists w. split; [exact Hw|].
  assert (Hk : dkey w = N.of_nat dd).
  { unfold word_rows in Hrow. apply in_map_iff in Hrow. destruct Hrow as (bit & E & _). injection E as E1 _. exact E1. }
  split; [exact Hk|]. apply wcs_rows. rewrite Hk. exact Hrow.
Qed.

(* ---- splitting a key-sorted segment around document d ---- *)
Lemma filter_nil_all {A} (f : A -> bool) l : (forall x, In x l -> f x = false) -> filter f l = [].
Proof. induction l as [|x l IH]; intros H; cbn [filter]; [reflexivity|]. rewrite (H x (or_introl eq_refl)). apply IH. intros y Hy. apply H. right. exact Hy. Qed.

Lemma split3 dN : forall s, StronglySorted (fun x y => dkey x <= dkey y) s ->
  s = filter (fun w => dkey w <? dN) s ++ filter (fun w => dkey w =? dN) s ++ filter (fun w => dN <? dkey w) s.
Proof.
  induction 1 as [|x s Hs IH Hf]; [reflexivity|]. cbn [filter]. rewrite Forall_forall in Hf.
  destruct (N.ltb_spec (dkey x) dN) as [H1|H1].
  - assert (E2 : (dkey x =? dN) = false) by (apply N.eqb_neq; lia). assert (E3 : (dN <? dkey x) = false) by (apply N.ltb_ge; lia).
    rewrite E2, E3. cbn [app]. f_equal. exact IH.
  - destruct (N.eqb_spec (dkey x) dN) as [H2|H2].
    + assert (E3 : (dN <? dkey x) = false) by (apply N.ltb_ge; lia). rewrite E3.
      rewrite (filter_nil_all (fun w => dkey w <? dN) s) in * by (intros y Hy; apply N.ltb_ge; specialize (Hf y Hy); lia).
      cbn [app] in *. f_equal. exact IH.
    + assert (E3 : (dN <? dkey x) = true) by (apply N.ltb_lt; lia). rewrite E3.
      rewrite (filter_nil_all (fun w => dkey w <? dN) s) in * by (intros y Hy; apply N.ltb_ge; specialize (Hf y Hy); lia).
      rewrite (filter_nil_all (fun w => dkey w =? dN) s) in * by (intros y Hy; apply N.eqb_neq; specialize (Hf y Hy); lia).
      cbn [app] in *. f_equal. exact IH.
Qed.

Lemma ss_filter {A} (R : A -> A -> Prop) (f : A -> bool) l : StronglySorted R l -> StronglySorted R (filter f l).
Proof.
  induction 1 as [|x l Hs IH Hf]; cbn [filter]; [constructor|]. destruct (f x); [|exact IH].
  constructor; [exact IH|]. apply Forall_forall. intros y Hy. apply filter_In in Hy. rewrite Forall_forall in Hf. apply Hf. tauto.
Qed.

Lemma ss_app (R : N -> N -> Prop) l1 l2 : StronglySorted R l1 -> StronglySorted R l2 -> (forall a b, In a l1 -> In b l2 -> R a b) ->
  StronglySorted R (l1 ++ l2).
Proof.
  induction 1 as [|x l Hs IH Hf]; intros H2 H12; cbn [app]; [exact H2|].
  constructor; [apply IH; [exact H2|intros a b Ha Hb; apply H12; [right; exact Ha|exact Hb]]|].
  apply Forall_forall. intros y Hy. apply in_app_iff in Hy. destruct Hy as [Hy|Hy]; [rewrite Forall_forall in Hf; apply Hf, Hy|apply H12; [left; reflexivity|exact Hy]].
Qed.

Lemma take_idx_hd_sorted e idxs : StronglySorted N.lt (map Hd e) -> StronglySorted N.lt idxs ->
  Forall (fun a => a < N.of_nat (length e)) idxs -> StronglySorted N.lt (map Hd (take_idx e idxs)).
Proof.
  intros He. induction idxs as [|a idxs IH]; intros Hs Hr; cbn [take_idx map]; [constructor|].
  inversion Hs as [|? ? Hs' Hf]; subst. inversion Hr as [|? ? Ha Hr']; subst.
  constructor; [apply IH; assumption|]. apply Forall_forall. intros y Hy. apply in_map_iff in Hy. destruct Hy as (w & <- & Hw).
  apply take_idx_in in Hw. destruct Hw as (b & Hb & ->). rewrite Forall_forall in Hf, Hr'. specialize (Hf b Hb). specialize (Hr' b Hb).
  pose proof (sslt_nth_lt (map Hd e) (N.to_nat a) (N.to_nat b) He ltac:(lia) ltac:(rewrite map_length; lia)) as H.
  change 0 with (Hd 0) in H at 1 2. rewrite !map_nth in H. exact H.
Qed.

(* keys and buckets of well-formed words *)
Lemma wform_key_le x y : wform x -> wform y -> Hd x < Hd y -> dkey x <= dkey y.
Proof.
  intros (k & b & s & -> & Hk & Hb & Hs & _) (k' & b' & s' & -> & Hk' & Hb' & Hs' & _) H.
  rewrite !Hd_word in H by lia. rewrite !dkey_word by lia. unfold word_of in H. pows. nia.
Qed.

Lemma wform_bucket w dN c : wform w -> dkey w = dN -> In c (wcs w) -> Hd w = word_of dN (c / 18) 0.
Proof.
  intros (k & b & s & -> & Hk & Hb & Hs & _) Hkey Hc. rewrite dkey_word in Hkey by lia. subst k.
  apply wcs_word in Hc; try assumption. destruct Hc as (bit & H1 & _ & ->). rewrite Hd_word by lia.
  f_equal. rewrite N.div_add by discriminate. rewrite N.div_small by exact H1. reflexivity.
Qed.

Lemma run_positions_sorted dN : forall run, Forall wform run -> (forall w, In w run -> dkey w = dN) ->
  StronglySorted N.lt (map Hd run) -> StronglySorted N.lt (concat (map wcs run)).
Proof.
  induction run as [|x run IH]; intros HF Hk Hs; cbn [map concat]; [constructor|].
  inversion HF as [|? ? Hx HF']; subst. cbn [map] in Hs. inversion Hs as [|? ? Hs' Hf]; subst.
  apply ss_app; [apply wcs_sorted|apply IH; [exact HF'|intros w Hw; apply Hk; right; exact Hw|exact Hs']|].
  intros a b Ha Hb. apply in_concat in Hb. destruct Hb as (l & Hl & Hb). apply in_map_iff in Hl. destruct Hl as (y & <- & Hy).
  rewrite Forall_forall in Hf, HF'. specialize (Hf (Hd y) (in_map Hd _ _ Hy)).
  pose proof (Hk x (or_introl eq_refl)) as Kx. pose proof (Hk y (or_intror Hy)) as Ky.
  destruct Hx as (k & bx & sx & -> & Hk1 & Hb1 & Hs1 & _). destruct (HF' y Hy) as (k' & by_ & sy & -> & Hk2 & Hb2 & Hs2 & _).
  rewrite dkey_word in Kx, Ky by lia. subst k k'.
  apply wcs_word in Ha, Hb; try assumption. destruct Ha as (bit1 & A1 & _ & ->). destruct Hb as (bit2 & B1 & _ & ->).
  rewrite !Hd_word in Hf by lia. unfold word_of in Hf. pows. nia.
Qed.

Lemma div18_near p k : k <= 18 -> (p + k) / 18 = p / 18 \/ (p + k) / 18 = p / 18 + 1.
Proof.
  intros Hk. pose proof (N.div_mod p 18 ltac:(discriminate)) as E. pose proof (N.mod_lt p 18 ltac:(discriminate)) as Hr.
  set (q := p / 18) in *. set (r := p mod 18) in *.
  destruct (N.lt_ge_cases (r + k) 18) as [H|H].
  - left. symmetry. apply (N.div_unique (p + k) 18 q (r + k)); lia.
  - right. symmetry. apply (N.div_unique (p + k) 18 (q + 1) (r + k - 18)); lia.
Qed.

Lemma wpay_word k b s : s < 2^18 -> wpay (word_of k b s) = s.
Proof. intros Hs. unfold wpay. replace (wnot header_mask) with 262143 by (vm_compute; reflexivity). apply lsb_of_word. exact Hs. Qed.

(* ---------- L5: assembling the restricted theorem ---------- *)
Definition tr_of (dN : N) (s : list N) : seg3 :=
  (filter (fun w => dkey w <? dN) s, filter (fun w => dkey w =? dN) s, filter (fun w => dN <? dkey w) s).

Lemma hd_sorted_keys : forall s, Forall wform s -> StronglySorted N.lt (map Hd s) -> StronglySorted (fun x y => dkey x <= dkey y) s.
Proof.
  induction s as [|x s IH]; intros HF Hs; [constructor|]. inversion HF as [|? ? Hx HF']; subst. cbn [map] in Hs.
  inversion Hs as [|? ? Hs' Hf]; subst. constructor; [apply IH; assumption|].
  apply Forall_forall. intros y Hy. rewrite Forall_forall in Hf, HF'. apply wform_key_le; [exact Hx|apply HF', Hy|apply Hf, in_map, Hy].
Qed.

Lemma Forall2_nth {A B} (P : A -> B -> Prop) da db : forall l1 l2, Forall2 P l1 l2 ->
  forall k, (k < length l1)%nat -> P (nth k l1 da) (nth k l2 db).
Proof. induction 1 as [|x y l1 l2 Hxy _ IH]; intros k Hk; cbn [length] in Hk; [lia|]. destruct k; cbn [nth]; [exact Hxy|apply IH; lia]. Qed.
Lemma Forall2_length {A B} (P : A -> B -> Prop) l1 l2 : Forall2 P l1 l2 -> length l1 = length l2.
Proof. induction 1; cbn [length]; congruence. Qed.

(* one sliced segment: a sub-sequence of a posting list that contains a word of document d *)
Section OneSeg.
Variables (docs : list (list N)) (t : N) (dd : nat) (s idxs : list N).
Hypothesis Hwf : wf_docs docs.
Let e := encode_spec (tp_from 0 docs t).
Let dN := N.of_nat dd.
Hypothesis Es : s = take_idx e idxs.
Hypothesis Hidx : StronglySorted N.lt idxs.
Hypothesis Hrange : Forall (fun a => a < N.of_nat (length e)) idxs.

Lemma seg_incl w : In w s -> In w e.
Proof. intros H. rewrite Es in H. apply take_idx_in in H. destruct H as (a & Ha & ->). rewrite Forall_forall in Hrange. specialize (Hrange a Ha). apply nth_In. lia. Qed.

Lemma seg_wform : Forall wform s.
Proof. apply Forall_forall. intros w Hw. apply seg_incl in Hw. destruct (posting_PL docs t Hwf) as (H & _ & _). rewrite Forall_forall in H. apply H, Hw. Qed.

Lemma seg_hd_sorted : StronglySorted N.lt (map Hd s).
Proof. rewrite Es. apply take_idx_hd_sorted; [|exact Hidx|exact Hrange]. destruct (posting_PL docs t Hwf) as (_ & H & _). exact H. Qed.

Lemma seg_split : seg_of (tr_of dN s) = s.
Proof. unfold seg_of, tr_of. symmetry. apply split3. apply hd_sorted_keys; [apply seg_wform|apply seg_hd_sorted]. Qed.

Lemma seg_is_d w : In w s -> dkey w = dN -> seg_d dN (tr_of dN s).
Proof.
  intros Hw Hk. unfold seg_d, tr_of. split; [intros x Hx; apply filter_In in Hx; destruct Hx as [_ Hx]; apply N.ltb_lt; exact Hx|].
  split. { intros E. assert (Hin : In w (filter (fun w0 => dkey w0 =? dN) s)) by (apply filter_In; split; [exact Hw|apply N.eqb_eq; exact Hk]). rewrite E in Hin. destruct Hin. }
  split.
  { intros x Hx. apply filter_In in Hx. destruct Hx as [Hx1 Hx]. split; [apply N.eqb_eq; exact Hx|].
    pose proof seg_wform as HF. rewrite Forall_forall in HF. destruct (HF x Hx1) as (k & b & s0 & -> & _ & _ & Hs0 & Hnz).
    rewrite wpay_word by exact Hs0. exact Hnz. }
  destruct (filter (fun w0 => dN <? dkey w0) s) as [|x post] eqn:E; [exact I|].
  assert (Hin : In x (filter (fun w0 => dN <? dkey w0) s)) by (rewrite E; left; reflexivity).
  apply filter_In in Hin. destruct Hin as [_ Hx]. apply N.ltb_lt in Hx. lia.
Qed.

Definition seg_ev : list N := concat (map wcs (filter (fun w => dkey w =? dN) s)).

Lemma seg_ev_pos c : In c seg_ev -> nth_error (nth dd docs []) (N.to_nat c) = Some t.
Proof.
  unfold seg_ev. intros H. apply in_concat in H. destruct H as (l & Hl & Hc). apply in_map_iff in Hl. destruct Hl as (w & <- & Hw).
  apply filter_In in Hw. destruct Hw as [Hw Hk]. apply N.eqb_eq in Hk.
  destruct (posting_pos docs t w c Hwf (seg_incl w Hw) Hc) as [H1 _]. rewrite Hk in H1. unfold dN in H1. rewrite Nat2N.id in H1. exact H1.
Qed.

Lemma seg_ev_lt c : In c seg_ev -> c < N.of_nat (length (nth dd docs [])).
Proof. intros H. apply seg_ev_pos in H. assert (N.to_nat c < length (nth dd docs []))%nat by (apply nth_error_Some; congruence). lia. Qed.

Lemma seg_ev_sorted : StronglySorted N.lt seg_ev.
Proof.
  unfold seg_ev. apply (run_positions_sorted dN).
  - apply Forall_forall. intros w Hw. apply filter_In in Hw. destruct Hw as [Hw _]. pose proof seg_wform as H. rewrite Forall_forall in H. apply H, Hw.
  - intros w Hw. apply filter_In in Hw. destruct Hw as [_ Hk]. apply N.eqb_eq. exact Hk.
  - assert (G : forall l, StronglySorted N.lt (map Hd l) -> StronglySorted N.lt (map Hd (filter (fun w => dkey w =? dN) l))).
    { induction l as [|x l IH]; intros H; cbn [filter map]; [constructor|]. cbn [map] in H. inversion H as [|? ? H' Hf]; subst.
      destruct (dkey x =? dN); [|apply IH; exact H']. cbn [map]. constructor; [apply IH; exact H'|].
      apply Forall_forall. intros y Hy. apply in_map_iff in Hy. destruct Hy as (z & <- & Hz). apply filter_In in Hz. destruct Hz as [Hz _].
      rewrite Forall_forall in Hf. apply Hf. apply in_map. exact Hz. }
    apply G. apply seg_hd_sorted.
Qed.

Lemma seg_ev_len : (length seg_ev <= length (nth dd docs []))%nat.
Proof. apply sslt_len_le; [apply seg_ev_sorted|]. apply Forall_forall. intros c Hc. apply seg_ev_lt. exact Hc. Qed.

Lemma seg_ev_has w c : In w s -> dkey w = dN -> In c (wcs w) -> In c seg_ev.
Proof.
  intros Hw Hk Hc. unfold seg_ev. apply in_concat. exists (wcs w). split; [|exact Hc]. apply in_map. apply filter_In. split; [exact Hw|apply N.eqb_eq; exact Hk].
Qed.
End OneSeg.

Lemma get_all_posts_map ix (f : N -> list N) : forall ts, (forall t, In t ts -> lookup t (ix_posts ix) = Some (f t)) ->
  get_all_posts ix ts = AOk (map f ts).
Proof.
  induction ts as [|t ts IH]; intros H; [reflexivity|]. cbn [get_all_posts map]. unfold get_posts. rewrite (H t (or_introl eq_refl)). cbn [abind].
  rewrite IH by (intros t' Ht'; apply H; right; exact Ht'). reflexivity.
Qed.

Lemma some_bit s : s <> 0 -> s < 2^18 -> exists bit, bit < 18 /\ N.testbit s bit = true.
Proof.
  intros Hnz Hs. exists (N.log2 s). split; [apply N.log2_lt_pow2; lia|apply N.bit_log2; exact Hnz].
Qed.

Lemma nth_map' {A B} (f : A -> B) l k da db : (k < length l)%nat -> nth k (map f l) db = f (nth k l da).
Proof. intros H. rewrite (nth_indep (map f l) db (f da)) by (rewrite map_length; exact H). apply map_nth. Qed.

Lemma word_succ_bucket k b : word_of k (b + 1) 0 = word_of k b 0 + 2^18.
Proof. unfold word_of. lia. Qed.


(* ---------- the clause for the repaired model ---------- *)
(* positions of phrase terms in the document are pairwise distinct modulo 64 (true of every document of at most 64 tokens) *)
Definition no_alias64 (ts doc : list N) : Prop :=
  forall q1 q2 t1 t2, nth_error doc q1 = Some t1 -> nth_error doc q2 = Some t2 -> In t1 ts -> In t2 ts -> q1 <> q2 ->
    N.of_nat q1 mod 64 <> N.of_nat q2 mod 64.

Theorem slop_keeps_exact_match_partial : forall docs bs ix ts slop v d,
  wf_docs docs -> index false bs docs = AOk ix -> 1 <= slop -> (2 <= length ts)%nat ->
  slop_freqs ix ts slop = AOk v -> (d < length docs)%nat -> occ ts (nth d docs []) > 0 ->
  (* no_alias64: the 64-bit position mask of a span cannot confuse two phrase-term positions of document d *)
  no_alias64 ts (nth d docs []) ->
  (* short_phrase: an exact occurrence spans at most two 18-position buckets *)
  (length ts <= 19)%nat ->
  nth d v 0 <> 0.
Proof.
  intros docs bs ix ts slop v d Hwf Hix _ Hn2 Hsf Hdlt Hocc Hna Hn19.
  destruct (index_any_ok docs bs Hwf) as (ix' & E & Hok). rewrite Hix in E. injection E as <-.
  destruct Hok as (Hposts & _ & Hterms & Hlens).
  set (doc := nth d docs []) in *. set (n := length ts) in *. set (dN := N.of_nat d).
  destruct (occ_pos ts doc Hocc) as (p & Hp).
  assert (Hdoc_in : In doc docs) by (apply nth_In; exact Hdlt).
  assert (Hts_in : forall t, In t ts -> In t (concat docs)).
  { intros t Ht. destruct (In_nth ts t 0 Ht) as (k & Hk & <-). apply in_concat. exists doc. split; [exact Hdoc_in|].
    eapply nth_error_In. apply Hp. exact Hk. }
  set (enc := fun t => encode_spec (tp_from 0 docs t)).
  unfold slop_freqs in Hsf.
  assert (Hknown : forallb (known ix) ts = true).
  { apply forallb_forall. intros t Ht. apply (known_true docs ix t Hterms). apply Hts_in, Ht. }
  rewrite Hknown in Hsf. cbn [negb] in Hsf.
  assert (Hlt2 : Nat.ltb (length ts) 2 = false) by (apply Nat.ltb_ge; exact Hn2). rewrite Hlt2 in Hsf.
  rewrite (get_all_posts_map ix enc) in Hsf.
  2:{ intros t Ht. rewrite (Hposts t (Hts_in t Ht)), term_pairs_tp. reflexivity. }
  cbn [abind] in Hsf.
  destruct (span_search (map enc ts) slop) as [pf| | |] eqn:Ess; cbn [abind] in Hsf; try discriminate.
  apply lift_inv in Hsf.
  (* the occurrence's positions against every other phrase-term position *)
  assert (Hokc_pos : forall c t, nth_error doc (N.to_nat c) = Some t -> In t ts -> okc (N.of_nat n) (N.of_nat p) c).
  { intros c t Hc Ht j Hj1 Hj2 Hne.
    assert (Hjn : (N.to_nat j < length ts)%nat) by (unfold n in Hj2; lia).
    assert (Hq : N.to_nat c <> (p + N.to_nat j)%nat) by lia.
    pose proof (Hna (N.to_nat c) (p + N.to_nat j)%nat t (nth (N.to_nat j) ts 0) Hc (Hp (N.to_nat j) Hjn) Ht (nth_In ts 0 Hjn) Hq) as H.
    rewrite N2Nat.id in H. replace (N.of_nat (p + N.to_nat j)) with (N.of_nat p + j) in H by lia. exact H. }
  destruct ts as [|t0 [|t1 ts']]; [cbn in Hn2; lia|cbn in Hn2; lia|].
  assert (HPL : Forall PL (map enc (t0 :: t1 :: ts'))).
  { apply Forall_forall. intros e He. apply in_map_iff in He. destruct He as (t & <- & _). apply posting_PL. exact Hwf. }
  cbn [map] in HPL, Ess.
  destruct (intersect_all_keeps (enc t0) (enc t1) (map enc ts') HPL) as (sl & Eia & F2).
  change (enc t0 :: enc t1 :: map enc ts') with (map enc (t0 :: t1 :: ts')) in *.
  set (ts := t0 :: t1 :: ts') in *.
  assert (Hlen_sl : length sl = n) by (rewrite <- (Forall2_length _ _ _ F2), map_length; reflexivity).
  assert (Hw : forall k, (k < n)%nat -> exists w, In w (enc (nth k ts 0)) /\ dkey w = dN /\ In (N.of_nat (p + k)) (wcs w) /\
                                              Hd w = word_of dN (N.of_nat (p + k) / 18) 0).
  { intros k Hk. destruct (posting_has docs (nth k ts 0) d (p + k) Hwf Hdlt (Hp k Hk)) as (w & W1 & W2 & W3).
    exists w. repeat split; try assumption. apply wform_bucket; [|exact W2|exact W3].
    destruct (posting_PL docs (nth k ts 0) Hwf) as (HF & _ & _). rewrite Forall_forall in HF. apply HF, W1. }
  destruct (Hw 0%nat ltac:(lia)) as (w0 & W01 & W02 & W03 & W04). rewrite Nat.add_0_r in W04. cbn [nth] in W01.
  set (h := word_of dN (N.of_nat p / 18) 0) in *.
  assert (Hbk : forall k, (k < n)%nat -> word_of dN (N.of_nat (p + k) / 18) 0 = h \/ word_of dN (N.of_nat (p + k) / 18) 0 = h + 2^18).
  { intros k Hk. replace (N.of_nat (p + k)) with (N.of_nat p + N.of_nat k) by lia.
    destruct (div18_near (N.of_nat p) (N.of_nat k) ltac:(lia)) as [E|E]; rewrite E; [left; reflexivity|right; apply word_succ_bucket]. }
  assert (Hh_curr : In h (map Hd (enc t0))) by (rewrite <- W04; apply in_map; exact W01).
  assert (Hh_rest : forall e', In e' (map enc (t1 :: ts')) -> In h (map Hd e') \/ In (h + 2^18) (map Hd e')).
  { intros e' He'. apply In_nth with (d := []) in He'. destruct He' as (j & Hj & <-). rewrite map_length in Hj.
    destruct (Hw (S j) ltac:(cbn [length] in *; unfold n, ts; cbn [length]; lia)) as (w & W1 & _ & _ & W4).
    change (nth (S j) ts 0) with (nth j (t1 :: ts') 0) in W1.
    rewrite (nth_map' enc (t1 :: ts') j 0 []) by exact Hj.
    destruct (Hbk (S j) ltac:(unfold n, ts; cbn [length] in *; lia)) as [E|E]; rewrite E in W4; [left|right]; rewrite <- W4; apply in_map; exact W1. }
  set (trs := map (tr_of dN) sl).
  assert (Hseg : forall k, (k < n)%nat -> exists idxs,
             nth k sl [] = take_idx (enc (nth k ts 0)) idxs /\ StronglySorted N.lt idxs /\
             Forall (fun a => a < N.of_nat (length (enc (nth k ts 0)))) idxs /\
             exists w, In w (nth k sl []) /\ dkey w = dN /\ In (N.of_nat (p + k)) (wcs w)).
  { intros k Hk. pose proof (Forall2_nth _ [] [] _ _ F2 k ltac:(rewrite map_length; exact Hk)) as Hks.
    rewrite (nth_map' enc ts k 0 []) in Hks by exact Hk. destruct Hks as (idxs & E1 & E2 & E3 & E4).
    exists idxs. repeat split; try assumption.
    destruct (Hw k Hk) as (w & W1 & W2 & W3 & W4). exists w. repeat split; try assumption.
    destruct (In_nth _ _ 0 W1) as (a & Ha & Ea). rewrite E1. apply take_idx_in. exists (N.of_nat a). rewrite Nat2N.id. split; [|symmetry; exact Ea].
    apply (E4 (N.of_nat a) h); [lia| |exact Hh_curr|exact Hh_rest].
    rewrite Nat2N.id, Ea, W4. apply Hbk. exact Hk. }
  assert (Hsegs_all : forall s, In s sl -> exists k, (k < n)%nat /\ s = nth k sl []).
  { intros s Hs. destruct (In_nth _ _ [] Hs) as (k & Hk & <-). exists k. split; [lia|reflexivity]. }
  assert (Hmap_seg : map seg_of trs = sl).
  { unfold trs. rewrite map_map. rewrite <- (map_id sl) at 2. apply map_ext_in. intros s Hs.
    destruct (Hsegs_all s Hs) as (k & Hk & ->). destruct (Hseg k Hk) as (idxs & E1 & E2 & E3 & _).
    apply (seg_split docs (nth k ts 0) d (nth k sl []) idxs Hwf E1 E2 E3). }
  assert (Hsegd : Forall (seg_d dN) trs).
  { unfold trs. apply Forall_forall. intros tr Htr. apply in_map_iff in Htr. destruct Htr as (s & <- & Hs).
    destruct (Hsegs_all s Hs) as (k & Hk & ->). destruct (Hseg k Hk) as (idxs & E1 & E2 & E3 & w & W1 & W2 & _).
    apply (seg_is_d docs (nth k ts 0) d (nth k sl []) idxs Hwf E1 E3 w W1 W2). }
  assert (Hlen_trs : length trs = n) by (unfold trs; rewrite map_length; exact Hlen_sl).
  assert (Hevs_nth : forall k, (k < n)%nat -> nth k (seg_evs trs) [] = seg_ev d (nth k sl [])).
  { intros k Hk. unfold seg_evs, trs. rewrite map_map. rewrite (nth_map' _ sl k [] []) by lia. reflexivity. }
  assert (Hevs_all : forall cs, In cs (seg_evs trs) -> exists k, (k < n)%nat /\ cs = seg_ev d (nth k sl [])).
  { intros cs Hcs. destruct (In_nth _ _ [] Hcs) as (k & Hk & <-). unfold seg_evs in Hk. rewrite map_length, Hlen_trs in Hk.
    exists k. split; [exact Hk|apply Hevs_nth; exact Hk]. }
  rewrite <- Hmap_seg in Eia.
  destruct (span_search_target (map enc ts) slop pf trs dN (N.of_nat p) Eia Hsegd) as (c & Hin & Hc & Hnd).
  - lia.
  - lia.
  - rewrite Hlen_trs. apply (Hokc_pos (N.of_nat p) t0); [rewrite Nat2N.id; specialize (Hp 0%nat ltac:(lia)); rewrite Nat.add_0_r in Hp; exact Hp|left; reflexivity].
  - rewrite Hlen_trs. apply Forall_forall. intros cs Hcs. destruct (Hevs_all cs Hcs) as (k & Hk & ->). destruct (Hseg k Hk) as (idxs & E1 & E2 & E3 & _).
    apply Forall_forall. intros c Hc. apply (Hokc_pos c (nth k ts 0)); [|apply nth_In; exact Hk].
    apply (seg_ev_pos docs (nth k ts 0) d (nth k sl []) idxs Hwf E1 E3 c Hc).
  - intros k Hk. rewrite Hlen_trs in Hk. rewrite (Hevs_nth k Hk). destruct (Hseg k Hk) as (idxs & E1 & E2 & E3 & w & W1 & W2 & W3).
    replace (N.of_nat p + N.of_nat k) with (N.of_nat (p + k)) by lia. apply (seg_ev_has d (nth k sl []) w _ W1 W2 W3).
  - exact Ess.
  - rewrite (store_many_nodup pf _ v d c Hsf Hnd Hin). lia.
Qed.

(* every document of at most 64 tokens satisfies no_alias64 *)
Lemma short_doc_no_alias64 ts doc : (length doc <= 64)%nat -> no_alias64 ts doc.
Proof.
  intros HL q1 q2 t1 t2 H1 H2 _ _ Hne.
  assert (q1 < length doc)%nat by (apply nth_error_Some; congruence). assert (q2 < length doc)%nat by (apply nth_error_Some; congruence).
  rewrite !N.mod_small by lia. lia.
Qed.

Corollary slop_keeps_exact_match_64 : forall docs bs ix ts slop v d,
  wf_docs docs -> index false bs docs = AOk ix -> 1 <= slop -> (2 <= length ts)%nat ->
  slop_freqs ix ts slop = AOk v -> (d < length docs)%nat -> occ ts (nth d docs []) > 0 ->
  (length (nth d docs []) <= 64)%nat -> (length ts <= 19)%nat -> nth d v 0 <> 0.
Proof.
  intros docs bs ix ts slop v d Hwf Hix Hs Hn2 Hsf Hd Hocc HL Hn19.
  apply (slop_keeps_exact_match_partial docs bs ix ts slop v d); try assumption. apply short_doc_no_alias64. exact HL.
Qed.


(* ---------- the restrictions are satisfiable, and each is needed ---------- *)
Example partial_nonvacuous :
  exists ix v, index false 100 [[1; 2; 3; 7]; [7; 1; 2; 3; 7]] = AOk ix /\ slop_freqs ix [1; 2; 3] 2 = AOk v /\ nth 0 v 0 <> 0 /\ nth 1 v 0 <> 0.
Proof.
  assert (E : exists ix, index false 100 [[1; 2; 3; 7]; [7; 1; 2; 3; 7]] = AOk ix /\ exists v, slop_freqs ix [1; 2; 3] 2 = AOk v).
  { eexists. split; [vm_compute; reflexivity|]. eexists. vm_compute. reflexivity. }
  destruct E as (ix & E1 & v & E2). exists ix, v. split; [exact E1|]. split; [exact E2|].
  assert (Hwf : wf_docs [[1; 2; 3; 7]; [7; 1; 2; 3; 7]]) by (split; [repeat constructor; vm_compute; discriminate|vm_compute; reflexivity]).
  split.
  - apply (slop_keeps_exact_match_64 _ 100 ix [1; 2; 3] 2 v 0 Hwf E1); first [exact E2 | cbn; lia | vm_compute; reflexivity].
  - apply (slop_keeps_exact_match_64 _ 100 ix [1; 2; 3] 2 v 1 Hwf E1); first [exact E2 | cbn; lia | vm_compute; reflexivity].
Qed.

(* witness D: a 3-term phrase (short_phrase holds), but c occurs at 6 and 70 = 6 + 64 *)
Example witD_breaks_only_no_alias64 :
  (length [1; 2; 3] <= 19)%nat /\ nth_error witD 6 = Some 3 /\ nth_error witD 70 = Some 3 /\ N.of_nat 6 mod 64 = N.of_nat 70 mod 64.
Proof. vm_compute. repeat split; lia. Qed.
(* witness E: 37 tokens (no_alias64 holds by short_doc_no_alias64), but 20 terms *)
Example witE_breaks_only_short_phrase : no_alias64 phE witE /\ length phE = 20%nat.
Proof. split; [apply short_doc_no_alias64; vm_compute; lia|reflexivity]. Qed.

Print Assumptions slop_loses_exact_match_refuted_repaired.
Print Assumptions witE_model.
Print Assumptions earlier_witnesses_repaired.
Print Assumptions span_table_keeps_exact.
Print Assumptions span_search_target.
Print Assumptions intersect_all_keeps.
Print Assumptions full_credit_positive.
Print Assumptions slop_keeps_exact_match_partial.
Print Assumptions slop_keeps_exact_match_64.
Print Assumptions partial_nonvacuous.
