(* Memory safety and termination of the slop (span) search model of Span.v, for ARBITRARY inputs.
   Every read of the flattened postings in the model is a checked read, every store into the 512-slot span
   table is checked against SPAN_CAP, every loop carries fuel.  This file proves that no check ever fails and
   no loop runs out of the fuel the model gives it. *)
From Coq Require Import Lia ZifyN ZifyNat ZifyBool Permutation.
From SA Require Import Base.Prelude Gen.SourceConsts Kernels.Intersect Kernels.Linear Kernels.Linear_Proofs
  Kernels.Intersect_Safe Codec.Codec Codec.Codec_Spec Codec.Codec_Proofs Codec.Codec_Proofs2
  Index.Index Index.Index_Spec Index.Index_Proofs Index.Index_Proofs2 Index.Index_Proofs3
  Query.Phrase Span.Span Span.Span_Proofs.
Open Scope N_scope.

(* ================= 0. "runs to completion" combinators ================= *)
Lemma is_done_inv {A} (r : result A) : is_done r -> exists a, r = Done a.
Proof. destruct r as [a| |]; cbn [is_done]; intro H; [exists a; reflexivity|destruct H|destruct H]. Qed.

Lemma is_done_bind {A B} (r : result A) (k : A -> result B) :
  is_done r -> (forall a, r = Done a -> is_done (k a)) -> is_done (bind r k).
Proof. destruct r as [a| |]; cbn [is_done bind]; intros H Hk; [apply Hk; reflexivity|destruct H|destruct H]. Qed.

(* ================= 1. the bit loop: fuel 70 is enough, the table store is guarded ================= *)
(* x & (x - 1) clears exactly one set bit *)
Lemma land_pred_double p :
  Pos.land p~0 (Pos.pred_double p) = Pos.Ndouble (N.land (Npos p) (Pos.pred_N p)).
Proof. destruct p; reflexivity. Qed.

Lemma popcount_Ndouble x : popcount (Pos.Ndouble x) = popcount x.
Proof. destruct x; reflexivity. Qed.

Lemma pop_clear_pos : forall p, popcount (N.land (Npos p) (Pos.pred_N p)) + 1 = pop_pos p.
Proof.
  induction p as [p IH|p IH|].
  - change (Pos.pred_N p~1) with (Npos p~0). change (N.land (Npos p~1) (Npos p~0)) with (Pos.Ndouble (N.land (Npos p) (Npos p))).
    rewrite N.land_diag. cbn [Pos.Ndouble popcount pop_pos]. lia.
  - change (Pos.pred_N p~0) with (Npos (Pos.pred_double p)).
    change (N.land (Npos p~0) (Npos (Pos.pred_double p))) with (Pos.land p~0 (Pos.pred_double p)).
    rewrite land_pred_double, popcount_Ndouble. cbn [pop_pos]. exact IH.
  - reflexivity.
Qed.

Lemma pop_clear n : n <> 0 -> popcount (N.land n (n - 1)) + 1 = popcount n.
Proof.
  destruct n as [|p]; [congruence|]. intros _.
  rewrite N.sub_1_r, <- N.pos_pred_spec. apply pop_clear_pos.
Qed.

Lemma pop_pos_size p : pop_pos p <= Npos (Pos.size p).
Proof. induction p as [p IH|p IH|]; cbn [pop_pos Pos.size]; lia. Qed.

Lemma popcount_size n : popcount n <= N.size n.
Proof. destruct n as [|p]; [cbn; lia|apply pop_pos_size]. Qed.

Lemma popcount_land_le w c : popcount (N.land w c) <= N.size c.
Proof.
  etransitivity; [apply popcount_size|].
  destruct (N.eq_dec (N.land w c) 0) as [E|E]; [rewrite E; cbn; lia|].
  assert (Hc : c <> 0) by (intro; subst c; rewrite N.land_0_r in E; congruence).
  rewrite !N.size_log2 by assumption.
  pose proof (N.log2_land w c) as H. lia.
Qed.

Lemma payload_popcount w : popcount (N.land w (wnot header_mask)) <= 18.
Proof. etransitivity; [apply popcount_land_le|]. vm_compute. discriminate. Qed.

Lemma update_spans_len : forall old room tmask pm cp nt maxw full old' app full' rm,
  update_spans old room tmask pm cp nt maxw full = (old', app, full', rm) ->
  length old' = length old /\ N.of_nat (length app) + rm = room.
Proof.
  induction old as [|s rest IH]; intros room tmask pm cp nt maxw full old' app full' rm H; cbn [update_spans] in H.
  - inversion H; subst. cbn [length]. split; [reflexivity|lia].
  - repeat match type of H with
           | (if ?c then _ else _) = _ => destruct c eqn:?
           | context [update_spans ?a ?b ?c ?d ?e ?f ?g ?h] =>
               let E := fresh "E" in
               destruct (update_spans a b c d e f g h) as [[[? ?] ?] ?] eqn:E; apply IH in E; destruct E
           end; inversion H; subst; cbn [length]; split; try congruence; try lia.
Qed.

(* the span table never exceeds its 512 slots *)
Lemma bits_loop_len : forall fuel term base tmask nt maxw spans full out,
  N.of_nat (length spans) <= SPAN_CAP ->
  bits_loop fuel term base tmask nt maxw spans full = Done out -> N.of_nat (length (fst out)) <= SPAN_CAP.
Proof.
  induction fuel as [|f IH]; intros term base tmask nt maxw spans full out Hlen H; cbn [bits_loop] in H; [discriminate|].
  destruct (term =? 0); [inversion H; subst; exact Hlen|].
  destruct (SPAN_CAP <=? N.of_nat (length spans)) eqn:G; [inversion H; subst; exact Hlen|].
  apply N.leb_gt in G. apply bind_inv in H as (u & _ & H).
  destruct (update_spans _ _ _ _ _ _ _ _) as [[[old' app] full'] rm] eqn:EU.
  apply update_spans_len in EU as [E1 E2].
  assert (Hl : N.of_nat (length (old' ++ {| sp_terms := tmask; sp_posns := pmask (Z.of_N (ctz term) + base);
                   sp_beg := (Z.of_N (ctz term) + base)%Z; sp_end := (Z.of_N (ctz term) + base)%Z |} :: app)) <= SPAN_CAP).
  { rewrite app_length. cbn [length]. rewrite E1. lia. }
  destruct (SPAN_CAP <=? _); [inversion H; subst; exact Hl|].
  eapply IH; [exact Hl|exact H].
Qed.

(* THE span-table store: `wr_ok 9 SPAN_CAP (length spans)` is reached only when the D16 guard
   `SPAN_CAP <=? length spans` two lines above it was false, so it cannot fail; the appended copies are
   limited by `room`.  70 units of fuel suffice because every iteration clears one bit of the payload. *)
Lemma bits_loop_done : forall fuel term base tmask nt maxw spans full,
  popcount term < N.of_nat fuel -> is_done (bits_loop fuel term base tmask nt maxw spans full).
Proof.
  induction fuel as [|f IH]; intros term base tmask nt maxw spans full Hp; [lia|]. cbn [bits_loop].
  destruct (term =? 0) eqn:E0; [exact I|]. apply N.eqb_neq in E0.
  destruct (SPAN_CAP <=? N.of_nat (length spans)) eqn:G; [exact I|]. apply N.leb_gt in G.
  rewrite Linear_Proofs.wr_ok_lt by exact G. cbn [bind].
  destruct (update_spans _ _ _ _ _ _ _ _) as [[[old' app] full'] rm].
  destruct (SPAN_CAP <=? _); [exact I|].
  apply IH. pose proof (pop_clear term E0). lia.
Qed.
