(* Memory safety and termination of the slop (span) search model of Span.v, for ARBITRARY inputs.
   Every read of the flattened postings in the model is a checked read, every store into the 512-slot span
   table is checked against SPAN_CAP, every loop carries fuel.  This file proves that no check ever fails and
   no loop runs out of the fuel the model gives it. *)
From Coq Require Import Lia ZifyN ZifyNat ZifyBool Permutation.
From SA Require Import Base.Prelude Gen.SourceConsts Kernels.Intersect Kernels.Linear Kernels.Linear_Proofs
  Kernels.Intersect_Safe Codec.Codec Codec.Codec_Spec Codec.Codec_Proofs Codec.Codec_Proofs2
  Index.Index Index.Index_Spec Index.Index_Proofs Index.Index_Proofs2 Index.Index_Proofs3
  Query.Phrase Span.Span Span.Span_Proofs.
Open Scope N_scope.

(* ================= 0. "runs to completion" combinators ================= *)
Lemma is_done_inv {A} (r : result A) : is_done r -> exists a, r = Done a.
Proof. destruct r as [a| |]; cbn [is_done]; intro H; [exists a; reflexivity|destruct H|destruct H]. Qed.

Lemma is_done_bind {A B} (r : result A) (k : A -> result B) :
  is_done r -> (forall a, r = Done a -> is_done (k a)) -> is_done (bind r k).
Proof. destruct r as [a| |]; cbn [is_done bind]; intros H Hk; [apply Hk; reflexivity|destruct H|destruct H]. Qed.

(* ================= 1. the bit loop: fuel 70 is enough, the table store is guarded ================= *)
(* x & (x - 1) clears exactly one set bit *)
Lemma land_pred_double p :
  Pos.land p~0 (Pos.pred_double p) = Pos.Ndouble (N.land (Npos p) (Pos.pred_N p)).
Proof. destruct p; reflexivity. Qed.

Lemma popcount_Ndouble x : popcount (Pos.Ndouble x) = popcount x.
Proof. destruct x; reflexivity. Qed.

Lemma pop_clear_pos : forall p, popcount (N.land (Npos p) (Pos.pred_N p)) + 1 = pop_pos p.
Proof.
  induction p as [p IH|p IH|].
  - change (Pos.pred_N p~1) with (Npos p~0). change (N.land (Npos p~1) (Npos p~0)) with (Pos.Ndouble (N.land (Npos p) (Npos p))).
    rewrite N.land_diag. cbn [Pos.Ndouble popcount pop_pos]. lia.
  - change (Pos.pred_N p~0) with (Npos (Pos.pred_double p)).
    change (N.land (Npos p~0) (Npos (Pos.pred_double p))) with (Pos.land p~0 (Pos.pred_double p)).
    rewrite land_pred_double, popcount_Ndouble. cbn [pop_pos]. exact IH.
  - reflexivity.
Qed.

Lemma pop_clear n : n <> 0 -> popcount (N.land n (n - 1)) + 1 = popcount n.
Proof.
  destruct n as [|p]; [congruence|]. intros _.
  rewrite N.sub_1_r, <- N.pos_pred_spec. apply pop_clear_pos.
Qed.

Lemma pop_pos_size p : pop_pos p <= Npos (Pos.size p).
Proof. induction p as [p IH|p IH|]; cbn [pop_pos Pos.size]; lia. Qed.

Lemma popcount_size n : popcount n <= N.size n.
Proof. destruct n as [|p]; [cbn; lia|apply pop_pos_size]. Qed.

Lemma popcount_land_le w c : popcount (N.land w c) <= N.size c.
Proof.
  etransitivity; [apply popcount_size|].
  destruct (N.eq_dec (N.land w c) 0) as [E|E]; [rewrite E; cbn; lia|].
  assert (Hc : c <> 0) by (intro; subst c; rewrite N.land_0_r in E; congruence).
  rewrite !N.size_log2 by assumption.
  pose proof (N.log2_land w c) as H. lia.
Qed.

Lemma payload_popcount w : popcount (N.land w (wnot header_mask)) <= 18.
Proof. etransitivity; [apply popcount_land_le|]. vm_compute. discriminate. Qed.

Lemma update_spans_len : forall old room tmask pm cp nt maxw full old' app full' rm,
  update_spans old room tmask pm cp nt maxw full = (old', app, full', rm) ->
  length old' = length old /\ N.of_nat (length app) + rm = room.
Proof.
  induction old as [|s rest IH]; intros room tmask pm cp nt maxw full old' app full' rm H; cbn [update_spans] in H.
  - inversion H; subst. cbn [length]. split; [reflexivity|lia].
  - repeat match type of H with
           | (if ?c then _ else _) = _ => destruct c eqn:?
           | context [update_spans ?a ?b ?c ?d ?e ?f ?g ?h] =>
               let E := fresh "E" in
               destruct (update_spans a b c d e f g h) as [[[? ?] ?] ?] eqn:E; apply IH in E; destruct E
           end; inversion H; subst; cbn [length]; split; try congruence; try lia.
Qed.

(* the span table never exceeds its 512 slots *)
Lemma bits_loop_len : forall fuel term base tmask nt maxw spans full out,
  N.of_nat (length spans) <= SPAN_CAP ->
  bits_loop fuel term base tmask nt maxw spans full = Done out -> N.of_nat (length (fst out)) <= SPAN_CAP.
Proof.
  induction fuel as [|f IH]; intros term base tmask nt maxw spans full out Hlen H; cbn [bits_loop] in H; [discriminate|].
  destruct (term =? 0); [inversion H; subst; exact Hlen|].
  destruct (SPAN_CAP <=? N.of_nat (length spans)) eqn:G; [inversion H; subst; exact Hlen|].
  apply N.leb_gt in G. apply bind_inv in H as (u & _ & H).
  destruct (update_spans _ _ _ _ _ _ _ _) as [[[old' app] full'] rm] eqn:EU.
  apply update_spans_len in EU as [E1 E2].
  assert (Hl : N.of_nat (length (old' ++ {| sp_terms := tmask; sp_posns := pmask (Z.of_N (ctz term) + base);
                   sp_beg := (Z.of_N (ctz term) + base)%Z; sp_end := (Z.of_N (ctz term) + base)%Z |} :: app)) <= SPAN_CAP).
  { rewrite app_length. cbn [length]. rewrite E1. lia. }
  destruct (SPAN_CAP <=? _); [inversion H; subst; exact Hl|].
  eapply IH; [exact Hl|exact H].
Qed.

(* THE span-table store: `wr_ok 9 SPAN_CAP (length spans)` is reached only when the D16 guard
   `SPAN_CAP <=? length spans` two lines above it was false, so it cannot fail; the appended copies are
   limited by `room`.  70 units of fuel suffice because every iteration clears one bit of the payload. *)
Lemma bits_loop_done : forall fuel term base tmask nt maxw spans full,
  popcount term < N.of_nat fuel -> is_done (bits_loop fuel term base tmask nt maxw spans full).
Proof.
  induction fuel as [|f IH]; intros term base tmask nt maxw spans full Hp; [lia|]. cbn [bits_loop].
  destruct (term =? 0) eqn:E0; [exact I|]. apply N.eqb_neq in E0.
  destruct (SPAN_CAP <=? N.of_nat (length spans)) eqn:G; [exact I|]. apply N.leb_gt in G.
  rewrite Linear_Proofs.wr_ok_lt by exact G. cbn [bind].
  destruct (update_spans _ _ _ _ _ _ _ _) as [[[old' app] full'] rm].
  destruct (SPAN_CAP <=? _); [exact I|].
  apply IH. pose proof (pop_clear term E0). lia.
Qed.

(* ================= 2. the pointer-walking loops over the flattened postings ================= *)
Section Loops.
Variable posns : list N.
Let P := mem_of_list posns.
Let n := N.of_nat (length posns).
Let g (i : N) : N := nth (N.to_nat i) posns 0.

Lemma rdP i : i < n -> rd 0 P i = Done (g i).
Proof. intro H. unfold P. rewrite rd_mem_of_list. apply lrd_ok. exact H. Qed.

(* ---- step 1a: skip_earlier ---- *)
Lemma skip_earlier_done : forall fuel i hi dk, hi <= n -> (N.to_nat (hi - i)%N < fuel)%nat ->
  is_done (skip_earlier P fuel i hi dk).
Proof.
  induction fuel as [|f IH]; intros i hi dk Hhi Hf; [lia|]. cbn [skip_earlier].
  destruct (i <? hi) eqn:E; [|exact I]. apply N.ltb_lt in E.
  rewrite rdP by lia. cbn [bind]. destruct (dkey (g i) <? dk); [|exact I].
  apply IH; [exact Hhi|lia].
Qed.

(* a cursor that already sits on the document is not moved *)
Lemma skip_earlier_stay f i hi : i < hi -> hi <= n -> skip_earlier P (S f) i hi (dkey (g i)) = Done i.
Proof.
  intros Hi Hhi. cbn [skip_earlier]. rewrite ltb_true by exact Hi. rewrite rdP by lia. cbn [bind].
  rewrite N.ltb_irrefl. reflexivity.
Qed.

(* ---- step 1b: give_up and words_loop ---- *)
Lemma give_up_done : forall fuel i hi lk ck, hi <= n -> (N.to_nat (hi - i)%N < fuel)%nat ->
  is_done (give_up P fuel i hi lk ck).
Proof.
  induction fuel as [|f IH]; intros i hi lk ck Hhi Hf; [lia|]. cbn [give_up].
  destruct (i <? hi) eqn:E; [|exact I]. apply N.ltb_lt in E.
  rewrite rdP by lia. cbn [bind]. destruct (negb (dkey (g i) =? lk)); [exact I|].
  apply IH; [exact Hhi|lia].
Qed.

Lemma give_up_sum_done : forall fuel i hi lk, hi <= n -> (N.to_nat (hi - i)%N < fuel)%nat ->
  is_done (give_up_sum P fuel i hi lk).
Proof.
  induction fuel as [|f IH]; intros i hi lk Hhi Hf; [lia|]. cbn [give_up_sum].
  destruct (i <? hi) eqn:E; [|exact I]. apply N.ltb_lt in E.
  rewrite rdP by lia. cbn [bind]. destruct (negb (dkey (g i) =? lk)); [exact I|].
  apply is_done_bind; [apply IH; [exact Hhi|lia]|]. intros r _. exact I.
Qed.

Lemma words_loop_done : forall fuel hi tord nt maxw st, hi <= n -> (N.to_nat (hi - ts_idx st)%N < fuel)%nat ->
  is_done (words_loop P fuel hi tord nt maxw st).
Proof.
  induction fuel as [|f IH]; intros hi tord nt maxw st Hhi Hf; [lia|]. cbn [words_loop].
  destruct (ts_idx st <? hi) eqn:E; [|exact I]. apply N.ltb_lt in E.
  rewrite rdP by lia. cbn [bind].
  apply is_done_bind.
  { apply bits_loop_done. pose proof (payload_popcount (g (ts_idx st))). change (N.of_nat 70) with 70. lia. }
  intros [spans1 full1] _. cbv beta iota.
  apply is_done_bind.
  { destruct (ts_idx st + 1 <? hi) eqn:E1; [|exact I]. apply N.ltb_lt in E1. rewrite rdP by lia. exact I. }
  intros ck _.
  apply is_done_bind.
  { destruct (SPAN_CAP <=? N.of_nat (length spans1)); [|exact I].
    destruct (SPAN_CAP <=? N.of_nat (length (compact spans1 maxw))); [|exact I].
    apply is_done_bind; [apply give_up_done; [exact Hhi|lia]|]. intros gu _.
    apply is_done_bind; [apply give_up_sum_done; [exact Hhi|lia]|]. intros; exact I. }
  intros [[[[spans2 idx2] ck2] full2] extra] Hcg. cbv beta iota.
  assert (Hidx : ts_idx st + 1 <= idx2).
  { destruct (SPAN_CAP <=? N.of_nat (length spans1)).
    - destruct (SPAN_CAP <=? N.of_nat (length (compact spans1 maxw))).
      + apply bind_inv in Hcg as (gu & Hg & Hcg). apply give_up_ge in Hg.
        apply bind_inv in Hcg as (ex & _ & Hcg).
        inversion Hcg; subst. destruct (fst gu); lia.
      + inversion Hcg; subst. lia.
    - inversion Hcg; subst. lia. }
  destruct (negb (ck2 =? ts_curr_key st)); [exact I|].
  apply IH; [exact Hhi|]. cbn [ts_idx]. lia.
Qed.

(* words_loop consumes at least the word it starts on *)
Lemma words_loop_gt : forall fuel hi tord nt maxw st st', ts_idx st < hi ->
  words_loop P fuel hi tord nt maxw st = Done st' -> ts_idx st < ts_idx st'.
Proof.
  intros [|f] hi tord nt maxw st st' Hlt H; cbn [words_loop] in H; [discriminate|].
  rewrite ltb_true in H by exact Hlt.
  apply bind_inv in H as (w & _ & H). apply bind_inv in H as ([spans1 full1] & _ & H).
  apply bind_inv in H as (ck & _ & H). apply bind_inv in H as ([[[[spans2 idx2] ck2] full2] extra] & Hcg & H).
  assert (Hidx : ts_idx st + 1 <= idx2).
  { destruct (SPAN_CAP <=? N.of_nat (length spans1)).
    - destruct (SPAN_CAP <=? N.of_nat (length (compact spans1 maxw))).
      + apply bind_inv in Hcg as (gu & Hg & Hcg). apply give_up_ge in Hg.
        apply bind_inv in Hcg as (ex & _ & Hcg).
        inversion Hcg; subst. destruct (fst gu); lia.
      + inversion Hcg; subst. lia.
    - inversion Hcg; subst. lia. }
  destruct (negb (ck2 =? ts_curr_key st)).
  - inversion H; subst. cbn [ts_idx]. lia.
  - apply words_loop_ge in H. cbn [ts_idx] in H. lia.
Qed.

(* ---- step 2: terms_loop ---- *)
Lemma terms_loop_done : forall lens idxs tord nt maxw dk spans full lk sums ap,
  Forall (fun hi => hi <= n) lens ->
  is_done (terms_loop P lens tord idxs nt maxw dk spans full lk sums ap).
Proof.
  induction lens as [|hi lrest IH]; intros idxs tord nt maxw dk spans full lk sums ap Hl.
  - destruct idxs; exact I.
  - destruct idxs as [|i0 irest]; [exact I|]. inversion Hl as [|? ? Hhi Hl']; subst. cbn [terms_loop].
    apply is_done_bind; [apply skip_earlier_done; [exact Hhi|lia]|]. intros i _.
    apply is_done_bind.
    { destruct (hi <=? i) eqn:E; [exact I|]. apply N.leb_gt in E. rewrite rdP by lia. cbn [bind].
      destruct (negb (dkey (g i) =? dk)); [exact I|].
      apply is_done_bind; [|intros; exact I]. apply words_loop_done; [exact Hhi|cbn [ts_idx]; lia]. }
    intros [stt present] _. cbv beta iota.
    apply is_done_bind; [apply IH; exact Hl'|].
    intros [[[[[idxs1 sp1] f1] lk1] sums1] ap1] _. exact I.
Qed.

(* the first term is at doc_key by construction, so its cursor strictly advances *)
Lemma terms_loop_progress i0 irest hi lrest tord nt maxw spans full lk sums ap idxs' sp' f' lk' sums' ap' :
  i0 < hi -> hi <= n ->
  terms_loop P (hi :: lrest) tord (i0 :: irest) nt maxw (dkey (g i0)) spans full lk sums ap
    = Done (idxs', sp', f', lk', sums', ap') ->
  exists i0' rest', idxs' = i0' :: rest' /\ i0 < i0'.
Proof.
  intros Hi Hhi H. cbn [terms_loop] in H.
  rewrite skip_earlier_stay in H by assumption. cbn [bind] in H.
  rewrite (proj2 (N.leb_gt hi i0) Hi) in H. rewrite rdP in H by lia. cbn [bind] in H.
  rewrite N.eqb_refl in H. cbn [negb] in H.
  apply bind_inv in H as ([stt present] & Hst & H).
  apply bind_inv in Hst as (s & Hs & Hst). inversion Hst; subst stt present.
  apply words_loop_gt in Hs; [|cbn [ts_idx]; exact Hi]. cbn [ts_idx] in Hs.
  apply bind_inv in H as ([[[[[idxs1 sp1] f1] lk1] sums1] ap1] & _ & H).
  inversion H; subst. exists (ts_idx s), idxs1. split; [reflexivity|exact Hs].
Qed.

(* ---- step 3: docs_loop, including its fuel ---- *)
Lemma docs_loop_done nt maxw : forall fuel (his idxs : list N) acc,
  Forall (fun hi => hi <= n) his -> length idxs = length his ->
  (N.to_nat (hd 0 his - hd 0 idxs)%N < fuel)%nat ->
  is_done (docs_loop P fuel his (hd 0 his) idxs nt maxw acc).
Proof.
  induction fuel as [|f IH]; intros his idxs acc Hl Hlen Hf; [lia|]. cbn [docs_loop].
  destruct idxs as [|i0 irest]; [exact I|].
  destruct his as [|hi0 lrest]; [discriminate Hlen|]. cbn [hd] in *.
  destruct (i0 <? hi0) eqn:E; [|exact I]. apply N.ltb_lt in E.
  pose proof (Forall_inv Hl) as Hhi. cbv beta in Hhi.
  rewrite rdP by lia. cbn [bind].
  apply is_done_bind; [apply terms_loop_done; exact Hl|].
  intros [[[[[idxs1 spans1] full1] lk1] sums1] ap1] Hr. cbv beta iota.
  pose proof Hr as Hr2. apply terms_loop_inv in Hr2 as [Hle _]; [|exact Hlen].
  apply terms_loop_progress in Hr as (i0' & rest' & -> & Hgt); [|exact E|exact Hhi].
  apply (IH (hi0 :: lrest)); [exact Hl| |cbn [hd]; lia].
  rewrite <- Hlen. symmetry. eapply Forall2_len. exact Hle.
Qed.
End Loops.

(* ================= 3. intersect_all: composing the kernel safety theorems ================= *)
Notation len l := (N.of_nat (length l)).

(* ---- the kernels' outputs are no longer than the buffers the wrappers allocate ---- *)
Lemma wr_ok_inv buf cap i u : wr_ok buf cap i = Done u -> i < cap.
Proof. unfold wr_ok. destruct (i <? cap) eqn:E; [intros _; apply N.ltb_lt; exact E|discriminate]. Qed.

Lemma drop_loop_len L R mask cap : forall fuel i j last lo ro no out,
  len lo = no -> len ro = no -> no <= cap ->
  drop_loop L R mask cap fuel i j last lo ro no = Done out -> len (fst out) <= cap /\ len (snd out) <= cap.
Proof.
  induction fuel as [|f IH]; intros i j last lo ro no out H1 H2 H3 H; cbn [drop_loop] in H; [discriminate|].
  destruct (andb _ _).
  - apply bind_inv in H as (ig & _ & H). apply bind_inv in H as (jg & _ & H).
    apply bind_inv in H as (x & _ & H). apply bind_inv in H as (y & _ & H).
    destruct (_ <? _); [eapply IH; [| | |exact H]; assumption|].
    destruct (_ <? _); [eapply IH; [| | |exact H]; assumption|].
    destruct (fresh _ _ _); [|eapply IH; [| | |exact H]; assumption].
    apply bind_inv in H as (u1 & Hw & H). apply wr_ok_inv in Hw. apply bind_inv in H as (u2 & _ & H).
    eapply IH; [| | |exact H]; cbn [length]; lia.
  - inversion H; subst. cbn [fst snd]. rewrite !rev_length. lia.
Qed.

Lemma adj_loop_len L R mask d cap : forall fuel i j last lo ro no out,
  len lo = no -> len ro = no -> no <= cap ->
  adj_loop L R mask d cap fuel i j last lo ro no = Done out -> len (fst out) <= cap /\ len (snd out) <= cap.
Proof.
  induction fuel as [|f IH]; intros i j last lo ro no out H1 H2 H3 H; cbn [adj_loop] in H; [discriminate|].
  destruct (andb _ _).
  - apply bind_inv in H as (ig & _ & H). apply bind_inv in H as (jg & _ & H).
    apply bind_inv in H as (x & _ & H). apply bind_inv in H as (y & _ & H).
    destruct (_ <? _); [eapply IH; [| | |exact H]; assumption|].
    destruct (_ <? _); [eapply IH; [| | |exact H]; assumption|].
    destruct (fresh _ _ _); [|eapply IH; [| | |exact H]; assumption].
    apply bind_inv in H as (u1 & Hw & H). apply wr_ok_inv in Hw. apply bind_inv in H as (u2 & _ & H).
    eapply IH; [| | |exact H]; cbn [length]; lia.
  - inversion H; subst. cbn [fst snd]. rewrite !rev_length. lia.
Qed.

Definition short2 (l r : list N) (out : list N * list N) : Prop :=
  len (fst out) <= len l /\ len (fst out) <= len r /\ len (snd out) <= len l /\ len (snd out) <= len r.

Lemma intersect_drop_len l r mask out : intersect_drop l r mask = Done out -> short2 l r out.
Proof.
  unfold intersect_drop. cbv zeta. intro H. apply drop_loop_len in H; [|reflexivity|reflexivity|lia].
  unfold short2. lia.
Qed.

Lemma adjacent_len l r mask out : adjacent l r mask = Done out -> short2 l r out.
Proof.
  unfold adjacent. cbv zeta. intro H. apply bind_inv in H as (j0 & _ & H).
  apply adj_loop_len in H; [|reflexivity|reflexivity|lia]. unfold short2. lia.
Qed.

Lemma mrg_len l r : length (mrg l r) = (length l + length r)%nat.
Proof. rewrite <- (Permutation_length (mrg_perm l r)). apply app_length. Qed.

Lemma mrgd_len : forall l r, (length (mrgd l r) <= length l + length r)%nat.
Proof.
  induction l as [|x l IHl]; intro r; [rewrite mrgd_nil_l; lia|].
  induction r as [|y r IHr]; [rewrite mrgd_nil_r; lia|].
  rewrite mrgd_cons. destruct (x <? y); [cbn [length]; specialize (IHl (y :: r)); cbn [length] in IHl; lia|].
  destruct (y <? x); cbn [length] in *; [lia|]. specialize (IHl r). lia.
Qed.

(* ---- api-level Hoare predicate: no fault; out of fuel only if T fails; P on values; exceptions allowed ---- *)
Definition aokp {A} (T : Prop) (Q : A -> Prop) (r : api A) : Prop :=
  match r with AOk a => Q a | AExc _ => True | AFault _ _ _ => False | AFuel => ~ T end.

Lemma aokp_bind {A B} T (Q : A -> Prop) (Q' : B -> Prop) (r : api A) (k : A -> api B) :
  aokp T Q r -> (forall a, r = AOk a -> Q a -> aokp T Q' (k a)) -> aokp T Q' (abind r k).
Proof. destruct r; cbn [aokp abind]; intros H Hk; auto. Qed.

Lemma aokp_weaken {A} T (Q Q' : A -> Prop) (r : api A) : (forall a, Q a -> Q' a) -> aokp T Q r -> aokp T Q' r.
Proof. destruct r; cbn [aokp]; auto. Qed.

Lemma aokp_lift {A} (T T' : Prop) (Q Q' : A -> Prop) (r : result A) :
  okp F0 T' Q r -> (T -> T') -> (forall a, r = Done a -> Q a -> Q' a) -> aokp T Q' (lift r).
Proof. destruct r; cbn [okp lift aokp]; intros H HT HQ; auto. Qed.

Lemma aokp_lift_done {A} T (Q : A -> Prop) (r : result A) a : r = Done a -> Q a -> aokp T Q (lift r).
Proof. intros -> H. exact H. Qed.

Section IA.
Variable K : N.                               (* a strict bound on the length of every term's postings *)
Let T : Prop := 12 * K <= B62.

Lemma k_drop l r mask c d : len l < c * K -> len r < d * K -> c <= 12 -> d <= 12 ->
  aokp T (short2 l r) (lift (intersect_drop l r mask)).
Proof.
  intros Hl Hr Hc Hd. eapply aokp_lift; [apply drop_ok| |].
  - unfold T, B62. intro. cbv zeta. nia.
  - intros a Ha _. eapply intersect_drop_len. exact Ha.
Qed.

Lemma k_adj l r mask c d : len l < c * K -> len r < d * K -> c <= 12 -> d <= 12 ->
  aokp T (short2 l r) (lift (adjacent l r mask)).
Proof.
  intros Hl Hr Hc Hd. eapply aokp_lift; [apply adjacent_ok| |].
  - unfold T, B62. intro. cbv zeta. nia.
  - intros a Ha _. eapply adjacent_len. exact Ha.
Qed.

Lemma k_merge l r : aokp T (fun m => len m = len l + len r) (lift (merge l r)).
Proof. eapply aokp_lift_done; [apply merge_model|]. rewrite mrg_len. lia. Qed.

Lemma k_merge_drop l r : aokp T (fun m => len m <= len l + len r) (lift (merge_drop l r)).
Proof. eapply aokp_lift_done; [apply merge_drop_model|]. pose proof (mrgd_len l r). lia. Qed.

Lemma take_idx_len ws idx : length (take_idx ws idx) = length idx.
Proof. apply map_length. Qed.

Definition pair_lt (c : N) (p : list N * list N) : Prop := len (fst p) < c * K /\ len (snd p) < c * K.

Lemma ia_pair_ok curr nxt : len curr < K -> len nxt < K -> aokp T (pair_lt 3) (ia_pair curr nxt).
Proof.
  intros Hc Hn. unfold ia_pair.
  eapply aokp_bind; [apply (k_drop curr nxt header_mask 1 1); lia|]. intros i1 _ (A1 & A2 & A3 & A4).
  eapply aokp_bind; [apply (k_adj curr nxt header_mask 1 1); lia|]. intros a1 _ (B1 & B2 & B3 & B4).
  eapply aokp_bind; [apply k_merge|]. intros lhs1 _ L1.
  eapply aokp_bind; [apply k_merge|]. intros rhs1 _ R1.
  eapply aokp_bind; [apply (k_adj nxt curr header_mask 1 1); lia|]. intros a2 _ (C1 & C2 & C3 & C4).
  eapply aokp_bind; [apply k_merge|]. intros lhs2 _ L2.
  eapply aokp_bind; [apply k_merge|]. intros rhs2 _ R2.
  rewrite ?map_length, ?take_idx_len in *.
  cbn [aokp]. unfold pair_lt. cbn [fst snd]. lia.
Qed.

Definition acc_lt (acc : option (list N * list N)) : Prop :=
  match acc with Some p => pair_lt 3 p | None => True end.

Lemma ia_fold_ok curr : len curr < K -> forall rest acc, Forall (fun e => len e < K) rest -> acc_lt acc ->
  aokp T acc_lt (ia_fold curr rest acc).
Proof.
  intros Hc. induction rest as [|nxt more IH]; intros acc Hr Ha; cbn [ia_fold]; [exact Ha|].
  inversion Hr as [|? ? Hn Hm]; subst.
  eapply aokp_bind; [apply ia_pair_ok; assumption|]. intros lr _ [P1 P2].
  destruct acc as [[ll lrh]|]; [|apply IH; [exact Hm|split; assumption]].
  destruct Ha as [A1 A2]. cbn [fst snd] in A1, A2.
  eapply aokp_bind; [apply (k_drop ll (fst lr) header_mask 3 3); lia|]. intros il _ (B1 & _).
  eapply aokp_bind; [apply (k_drop lrh (snd lr) header_mask 3 3); lia|]. intros ir _ (C1 & _).
  apply IH; [exact Hm|]. split; cbn [fst snd]; rewrite take_idx_len; lia.
Qed.

Lemma slice_all_headers_ok hs : len hs < 12 * K -> forall encs, Forall (fun e => len e < K) encs ->
  aokp T (fun _ => True) (slice_all_headers encs hs).
Proof.
  intros Hh. induction encs as [|e rest IH]; intro Hf; cbn [slice_all_headers]; [exact I|].
  inversion Hf as [|? ? He Hr]; subst.
  eapply aokp_bind.
  { unfold slice_header. eapply (aokp_lift T _ (fun _ => True) (fun _ => True)).
    - eapply okp_bind; [apply keep_ok|]. intros ix _. exact I.
    - unfold T, B62. rewrite map_length. intro. cbv zeta. lia.
    - auto. }
  intros s _ _. eapply aokp_bind; [apply IH; exact Hr|]. intros more _ _. exact I.
Qed.

Lemma intersect_all_ok encs : Forall (fun e => len e < K) encs -> aokp T (fun _ => True) (intersect_all encs).
Proof.
  intro Hf. unfold intersect_all. destruct encs as [|curr [|nxt rest]]; try exact I.
  inversion Hf as [|? ? Hc Hr]; subst.
  eapply aokp_bind; [apply ia_fold_ok; [exact Hc|exact Hr|exact I]|]. intros acc _ Ha.
  destruct acc as [[ll lr]|]; [|exact I]. destruct Ha as [A1 A2]. cbn [fst snd] in A1, A2.
  eapply aokp_bind; [apply k_merge_drop|]. intros m1 _ M1. rewrite !map_length in M1.
  pose proof (filter_len_le (fun h => hdr_unit <=? h) ll) as Hfl.
  eapply aokp_bind; [apply k_merge_drop|]. intros m2 _ M2.
  eapply aokp_bind; [apply k_merge_drop|]. intros m3 _ M3.
  cbv beta in M2, M3.
  eapply aokp_bind; [apply slice_all_headers_ok; [rewrite map_length; lia|exact Hf]|]. intros sl _ _. exact I.
Qed.
End IA.

(* ================= 4. span_search ================= *)
Lemma cum_bound : forall sl a, Forall (fun x => x <= a + len (concat sl)) (cum a sl).
Proof.
  induction sl as [|s r IH]; intro a; cbn [cum concat].
  - constructor; [cbn [length]; lia|constructor].
  - constructor; [lia|]. eapply Forall_impl; [|apply IH]. cbv beta. intros x Hx. rewrite app_length. lia.
Qed.

Lemma Forall_tl {A} (Q : A -> Prop) l : Forall Q l -> Forall Q (tl l).
Proof. intro H. destruct H; [constructor|assumption]. Qed.

Lemma aokp_lift_isdone {A} T (r : result A) : is_done r -> aokp T (fun _ => True) (lift r).
Proof. destruct r; cbn [is_done lift aokp]; tauto. Qed.

(* K is any strict bound on the posting lengths; fuel can only run out if 12 K exceeds 2^62 *)
Lemma span_search_ok K encs slop : Forall (fun e => len e < K) encs ->
  aokp (12 * K <= B62) (fun _ => True) (span_search encs slop).
Proof.
  intro Hf. unfold span_search.
  eapply aokp_bind; [apply intersect_all_ok; exact Hf|]. intros [posns lengths] Hia _. cbv beta iota.
  apply intersect_all_inv in Hia as (sl & _ & -> & ->).
  apply aokp_lift_isdone.
  assert (Hb : Forall (fun hi => hi <= len (concat sl)) (tl (cum 0 sl))).
  { apply Forall_tl. eapply Forall_impl; [|apply (cum_bound sl 0)]. cbv beta. intros; lia. }
  apply docs_loop_done.
  - exact Hb.
  - rewrite removelast_cum_length, tl_cum_length. reflexivity.
  - assert (hd 0 (tl (cum 0 sl)) <= len (concat sl)); [|lia].
    destruct Hb as [|x l Hx _]; cbn [hd]; lia.
Qed.

Definition api_nofault {A} (r : api A) : Prop := match r with AFault _ _ _ => False | _ => True end.
Definition api_safe {A} (r : api A) : Prop := match r with AFault _ _ _ | AFuel => False | _ => True end.

Lemma aokp_nofault {A} T Q (r : api A) : aokp T Q r -> api_nofault r.
Proof. destruct r; cbn; auto. Qed.
Lemma aokp_safe {A} (T : Prop) Q (r : api A) : aokp T Q r -> T -> api_safe r.
Proof. destruct r; cbn; auto. Qed.

Lemma len_le_concat (encs : list (list N)) : Forall (fun e => len e < 1 + len (concat encs)) encs.
Proof.
  induction encs as [|e r IH]; [constructor|]. cbn [concat]. rewrite app_length. constructor; [lia|].
  eapply Forall_impl; [|exact IH]. cbv beta. intros; lia.
Qed.

(* (a) no access of the span search is out of bounds, for ANY list of posting arrays and any slop *)
Theorem span_search_no_fault : forall encs slop, api_nofault (span_search encs slop).
Proof. intros encs slop. eapply aokp_nofault. apply (span_search_ok _ encs slop (len_le_concat encs)). Qed.

(* (b) and every loop finishes within the fuel of the model.  The only fuel that is not a function of the
   input sizes is the 66 doublings of the galloping kernels called by _intersect_all (Intersect_Safe.v), hence
   the bound: an array of 2^58 uint64 is 2^61 bytes, beyond any address space. *)
Theorem span_search_safe : forall encs slop, Forall (fun e => len e < 2 ^ 58) encs ->
  api_safe (span_search encs slop).
Proof.
  intros encs slop Hf. eapply aokp_safe; [apply (span_search_ok (2 ^ 58) encs slop Hf)|].
  vm_compute. discriminate.
Qed.

Corollary span_search_safe' : forall encs slop r, Forall (fun e => len e < 2 ^ 58) encs ->
  span_search encs slop = r -> (forall k b i, r <> AFault k b i) /\ r <> AFuel.
Proof.
  intros encs slop r Hf <-. pose proof (span_search_safe encs slop Hf) as H.
  destruct (span_search encs slop); cbn [api_safe] in H; try destruct H; split; intros; discriminate.
Qed.

(* ================= 5. slop_freqs ================= *)
Lemma get_all_posts_ok T ix : forall ts, aokp T (fun _ => True) (get_all_posts ix ts).
Proof.
  induction ts as [|t rest IH]; cbn [get_all_posts]; [exact I|].
  eapply aokp_bind; [unfold get_posts; destruct (lookup t (ix_posts ix)); exact I|]. intros w _ _.
  eapply aokp_bind; [exact IH|]. intros ws _ _. exact I.
Qed.

Lemma concat_len_le c : forall docs : list (list N), Forall (fun d => len d <= c) docs ->
  len (concat docs) <= c * len docs.
Proof.
  induction 1 as [|d r Hd _ IH]; cbn [concat length]; [lia|]. rewrite app_length. lia.
Qed.

Lemma posting_short docs ix t e : wf_docs docs -> index_ok docs ix ->
  lookup t (ix_posts ix) = Some e -> e = encode_spec (term_pairs docs t) /\ len e < 2 ^ 58.
Proof.
  intros [Hs Hn] (Hposts & Habsent & _ & _) Hl.
  destruct (in_dec N.eq_dec t (concat docs)) as [Hin|Hnin]; [|rewrite (Habsent t Hnin) in Hl; discriminate].
  rewrite (Hposts t Hin) in Hl. inversion Hl; subst e. split; [reflexivity|].
  pose proof (Codec_Proofs2.encode_spec_length (term_pairs docs t)) as H1.
  rewrite term_pairs_tp in *. pose proof (tp_length_le t docs 0) as H2.
  pose proof (concat_len_le 262143 docs Hs) as H3.
  change (2 ^ 28) with 268435456 in Hn. change (2 ^ 58) with 288230376151711744. lia.
Qed.

(* PosnBitArray.phrase_freqs(term_ids, slop) on an index that represents some corpus: no out-of-bounds access
   (including the scatter into the per-row buffer: every matching key is a row) and no fuel exhaustion *)
Theorem slop_freqs_safe : forall docs ix ts slop, wf_docs docs -> index_ok docs ix ->
  api_safe (slop_freqs ix ts slop).
Proof.
  intros docs ix ts slop Hwf Hok.
  apply (aokp_safe (12 * 2 ^ 58 <= B62) (fun _ => True)); [|vm_compute; discriminate].
  unfold slop_freqs. destruct (negb (forallb (known ix) ts)); [exact I|].
  destruct (Nat.ltb (length ts) 2) eqn:E2; [exact I|]. apply Nat.ltb_ge in E2.
  eapply aokp_bind; [apply get_all_posts_ok|]. intros enc Henc _.
  apply get_all_posts_inv in Henc.
  assert (Hshort : Forall (fun e => len e < 2 ^ 58) enc).
  { clear E2. induction Henc as [|t e ts encs Hl _ IH]; constructor; [|exact IH].
    eapply posting_short; eassumption. }
  eapply aokp_bind; [apply span_search_ok; exact Hshort|]. intros pf Hpf _.
  apply aokp_lift_isdone.
  destruct (store_many_ok pf (repeat 0 (length (ix_lens ix)))) as (d' & E & _); [|rewrite E; exact I].
  rewrite Forall_forall. intros [k c] Hin. cbn [fst]. rewrite repeat_length, (lens_length docs ix Hok).
  pose proof (span_search_inv enc slop pf Hpf k c Hin) as Hall.
  destruct Henc as [|t e ts encs Hl _]; [cbn [length] in E2; lia|].
  inversion Hall as [|? ? (w & Hw & Hk) _]; subst.
  destruct (posting_short docs ix t e Hwf Hok Hl) as [-> _].
  apply (posting_word_doc docs t w Hwf) in Hw.
  destruct (N.ltb_spec (dkey w) (len docs)) as [Hlt|Hge]; [exact Hlt|].
  rewrite nth_overflow in Hw by lia. destruct Hw.
Qed.

(* ================= 6. the span table stays within its 512 slots through the whole walk ================= *)
Lemma compact_len spans maxw : (length (compact spans maxw) <= length spans)%nat.
Proof. unfold compact. apply filter_len_le. Qed.

Lemma words_loop_table P : forall fuel hi tord nt maxw st st',
  len (ts_spans st) <= SPAN_CAP -> words_loop P fuel hi tord nt maxw st = Done st' -> len (ts_spans st') <= SPAN_CAP.
Proof.
  induction fuel as [|f IH]; intros hi tord nt maxw st st' Hl H; cbn [words_loop] in H; [discriminate|].
  destruct (ts_idx st <? hi); [|inversion H; subst; exact Hl].
  apply bind_inv in H as (w & _ & H). apply bind_inv in H as ([spans1 full1] & Hbl & H).
  apply bits_loop_len in Hbl; [|exact Hl]. cbn [fst] in Hbl.
  apply bind_inv in H as (ck & _ & H). apply bind_inv in H as ([[[[spans2 idx2] ck2] full2] extra] & Hcg & H).
  assert (H2 : len spans2 <= SPAN_CAP).
  { pose proof (compact_len spans1 maxw) as Hc.
    destruct (SPAN_CAP <=? len spans1).
    - destruct (SPAN_CAP <=? len (compact spans1 maxw)).
      + apply bind_inv in Hcg as (gu & _ & Hcg). apply bind_inv in Hcg as (ex & _ & Hcg). inversion Hcg; subst. lia.
      + inversion Hcg; subst. lia.
    - inversion Hcg; subst. exact Hbl. }
  destruct (negb (ck2 =? ts_curr_key st)).
  - inversion H; subst. exact H2.
  - eapply IH; [|exact H]. exact H2.
Qed.

Lemma terms_loop_table P : forall lens idxs tord nt maxw dk spans full lk sums ap idxs' sp' f' lk' sums' ap',
  len spans <= SPAN_CAP ->
  terms_loop P lens tord idxs nt maxw dk spans full lk sums ap = Done (idxs', sp', f', lk', sums', ap') ->
  len sp' <= SPAN_CAP.
Proof.
  induction lens as [|hi lrest IH]; intros idxs tord nt maxw dk spans full lk sums ap idxs' sp' f' lk' sums' ap' Hl H.
  - destruct idxs; cbn [terms_loop] in H; inversion H; subst; exact Hl.
  - destruct idxs as [|i0 irest]; [cbn [terms_loop] in H; inversion H; subst; exact Hl|].
    cbn [terms_loop] in H. apply bind_inv in H as (i & _ & H).
    apply bind_inv in H as ([stt present] & Hst & H).
    apply bind_inv in H as ([[[[[idxs1 sp1] f1] lk1] sums1] ap1] & Hr & H). inversion H; subst.
    eapply IH; [|exact Hr].
    destruct (hi <=? i); [inversion Hst; subst; exact Hl|].
    apply bind_inv in Hst as (w0 & _ & Hst). destruct (negb (dkey w0 =? dk)); [inversion Hst; subst; exact Hl|].
    apply bind_inv in Hst as (s & Hs & Hst). inversion Hst; subst.
    eapply words_loop_table; [|exact Hs]. exact Hl.
Qed.

(* ================= 7. non-vacuity / stress ================= *)
(* one document in which the two phrase terms alternate 400 times, slop 1000: the table fills up (512 spans),
   compaction cannot free a slot, and the second term takes the give-up path (the table returned by terms_loop
   still has SPAN_CAP entries, which only the give_up branch of words_loop leaves behind); nothing faults.
   This is the situation in which the unrepaired code stored to spans.end[512] (D16).  With give_up_sum (D32) the
   skipped words still count, so the estimate is min(400, 400) = 400 (it was 9 before that repair). *)
Fixpoint alt12 (k : nat) : list N := match k with O => [] | S k' => 1 :: 2 :: alt12 k' end.

Definition table_probe (docs : list (list N)) (ts : list N) (slop : N) : option (nat * bool * list N * api (list N)) :=
  match index false 100 docs with
  | AOk ix =>
      match get_all_posts ix ts with
      | AOk enc =>
          match intersect_all enc with
          | AOk (posns, lengths) =>
              let nt := N.of_nat (length lengths - 1) in
              let P := mem_of_list posns in
              match rd 0 P 0 with
              | Done w =>
                  match terms_loop P (tl lengths) 0 (removelast lengths) nt (Z.of_N (nt + slop)) (dkey w) [] false 0 [] true with
                  | Done (_, spans, full, _, sums, _) => Some (length spans, full, sums, slop_freqs ix ts slop)
                  | _ => None
                  end
              | _ => None
              end
          | _ => None
          end
      | _ => None
      end
  | _ => None
  end.

Example span_table_full_no_fault :
  table_probe [alt12 400; [1; 2]] [1; 2] 1000 = Some (512%nat, true, [400; 400], AOk [400; 1]).
Proof. vm_compute. reflexivity. Qed.

(* control: half as many repetitions stay below the capacity (432 spans), every word is consumed *)
Example span_table_below_cap :
  table_probe [alt12 200; [1; 2]] [1; 2] 60 = Some (432%nat, false, [200; 200], AOk [231; 1]).
Proof. vm_compute. reflexivity. Qed.

Print Assumptions bits_loop_done.
Print Assumptions words_loop_done.
Print Assumptions terms_loop_done.
Print Assumptions docs_loop_done.
Print Assumptions terms_loop_table.
Print Assumptions span_search_no_fault.
Print Assumptions span_search_safe.
Print Assumptions span_search_safe'.
Print Assumptions slop_freqs_safe.
