(* C15, window clause: "for phrases of distinct terms with length + slop <= 18, every document in which the terms occur
   in order within a window of length + slop tokens matches", stated against the executable oracle
   Span_Spec.window_match, for the repaired model (Span.v) — proved under the one hypothesis that clause 1 already
   needs, no_alias64 (Span_Exact2.v; witness D, an exact occurrence, is also a window: window_needs_no_alias64).

     span_table_keeps_window   (T1w) the pure span table keeps an in-order window.  The tracked span is the chain of
                                     COPIES of the span seeded at the first term's position: a copy keeps beg = end =
                                     that position, gains the term bit and drops the accepted position, so it does not
                                     matter which (earlier, first-fit) occurrence the parent took; the chain only
                                     needs some acceptable position of each term, and the window's own position is
                                     one (distance <= length + slop - 1).  Its width is 0, so the strict test of
                                     _collect_spans is passed.
     span_search_target_w      (T2w) span_search credits the document (pure fold, or give-up => full => min_popcount)
     window_match_spec               window_match = true gives strictly increasing offsets holding the terms, all
                                     within the window of the first
     slop_window_match_partial       the clause on index / slop_freqs
     slop_window_match_64            corollary for documents of at most 64 tokens
   The candidate words: a window of at most 18 tokens starting at the first term lies in the first term's bucket or the
   next one, which is what intersect_all_keeps (Span_Exact2) keeps; window_needs_18 shows the bound is needed.
   NoDup ts is part of the clause but not used by the proof. *)
From Coq Require Import ZArith List Lia ZifyN ZifyNat ZifyBool Bool Sorted Permutation.
From SA Require Import Base.Prelude Gen.SourceConsts Kernels.Intersect Kernels.Spec Kernels.Intersect_Correct Kernels.Adjacent_Correct
  Kernels.Linear Kernels.Linear_Proofs Codec.Codec Codec.Codec_Spec Codec.Codec_Proofs
  Index.Index Index.Index_Spec Index.Index_Proofs Index.Index_Proofs2 Index.Index_Proofs3
  Query.Phrase Query.Phrase_Spec Span.Span Span.Span_Spec Span.Span_Exact2.
Import ListNotations.
Open Scope N_scope.

(* ---------- W1: the lineage of an in-order window ---------- *)
(* The span seeded at the first term's position pos 0 is copied at every acceptance; the copy keeps beg = end = pos 0,
   gains the term bit and drops the accepted position.  Whatever earlier occurrence the first-fit rule takes, the copy
   is the same, so the chain of copies only needs SOME acceptable position of each term: pos t is one. *)
Section LineageW.
Variables (nt : N) (maxw : Z) (pos : N -> N).
Hypothesis Hnt64 : nt <= 64.
Hypothesis Hwin : forall j, j < nt -> (Z.abs (Z.of_N (pos j) - Z.of_N (pos 0)) <= maxw)%Z.

Definition okcw (c : N) : Prop := forall j, 1 <= j -> j < nt -> c <> pos j -> c mod 64 <> (pos j) mod 64.
Hypothesis Hp_ok : okcw (pos 0).
Hypothesis Hpos0 : forall j, 1 <= j -> j < nt -> pos 0 <> pos j.

Definition linw (i : N) (G : span) : Prop :=
  sp_beg G = Z.of_N (pos 0) /\ sp_end G = Z.of_N (pos 0) /\ sp_terms G = N.ones i /\
  forall j, 1 <= j -> j < nt -> N.testbit (sp_posns G) ((pos j) mod 64) = false.

Definition goodw (t : N) (pending : bool) (G : span) : Prop :=
  exists i, linw i G /\ i <= nt /\
    (is_stuck nt G = true \/ i = nt \/ i = t + 1 \/ (i = t /\ pending = true /\ 1 <= t)).

Lemma goodw_step t c pending spans G : t < nt -> okcw c -> In G spans -> goodw t pending G ->
  exists G', In G' (stepT nt maxw t c spans) /\ goodw t (andb pending (negb (c =? pos t))) G'.
Proof.
  intros Ht Hc HIn (i & HL & Hi & Hcase). unfold stepT, step_spans. rewrite pmask_mod.
  set (cm := c mod 64).
  set (US := upd_s nt maxw (2 ^ t) (2 ^ cm) (Z.of_N c)).
  assert (Hkeep : US G = G -> exists G', In G' (map US spans ++ fresh_span (2 ^ t) (2 ^ cm) (Z.of_N c)
                       :: map (upd_c (2 ^ t) (2 ^ cm)) (filter (forks nt maxw (2 ^ t) (2 ^ cm) (Z.of_N c)) spans)) /\ G' = G).
  { intros E. exists G. split; [|reflexivity]. apply in_or_app. left. rewrite <- E. apply in_map. exact HIn. }
  destruct (is_stuck nt G) eqn:Est.
  { destruct (Hkeep (upd_s_stuck nt maxw _ _ _ _ Est)) as (G' & HG' & ->). exists G. split; [exact HG'|].
    exists i. split; [exact HL|]. split; [exact Hi|]. left. exact Est. }
  destruct HL as (Hb & He & Htm & Hclr).
  assert (Hold : i = nt \/ i = t + 1 -> is_old (2 ^ t) G = true).
  { intros Hor. rewrite is_old_bit, Htm, ones_bit. apply N.ltb_lt. lia. }
  destruct Hcase as [Hs|[Hn|[Hn|(Hn & Hpend & Ht1)]]].
  - congruence.
  - destruct (Hkeep (upd_s_old nt maxw _ _ _ _ (Hold (or_introl Hn)))) as (G' & HG' & ->). exists G. split; [exact HG'|].
    exists i. repeat split; try assumption. right. left. exact Hn.
  - destruct (Hkeep (upd_s_old nt maxw _ _ _ _ (Hold (or_intror Hn)))) as (G' & HG' & ->). exists G. split; [exact HG'|].
    exists i. repeat split; try assumption. right. right. left. exact Hn.
  - subst i pending. cbn [andb].
    assert (Hnew : is_old (2 ^ t) G = false).
    { rewrite is_old_bit, Htm, ones_bit. apply N.ltb_ge. lia. }
    destruct (rejects maxw (2 ^ cm) (Z.of_N c) G) eqn:Erej.
    + assert (Hne : forall j, 1 <= j -> j < nt -> c <> pos j).
      { intros j Hj1 Hj2 ->. unfold rejects in Erej. unfold cm in Erej. rewrite collide_bit, Hclr in Erej by assumption.
        cbn [orb] in Erej. rewrite Hb in Erej. apply Z.ltb_lt in Erej. specialize (Hwin j Hj2). lia. }
      exists (US G). split; [apply in_or_app; left; apply in_map; exact HIn|].
      assert (E : US G = {| sp_terms := N.land (N.lor (sp_terms G) (2 ^ t)) (wnot (2 ^ t));
                            sp_posns := N.lor (sp_posns G) (2 ^ cm); sp_beg := sp_beg G; sp_end := sp_end G |}).
      { unfold US, upd_s. rewrite Est, Hnew, Erej. reflexivity. }
      rewrite E. exists t. split; [|split; [lia|]].
      * repeat split; cbn [sp_beg sp_end sp_terms sp_posns]; try assumption.
        -- rewrite Htm. apply N.bits_inj. intros k.
           rewrite N.land_spec, N.lor_spec, wnot_bit, !ones_bit, N.pow2_bits_eqb.
           2:{ apply N.lt_le_trans with (2 ^ 64); [apply N.pow_lt_mono_r; lia | reflexivity]. }
           destruct (N.ltb_spec k t), (N.eqb_spec t k), (N.ltb_spec k 64); cbn; try reflexivity; lia.
        -- intros j Hj1 Hj2. rewrite N.lor_spec, Hclr, N.pow2_bits_eqb by assumption.
           cbn [orb]. apply N.eqb_neq. unfold cm. apply Hc; try assumption. apply Hne; assumption.
      * right. right. right. destruct (N.eqb_spec c (pos t)) as [Ec|Ec].
        -- exfalso. apply (Hne t); [exact Ht1|exact Ht|exact Ec].
        -- cbn. repeat split; try reflexivity. exact Ht1.
    + exists (upd_c (2 ^ t) (2 ^ cm) G). split.
      * apply in_or_app. right. right. apply in_map. apply filter_In. split; [exact HIn|].
        unfold forks, is_new. rewrite Est, Hnew, Erej. reflexivity.
      * exists (t + 1). split; [|split; [lia|right; right; left; reflexivity]].
        repeat split; cbn [upd_c sp_beg sp_end sp_terms sp_posns]; try assumption.
        -- rewrite Htm, lor_ones_succ. f_equal. lia.
        -- intros j Hj1 Hj2. rewrite N.land_spec, N.lor_spec, Hclr by assumption. cbn [orb].
           rewrite wnot_bit by (unfold cm; apply N.lt_le_trans with (2 ^ 64); [apply N.pow_lt_mono_r; [lia|apply N.mod_lt; discriminate] | reflexivity]).
           destruct (N.testbit (2 ^ cm) ((pos j) mod 64)); [rewrite andb_false_r|]; reflexivity.
Qed.

Definition good_optw (t : N) (pending : bool) (spans : list span) : Prop :=
  (t = 0 /\ pending = true) \/ exists G, In G spans /\ goodw t pending G.

Lemma fresh_linw : linw 1 (fresh_span (2 ^ 0) (2 ^ ((pos 0) mod 64)) (Z.of_N (pos 0))).
Proof.
  repeat split; cbn [fresh_span sp_beg sp_end sp_terms sp_posns].
  intros j Hj1 Hj2. rewrite N.pow2_bits_eqb. apply N.eqb_neq. apply Hp_ok; try assumption. apply Hpos0; assumption.
Qed.

Lemma good_optw_step t c pending spans : t < nt -> okcw c -> good_optw t pending spans ->
  good_optw t (andb pending (negb (c =? pos t))) (stepT nt maxw t c spans).
Proof.
  intros Ht Hc [[-> ->]|(G & HIn & HG)].
  - cbn [andb]. destruct (N.eqb_spec c (pos 0)) as [->|Hne]; cbn [negb].
    + right. exists (fresh_span (2 ^ 0) (2 ^ ((pos 0) mod 64)) (Z.of_N (pos 0))). split.
      * unfold stepT, step_spans. rewrite pmask_mod. apply in_or_app. right. left. reflexivity.
      * exists 1. split; [exact fresh_linw|]. split; [lia|]. right. right. left. reflexivity.
    + left. split; reflexivity.
  - right. apply (goodw_step t c pending spans G); assumption.
Qed.

Lemma good_optw_run t : t < nt -> forall cs pending spans, Forall okcw cs -> good_optw t pending spans ->
  good_optw t (andb pending (negb (existsb (fun c => c =? pos t) cs))) (run_term nt maxw t spans cs).
Proof.
  intros Ht. induction cs as [|c cs IH]; intros pending spans HF HG; cbn [run_term fold_left existsb].
  - rewrite andb_true_r. exact HG.
  - inversion HF as [|? ? Hc HF']; subst.
    pose proof (IH _ _ HF' (good_optw_step t c pending spans Ht Hc HG)) as H. unfold run_term in H.
    rewrite negb_orb. rewrite andb_assoc. exact H.
Qed.

Lemma goodw_next t G : goodw t false G -> goodw (t + 1) true G.
Proof.
  intros (i & HL & Hi & Hcase). exists i. split; [exact HL|]. split; [exact Hi|].
  destruct Hcase as [H|[H|[H|(_ & H & _)]]]; [left; exact H | right; left; exact H | | discriminate].
  right. right. right. repeat split; [exact H | lia].
Qed.

Lemma good_optw_terms : forall evs t spans, t + N.of_nat (length evs) = nt -> evs <> [] ->
  Forall (Forall okcw) evs ->
  (forall k, (k < length evs)%nat -> In (pos (t + N.of_nat k)) (nth k evs [])) ->
  good_optw t true spans ->
  exists G, In G (run_terms nt maxw t evs spans) /\ goodw (nt - 1) false G.
Proof.
  induction evs as [|cs rest IH]; intros t spans Hlen Hne HF Hocc HG; [congruence|].
  cbn [run_terms]. cbn [length] in Hlen.
  inversion HF as [|? ? Hcs HF']; subst.
  assert (Ht : t < nt) by lia.
  pose proof (good_optw_run t Ht cs true spans Hcs HG) as H1.
  assert (Hex : existsb (fun c => c =? pos t) cs = true).
  { apply existsb_exists. exists (pos t). split; [|apply N.eqb_refl].
    specialize (Hocc 0%nat ltac:(cbn; lia)). cbn in Hocc. rewrite N.add_0_r in Hocc. exact Hocc. }
  rewrite Hex in H1. cbn [andb negb] in H1.
  destruct H1 as [[_ H]|(G & HIn & HGd)]; [discriminate|].
  destruct rest as [|cs2 rest2].
  - cbn [run_terms]. exists G. split; [exact HIn|]. cbn [length] in Hlen. replace (nt - 1) with t by lia. exact HGd.
  - apply (IH (t + 1)); [cbn [length] in *; lia | discriminate | exact HF' | |].
    + intros k Hk. specialize (Hocc (S k) ltac:(cbn [length] in *; lia)). cbn [nth] in Hocc.
      replace (t + 1 + N.of_nat k) with (t + N.of_nat (S k)) by lia. exact Hocc.
    + right. exists G. split; [exact HIn|]. apply goodw_next. exact HGd.
Qed.

Lemma goodw_final G : 1 <= nt -> goodw (nt - 1) false G -> is_complete G nt = true /\ sp_width G = 0%Z.
Proof.
  intros Hnt1 (i & (Hb & He & Htm & _) & Hi & Hcase). split.
  - unfold is_complete. destruct Hcase as [H|[H|[H|(_ & H & _)]]]; [| | |discriminate].
    + unfold is_stuck in H. apply andb_true_iff in H. destruct H as [_ H]. rewrite H. apply orb_true_r.
    + rewrite Htm, pc_ones, H, N.eqb_refl. reflexivity.
    + rewrite Htm, pc_ones. replace i with nt by lia. rewrite N.eqb_refl. reflexivity.
  - unfold sp_width. rewrite Hb, He. lia.
Qed.
End LineageW.

(* ---------- T1w: the pure table keeps an in-order window ---------- *)
Theorem span_table_keeps_window nt maxw (pos : N -> N) evs :
  1 <= nt -> nt <= 64 -> (0 < maxw)%Z ->
  (forall j, j < nt -> (Z.abs (Z.of_N (pos j) - Z.of_N (pos 0%N)) <= maxw)%Z) ->
  okcw nt pos (pos 0) -> (forall j, 1 <= j -> j < nt -> pos 0 <> pos j) ->
  N.of_nat (length evs) = nt -> Forall (Forall (okcw nt pos)) evs ->
  (forall k, (k < length evs)%nat -> In (pos (N.of_nat k)) (nth k evs [])) ->
  collect (run_terms nt maxw 0 evs []) nt maxw <> [].
Proof.
  intros H1 H64 Hw Hwin Hp Hp0 Hlen HF Hocc.
  destruct (good_optw_terms nt maxw pos H64 Hwin Hp Hp0 evs 0 []) as (G & HIn & HG).
  - lia.
  - destruct evs; [cbn in Hlen; lia|discriminate].
  - exact HF.
  - intros k Hk. rewrite N.add_0_l. apply Hocc. exact Hk.
  - left. split; reflexivity.
  - assert (Hfin : is_complete G nt = true /\ sp_width G = 0%Z) by (eapply goodw_final; eassumption).
    destruct Hfin as [Hc Hwd].
    apply (collect_nonempty nt maxw _ G HIn Hc). rewrite Hwd. exact Hw.
Qed.

(* ---------- T2w: span_search credits a document with an in-order window ---------- *)
Theorem span_search_target_w encs slop pf trs d (pos : N -> N) :
  intersect_all encs = AOk (concat (map seg_of trs), cum 0 (map seg_of trs)) ->
  Forall (seg_d d) trs ->
  (1 <= length trs)%nat -> (length trs <= 64)%nat ->
  (forall j, j < N.of_nat (length trs) -> (Z.abs (Z.of_N (pos j) - Z.of_N (pos 0%N)) <= Z.of_N (N.of_nat (length trs) + slop))%Z) ->
  okcw (N.of_nat (length trs)) pos (pos 0) -> (forall j, 1 <= j -> j < N.of_nat (length trs) -> pos 0 <> pos j) ->
  Forall (Forall (okcw (N.of_nat (length trs)) pos)) (seg_evs trs) ->
  (forall k, (k < length trs)%nat -> In (pos (N.of_nat k)) (nth k (seg_evs trs) [])) ->
  span_search encs slop = AOk pf ->
  exists c, In (d, c) pf /\ 1 <= c /\ NoDup (map fst pf).
Proof.
  intros Hia Hsegs H1 H64 Hwin Hp Hp0 Hokc Hocc H.
  unfold span_search in H. rewrite Hia in H. cbn [abind] in H.
  apply lift_inv in H.
  set (sl := map seg_of trs) in *. set (l := concat sl) in *.
  rewrite cum_length in H. replace (S (length sl) - 1)%nat with (length trs) in H by (unfold sl; rewrite map_length; lia).
  set (nt := N.of_nat (length trs)) in *. set (maxw := Z.of_N (nt + slop)) in *.
  set (g := fun i : N => nth (N.to_nat i) l 0).
  assert (rdP : forall i, i < N.of_nat (length l) -> rd 0 (mem_of_list l) i = Done (g i)).
  { intros i Hi. rewrite rd_mem_of_list. apply lrd_ok. exact Hi. }
  assert (El : l = [] ++ concat (map seg_of trs) ++ []) by (cbn [app]; rewrite app_nil_r; reflexivity).
  pose proof (layout_TL d trs [] [] l 0 Hsegs El eq_refl) as HTL.
  pose proof (layout_evs trs [] [] l 0 El eq_refl) as Hevs.
  pose proof (layout_nz d trs [] [] l 0 Hsegs El eq_refl) as Hnz.
  fold g in HTL, Hevs. fold sl in HTL.
  assert (Hlen_evs : length (seg_evs trs) = length trs) by (unfold seg_evs; apply map_length).
  assert (Hmw : (0 <= maxw)%Z) by (unfold maxw; lia).
  assert (Hcoll : collect (run_terms nt maxw 0 (seg_evs trs) []) nt maxw <> []).
  { apply (span_table_keeps_window nt maxw pos).
    - unfold nt. lia.
    - unfold nt. lia.
    - unfold maxw, nt. lia.
    - exact Hwin.
    - exact Hp.
    - exact Hp0.
    - rewrite Hlen_evs. reflexivity.
    - exact Hokc.
    - rewrite Hlen_evs. exact Hocc. }
  rewrite <- Hevs in Hcoll.
  assert (Hhis : N.of_nat (length (tl (cum 0 sl))) <= 64).
  { rewrite tl_cum_length. unfold sl. rewrite map_length. lia. }
  assert (Hhis_ne : tl (cum 0 sl) <> []).
  { intros E. apply (f_equal (@length N)) in E. rewrite tl_cum_length in E. unfold sl in E. rewrite map_length in E. cbn in E. lia. }
  assert (Hnd : NoDup (map fst pf)).
  { apply (docs_loop_mono (mem_of_list l) g (N.of_nat (length l)) rdP nt maxw) in H. destruct H as [_ H]. apply H. constructor. }
  destruct (docs_loop_target (mem_of_list l) g (N.of_nat (length l)) rdP nt maxw d (tl (cum 0 sl)) (ams_from 0 trs) Hhis Hmw Hhis_ne Hnz Hcoll
              (S (length l)) (removelast (cum 0 sl)) [] pf HTL) as (c & Hin & Hc).
  - inversion HTL as [|i0 hi0 am irest hrest ams0 Hok HTL' E1 E2 E3].
    + destruct trs as [|[[pre run] post] trs']; [cbn [length] in H1; lia|]. cbn [ams_from] in *. discriminate.
    + destruct am as [a0 m0]. destruct Hok as (O1 & O2 & O3 & O4 & O5 & _). lia.
  - exact H.
  - exists c. repeat split; assumption.
Qed.

(* ---------- W3: what the executable oracle window_match says ---------- *)
Lemma in_order_nil_d t rest pos limit : in_order_from (t :: rest) [] pos limit = false.
Proof. reflexivity. Qed.
Lemma in_order_cons t rest x d' pos limit :
  in_order_from (t :: rest) (x :: d') pos limit =
  if limit <? pos then false else orb (andb (x =? t) (in_order_from rest d' (pos + 1) limit)) (in_order_from (t :: rest) d' (pos + 1) limit).
Proof. reflexivity. Qed.

Lemma nth_error_mid {A} (pre : list A) x d : nth_error (pre ++ x :: d) (length pre) = Some x.
Proof. rewrite nth_error_app2 by lia. rewrite Nat.sub_diag. reflexivity. Qed.

Lemma in_order_spec : forall ph d pre pos limit, pos = N.of_nat (length pre) -> in_order_from ph d pos limit = true ->
  exists qs, Forall2 (fun t q => nth_error (pre ++ d) q = Some t) ph qs /\ StronglySorted lt qs /\
             Forall (fun q => (length pre <= q)%nat /\ N.of_nat q <= limit) qs.
Proof.
  induction ph as [|t rest IHph]; intros d pre pos limit Hpos H.
  - exists []. repeat split; constructor.
  - revert pre pos Hpos H. induction d as [|x d' IHd]; intros pre pos Hpos H; [rewrite in_order_nil_d in H; discriminate|].
    rewrite in_order_cons in H. destruct (N.ltb_spec limit pos) as [Hl|Hl]; [discriminate|].
    apply orb_true_iff in H. destruct H as [H|H].
    + apply andb_true_iff in H. destruct H as [Hx H]. apply N.eqb_eq in Hx. subst x.
      destruct (IHph d' (pre ++ [t]) (pos + 1) limit) as (qs & F & S & B); [rewrite app_length; cbn [length]; lia|exact H|].
      rewrite <- app_assoc in F. cbn [app] in F. rewrite app_length in B. cbn [length] in B.
      exists (length pre :: qs). split; [constructor; [apply nth_error_mid|exact F]|]. split.
      * constructor; [exact S|]. eapply Forall_impl; [|exact B]. cbn. intros; lia.
      * constructor; [lia|]. eapply Forall_impl; [|exact B]. cbn. intros; lia.
    + destruct (IHd (pre ++ [x]) (pos + 1)) as (qs & F & S & B); [rewrite app_length; cbn [length]; lia|exact H|].
      rewrite <- app_assoc in F. cbn [app] in F. rewrite app_length in B. cbn [length] in B.
      exists qs. split; [exact F|]. split; [exact S|]. eapply Forall_impl; [|exact B]. cbn. intros; lia.
Qed.

(* the phrase terms at strictly increasing offsets qs of the document, all within w tokens of the first *)
Definition in_window (ph doc : list N) (w : N) (qs : list nat) : Prop :=
  Forall2 (fun t q => nth_error doc q = Some t) ph qs /\ StronglySorted lt qs /\
  Forall (fun q => N.of_nat q + 1 <= N.of_nat (hd 0%nat qs) + w) qs.

Lemma window_spec ph w : ph <> [] -> 1 <= w -> forall d pre pos, pos = N.of_nat (length pre) ->
  window_match_from ph d pos w = true -> exists qs, in_window ph (pre ++ d) w qs.
Proof.
  intros Hne Hw. induction d as [|x d' IH]; intros pre pos Hpos H; cbn [window_match_from] in H; [discriminate|].
  apply orb_true_iff in H. destruct H as [H|H].
  - destruct ph as [|t rest]; [congruence|]. apply andb_true_iff in H. destruct H as [Hx H]. apply N.eqb_eq in Hx. subst x.
    destruct (in_order_spec rest d' (pre ++ [t]) (pos + 1) (pos + w - 1)) as (qs & F & S & B); [rewrite app_length; cbn [length]; lia|exact H|].
    rewrite <- app_assoc in F. cbn [app] in F. rewrite app_length in B. cbn [length] in B.
    exists (length pre :: qs). split; [constructor; [apply nth_error_mid|exact F]|]. split.
    + constructor; [exact S|]. eapply Forall_impl; [|exact B]. cbn. intros; lia.
    + cbn [hd]. constructor; [lia|]. eapply Forall_impl; [|exact B]. cbn. intros q [_ Hq]. lia.
  - destruct (IH (pre ++ [x]) (pos + 1)) as (qs & Hq); [rewrite app_length; cbn [length]; lia|exact H|].
    rewrite <- app_assoc in Hq. cbn [app] in Hq. exists qs. exact Hq.
Qed.

Lemma window_match_spec ph doc w : ph <> [] -> 1 <= w -> window_match ph doc w = true -> exists qs, in_window ph doc w qs.
Proof. intros Hne Hw H. apply (window_spec ph w Hne Hw doc [] 0 eq_refl H). Qed.

Lemma sslt_nth_lt_nat : forall l a b, StronglySorted lt l -> (a < b)%nat -> (b < length l)%nat -> (nth a l 0 < nth b l 0)%nat.
Proof.
  induction l as [|x l IH]; intros a b Hs Hab Hb; cbn [length] in Hb; [lia|].
  inversion Hs as [|? ? Hs' Hf]; subst. destruct b as [|b]; [lia|]. destruct a as [|a]; cbn [nth].
  - rewrite Forall_forall in Hf. apply Hf. apply nth_In. lia.
  - apply IH; [exact Hs'|lia|lia].
Qed.

(* ---------- the window clause ---------- *)
Theorem slop_window_match_partial : forall docs bs ix ts slop v d,
  wf_docs docs -> index false bs docs = AOk ix -> 1 <= slop -> (2 <= length ts)%nat -> NoDup ts ->
  N.of_nat (length ts) + slop <= 18 ->
  slop_freqs ix ts slop = AOk v -> (d < length docs)%nat ->
  window_match ts (nth d docs []) (N.of_nat (length ts) + slop) = true ->
  no_alias64 ts (nth d docs []) ->
  nth d v 0 <> 0.
Proof.
  intros docs bs ix ts slop v d Hwf Hix _ Hn2 _ H18 Hsf Hdlt Hwm Hna.
  destruct (index_any_ok docs bs Hwf) as (ix' & E & Hok). rewrite Hix in E. injection E as <-.
  destruct Hok as (Hposts & _ & Hterms & Hlens).
  set (doc := nth d docs []) in *. set (n := length ts) in *. set (dN := N.of_nat d).
  destruct (window_match_spec ts doc (N.of_nat n + slop)) as (qs & HF2 & Hsort & Hbound); [destruct ts; [cbn in Hn2; lia|discriminate]|lia|exact Hwm|].
  assert (Hlen_qs : length qs = n) by (symmetry; eapply Forall2_length; exact HF2).
  set (P := fun k : nat => nth k qs 0%nat).
  assert (Hp : forall k, (k < n)%nat -> nth_error doc (P k) = Some (nth k ts 0)).
  { intros k Hk. exact (Forall2_nth _ 0 0%nat _ _ HF2 k Hk). }
  assert (HPlt : forall j, (1 <= j)%nat -> (j < n)%nat -> (P 0%nat < P j)%nat).
  { intros j Hj1 Hj2. apply sslt_nth_lt_nat; [exact Hsort|lia|lia]. }
  assert (HPw : forall j, (j < n)%nat -> N.of_nat (P j) + 1 <= N.of_nat (P 0%nat) + (N.of_nat n + slop)).
  { intros j Hj. rewrite Forall_forall in Hbound. replace (P 0%nat) with (hd 0%nat qs) by (unfold P; destruct qs; reflexivity).
    apply Hbound. apply nth_In. lia. }
  assert (Hdoc_in : In doc docs) by (apply nth_In; exact Hdlt).
  assert (Hts_in : forall t, In t ts -> In t (concat docs)).
  { intros t Ht. destruct (In_nth ts t 0 Ht) as (k & Hk & <-). apply in_concat. exists doc. split; [exact Hdoc_in|].
    eapply nth_error_In. apply Hp. exact Hk. }
  set (enc := fun t => encode_spec (tp_from 0 docs t)).
  unfold slop_freqs in Hsf.
  assert (Hknown : forallb (known ix) ts = true).
  { apply forallb_forall. intros t Ht. apply (known_true docs ix t Hterms). apply Hts_in, Ht. }
  rewrite Hknown in Hsf. cbn [negb] in Hsf.
  assert (Hlt2 : Nat.ltb (length ts) 2 = false) by (apply Nat.ltb_ge; exact Hn2). rewrite Hlt2 in Hsf.
  rewrite (get_all_posts_map ix enc) in Hsf.
  2:{ intros t Ht. rewrite (Hposts t (Hts_in t Ht)), term_pairs_tp. reflexivity. }
  cbn [abind] in Hsf.
  destruct (span_search (map enc ts) slop) as [pf| | |] eqn:Ess; cbn [abind] in Hsf; try discriminate.
  apply lift_inv in Hsf.
  set (posf := fun j : N => N.of_nat (P (N.to_nat j))).
  assert (Hokc_pos : forall c t, nth_error doc (N.to_nat c) = Some t -> In t ts -> okcw (N.of_nat n) posf c).
  { intros c t Hc Ht j Hj1 Hj2 Hne.
    assert (Hjn : (N.to_nat j < length ts)%nat) by (unfold n in Hj2; lia).
    assert (Hq : N.to_nat c <> P (N.to_nat j)) by (unfold posf in Hne; lia).
    pose proof (Hna (N.to_nat c) (P (N.to_nat j)) t (nth (N.to_nat j) ts 0) Hc (Hp (N.to_nat j) Hjn) Ht (nth_In ts 0 Hjn) Hq) as H.
    rewrite N2Nat.id in H. exact H. }
  destruct ts as [|t0 [|t1 ts']]; [cbn in Hn2; lia|cbn in Hn2; lia|].
  assert (HPL : Forall PL (map enc (t0 :: t1 :: ts'))).
  { apply Forall_forall. intros e He. apply in_map_iff in He. destruct He as (t & <- & _). apply posting_PL. exact Hwf. }
  cbn [map] in HPL, Ess.
  destruct (intersect_all_keeps (enc t0) (enc t1) (map enc ts') HPL) as (sl & Eia & F2).
  change (enc t0 :: enc t1 :: map enc ts') with (map enc (t0 :: t1 :: ts')) in *.
  set (ts := t0 :: t1 :: ts') in *.
  assert (Hlen_sl : length sl = n) by (rewrite <- (Forall2_length _ _ _ F2), map_length; reflexivity).
  assert (Hw : forall k, (k < n)%nat -> exists w, In w (enc (nth k ts 0)) /\ dkey w = dN /\ In (N.of_nat (P k)) (wcs w) /\
                                              Hd w = word_of dN (N.of_nat (P k) / 18) 0).
  { intros k Hk. destruct (posting_has docs (nth k ts 0) d (P k) Hwf Hdlt (Hp k Hk)) as (w & W1 & W2 & W3).
    exists w. repeat split; try assumption. apply wform_bucket; [|exact W2|exact W3].
    destruct (posting_PL docs (nth k ts 0) Hwf) as (HF & _ & _). rewrite Forall_forall in HF. apply HF, W1. }
  destruct (Hw 0%nat ltac:(lia)) as (w0 & W01 & W02 & W03 & W04). cbn [nth] in W01.
  set (h := word_of dN (N.of_nat (P 0%nat) / 18) 0) in *.
  assert (Hbk : forall k, (k < n)%nat -> word_of dN (N.of_nat (P k) / 18) 0 = h \/ word_of dN (N.of_nat (P k) / 18) 0 = h + 2^18).
  { intros k Hk. pose proof (HPw k Hk) as Hb.
    assert (Hge : (P 0%nat <= P k)%nat) by (destruct k; [lia|apply Nat.lt_le_incl, HPlt; lia]).
    replace (N.of_nat (P k)) with (N.of_nat (P 0%nat) + N.of_nat (P k - P 0%nat)) by lia.
    destruct (div18_near (N.of_nat (P 0%nat)) (N.of_nat (P k - P 0%nat)) ltac:(unfold n in *; lia)) as [E|E]; rewrite E; [left; reflexivity|right; apply word_succ_bucket]. }
  assert (Hh_curr : In h (map Hd (enc t0))) by (rewrite <- W04; apply in_map; exact W01).
  assert (Hh_rest : forall e', In e' (map enc (t1 :: ts')) -> In h (map Hd e') \/ In (h + 2^18) (map Hd e')).
  { intros e' He'. apply In_nth with (d := []) in He'. destruct He' as (j & Hj & <-). rewrite map_length in Hj.
    destruct (Hw (S j) ltac:(cbn [length] in *; unfold n, ts; cbn [length]; lia)) as (w & W1 & _ & _ & W4).
    change (nth (S j) ts 0) with (nth j (t1 :: ts') 0) in W1.
    rewrite (nth_map' enc (t1 :: ts') j 0 []) by exact Hj.
    destruct (Hbk (S j) ltac:(unfold n, ts; cbn [length] in *; lia)) as [E|E]; rewrite E in W4; [left|right]; rewrite <- W4; apply in_map; exact W1. }
  set (trs := map (tr_of dN) sl).
  assert (Hseg : forall k, (k < n)%nat -> exists idxs,
             nth k sl [] = take_idx (enc (nth k ts 0)) idxs /\ StronglySorted N.lt idxs /\
             Forall (fun a => a < N.of_nat (length (enc (nth k ts 0)))) idxs /\
             exists w, In w (nth k sl []) /\ dkey w = dN /\ In (N.of_nat (P k)) (wcs w)).
  { intros k Hk. pose proof (Forall2_nth _ [] [] _ _ F2 k ltac:(rewrite map_length; exact Hk)) as Hks.
    rewrite (nth_map' enc ts k 0 []) in Hks by exact Hk. destruct Hks as (idxs & E1 & E2 & E3 & E4).
    exists idxs. repeat split; try assumption.
    destruct (Hw k Hk) as (w & W1 & W2 & W3 & W4). exists w. repeat split; try assumption.
    destruct (In_nth _ _ 0 W1) as (a & Ha & Ea). rewrite E1. apply take_idx_in. exists (N.of_nat a). rewrite Nat2N.id. split; [|symmetry; exact Ea].
    apply (E4 (N.of_nat a) h); [lia| |exact Hh_curr|exact Hh_rest].
    rewrite Nat2N.id, Ea, W4. apply Hbk. exact Hk. }
  assert (Hsegs_all : forall s, In s sl -> exists k, (k < n)%nat /\ s = nth k sl []).
  { intros s Hs. destruct (In_nth _ _ [] Hs) as (k & Hk & <-). exists k. split; [lia|reflexivity]. }
  assert (Hmap_seg : map seg_of trs = sl).
  { unfold trs. rewrite map_map. rewrite <- (map_id sl) at 2. apply map_ext_in. intros s Hs.
    destruct (Hsegs_all s Hs) as (k & Hk & ->). destruct (Hseg k Hk) as (idxs & E1 & E2 & E3 & _).
    apply (seg_split docs (nth k ts 0) d (nth k sl []) idxs Hwf E1 E2 E3). }
  assert (Hsegd : Forall (seg_d dN) trs).
  { unfold trs. apply Forall_forall. intros tr Htr. apply in_map_iff in Htr. destruct Htr as (s & <- & Hs).
    destruct (Hsegs_all s Hs) as (k & Hk & ->). destruct (Hseg k Hk) as (idxs & E1 & E2 & E3 & w & W1 & W2 & _).
    apply (seg_is_d docs (nth k ts 0) d (nth k sl []) idxs Hwf E1 E3 w W1 W2). }
  assert (Hlen_trs : length trs = n) by (unfold trs; rewrite map_length; exact Hlen_sl).
  assert (Hevs_nth : forall k, (k < n)%nat -> nth k (seg_evs trs) [] = seg_ev d (nth k sl [])).
  { intros k Hk. unfold seg_evs, trs. rewrite map_map. rewrite (nth_map' _ sl k [] []) by lia. reflexivity. }
  assert (Hevs_all : forall cs, In cs (seg_evs trs) -> exists k, (k < n)%nat /\ cs = seg_ev d (nth k sl [])).
  { intros cs Hcs. destruct (In_nth _ _ [] Hcs) as (k & Hk & <-). unfold seg_evs in Hk. rewrite map_length, Hlen_trs in Hk.
    exists k. split; [exact Hk|apply Hevs_nth; exact Hk]. }
  rewrite <- Hmap_seg in Eia.
  destruct (span_search_target_w (map enc ts) slop pf trs dN posf Eia Hsegd) as (c & Hin & Hc & Hnd).
  - lia.
  - unfold n in *. lia.
  - rewrite Hlen_trs. intros j Hj. unfold posf. cbn [N.to_nat]. pose proof (HPw (N.to_nat j) ltac:(lia)) as Hb.
    assert (Hge : (P 0%nat <= P (N.to_nat j))%nat) by (destruct (N.to_nat j) eqn:Ej; [lia|apply Nat.lt_le_incl, HPlt; lia]). lia.
  - rewrite Hlen_trs. apply (Hokc_pos (posf 0) t0); [unfold posf; rewrite Nat2N.id; cbn [N.to_nat]; exact (Hp 0%nat ltac:(lia))|left; reflexivity].
  - rewrite Hlen_trs. intros j Hj1 Hj2. unfold posf. cbn [N.to_nat]. pose proof (HPlt (N.to_nat j) ltac:(lia) ltac:(lia)). lia.
  - rewrite Hlen_trs. apply Forall_forall. intros cs Hcs. destruct (Hevs_all cs Hcs) as (k & Hk & ->). destruct (Hseg k Hk) as (idxs & E1 & E2 & E3 & _).
    apply Forall_forall. intros c Hc. apply (Hokc_pos c (nth k ts 0)); [|apply nth_In; exact Hk].
    apply (seg_ev_pos docs (nth k ts 0) d (nth k sl []) idxs Hwf E1 E3 c Hc).
  - intros k Hk. rewrite Hlen_trs in Hk. rewrite (Hevs_nth k Hk). destruct (Hseg k Hk) as (idxs & E1 & E2 & E3 & w & W1 & W2 & W3).
    unfold posf. rewrite Nat2N.id. apply (seg_ev_has d (nth k sl []) w _ W1 W2 W3).
  - exact Ess.
  - rewrite (store_many_nodup pf _ v d c Hsf Hnd Hin). lia.
Qed.

Corollary slop_window_match_64 : forall docs bs ix ts slop v d,
  wf_docs docs -> index false bs docs = AOk ix -> 1 <= slop -> (2 <= length ts)%nat -> NoDup ts ->
  N.of_nat (length ts) + slop <= 18 ->
  slop_freqs ix ts slop = AOk v -> (d < length docs)%nat ->
  window_match ts (nth d docs []) (N.of_nat (length ts) + slop) = true ->
  (length (nth d docs []) <= 64)%nat -> nth d v 0 <> 0.
Proof.
  intros docs bs ix ts slop v d Hwf Hix Hs Hn2 Hnd H18 Hsf Hd Hwm HL.
  apply (slop_window_match_partial docs bs ix ts slop v d); try assumption. apply short_doc_no_alias64. exact HL.
Qed.

(* ---------- non-vacuity, and the two side conditions are needed ---------- *)
(* a loose window (gaps, and an earlier decoy occurrence of the second term that first-fit takes) *)
Example window_nonvacuous :
  exists ix v, index false 100 [[7; 7]; [2; 7; 1; 7; 2; 7; 7; 3; 7]] = AOk ix /\ slop_freqs ix [1; 2; 3] 3 = AOk v /\
               window_match [1; 2; 3] [2; 7; 1; 7; 2; 7; 7; 3; 7] 6 = true /\ occ [1; 2; 3] [2; 7; 1; 7; 2; 7; 7; 3; 7] = 0 /\ nth 1 v 0 <> 0.
Proof.
  assert (E : exists ix, index false 100 [[7; 7]; [2; 7; 1; 7; 2; 7; 7; 3; 7]] = AOk ix /\ exists v, slop_freqs ix [1; 2; 3] 3 = AOk v).
  { eexists. split; [vm_compute; reflexivity|]. eexists. vm_compute. reflexivity. }
  destruct E as (ix & E1 & v & E2). exists ix, v. split; [exact E1|]. split; [exact E2|].
  split; [vm_compute; reflexivity|]. split; [vm_compute; reflexivity|].
  assert (Hwf : wf_docs [[7; 7]; [2; 7; 1; 7; 2; 7; 7; 3; 7]]) by (split; [repeat constructor; vm_compute; discriminate|vm_compute; reflexivity]).
  apply (slop_window_match_64 _ 100 ix [1; 2; 3] 3 v 1 Hwf E1); first [exact E2 | cbn; lia | vm_compute; reflexivity | idtac].
  repeat constructor; cbn; intuition discriminate.
Qed.

(* witness D (Span_Exact2) is an exact occurrence, hence a window of 4 = 3 + 1 tokens, with distinct terms: without
   no_alias64 the window clause fails too *)
Example window_needs_no_alias64 :
  match index false 100 [witD] with
  | AOk ix => NoDup [1; 2; 3] /\ window_match [1; 2; 3] witD 4 = true /\ slop_freqs ix [1; 2; 3] 1 = AOk [0]
  | _ => False end.
Proof. vm_compute. split; [repeat constructor; cbn; intuition discriminate|]. split; reflexivity. Qed.

(* length + slop = 20: a@17 and b@36 are 20 tokens apart inclusive (a window of length + slop), but in buckets 0 and 2 *)
Definition witW : list N := repeat 9 17 ++ [1] ++ repeat 9 18 ++ [2].
Example window_needs_18 :
  match index false 100 [witW] with
  | AOk ix => length witW = 37%nat /\ window_match [1; 2] witW (2 + 18) = true /\ slop_freqs ix [1; 2] 18 = AOk [0]
  | _ => False end.
Proof. vm_compute. repeat split; reflexivity. Qed.

Print Assumptions span_table_keeps_window.
Print Assumptions span_search_target_w.
Print Assumptions window_match_spec.
Print Assumptions slop_window_match_partial.
Print Assumptions slop_window_match_64.
Print Assumptions window_nonvacuous.
Print Assumptions window_needs_no_alias64.
Print Assumptions window_needs_18.
