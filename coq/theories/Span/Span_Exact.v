(* C15, clause 1 ("for slop >= 1 a document that contains the phrase exactly still matches") — DECIDED: FALSE.

   The clause is refuted, on the model (this file, by computation) and on the implementation (same inputs,
   /var/tmp/c15x/repro.py): the span search records which positions a span has used in a 64-bit mask computed as
   [1 << (posn % 64)] with a 32-bit shift (Span.pmask: positions alias modulo 32, and a position = 31 (mod 32)
   sets 33 bits).  A position of a later term that is OUT of a span's window is OR-ed into the span's position
   mask and never removed ("the position bit stays OR-ed in").  If that stale bit aliases the position at which
   the exact occurrence continues, the continuation is rejected as "seen before", and the exact occurrence
   produces no complete span.

   Part 1: refutations (closed, by vm_compute).
   Part 2: what IS true of the model (restricted statements), see the section comments. *)
From Coq Require Import ZArith List Lia ZifyN ZifyNat ZifyBool Bool.
From SA Require Import Base.Prelude Gen.SourceConsts Kernels.Linear Kernels.Linear_Proofs Codec.Codec Index.Index Index.Index_Spec
  Query.Phrase Query.Phrase_Spec Span.Span Span.Span_Spec.
Import ListNotations.
Open Scope N_scope.

(* ------------------------------------------------------------------------------------------------------------ *)
(* Part 1 — refutations                                                                                         *)
(* ------------------------------------------------------------------------------------------------------------ *)

(* Witness A (smallest found: ONE document of 33 tokens, 2-term phrase, distinct terms).
     doc = b x^30 a b        (a = 1, b = 2, x = 9);  phrase [a; b];  exact occurrence at positions 31, 32.
   The span of a@31 has position mask pmask 31 = bits 31..63 (33 bits).  b@0 is out of its window (31 > 2 + slop
   for slop <= 28) and leaves the stale bit 0 in the mask; b@32 has pmask 32 = bit 0: "seen before", rejected.  The
   span is never complete (its popcount 34 is neither 2 terms nor 2 positions), so slop 1..28 all give 0. *)
Definition witA : list N := 2 :: repeat 9 30 ++ [1; 2].

Example slop_loses_exact_match_refuted :
  exists docs bs ix ts slop v d,
    wf_docs docs /\ index false bs docs = AOk ix /\ 1 <= slop /\ (2 <= length ts)%nat /\
    slop_freqs ix ts slop = AOk v /\ (d < length docs)%nat /\ occ ts (nth d docs []) > 0 /\ nth d v 0 = 0.
Proof.
  assert (E : exists ix, index false 100 [witA] = AOk ix /\ slop_freqs ix [1; 2] 1 = AOk [0]).
  { eexists. split; [vm_compute; reflexivity | vm_compute; reflexivity]. }
  destruct E as (ix & E1 & E2).
  exists [witA], 100%nat, ix, [1; 2], 1, [0], 0%nat.
  split. { split; [repeat constructor; vm_compute; discriminate | vm_compute; reflexivity]. }
  split; [exact E1|]. split; [lia|]. split; [cbn; lia|]. split; [exact E2|].
  split; [cbn; lia|]. split; [vm_compute; reflexivity | reflexivity].
Qed.

(* the same document loses the exact match for EVERY slop from 1 to 28 (29 and 30 find it again) *)
Example witA_all_slops :
  match index false 100 [witA] with
  | AOk ix => occ [1; 2] witA = 1 /\
              forallb (fun s => match slop_freqs ix [1; 2] s with AOk [0] => true | _ => false end)
                      (map N.of_nat (seq 1 28)) = true /\
              slop_freqs ix [1; 2] 29 = AOk [1]
  | _ => False
  end.
Proof. vm_compute. repeat split; reflexivity. Qed.

(* Witness B (no position = 31 mod 32 involved; 39 tokens, 3 distinct terms; pure modulo-32 aliasing + the strict
   width test of _collect_spans):
     doc = a x x x b x c x^25 b x x x a b c   (a@0 b@4 c@6 | b@32 a@36 b@37 c@38), phrase [a; b; c], slop 1.
   max width = 4.  The span of a@36 takes b@32 first (distance 4 <= 4), its copy {a,b} keeps beg = end = 36.
   c@6 is out of the copy's window and leaves the stale bit 6; c@38 aliases bit 6: rejected.  The two spans that do
   become "complete" (by 3 position bits) have width exactly 4, and _collect_spans wants width < 4. *)
Definition witB : list N := [1; 9; 9; 9; 2; 9; 3] ++ repeat 9 25 ++ [2; 9; 9; 9; 1; 2; 3].

Example slop_loses_exact_match_refuted_B :
  match index false 100 [witB] with
  | AOk ix => occ [1; 2; 3] witB = 1 /\ slop_freqs ix [1; 2; 3] 1 = AOk [0] /\ slop_freqs ix [1; 2; 3] 2 = AOk [2]
  | _ => False
  end.
Proof. vm_compute. repeat split; reflexivity. Qed.

(* Witness C — a SECOND, independent cause, in _intersect_all (no aliasing: both documents have 19 tokens).
     docs = [ x a x x x x a a x x x x x x x a b x a ;  x^9 a x^5 a x a b ],  phrase [a; b], any slop.
   Document 0 has both terms in its first 18 positions, so header 0 (doc 0, bucket 0) is a candidate;
   [to_lhs = last_lhs_headers - (1 << 18)] wraps around for header 0 and the merged header list is no longer
   sorted; the galloping slice then skips header (doc 1, bucket 1) and drops the word of b@18 in document 1, whose
   exact occurrence a@17 b@18 straddles buckets 0 and 1.  Document 1 gets 0 for every slop. *)
Definition witC0 : list N := [9;1;9;9;9;9;1;1;9;9;9;9;9;9;9;1;2;9;1].
Definition witC1 : list N := repeat 9 9 ++ [1;9;9;9;9;9;1;9;1;2].

Example slop_loses_exact_match_refuted_C :
  match index false 100 [witC0; witC1] with
  | AOk ix => occ [1; 2] witC1 = 1 /\ slop_freqs ix [1; 2] 1 = AOk [6; 0] /\ slop_freqs ix [1; 2] 40 = AOk [6; 0] /\
              match get_all_posts ix [1; 2] with
              | AOk [ea; eb] => length eb = 2%nat /\ (* b has a word in each document ... *)
                                match intersect_all [ea; eb] with
                                | AOk (_, lengths) => lengths = [0; 3; 4]   (* ... but only ONE of them survives *)
                                | _ => False end
              | _ => False end
  | _ => False
  end.
Proof. vm_compute. repeat split; reflexivity. Qed.

Print Assumptions slop_loses_exact_match_refuted.
Print Assumptions witA_all_slops.
Print Assumptions slop_loses_exact_match_refuted_B.
Print Assumptions slop_loses_exact_match_refuted_C.

(* ------------------------------------------------------------------------------------------------------------ *)
(* Part 2 — what is true: the span table itself keeps an exact occurrence when positions do not alias and the    *)
(* table does not fill                                                                                          *)
(* ------------------------------------------------------------------------------------------------------------ *)
(* ---------- bit facts ---------- *)
Lemma pc_double n : popcount (2 * n) = popcount n.
Proof. destruct n; reflexivity. Qed.
Lemma pc_succ_double n : popcount (2 * n + 1) = popcount n + 1.
Proof. destruct n as [|p]; [reflexivity|]. cbn. lia. Qed.

Lemma lor_2b x b y c : N.lor (2 * x + N.b2n b) (2 * y + N.b2n c) = 2 * N.lor x y + N.b2n (orb b c).
Proof.
  apply N.bits_inj. intros i. rewrite N.lor_spec. destruct (N.eq_dec i 0) as [->|Hi].
  - rewrite !N.testbit_0_r. reflexivity.
  - replace i with (N.succ (N.pred i)) by lia. rewrite !N.testbit_succ_r, N.lor_spec. reflexivity.
Qed.
Lemma pc_2b x b : popcount (2 * x + N.b2n b) = popcount x + N.b2n b.
Proof. destruct b; cbn [N.b2n]; [apply pc_succ_double | rewrite !N.add_0_r; apply pc_double]. Qed.

Lemma pc_lor_bit : forall k a, popcount (N.lor a (2 ^ k)) = if N.testbit a k then popcount a else popcount a + 1.
Proof.
  induction k as [|k IH] using N.peano_ind; intros a;
    pose proof (N.div2_odd a) as Ha; remember (N.div2 a) as x; remember (N.odd a) as b; clear Heqx Heqb; subst a.
  - change (2 ^ 0) with (2 * 0 + N.b2n true). rewrite lor_2b, N.testbit_0_r, !pc_2b, N.lor_0_r.
    destruct b; cbn; lia.
  - rewrite N.pow_succ_r'. replace (2 * 2 ^ k) with (2 * 2 ^ k + N.b2n false) by (cbn; lia).
    rewrite lor_2b, N.testbit_succ_r, !pc_2b, IH, orb_false_r. destruct (N.testbit x k); lia.
Qed.

Lemma pc_ones : forall i, popcount (N.ones i) = i.
Proof.
  induction i as [|i IH] using N.peano_ind; [reflexivity|].
  replace (N.ones (N.succ i)) with (2 * N.ones i + 1).
  - rewrite pc_succ_double, IH. lia.
  - rewrite !N.ones_equiv, N.pow_succ_r'. assert (0 < 2 ^ i) by (apply N.neq_0_lt_0, N.pow_nonzero; lia). lia.
Qed.

Lemma ones_bit i k : N.testbit (N.ones i) k = (k <? i).
Proof.
  destruct (N.ltb_spec k i).
  - apply N.ones_spec_low; lia.
  - apply N.ones_spec_high; lia.
Qed.

Lemma lor_ones_succ i : N.lor (N.ones i) (2 ^ i) = N.ones (N.succ i).
Proof.
  apply N.bits_inj. intros k. rewrite N.lor_spec, !ones_bit, N.pow2_bits_eqb.
  destruct (N.ltb_spec k i), (N.eqb_spec i k), (N.ltb_spec k (N.succ i)); try reflexivity; lia.
Qed.

Lemma wnot_bit x k : x < W64 -> N.testbit (wnot x) k = andb (k <? 64) (negb (N.testbit x k)).
Proof.
  intros Hx. unfold wnot. rewrite N.mod_small by exact Hx. rewrite N.lxor_spec.
  change wmask with (N.ones 64). rewrite ones_bit.
  destruct (N.ltb_spec k 64); cbn [andb].
  - rewrite xorb_true_r. reflexivity.
  - rewrite xorb_false_r. apply N.bits_above_log2.
    destruct (N.eq_dec x 0) as [->|Hx0]; [cbn; lia|].
    apply N.log2_lt_pow2; [lia|]. unfold W64 in Hx.
    apply N.lt_le_trans with (2 ^ 64); [exact Hx|]. apply N.pow_le_mono_r; lia.
Qed.

(* ---------- one position against the table, as a pure map (valid while the table has room) ---------- *)
Section Step.
Variables (nt : N) (maxw : Z) (tmask pm : N) (cp : Z).

Definition is_stuck (s : span) : bool := andb (popcount (sp_terms s) <? nt) (popcount (sp_posns s) =? nt).
Definition is_old (s : span) : bool := popcount (N.lor (sp_terms s) tmask) <=? popcount (sp_terms s).
Definition is_new (s : span) : bool := negb (is_old s).
Definition rejects (s : span) : bool :=
  orb (popcount (sp_posns s) =? popcount (N.lor (sp_posns s) pm)) (maxw <? Z.abs (cp - sp_beg s))%Z.
Definition forks (s : span) : bool := andb (negb (is_stuck s)) (andb (is_new s) (negb (rejects s))).
Definition upd_s (s : span) : span :=
  if is_stuck s then s else if is_old s then s
  else if rejects s then {| sp_terms := N.land (N.lor (sp_terms s) tmask) (wnot tmask); sp_posns := N.lor (sp_posns s) pm;
                            sp_beg := sp_beg s; sp_end := sp_end s |}
  else {| sp_terms := N.lor (sp_terms s) tmask; sp_posns := N.lor (sp_posns s) pm; sp_beg := sp_beg s; sp_end := cp |}.
Definition upd_c (s : span) : span :=
  {| sp_terms := N.lor (sp_terms s) tmask; sp_posns := N.land (N.lor (sp_posns s) pm) (wnot pm);
     sp_beg := sp_beg s; sp_end := sp_end s |}.

Lemma forks_def s : forks s = andb (negb (is_stuck s)) (andb (is_new s) (negb (rejects s))).
Proof. reflexivity. Qed.

Lemma update_spans_pure : forall old room full,
  N.of_nat (length (filter forks old)) <= room ->
  update_spans old room tmask pm cp nt maxw full =
    (map upd_s old, map upd_c (filter forks old), if existsb forks old then false else full,
     room - N.of_nat (length (filter forks old))).
Proof.
  induction old as [|s rest IH]; intros room full Hr.
  - cbn. f_equal. lia.
  - cbn [update_spans filter existsb map] in *. cbn zeta.
    change (andb (popcount (sp_terms s) <? nt) (popcount (sp_posns s) =? nt)) with (is_stuck s).
    change (popcount (N.lor (sp_terms s) tmask) <=? popcount (sp_terms s)) with (is_old s).
    change (orb (popcount (sp_posns s) =? popcount (N.lor (sp_posns s) pm)) (maxw <? Z.abs (cp - sp_beg s))%Z) with (rejects s).
    unfold upd_s at 1. rewrite (forks_def s) in *.
    destruct (is_stuck s) eqn:E1; cbn [negb andb orb] in *.
    { rewrite IH by exact Hr. reflexivity. }
    unfold is_new in *. destruct (is_old s) eqn:E2; cbn [negb andb orb] in *.
    { rewrite IH by exact Hr. reflexivity. }
    destruct (rejects s) eqn:E3; cbn [negb andb orb] in *.
    { rewrite IH by exact Hr. reflexivity. }
    cbn [length] in Hr.
    assert (Hroom : (0 <? room) = true) by (apply N.ltb_lt; lia). rewrite Hroom.
    rewrite IH by lia. cbn [map length]. f_equal; [f_equal|lia].
    destruct (existsb forks rest); reflexivity.
Qed.

Definition fresh_span : span := {| sp_terms := tmask; sp_posns := pm; sp_beg := cp; sp_end := cp |}.
Definition step_spans (spans : list span) : list span := map upd_s spans ++ fresh_span :: map upd_c (filter forks spans).
End Step.

Lemma pmask_small c : c < 31 -> pmask (Z.of_N c) = 2 ^ c.
Proof.
  intros H. unfold pmask. rewrite Z.mod_small by lia. rewrite N2Z.id.
  destruct (N.eqb_spec c 31); [lia|]. apply N.shiftl_1_l.
Qed.

Lemma is_old_bit t s : is_old (2 ^ t) s = N.testbit (sp_terms s) t.
Proof. unfold is_old. rewrite pc_lor_bit. destruct (N.testbit (sp_terms s) t); [apply N.leb_refl | apply N.leb_gt; lia]. Qed.

Lemma collide_bit a c : (popcount a =? popcount (N.lor a (2 ^ c))) = N.testbit a c.
Proof. rewrite pc_lor_bit. destruct (N.testbit a c); [apply N.eqb_refl | apply N.eqb_neq; lia]. Qed.

(* ---------- the lineage of the exact occurrence ---------- *)
Section Lineage.
Variables (nt : N) (maxw : Z) (p : N).
Hypothesis Hnt64 : nt <= 64.
Hypothesis Hmaxw : (Z.of_N nt <= maxw)%Z.
Hypothesis Hp31 : p + nt <= 31.

Definition lin (i : N) (G : span) : Prop :=
  sp_beg G = Z.of_N p /\ sp_end G = Z.of_N p /\ sp_terms G = N.ones i /\
  forall j, 1 <= j -> j < nt -> N.testbit (sp_posns G) (p + j) = false.

Definition good (t : N) (pending : bool) (G : span) : Prop :=
  exists i, lin i G /\ i <= nt /\
    (is_stuck nt G = true \/ i = nt \/ i = t + 1 \/ (i = t /\ pending = true /\ 1 <= t)).

Definition stepT (t c : N) (spans : list span) : list span :=
  step_spans nt maxw (2 ^ t) (pmask (Z.of_N c)) (Z.of_N c) spans.

Lemma upd_s_stuck tm pm cp s : is_stuck nt s = true -> upd_s nt maxw tm pm cp s = s.
Proof. intros H. unfold upd_s. rewrite H. reflexivity. Qed.
Lemma upd_s_old tm pm cp s : is_old tm s = true -> upd_s nt maxw tm pm cp s = s.
Proof. intros H. unfold upd_s. rewrite H. destruct (is_stuck nt s); reflexivity. Qed.

Lemma good_step t c pending spans G : t < nt -> c < 31 -> In G spans -> good t pending G ->
  exists G', In G' (stepT t c spans) /\ good t (andb pending (negb (c =? p + t))) G'.
Proof.
  intros Ht Hc HIn (i & HL & Hi & Hcase). unfold stepT, step_spans. rewrite pmask_small by exact Hc.
  set (US := upd_s nt maxw (2 ^ t) (2 ^ c) (Z.of_N c)).
  assert (Hkeep : US G = G -> exists G', In G' (map US spans ++ fresh_span (2 ^ t) (2 ^ c) (Z.of_N c)
                       :: map (upd_c (2 ^ t) (2 ^ c)) (filter (forks nt maxw (2 ^ t) (2 ^ c) (Z.of_N c)) spans)) /\ G' = G).
  { intros E. exists G. split; [|reflexivity]. apply in_or_app. left. rewrite <- E. apply in_map. exact HIn. }
  destruct (is_stuck nt G) eqn:Est.
  { destruct (Hkeep (upd_s_stuck _ _ _ _ Est)) as (G' & HG' & ->). exists G. split; [exact HG'|].
    exists i. split; [exact HL|]. split; [exact Hi|]. left. exact Est. }
  destruct HL as (Hb & He & Htm & Hclr).
  assert (Hold : i = nt \/ i = t + 1 -> is_old (2 ^ t) G = true).
  { intros Hor. rewrite is_old_bit, Htm, ones_bit. apply N.ltb_lt. lia. }
  destruct Hcase as [Hs|[Hn|[Hn|(Hn & Hpend & Ht1)]]].
  - congruence.
  - destruct (Hkeep (upd_s_old _ _ _ _ (Hold (or_introl Hn)))) as (G' & HG' & ->). exists G. split; [exact HG'|].
    exists i. repeat split; try assumption. right. left. exact Hn.
  - destruct (Hkeep (upd_s_old _ _ _ _ (Hold (or_intror Hn)))) as (G' & HG' & ->). exists G. split; [exact HG'|].
    exists i. repeat split; try assumption. right. right. left. exact Hn.
  - (* the span lacks term t *)
    subst i pending. cbn [andb].
    assert (Hnew : is_old (2 ^ t) G = false).
    { rewrite is_old_bit, Htm, ones_bit. apply N.ltb_ge. lia. }
    destruct (rejects maxw (2 ^ c) (Z.of_N c) G) eqn:Erej.
    + (* cancelled: the term bit is cleared again, the position bit stays *)
      assert (Hne : forall j, 1 <= j -> j < nt -> c <> p + j).
      { intros j Hj1 Hj2 ->. unfold rejects in Erej. rewrite collide_bit, Hclr in Erej by assumption.
        cbn [orb] in Erej. rewrite Hb in Erej. apply Z.ltb_lt in Erej. lia. }
      exists (US G). split; [apply in_or_app; left; apply in_map; exact HIn|].
      assert (E : US G = {| sp_terms := N.land (N.lor (sp_terms G) (2 ^ t)) (wnot (2 ^ t));
                            sp_posns := N.lor (sp_posns G) (2 ^ c); sp_beg := sp_beg G; sp_end := sp_end G |}).
      { unfold US, upd_s. rewrite Est, Hnew, Erej. reflexivity. }
      rewrite E. exists t. split; [|split; [lia|]].
      * repeat split; cbn [sp_beg sp_end sp_terms sp_posns]; try assumption.
        -- rewrite Htm. apply N.bits_inj. intros k.
           rewrite N.land_spec, N.lor_spec, wnot_bit, !ones_bit, N.pow2_bits_eqb.
           2:{ apply N.lt_le_trans with (2 ^ 64); [apply N.pow_lt_mono_r; lia | reflexivity]. }
           destruct (N.ltb_spec k t), (N.eqb_spec t k), (N.ltb_spec k 64); cbn; try reflexivity; lia.
        -- intros j Hj1 Hj2. rewrite N.lor_spec, Hclr, N.pow2_bits_eqb by assumption.
           cbn [orb]. apply N.eqb_neq. apply Hne; assumption.
      * right. right. right. destruct (N.eqb_spec c (p + t)) as [Ec|Ec].
        -- exfalso. apply (Hne t); [exact Ht1|exact Ht|exact Ec].
        -- cbn. repeat split; try reflexivity. exact Ht1.
    + (* accepted: the copy keeps beg = end = p and gains the term *)
      exists (upd_c (2 ^ t) (2 ^ c) G). split.
      * apply in_or_app. right. right. apply in_map. apply filter_In. split; [exact HIn|].
        unfold forks, is_new. rewrite Est, Hnew, Erej. reflexivity.
      * exists (t + 1). split; [|split; [lia|right; right; left; reflexivity]].
        repeat split; cbn [upd_c sp_beg sp_end sp_terms sp_posns]; try assumption.
        -- rewrite Htm, lor_ones_succ. f_equal. lia.
        -- intros j Hj1 Hj2. rewrite N.land_spec, N.lor_spec, Hclr by assumption. cbn [orb].
           rewrite wnot_bit.
           2:{ apply N.lt_le_trans with (2 ^ 64); [apply N.pow_lt_mono_r; lia | reflexivity]. }
           destruct (N.testbit (2 ^ c) (p + j)); [rewrite andb_false_r|]; reflexivity.
Qed.

Definition run_term (t : N) (spans : list span) (cs : list N) : list span :=
  fold_left (fun sp c => stepT t c sp) cs spans.

(* before the occurrence's first position has been processed there is no lineage yet *)
Definition good_opt (t : N) (pending : bool) (spans : list span) : Prop :=
  (t = 0 /\ pending = true) \/ exists G, In G spans /\ good t pending G.

Lemma fresh_lin : lin 1 (fresh_span (2 ^ 0) (2 ^ p) (Z.of_N p)).
Proof.
  repeat split; cbn [fresh_span sp_beg sp_end sp_terms sp_posns].
  intros j Hj1 Hj2. apply N.pow2_bits_false. lia.
Qed.

Lemma good_opt_step t c pending spans : t < nt -> c < 31 -> good_opt t pending spans ->
  good_opt t (andb pending (negb (c =? p + t))) (stepT t c spans).
Proof.
  intros Ht Hc [[-> ->]|(G & HIn & HG)].
  - rewrite N.add_0_r. cbn [andb]. destruct (N.eqb_spec c p) as [->|Hne]; cbn [negb].
    + right. exists (fresh_span (2 ^ 0) (2 ^ p) (Z.of_N p)). split.
      * unfold stepT, step_spans. rewrite pmask_small by exact Hc. apply in_or_app. right. left. reflexivity.
      * exists 1. split; [exact fresh_lin|]. split; [lia|]. right. right. left. reflexivity.
    + left. split; reflexivity.
  - right. apply (good_step t c pending spans G); assumption.
Qed.

Lemma good_opt_run t : t < nt -> forall cs pending spans, Forall (fun c => c < 31) cs -> good_opt t pending spans ->
  good_opt t (andb pending (negb (existsb (fun c => c =? p + t) cs))) (run_term t spans cs).
Proof.
  intros Ht. induction cs as [|c cs IH]; intros pending spans HF HG; cbn [run_term fold_left existsb].
  - rewrite andb_true_r. exact HG.
  - inversion HF as [|? ? Hc HF']; subst.
    pose proof (IH _ _ HF' (good_opt_step t c pending spans Ht Hc HG)) as H. unfold run_term in H.
    rewrite negb_orb. rewrite andb_assoc. exact H.
Qed.

Lemma good_next t G : good t false G -> good (t + 1) true G.
Proof.
  intros (i & HL & Hi & Hcase). exists i. split; [exact HL|]. split; [exact Hi|].
  destruct Hcase as [H|[H|[H|(_ & H & _)]]]; [left; exact H | right; left; exact H | | discriminate].
  right. right. right. repeat split; [exact H | lia].
Qed.

Fixpoint run_terms (t : N) (evs : list (list N)) (spans : list span) : list span :=
  match evs with
  | [] => spans
  | cs :: rest => run_terms (t + 1) rest (run_term t spans cs)
  end.

Lemma good_opt_terms : forall evs t spans, t + N.of_nat (length evs) = nt -> evs <> [] ->
  Forall (Forall (fun c => c < 31)) evs ->
  (forall k, (k < length evs)%nat -> In (p + t + N.of_nat k) (nth k evs [])) ->
  good_opt t true spans ->
  exists G, In G (run_terms t evs spans) /\ good (nt - 1) false G.
Proof.
  induction evs as [|cs rest IH]; intros t spans Hlen Hne HF Hocc HG; [congruence|].
  cbn [run_terms]. cbn [length] in Hlen.
  inversion HF as [|? ? Hcs HF']; subst.
  assert (Ht : t < nt) by lia.
  pose proof (good_opt_run t Ht cs true spans Hcs HG) as H1.
  assert (Hex : existsb (fun c => c =? p + t) cs = true).
  { apply existsb_exists. exists (p + t). split; [|apply N.eqb_refl].
    specialize (Hocc 0%nat ltac:(cbn; lia)). cbn in Hocc. rewrite N.add_0_r in Hocc. exact Hocc. }
  rewrite Hex in H1. cbn [andb negb] in H1.
  destruct H1 as [[_ H]|(G & HIn & HGd)]; [discriminate|].
  destruct rest as [|cs2 rest2].
  - cbn [run_terms]. exists G. split; [exact HIn|]. cbn [length] in Hlen. replace (nt - 1) with t by lia. exact HGd.
  - apply (IH (t + 1)); [cbn [length] in *; lia | discriminate | exact HF' | |].
    + intros k Hk. specialize (Hocc (S k) ltac:(cbn [length] in *; lia)). cbn [nth] in Hocc.
      replace (p + (t + 1) + N.of_nat k) with (p + t + N.of_nat (S k)) by lia. exact Hocc.
    + right. exists G. split; [exact HIn|]. apply good_next. exact HGd.
Qed.

Lemma good_final G : 1 <= nt -> good (nt - 1) false G -> is_complete G nt = true /\ sp_width G = 0%Z.
Proof.
  intros Hnt1 (i & (Hb & He & Htm & _) & Hi & Hcase). split.
  - unfold is_complete. destruct Hcase as [H|[H|[H|(_ & H & _)]]]; [| | |discriminate].
    + unfold is_stuck in H. apply andb_true_iff in H. destruct H as [_ H]. rewrite H. apply orb_true_r.
    + rewrite Htm, pc_ones, H, N.eqb_refl. reflexivity.
    + rewrite Htm, pc_ones. replace i with nt by lia. rewrite N.eqb_refl. reflexivity.
  - unfold sp_width. rewrite Hb, He. lia.
Qed.
End Lineage.

(* ---------- _collect_spans: a complete span narrower than the limit makes the result non-empty ---------- *)
Lemma collect_one_len s : forall coll r b, collect_one s coll = (r, b) -> length r = length coll /\ (b = true -> coll <> []).
Proof.
  induction coll as [|c rest IH]; intros r b H; cbn [collect_one] in H.
  - injection H as <- <-. split; [reflexivity|discriminate].
  - destruct (andb (overlap s c) (sp_width s <? sp_width c)%Z).
    + injection H as <- <-. split; [reflexivity|discriminate].
    + destruct (collect_one s rest) as [r' b'] eqn:E. injection H as <- <-.
      destruct (IH _ _ eq_refl) as [H1 _]. split; [cbn; lia|discriminate].
Qed.

Lemma collect_nonempty nt maxw : forall spans G, In G spans -> is_complete G nt = true -> (sp_width G < maxw)%Z ->
  collect spans nt maxw <> [].
Proof.
  intros spans G HIn Hc Hw. unfold collect.
  set (f := fun (coll : list span) (s : span) => _).
  assert (Hmono : forall l coll, coll <> [] -> fold_left f l coll <> []).
  { induction l as [|s l IH]; intros coll Hne; cbn [fold_left]; [exact Hne|]. apply IH. unfold f.
    destruct (andb (is_complete s nt) (sp_width s <? maxw)%Z); [|exact Hne].
    destruct (collect_one s coll) as [c' b] eqn:E. destruct (collect_one_len _ _ _ _ E) as [Hl _].
    destruct b; [|destruct coll; [congruence|discriminate]].
    destruct c'; [destruct coll; [congruence|discriminate]|discriminate]. }
  enough (Hgen : forall coll, fold_left f spans coll <> []) by apply Hgen.
  induction spans as [|s l IH]; intros coll; [destruct HIn|]. destruct HIn as [->|HIn]; cbn [fold_left].
  - apply Hmono. unfold f. rewrite Hc. apply Z.ltb_lt in Hw. rewrite Hw. cbn [andb].
    destruct (collect_one G coll) as [c' b] eqn:E. destruct (collect_one_len _ _ _ _ E) as [Hl Hb].
    destruct b; [|destruct coll; discriminate].
    specialize (Hb eq_refl). destruct c'; [destruct coll; [congruence|discriminate]|discriminate].
  - apply IH. exact HIn.
Qed.

(* ---------- the table does not fill: length + (number of spans lacking the current term) grows by one per position ---------- *)
Section Size.
Variables (nt : N) (maxw : Z).
Definition lacks (t : N) (s : span) : bool := negb (N.testbit (sp_terms s) t).
Definition lack (t : N) (spans : list span) : nat := length (filter (lacks t) spans).
Definition phi (t : N) (spans : list span) : nat := (length spans + lack t spans)%nat.

Lemma lack_le t spans : (lack t spans <= length spans)%nat.
Proof. unfold lack. induction spans as [|s l IH]; cbn [filter length]; [lia|]. destruct (lacks t s); cbn [length]; lia. Qed.

Lemma pow2_lt_W64 t : t < 64 -> 2 ^ t < W64.
Proof. intros H. apply N.lt_le_trans with (2 ^ 64); [apply N.pow_lt_mono_r; lia | reflexivity]. Qed.

Lemma forks_lacks t pm cp s : forks nt maxw (2 ^ t) pm cp s = true -> lacks t s = true.
Proof.
  unfold forks, is_new. intros H. apply andb_true_iff in H. destruct H as [_ H]. apply andb_true_iff in H. destruct H as [H _].
  rewrite is_old_bit in H. unfold lacks. exact H.
Qed.

Lemma lacks_upd_s t pm cp s : t < 64 ->
  lacks t (upd_s nt maxw (2 ^ t) pm cp s) = andb (lacks t s) (negb (forks nt maxw (2 ^ t) pm cp s)).
Proof.
  intros Ht. unfold upd_s, forks, is_new, lacks.
  destruct (is_stuck nt s); cbn [negb andb]; [rewrite andb_true_r; reflexivity|].
  rewrite is_old_bit. destruct (N.testbit (sp_terms s) t) eqn:Eb; cbn [negb andb]; [rewrite Eb; reflexivity|].
  destruct (rejects maxw pm cp s); cbn [negb andb sp_terms].
  - rewrite N.land_spec, wnot_bit by (apply pow2_lt_W64; exact Ht). rewrite N.pow2_bits_true. cbn [negb]. rewrite !andb_false_r. reflexivity.
  - rewrite N.lor_spec, N.pow2_bits_true, orb_true_r. reflexivity.
Qed.

Lemma phi_step t c spans : t < 64 -> phi t (stepT nt maxw t c spans) = S (phi t spans).
Proof.
  intros Ht. unfold phi, lack, stepT, step_spans. set (pm := pmask (Z.of_N c)). set (cp := Z.of_N c).
  rewrite filter_app, !app_length. cbn [filter length].
  assert (Hfresh : lacks t (fresh_span (2 ^ t) pm cp) = false).
  { unfold lacks, fresh_span. cbn [sp_terms]. rewrite N.pow2_bits_true. reflexivity. }
  rewrite Hfresh.
  assert (Hcopies : forall l, filter (lacks t) (map (upd_c (2 ^ t) pm) l) = []).
  { induction l as [|s l IH]; cbn [map filter]; [reflexivity|]. rewrite IH.
    unfold lacks at 1, upd_c. cbn [sp_terms]. rewrite N.lor_spec, N.pow2_bits_true, orb_true_r. reflexivity. }
  rewrite Hcopies. cbn [length]. rewrite !map_length.
  assert (Hbal : (length (filter (lacks t) (map (upd_s nt maxw (2 ^ t) pm cp) spans))
                  + length (filter (forks nt maxw (2 ^ t) pm cp) spans) = length (filter (lacks t) spans))%nat).
  { induction spans as [|s l IH]; cbn [map filter length]; [reflexivity|].
    rewrite lacks_upd_s by exact Ht.
    destruct (forks nt maxw (2 ^ t) pm cp s) eqn:Ef.
    - rewrite (forks_lacks _ _ _ _ Ef). cbn [negb andb length]. lia.
    - rewrite andb_true_r. destruct (lacks t s); cbn [length]; lia. }
  lia.
Qed.

Lemma forks_le_lack t pm cp spans : (length (filter (forks nt maxw (2 ^ t) pm cp) spans) <= lack t spans)%nat.
Proof.
  unfold lack. induction spans as [|s l IH]; cbn [filter length]; [lia|].
  destruct (forks nt maxw (2 ^ t) pm cp s) eqn:Ef.
  - rewrite (forks_lacks _ _ _ _ Ef). cbn [length]. lia.
  - destruct (lacks t s); cbn [length]; lia.
Qed.

Lemma phi_run t : t < 64 -> forall cs spans, phi t (run_term nt maxw t spans cs) = (phi t spans + length cs)%nat.
Proof.
  intros Ht. induction cs as [|c cs IH]; intros spans; cbn [run_term fold_left length]; [lia|].
  change (fold_left (fun sp c0 => stepT nt maxw t c0 sp) cs (stepT nt maxw t c spans)) with (run_term nt maxw t (stepT nt maxw t c spans) cs).
  rewrite IH, phi_step by exact Ht. lia.
Qed.

Lemma len_le_phi t spans : (length spans <= phi t spans)%nat.
Proof. unfold phi. lia. Qed.
Lemma phi_le_2len t spans : (phi t spans <= 2 * length spans)%nat.
Proof. unfold phi. pose proof (lack_le t spans). lia. Qed.
End Size.

(* ---------- T1: the pure table keeps the exact occurrence ---------- *)
Theorem span_table_keeps_exact nt maxw p evs :
  1 <= nt -> nt <= 64 -> (Z.of_N nt <= maxw)%Z -> p + nt <= 31 ->
  N.of_nat (length evs) = nt -> Forall (Forall (fun c => c < 31)) evs ->
  (forall k, (k < length evs)%nat -> In (p + N.of_nat k) (nth k evs [])) ->
  collect (run_terms nt maxw 0 evs []) nt maxw <> [].
Proof.
  intros H1 H64 Hw Hp Hlen HF Hocc.
  destruct (good_opt_terms nt maxw p H64 Hw Hp evs 0 []) as (G & HIn & HG).
  - lia.
  - destruct evs; [cbn in Hlen; lia|discriminate].
  - exact HF.
  - intros k Hk. rewrite N.add_0_r. apply Hocc. exact Hk.
  - left. split; reflexivity.
  - assert (Hfin : is_complete G nt = true /\ sp_width G = 0%Z) by (eapply good_final; eassumption).
    destruct Hfin as [Hc Hwd].
    apply (collect_nonempty nt maxw _ G HIn Hc). rewrite Hwd. lia.
Qed.

(* the table never fills when every term has at most C positions in the document and (2^n - 1) * C < 512 *)
Fixpoint fits (nt : N) (maxw : Z) (t : N) (evs : list (list N)) (spans : list span) : Prop :=
  match evs with
  | [] => True
  | cs :: rest => (phi t spans + length cs < 512)%nat /\ fits nt maxw (t + 1) rest (run_term nt maxw t spans cs)
  end.

Lemma fits_bound nt maxw C : forall evs t spans, t + N.of_nat (length evs) <= 64 ->
  Forall (fun cs => (length cs <= C)%nat) evs ->
  (2 ^ length evs * length spans + (2 ^ length evs - 1) * C < 512)%nat ->
  fits nt maxw t evs spans.
Proof.
  induction evs as [|cs rest IH]; intros t spans Ht HF Hb; cbn [fits]; [exact I|].
  inversion HF as [|? ? Hcs HF']; subst. cbn [length] in Hb, Ht. rewrite Nat.pow_succ_r' in Hb.
  pose proof (phi_le_2len t spans) as Hphi.
  assert (Hpow : (1 <= 2 ^ length rest)%nat) by (apply Nat.neq_0_lt_0, Nat.pow_nonzero; lia).
  split; [nia|].
  apply IH; [lia|exact HF'|].
  pose proof (len_le_phi t (run_term nt maxw t spans cs)) as Hl. rewrite phi_run in Hl by lia.
  nia.
Qed.

Print Assumptions span_table_keeps_exact.
Print Assumptions fits_bound.
